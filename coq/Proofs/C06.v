(* C06 — proofs about the model PP.Model.C06 (equation bookkeeping and restricted assembly
   of EquationSystem). *)
From Coq Require Import List ZArith Bool Arith Lia Sorted Permutation.
Import ListNotations.
From PP Require Import Model.C05 Proofs.C05 Model.C06.

(* ------------------------------------------------------------------------------------ *)
(* dictionaries *)
Lemma dget_dset_same {A} (d : list (nat * A)) k v : dget (dset d k v) k = Some v.
Proof.
  induction d as [|[k' v'] r IH]; cbn.
  - rewrite Nat.eqb_refl. reflexivity.
  - destruct (Nat.eqb k' k) eqn:E; cbn; rewrite E; auto.
Qed.

Lemma dget_dset_other {A} (d : list (nat * A)) k k' v :
  k' <> k -> dget (dset d k v) k' = dget d k'.
Proof.
  intro Hne. induction d as [|[a w] r IH]; cbn.
  - destruct (Nat.eqb k k') eqn:E; auto. apply Nat.eqb_eq in E. congruence.
  - destruct (Nat.eqb a k) eqn:E; cbn.
    + apply Nat.eqb_eq in E. subst a. destruct (Nat.eqb k k') eqn:E'; auto.
      apply Nat.eqb_eq in E'. congruence.
    + destruct (Nat.eqb a k'); auto.
Qed.

Lemma dget_dset {A} (d : list (nat * A)) k k' v :
  dget (dset d k v) k' = if Nat.eqb k k' then Some v else dget d k'.
Proof.
  destruct (Nat.eqb k k') eqn:E.
  - apply Nat.eqb_eq in E. subst. apply dget_dset_same.
  - apply Nat.eqb_neq in E. apply dget_dset_other. congruence.
Qed.

Lemma dget_None {A} (d : list (nat * A)) k : dget d k = None <-> ~ In k (map fst d).
Proof.
  induction d as [|[a v] r IH]; cbn.
  - split; auto.
  - destruct (Nat.eqb a k) eqn:E.
    + apply Nat.eqb_eq in E. subst. split; [discriminate|]. intro H. exfalso. apply H. auto.
    + apply Nat.eqb_neq in E. rewrite IH. split.
      * intros H [H1|H1]; auto.
      * intros H H1. apply H. auto.
Qed.

Lemma dhas_In {A} (d : list (nat * A)) k : dhas d k = true <-> In k (map fst d).
Proof.
  unfold dhas. destruct (dget d k) eqn:E.
  - split; auto. intros _. destruct (in_dec Nat.eq_dec k (map fst d)) as [H|H]; auto.
    apply dget_None in H. congruence.
  - apply dget_None in E. split; [discriminate|contradiction].
Qed.

Lemma dhas_false {A} (d : list (nat * A)) k : dhas d k = false <-> dget d k = None.
Proof. unfold dhas. destruct (dget d k); split; congruence. Qed.

Lemma dset_absent {A} (d : list (nat * A)) k v : dget d k = None -> dset d k v = d ++ [(k, v)].
Proof.
  induction d as [|[a w] r IH]; cbn; auto.
  destruct (Nat.eqb a k); [discriminate|]. intro H. rewrite IH; auto.
Qed.

Lemma dget_In {A} (d : list (nat * A)) k v : dget d k = Some v -> In (k, v) d.
Proof.
  induction d as [|[a w] r IH]; cbn; [discriminate|].
  destruct (Nat.eqb a k) eqn:E.
  - apply Nat.eqb_eq in E. subst. intro H. inversion H. auto.
  - auto.
Qed.

Lemma In_dget {A} (d : list (nat * A)) k v :
  NoDup (map fst d) -> In (k, v) d -> dget d k = Some v.
Proof.
  induction d as [|[a w] r IH]; cbn; [intros _ []|].
  intros Hnd [H|H].
  - inversion H. subst. rewrite Nat.eqb_refl. reflexivity.
  - inversion Hnd as [|? ? Hn Hr]. subst.
    destruct (Nat.eqb a k) eqn:E.
    + apply Nat.eqb_eq in E. subst. exfalso. apply Hn. apply in_map_iff. exists (k, v). auto.
    + auto.
Qed.

Lemma dget_ddel_other {A} (d : list (nat * A)) k k' :
  k' <> k -> dget (ddel d k) k' = dget d k'.
Proof.
  intro Hne. unfold ddel. induction d as [|[a v] r IH]; cbn; auto.
  destruct (Nat.eqb a k) eqn:E; cbn.
  - apply Nat.eqb_eq in E. subst. destruct (Nat.eqb k k') eqn:E'; auto.
    apply Nat.eqb_eq in E'. congruence.
  - destruct (Nat.eqb a k'); auto.
Qed.

Lemma ddel_keys {A} (d : list (nat * A)) k k' :
  In k' (map fst (ddel d k)) <-> In k' (map fst d) /\ k' <> k.
Proof.
  unfold ddel. rewrite !in_map_iff. split.
  - intros [[a v] [E H]]. apply filter_In in H. destruct H as [H Hb]. cbn in *. subst.
    split; [exists (k', v); auto|]. apply negb_true_iff in Hb. apply Nat.eqb_neq in Hb. auto.
  - intros [[[a v] [E H]] Hne]. cbn in E. subst. exists (k', v). split; auto.
    apply filter_In. split; auto. cbn. apply negb_true_iff. apply Nat.eqb_neq. auto.
Qed.

Lemma ddel_NoDup {A} (d : list (nat * A)) k : NoDup (map fst d) -> NoDup (map fst (ddel d k)).
Proof. unfold ddel. apply NoDup_map_filter. Qed.

(* the last binding of a key in an association list *)
Fixpoint dlast {A} (d : list (nat * A)) (k : nat) : option A :=
  match d with
  | [] => None
  | (k', v) :: r => match dlast r k with
                    | Some x => Some x
                    | None => if Nat.eqb k' k then Some v else None
                    end
  end.

Lemma dget_dupdate {A} (d2 : list (nat * A)) : forall d1 k,
  dget (dupdate d1 d2) k = match dlast d2 k with Some v => Some v | None => dget d1 k end.
Proof.
  unfold dupdate. induction d2 as [|[k2 v2] r IH]; intros d1 k; cbn; auto.
  rewrite IH. destruct (dlast r k); auto. cbn. rewrite dget_dset.
  destruct (Nat.eqb k2 k); reflexivity.
Qed.

Lemma dlast_dget {A} (d : list (nat * A)) k : NoDup (map fst d) -> dlast d k = dget d k.
Proof.
  induction d as [|[a v] r IH]; cbn; auto.
  intro Hnd. inversion Hnd as [|? ? Hn Hr]. subst. rewrite IH by auto.
  destruct (Nat.eqb a k) eqn:E.
  - apply Nat.eqb_eq in E. subst. apply dget_None in Hn. rewrite Hn. reflexivity.
  - destruct (dget r k); auto.
Qed.

Lemma dset_keys {A} (d : list (nat * A)) k v k' :
  In k' (map fst (dset d k v)) <-> In k' (map fst d) \/ k' = k.
Proof.
  induction d as [|[a w] r IH]; cbn.
  - split; [intros [H|[]]; auto|intros [[]|H]; auto].
  - destruct (Nat.eqb a k) eqn:E; cbn.
    + apply Nat.eqb_eq in E. subst. split; [intros [H|H]; auto|intros [[H|H]|H]; auto].
    + rewrite IH. tauto.
Qed.

Lemma dset_NoDup {A} (d : list (nat * A)) k v : NoDup (map fst d) -> NoDup (map fst (dset d k v)).
Proof.
  induction d as [|[a w] r IH]; cbn; intro Hnd.
  - constructor; auto.
  - inversion Hnd as [|? ? Hn Hr]. subst. destruct (Nat.eqb a k) eqn:E; cbn.
    + constructor; auto.
    + constructor; auto. rewrite dset_keys. intros [H|H]; auto.
      apply Nat.eqb_neq in E. congruence.
Qed.

(* ------------------------------------------------------------------------------------ *)
(* the invariant of the equation bookkeeping *)
Definition wfimg (img : image) : Prop := exists n, concat (map snd img) = seq 0 n.

Record EInv (es : est) : Prop := {
  ei_nodup : NoDup (map fst (equations es));
  ei_comp : forall name, In name (map fst (equations es)) ->
            exists img, dget (comp es) name = Some img /\ wfimg img
}.

Lemma EInv_init : EInv einit.
Proof. constructor; cbn; [constructor|intros ? []]. Qed.

Lemma set_loop_img g info : forall ds img total grids,
  concat (map snd img) = seq 0 total ->
  let '(img', total', _) := set_loop g ds info img total grids in
  concat (map snd img') = seq 0 total'.
Proof.
  induction ds as [|d r IH]; intros img total grids H; cbn [set_loop]; auto.
  destruct (domin d grids); [|apply IH; auto].
  apply IH. rewrite map_app, concat_app. cbn. rewrite app_nil_r, H.
  rewrite seq_app. reflexivity.
Qed.

Lemma set_equation_EInv g es name op grids info :
  EInv es -> EInv (fst (set_equation g es name op grids info)).
Proof.
  intros [Hnd Hc]. unfold set_equation.
  destruct (dhas (equations es) name) eqn:Eh; [constructor; auto|].
  apply dhas_false in Eh.
  assert (Hstore : forall img, wfimg img -> EInv (store_eq es name op img info)).
  { intros img Hw. constructor; cbn.
    - apply dset_NoDup; auto.
    - intros n Hn. apply dset_keys in Hn. rewrite dget_dset.
      destruct (Nat.eqb name n) eqn:E.
      + eauto.
      + apply Nat.eqb_neq in E. destruct Hn as [Hn|Hn]; [auto|congruence]. }
  destruct grids as [|d0 gr].
  - cbn. apply Hstore. exists 0. reflexivity.
  - destruct (negb _); [constructor; auto|].
    pose proof (set_loop_img g info (grid_order g) [] 0 (d0 :: gr) eq_refl) as Hl.
    destruct (set_loop g (grid_order g) info [] 0 (d0 :: gr)) as [[img tot] rest].
    destruct rest; cbn; [|constructor; auto].
    apply Hstore. exists tot. exact Hl.
Qed.

Lemma remove_equation_EInv es name : EInv es -> EInv (fst (remove_equation es name)).
Proof.
  intros [Hnd Hc]. unfold remove_equation.
  destruct (dhas (equations es) name); [|constructor; auto].
  destruct (dhas (comp es) name); cbn.
  - constructor; cbn.
    + apply ddel_NoDup; auto.
    + intros n Hn. apply ddel_keys in Hn. destruct Hn as [Hn Hne].
      rewrite dget_ddel_other by auto. auto.
  - constructor; cbn.
    + apply ddel_NoDup; auto.
    + intros n Hn. apply ddel_keys in Hn. destruct Hn as [Hn Hne]. auto.
Qed.

(* ------------------------------------------------------------------------------------ *)
(* what the parser accepts and what it returns: a last-mention specification *)
Definition mention := option (list dom).      (* None: whole equation; Some gs: on grids gs *)

Fixpoint last_restr (d : restriction) (name : nat) : option (list dom) :=
  match d with
  | [] => None
  | (n, gs) :: r => match last_restr r name with
                    | Some x => Some x
                    | None => if Nat.eqb n name then Some gs else None
                    end
  end.

Fixpoint last_items (l : list eitem) (name : nat) : option mention :=
  match l with
  | [] => None
  | it :: r =>
      match last_items r name with
      | Some m => Some m
      | None => match it with
                | IName n => if Nat.eqb n name then Some None else None
                | IDict d => option_map Some (last_restr d name)
                end
      end
  end.

(* how the argument [equations] mentions an equation last (None: not at all) *)
Definition kept (a : eqarg) (name : nat) : option mention :=
  match a with
  | ENone => Some None
  | EList l => last_items l name
  | EDict d => option_map Some (last_restr d name)
  end.

Definition img_of (es : est) (name : nat) : image :=
  match dget (comp es) name with Some i => i | None => [] end.

(* the rows (local to the equation) on the grids gs, in the order of the image *)
Definition restrict_img (img : image) (gs : list dom) : list nat :=
  concat (map snd (filter (fun kv => domin (fst kv) gs) img)).

Definition sel_of (es : est) (name : nat) (m : mention) : rowsel :=
  match m with None => None | Some gs => Some (restrict_img (img_of es name) gs) end.

(* the arguments the parser accepts: known equations, grids inside the equation's domain *)
Definition restr_ok (es : est) (d : restriction) : bool :=
  forallb (fun kv => dhas (equations es) (fst kv) &&
                     forallb (fun x => domin x (map fst (img_of es (fst kv)))) (snd kv)) d.
Definition item_ok (es : est) (it : eitem) : bool :=
  match it with IName n => dhas (equations es) n | IDict d => restr_ok es d end.
Definition arg_ok (es : est) (a : eqarg) : bool :=
  match a with
  | ENone => true
  | EList l => forallb (item_ok es) l
  | EDict d => restr_ok es d
  end.

Definition blocks_spec (es : est) (a : eqarg) : list (nat * rowsel) :=
  flat_map (fun kv => match kept a (fst kv) with
                      | Some m => [(fst kv, sel_of es (fst kv) m)]
                      | None => []
                      end) (equations es).

Lemma existsb_negb {A} (p : A -> bool) l : existsb (fun x => negb (p x)) l = negb (forallb p l).
Proof. induction l as [|x r IH]; cbn; auto. rewrite IH. destruct (p x); auto. Qed.

Lemma parse_restr_spec es : EInv es -> forall d block,
  NoDup (map fst block) ->
  if restr_ok es d then
    exists block', parse_restr es d block = inl block' /\ NoDup (map fst block') /\
      forall name, dget block' name =
                   match last_restr d name with
                   | Some gs => Some (sel_of es name (Some gs))
                   | None => dget block name
                   end
  else parse_restr es d block = inr ValueErr.
Proof.
  intros [Hnd Hc]. induction d as [|[n gs] r IH]; intros block Hb; cbn [restr_ok forallb].
  - exists block. cbn. auto.
  - cbn [parse_restr fst snd]. destruct (dhas (equations es) n) eqn:Eh; cbn [negb andb]; auto.
    apply dhas_In in Eh. destruct (Hc n Eh) as [img [Hi Hw]].
    unfold img_of at 1. rewrite Hi. rewrite existsb_negb.
    destruct (forallb (fun x => domin x (map fst img)) gs) eqn:Ef; cbn [negb andb]; auto.
    specialize (IH (dset block n (Some (concat (map snd (filter (fun kv => domin (fst kv) gs) img)))))
                   (dset_NoDup _ _ _ Hb)).
    fold (restr_ok es r). destruct (restr_ok es r); auto.
    destruct IH as [b' [Hp [Hn' Hl]]]. exists b'. split; auto. split; auto.
    intro name. rewrite Hl. cbn [last_restr]. destruct (last_restr r name); auto.
    rewrite dget_dset. destruct (Nat.eqb n name) eqn:E; auto.
    apply Nat.eqb_eq in E. subst. unfold sel_of, restrict_img, img_of. rewrite Hi. reflexivity.
Qed.

Lemma parse_list_spec es : EInv es -> forall l req,
  if forallb (item_ok es) l then
    exists req', parse_list es l req = inl req' /\
      forall name, dget req' name =
                   match last_items l name with
                   | Some m => Some (sel_of es name m)
                   | None => dget req name
                   end
  else parse_list es l req = inr ValueErr.
Proof.
  intro HI. induction l as [|it r IH]; intro req; cbn [forallb].
  - exists req. cbn. auto.
  - cbn [parse_list]. destruct it as [n|d]; cbn [item_ok parse_single].
    + destruct (dhas (equations es) n) eqn:Eh; cbn [andb]; auto.
      specialize (IH (dupdate req [(n, None)])). destruct (forallb (item_ok es) r); auto.
      destruct IH as [q [Hp Hl]]. exists q. split; auto. intro name. rewrite Hl.
      cbn [last_items]. destruct (last_items r name); auto.
      rewrite dget_dupdate. cbn [dlast]. destruct (Nat.eqb n name); auto.
    + pose proof (parse_restr_spec es HI d [] (NoDup_nil _)) as Hd.
      destruct (restr_ok es d); cbn [andb].
      * destruct Hd as [b [Hb [Hnb Hlb]]]. rewrite Hb.
        specialize (IH (dupdate req b)). destruct (forallb (item_ok es) r); auto.
        destruct IH as [q [Hp Hl]]. exists q. split; auto. intro name. rewrite Hl.
        cbn [last_items]. destruct (last_items r name); auto.
        rewrite dget_dupdate, (dlast_dget _ _ Hnb), Hlb.
        destruct (last_restr d name); auto.
      * rewrite Hd. reflexivity.
Qed.

Lemma parse_dict_spec es : EInv es -> forall d res,
  NoDup (map fst res) ->
  if restr_ok es d then
    exists res', parse_dict es d res = inl res' /\ NoDup (map fst res') /\
      forall name, dget res' name =
                   match last_restr d name with
                   | Some gs => Some (sel_of es name (Some gs))
                   | None => dget res name
                   end
  else parse_dict es d res = inr ValueErr.
Proof.
  intro HI. induction d as [|[n gs] r IH]; intros res Hr; cbn [restr_ok forallb].
  - exists res. cbn. auto.
  - cbn [parse_dict parse_single].
    pose proof (parse_restr_spec es HI [(n, gs)] [] (NoDup_nil _)) as H1.
    cbn [restr_ok forallb] in H1. rewrite andb_true_r in H1.
    destruct (dhas (equations es) (fst (n, gs)) &&
              forallb (fun x => domin x (map fst (img_of es (fst (n, gs))))) (snd (n, gs))).
    + destruct H1 as [b [Hb [Hnb Hlb]]]. rewrite Hb. cbn [andb].
      assert (Hnd' : NoDup (map fst (dupdate res b))).
      { unfold dupdate. clear -Hr. revert res Hr. induction b as [|[k v] t IHb]; intros; cbn; auto.
        apply IHb. apply dset_NoDup; auto. }
      specialize (IH (dupdate res b) Hnd'). fold (restr_ok es r).
      destruct (restr_ok es r); auto.
      destruct IH as [q [Hp [Hnq Hl]]]. exists q. split; auto. split; auto.
      intro name. rewrite Hl. cbn [last_restr]. destruct (last_restr r name); auto.
      rewrite dget_dupdate, (dlast_dget _ _ Hnb), Hlb. cbn [last_restr dget].
      destruct (Nat.eqb n name); auto.
    + cbn [andb]. rewrite H1. reflexivity.
Qed.

Lemma map_flat_map {A B} (f : A -> B) l : map f l = flat_map (fun x => [f x]) l.
Proof. induction l; cbn; congruence. Qed.

Theorem parse_equations_spec es a :
  EInv es ->
  parse_equations es a = if arg_ok es a then inl (blocks_spec es a) else inr ValueErr.
Proof.
  intro HI. destruct a as [|l|d]; cbn [parse_equations arg_ok].
  - unfold blocks_spec. cbn [kept]. rewrite map_flat_map. reflexivity.
  - pose proof (parse_list_spec es HI l []) as H. destruct (forallb (item_ok es) l).
    + destruct H as [q [Hp Hl]]. rewrite Hp. f_equal. unfold ordered_blocks, blocks_spec.
      apply flat_map_ext. intros [n op]. cbn [fst kept dupdate fold_left]. rewrite Hl.
      destruct (last_items l n); reflexivity.
    + rewrite H. reflexivity.
  - pose proof (parse_dict_spec es HI d [] (NoDup_nil _)) as H. destruct (restr_ok es d).
    + destruct H as [q [Hp [Hnq Hl]]]. rewrite Hp. f_equal. unfold ordered_blocks, blocks_spec.
      apply flat_map_ext. intros [n op]. cbn [fst kept]. rewrite dget_dupdate.
      rewrite (dlast_dget _ _ Hnq), Hl. cbn [dget]. destruct (last_restr d n); reflexivity.
    + rewrite H. reflexivity.
Qed.

(* ------------------------------------------------------------------------------------ *)
(* lists of consecutive numbers *)
Lemma app_eq_seq : forall (l1 l2 : list nat) a n,
  l1 ++ l2 = seq a n ->
  l1 = seq a (length l1) /\ l2 = seq (a + length l1) (n - length l1) /\ length l1 <= n.
Proof.
  induction l1 as [|x r IH]; intros l2 a n H; cbn in *.
  - rewrite Nat.add_0_r, Nat.sub_0_r. split; auto. split; auto. lia.
  - destruct n as [|n]; [discriminate|]. cbn in H. inversion H as [[Hx Hr]]. subst x.
    destruct (IH _ _ _ Hr) as [H1 [H2 H3]]. split; [f_equal; auto|]. split; [|lia].
    rewrite H2. f_equal. lia.
Qed.

Lemma last_seq a n : last (seq a (S n)) 0 = a + n.
Proof.
  revert a. induction n as [|n IH]; intro a; [cbn; lia|].
  change (seq a (S (S n))) with (a :: seq (S a) (S n)).
  change (last (a :: seq (S a) (S n)) 0) with (last (seq (S a) (S n)) 0).
  rewrite IH. lia.
Qed.

(* the rows of an image restricted to some grids: increasing, inside the image *)
Lemma restrict_sorted gs : forall img a n,
  concat (map snd img) = seq a n ->
  StronglySorted lt (restrict_img img gs) /\
  Forall (fun i => a <= i < a + n) (restrict_img img gs).
Proof.
  unfold restrict_img. induction img as [|[d b] r IH]; intros a n H; cbn.
  - split; constructor.
  - cbn in H. apply app_eq_seq in H. destruct H as [Hb [Hr Hle]].
    destruct (IH _ _ Hr) as [Hs Hf].
    assert (Hf' : Forall (fun i => a <= i < a + n)
                         (concat (map snd (filter (fun kv => domin (fst kv) gs) r)))).
    { eapply Forall_impl; [|exact Hf]. cbn. intros; lia. }
    destruct (domin d gs); cbn; [|split; auto].
    split.
    + apply SS_app; auto.
      * rewrite Hb. apply SS_seq.
      * intros x y Hx Hy. rewrite Hb in Hx. apply in_seq in Hx.
        rewrite Forall_forall in Hf. apply Hf in Hy. lia.
    + apply Forall_app. split; auto. rewrite Hb. apply Forall_forall. intros x Hx.
      apply in_seq in Hx. lia.
Qed.

Lemma map_nth_seq {A} (d : A) : forall (l pre : list A),
  map (fun i => nth i (pre ++ l) d) (seq (length pre) (length l)) = l.
Proof.
  induction l as [|x r IH]; intro pre; cbn; auto.
  rewrite app_nth2 by lia. rewrite Nat.sub_diag. cbn. f_equal.
  specialize (IH (pre ++ [x])). rewrite app_length in IH. cbn in IH.
  rewrite Nat.add_1_r in IH. rewrite <- app_assoc in IH. exact IH.
Qed.

Lemma map_add_seq off : forall n a, map (Nat.add off) (seq a n) = seq (off + a) n.
Proof.
  induction n as [|n IH]; intro a; cbn; auto. rewrite IH. f_equal. f_equal. lia.
Qed.

Section AssembleProofs.
  Context {V : Type}.
  Variable vzero : V.
  Variable vopp : V -> V.
  Variable eval : nat -> list (@prow V).

  Let dflt : @prow V := ([], vzero).

  Lemma take_ok (x : list (@prow V)) : forall idx,
    Forall (fun i => i < length x) idx -> take x idx = Some (map (fun i => nth i x dflt) idx).
  Proof.
    induction idx as [|i r IH]; intro H; cbn; auto.
    inversion H as [|? ? Hi Hr]. subst. rewrite (IH Hr).
    destruct (nth_error x i) eqn:E.
    - rewrite (nth_error_nth _ _ _ E). reflexivity.
    - apply nth_error_None in E. lia.
  Qed.

  (* residual-only assembly walks the same rows as the Jacobian assembly (any state) *)
  Lemma res_jac_loop eqs : forall blocks acc st ind,
    res_loop eval eqs blocks acc =
    (fst (fst (jac_loop eval eqs blocks acc st ind)), snd (jac_loop eval eqs blocks acc st ind)).
  Proof.
    induction blocks as [|[name row] r IH]; intros acc st ind; cbn [res_loop jac_loop]; auto.
    destruct (dget eqs name) as [op|]; auto.
    destruct (match row with Some idx => take (eval op) idx | None => Some (eval op) end); auto.
  Qed.

  (* ---------------- the specification of the assembled rows ---------------- *)
  Definition esize (es : est) (name : nat) : nat := length (concat (map snd (img_of es name))).

  (* every operator yields as many rows as set_equation recorded *)
  Definition sized (es : est) : Prop :=
    forall name op, In (name, op) (equations es) -> length (eval op) = esize es name.

  (* the full system: all equations stacked in insertion order *)
  Definition full (es : est) : list (@prow V) := flat_map (fun kv => eval (snd kv)) (equations es).

  (* rows (local to the equation) that an argument keeps *)
  Definition local_rows (es : est) (a : eqarg) (name : nat) : list nat :=
    match kept a name with
    | None => []
    | Some None => seq 0 (esize es name)
    | Some (Some gs) => restrict_img (img_of es name) gs
    end.

  (* rows of the full system that an argument keeps: equation by equation in insertion
     order, [off] = number of rows of the equations before *)
  Fixpoint rows_from (es : est) (a : eqarg) (eqs : list (nat * nat)) (off : nat) : list nat :=
    match eqs with
    | [] => []
    | (name, _) :: r =>
        map (Nat.add off) (local_rows es a name) ++ rows_from es a r (off + esize es name)
    end.
  Definition rows_spec (es : est) (a : eqarg) : list nat := rows_from es a (equations es) 0.

  (* the reported indices: consecutive ranges, one per requested equation *)
  Fixpoint ind_from (es : est) (a : eqarg) (eqs : list (nat * nat)) (start : nat)
    : list (nat * list nat) :=
    match eqs with
    | [] => []
    | (name, _) :: r =>
        match kept a name with
        | None => ind_from es a r start
        | Some _ => (name, seq start (length (local_rows es a name)))
                    :: ind_from es a r (start + length (local_rows es a name))
        end
    end.
  Definition ind_spec (es : est) (a : eqarg) : list (nat * list nat) :=
    ind_from es a (equations es) 0.

  Definition pick (es : est) (a : eqarg) (kv : nat * nat) : list (@prow V) :=
    map (fun i => nth i (eval (snd kv)) dflt) (local_rows es a (fst kv)).

  Definition blk (es : est) (a : eqarg) (kv : nat * nat) : list (nat * rowsel) :=
    match kept a (fst kv) with
    | Some m => [(fst kv, sel_of es (fst kv) m)]
    | None => []
    end.

  Lemma local_rows_bound es a name :
    EInv es -> In name (map fst (equations es)) ->
    StronglySorted lt (local_rows es a name) /\
    Forall (fun i => i < esize es name) (local_rows es a name).
  Proof.
    intros [Hnd Hc] Hn. destruct (Hc name Hn) as [img [Hi [n Hw]]].
    unfold local_rows, esize, img_of. rewrite Hi.
    destruct (kept a name) as [[gs|]|].
    - destruct (restrict_sorted gs img 0 n Hw) as [Hs Hf]. split; auto.
      rewrite Hw, seq_length. eapply Forall_impl; [|exact Hf]. cbn. intros; lia.
    - split; [apply SS_seq|]. apply Forall_forall. intros i Hi'. apply in_seq in Hi'. lia.
    - split; constructor.
  Qed.

  Lemma jac_loop_spec es a : EInv es -> sized es ->
    forall l, (forall kv, In kv l -> In kv (equations es)) -> NoDup (map fst l) ->
    forall acc st ind, (forall kv, In kv l -> dget ind (fst kv) = None) ->
    jac_loop eval (equations es) (flat_map (blk es a) l) acc st ind =
    ((acc ++ flat_map (pick es a) l, ind ++ ind_from es a l st), None).
  Proof.
    intros HI Hsz. induction l as [|[name op] r IH]; intros Hin Hnd acc st ind Hind.
    - cbn. rewrite !app_nil_r. reflexivity.
    - cbn [flat_map]. unfold blk at 1. cbn [fst snd ind_from].
      assert (Hmem : In (name, op) (equations es)) by (apply Hin; left; auto).
      assert (Hname : In name (map fst (equations es))).
      { apply in_map_iff. exists (name, op). auto. }
      inversion Hnd as [|? ? Hn Hr]. subst.
      assert (IH' : forall acc st ind,
                 (forall kv, In kv r -> dget ind (fst kv) = None) ->
                 jac_loop eval (equations es) (flat_map (blk es a) r) acc st ind =
                 (acc ++ flat_map (pick es a) r, ind ++ ind_from es a r st, None)).
      { intros. apply IH; auto. intros. apply Hin. right. auto. }
      destruct (kept a name) as [m|] eqn:Ek.
      + cbn [app jac_loop].
        rewrite (In_dget _ _ _ (ei_nodup es HI) Hmem).
        destruct (local_rows_bound es a name HI Hname) as [_ Hb].
        rewrite <- (Hsz name op Hmem) in Hb.
        assert (Htake : (match sel_of es name m with
                         | Some idx => take (eval op) idx
                         | None => Some (eval op) end) = Some (pick es a (name, op))).
        { unfold pick, local_rows in *. cbn [fst snd]. rewrite Ek in *. destruct m as [gs|]; cbn [sel_of].
          - apply take_ok. exact Hb.
          - rewrite <- (Hsz name op Hmem).
            pose proof (map_nth_seq dflt (eval op) []) as Hm. cbn [app length] in Hm.
            rewrite Hm. reflexivity. }
        rewrite Htake.
        assert (Hlen : length (pick es a (name, op)) = length (local_rows es a name)).
        { unfold pick. rewrite map_length. reflexivity. }
        rewrite Hlen.
        rewrite IH'.
        * rewrite <- !app_assoc. f_equal. f_equal.
          -- rewrite dset_absent by (apply (Hind (name, op)); left; auto).
             rewrite <- app_assoc. cbn [app]. f_equal. f_equal. f_equal.
             destruct (length (local_rows es a name)) as [|k] eqn:El; cbn [Nat.ltb Nat.leb].
             ++ lia.
             ++ unfold last_plus1. rewrite last_seq. lia.
        * intros kv Hkv. rewrite dget_dset.
          destruct (Nat.eqb name (fst kv)) eqn:E.
          -- apply Nat.eqb_eq in E. exfalso. apply Hn. rewrite E. apply in_map. auto.
          -- apply Hind. right. auto.
      + cbn [app]. unfold pick at 1. unfold local_rows at 1. cbn [fst]. rewrite Ek. cbn [map app].
        apply IH'. intros. apply Hind. right. auto.
  Qed.

  (* picking rows equation by equation = selecting rows of the stacked system *)
  Lemma pick_rows es a : EInv es -> sized es ->
    forall l pre post, (forall kv, In kv l -> In kv (equations es)) ->
    full es = pre ++ flat_map (fun kv => eval (snd kv)) l ++ post ->
    flat_map (pick es a) l =
      map (fun i => nth i (full es) dflt) (rows_from es a l (length pre)) /\
    StronglySorted lt (rows_from es a l (length pre)) /\
    Forall (fun i => length pre <= i < length pre + length (flat_map (fun kv => eval (snd kv)) l))
           (rows_from es a l (length pre)).
  Proof.
    intros HI Hsz. induction l as [|[name op] r IH]; intros pre post Hin Hfull.
    - cbn. repeat split; constructor.
    - assert (Hmem : In (name, op) (equations es)) by (apply Hin; left; auto).
      assert (Hname : In name (map fst (equations es))).
      { apply in_map_iff. exists (name, op). auto. }
      destruct (local_rows_bound es a name HI Hname) as [Hs Hb].
      pose proof (Hsz name op Hmem) as Hlen.
      cbn [flat_map rows_from snd] in *.
      specialize (IH (pre ++ eval op) post (fun kv H => Hin kv (or_intror H))).
      rewrite app_length, Hlen in IH.
      rewrite <- !app_assoc in IH. rewrite <- app_assoc in Hfull.
      destruct (IH Hfull) as [IH1 [IH2 IH3]].
      split; [|split].
      + rewrite map_app, IH1. f_equal. unfold pick. cbn [fst snd]. rewrite map_map.
        apply map_ext_in. intros i Hi. rewrite Forall_forall in Hb. apply Hb in Hi.
        rewrite Hfull. rewrite app_nth2 by lia. rewrite app_nth1 by lia. f_equal. lia.
      + apply SS_app; auto.
        * apply SS_map. eapply SS_weaken; [exact Hs|]. intros; lia.
        * intros x y Hx Hy. apply in_map_iff in Hx. destruct Hx as [i [E Hi]].
          rewrite Forall_forall in Hb. apply Hb in Hi.
          rewrite Forall_forall in IH3. apply IH3 in Hy. lia.
      + rewrite app_length, Hlen. apply Forall_app. split.
        * apply Forall_forall. intros x Hx. apply in_map_iff in Hx. destruct Hx as [i [E Hi]].
          rewrite Forall_forall in Hb. apply Hb in Hi. lia.
        * eapply Forall_impl; [|exact IH3]. cbn. intros; lia.
  Qed.

  Lemma ind_from_props es a : forall l st,
    concat (map snd (ind_from es a l st)) = seq st (length (rows_from es a l 0)) /\
    map fst (ind_from es a l st) =
      map fst (filter (fun kv => match kept a (fst kv) with Some _ => true | None => false end) l).
  Proof.
    induction l as [|[name op] r IH]; intro st; cbn [ind_from rows_from filter fst].
    - split; reflexivity.
    - assert (Hlen : forall off off', length (rows_from es a r off) = length (rows_from es a r off')).
      { clear. induction r as [|[n o] t IHt]; intros; cbn; auto.
        rewrite !app_length, !map_length. f_equal. apply IHt. }
      rewrite app_length, map_length. rewrite (Hlen _ 0).
      destruct (kept a name) as [m|] eqn:Ek.
      + destruct (IH (st + length (local_rows es a name))) as [H1 H2]. cbn [map concat fst snd].
        rewrite H1, H2. split; auto. rewrite seq_app. reflexivity.
      + destruct (IH st) as [H1 H2]. unfold local_rows at 1. rewrite Ek. cbn [length]. auto.
  Qed.

  (* ---------------- the theorems ---------------- *)
  Variable s : st.

  (* the parser accepts the argument: Jacobian assembly returns the rows rows_spec of the
     full stack (cut to the columns of the projection), reports ind_spec *)
  Theorem assemble_jac_spec es a r cols n :
    EInv es -> sized es -> arg_ok es a = true ->
    projection_to s (asm_vars s r) = OProjM cols n ->
    assemble vzero vopp eval s es true a r =
      (with_aei es (ind_spec es a),
       AJac (map (fun i => cut vzero cols (fst (nth i (full es) dflt))) (rows_spec es a))
            (map (fun i => vopp (snd (nth i (full es) dflt))) (rows_spec es a))
            (length cols)) /\
    StronglySorted lt (rows_spec es a) /\
    Forall (fun i => i < length (full es)) (rows_spec es a).
  Proof.
    intros HI Hsz Hok Hproj. unfold assemble.
    rewrite (parse_equations_spec es a HI), Hok.
    unfold blocks_spec. fold (blk es a).
    rewrite (jac_loop_spec es a HI Hsz (equations es) (fun kv H => H) (ei_nodup es HI) [] 0 []
                           (fun kv _ => eq_refl)).
    cbn [app]. rewrite Hproj.
    destruct (pick_rows es a HI Hsz (equations es) [] [] (fun kv H => H)) as [H1 [H2 H3]].
    { cbn. rewrite app_nil_r. reflexivity. }
    cbn [length] in *. fold (rows_spec es a) in *. fold (full es) in *.
    split; [|split; auto].
    - unfold ind_spec. f_equal. rewrite H1, !map_map. reflexivity.
    - eapply Forall_impl; [|exact H3]. cbn. intros; lia.
  Qed.

  (* the argument is rejected: ValueError, nothing changes *)
  Theorem assemble_rejects es jac a r :
    EInv es -> arg_ok es a = false ->
    assemble vzero vopp eval s es jac a r = (es, AErr ValueErr).
  Proof.
    intros HI Hok. unfold assemble. rewrite (parse_equations_spec es a HI), Hok. reflexivity.
  Qed.

  (* residual-only assembly: the right-hand side of the Jacobian assembly, reported indices
     untouched (any state, any argument) *)
  Theorem assemble_residual es a r r' es' A b n :
    assemble vzero vopp eval s es true a r = (es', AJac A b n) ->
    assemble vzero vopp eval s es false a r' = (es, ARes b).
  Proof.
    unfold assemble. destruct (parse_equations es a) as [blocks|e]; [|discriminate].
    rewrite (res_jac_loop (equations es) blocks [] 0 []).
    destruct (jac_loop eval (equations es) blocks [] 0 []) as [[rows ind] [e|]]; cbn [fst snd].
    - discriminate.
    - destruct (projection_to s (asm_vars s r)); try discriminate.
      intro H. inversion H. reflexivity.
  Qed.

  (* no restriction: the whole stack *)
  Lemma rows_from_all es : forall l off,
    rows_from es ENone l off =
    seq off (length (flat_map (fun kv => seq 0 (esize es (fst kv))) l)).
  Proof.
    induction l as [|[name op] r IH]; intro off; cbn [rows_from flat_map fst]; auto.
    unfold local_rows. cbn [kept]. rewrite IH, app_length, seq_length, seq_app.
    f_equal. rewrite map_add_seq. f_equal. lia.
  Qed.
End AssembleProofs.

(* ------------------------------------------------------------------------------------ *)
(* histories *)
Lemma nth_map_lt {A B} (f : A -> B) l i d d' :
  i < length l -> nth i (map f l) d' = f (nth i l d).
Proof.
  intro H. rewrite (nth_indep _ d' (f d)) by (rewrite map_length; auto). apply map_nth.
Qed.

Section Histories.
  Context {V : Type}.
  Variable vzero : V.
  Variable vopp : V -> V.
  Variable eval : nat -> list (@prow V).

  Lemma assemble_keeps s es jac a r :
    equations (fst (assemble vzero vopp eval s es jac a r)) = equations es /\
    comp (fst (assemble vzero vopp eval s es jac a r)) = comp es.
  Proof.
    unfold assemble. destruct (parse_equations es a); [|auto]. destruct jac.
    - destruct (jac_loop eval (equations es) l [] 0 []) as [[rows ind] [e|]]; auto.
      destruct (projection_to s (asm_vars s r)); auto.
    - destruct (res_loop eval (equations es) l []) as [rows [e|]]; auto.
  Qed.

  Lemma estep_EInv g s es o : EInv es -> EInv (fst (estep vzero vopp eval g s es o)).
  Proof.
    intro HI. destruct o as [name op grids info|name|jac a r]; cbn [estep].
    - pose proof (set_equation_EInv g es name op grids info HI) as H.
      destruct (set_equation g es name op grids info) as [es' [e|]]; exact H.
    - pose proof (remove_equation_EInv es name HI) as H.
      destruct (remove_equation es name) as [es' [e|]]; exact H.
    - destruct (assemble_keeps s es jac a r) as [H1 H2].
      destruct (assemble vzero vopp eval s es jac a r) as [es' o]. cbn [fst] in *.
      assert (EInv es').
      { destruct HI as [Hn Hc]. constructor; rewrite ?H1, ?H2; auto. }
      destruct o; auto.
  Qed.

  Lemma erun_EInv g s : forall ops es, EInv es -> EInv (fst (erun vzero vopp eval g s es ops)).
  Proof.
    induction ops as [|o r IH]; intros es HI; cbn [erun]; auto.
    pose proof (estep_EInv g s es o HI) as H.
    destruct (estep vzero vopp eval g s es o) as [es' x]. cbn [fst] in H.
    specialize (IH es' H). destruct (erun vzero vopp eval g s es' r) as [es'' xs]. exact IH.
  Qed.

  Theorem efinal_EInv g s ops : EInv (efinal vzero vopp eval g s ops).
  Proof. apply erun_EInv. apply EInv_init. Qed.

  Let dflt : @prow V := ([], vzero).

  Lemma rows_all es : sized eval es ->
    rows_spec es ENone = seq 0 (length (full eval es)).
  Proof.
    intro Hsz. unfold rows_spec. rewrite rows_from_all. f_equal.
    unfold full, sized in *.
    assert (H : forall l, (forall kv, In kv l -> In kv (equations es)) ->
              length (flat_map (fun kv => seq 0 (esize es (fst kv))) l) =
              length (flat_map (fun kv => eval (snd kv)) l)).
    { induction l as [|[n o] t IH]; intro Hin; cbn [flat_map fst snd]; auto.
      rewrite !app_length, seq_length, IH by (intros; apply Hin; right; auto).
      rewrite (Hsz n o) by (apply Hin; left; auto). reflexivity. }
    apply H. auto.
  Qed.

  Lemma map_seq_nth {A B} (f : A -> B) (d : A) (l : list A) :
    map (fun i => f (nth i l d)) (seq 0 (length l)) = map f l.
  Proof.
    rewrite <- (map_map (fun i => nth i l d) f). f_equal.
    pose proof (map_nth_seq d l []) as H. cbn [app length] in H. exact H.
  Qed.

  (* the full system and every restricted system, for the same variable selection *)
  Theorem thm_slice g s ops a r cols n :
    let es := efinal vzero vopp eval g s ops in
    sized eval es -> arg_ok es a = true ->
    projection_to s (asm_vars s r) = OProjM cols n ->
    let Af := map (fun rw => cut vzero cols (fst rw)) (full eval es) in
    let bf := map (fun rw => vopp (snd rw)) (full eval es) in
    let R := rows_spec es a in
    assemble vzero vopp eval s es true ENone r =
      (with_aei es (ind_spec es ENone), AJac Af bf (length cols)) /\
    assemble vzero vopp eval s es true a r =
      (with_aei es (ind_spec es a),
       AJac (map (fun i => nth i Af []) R) (map (fun i => nth i bf (vopp vzero)) R)
            (length cols)) /\
    StronglySorted lt R /\ Forall (fun i => i < length Af) R /\ length bf = length Af.
  Proof.
    intros es Hsz Hok Hp Af bf R.
    pose proof (efinal_EInv g s ops) as HI. fold es in HI.
    destruct (assemble_jac_spec vzero vopp eval s es ENone r cols n HI Hsz eq_refl Hp)
      as [Hf _].
    destruct (assemble_jac_spec vzero vopp eval s es a r cols n HI Hsz Hok Hp)
      as [Ha [Hs Hb]].
    fold R in Ha, Hs, Hb.
    assert (Hlen : length Af = length (full eval es)) by (unfold Af; apply map_length).
    split; [|split; [|split; [|split]]]; auto.
    - rewrite Hf. rewrite (rows_all es Hsz). f_equal. f_equal.
      + apply (map_seq_nth (fun rw => cut vzero cols (fst rw))).
      + apply (map_seq_nth (fun rw => vopp (snd rw))).
    - rewrite Ha. f_equal. f_equal.
      + apply map_ext_in. intros i Hi. rewrite Forall_forall in Hb. apply Hb in Hi.
        unfold Af. rewrite (nth_map_lt _ _ _ dflt) by exact Hi. reflexivity.
      + apply map_ext_in. intros i Hi. rewrite Forall_forall in Hb. apply Hb in Hi.
        unfold bf. rewrite (nth_map_lt _ _ _ dflt) by exact Hi. reflexivity.
    - rewrite Hlen. exact Hb.
    - unfold bf, Af. rewrite !map_length. reflexivity.
  Qed.

  Lemma ind_from_entries es a : forall l st name rows,
    In (name, rows) (ind_from es a l st) ->
    exists start, rows = seq start (length (local_rows es a name)).
  Proof.
    induction l as [|[n o] t IH]; intros st name rows H; cbn [ind_from] in H; [destruct H|].
    destruct (kept a n).
    - destruct H as [H|H]; [inversion H; subst; eauto|eauto].
    - eauto.
  Qed.

  (* the reported indices *)
  Theorem thm_indices g s ops a r cols n :
    let es := efinal vzero vopp eval g s ops in
    sized eval es -> arg_ok es a = true ->
    projection_to s (asm_vars s r) = OProjM cols n ->
    let ind := aei (fst (assemble vzero vopp eval s es true a r)) in
    ind = ind_spec es a /\
    concat (map snd ind) = seq 0 (length (rows_spec es a)) /\
    map fst ind = map fst (filter (fun kv => match kept a (fst kv) with
                                             | Some _ => true | None => false end)
                                  (equations es)) /\
    (forall name rows, In (name, rows) ind ->
       exists start, rows = seq start (length (local_rows es a name))).
  Proof.
    intros es Hsz Hok Hp ind.
    pose proof (efinal_EInv g s ops) as HI. fold es in HI.
    destruct (assemble_jac_spec vzero vopp eval s es a r cols n HI Hsz Hok Hp) as [Ha _].
    assert (E : ind = ind_spec es a) by (unfold ind; rewrite Ha; reflexivity).
    destruct (ind_from_props es a (equations es) 0) as [H1 H2].
    rewrite E. split; auto. split; [exact H1|]. split; [exact H2|].
    intros name rows H. eapply ind_from_entries. exact H.
  Qed.

  Theorem thm_residual g s ops a r r' es' A b n :
    let es := efinal vzero vopp eval g s ops in
    assemble vzero vopp eval s es true a r = (es', AJac A b n) ->
    assemble vzero vopp eval s es false a r' = (es, ARes b).
  Proof. intro es. apply assemble_residual. Qed.

  Theorem thm_rejects g s ops jac a r :
    let es := efinal vzero vopp eval g s ops in
    arg_ok es a = false ->
    assemble vzero vopp eval s es jac a r = (es, AErr ValueErr).
  Proof. intros es H. apply assemble_rejects; auto. apply efinal_EInv. Qed.

  Theorem thm_parse g s ops a :
    let es := efinal vzero vopp eval g s ops in
    parse_equations es a = if arg_ok es a then inl (blocks_spec es a) else inr ValueErr.
  Proof. intro es. apply parse_equations_spec. apply efinal_EInv. Qed.
End Histories.

(* ------------------------------------------------------------------------------------ *)
(* the columns: C05's projection of the selected variables *)
Lemma all_registered g s : Inv g s ->
  forall id, In id (parse s (asm_vars s None)) -> In id (block_ids s).
Proof.
  intros HI id H. cbn [asm_vars parse] in H.
  rewrite (block_ids_order g s HI).
  assert (E : forall l, flat_map (parse1 s) (map ById (map vid l)) = map vid l).
  { induction l as [|v r IH]; cbn; auto. rewrite IH. reflexivity. }
  rewrite E in H. apply in_map_iff in H. destruct H as [v [Ev Hv]]. subst id.
  apply in_map. apply in_order. split; auto.
  pose proof (inv_dom g s HI) as Hd. rewrite Forall_forall in Hd. auto.
Qed.

Theorem thm_cols g vops r :
  Forall (wf_op g) vops ->
  let s := final g vops in
  truthy (asm_vars s r) = true ->
  (r = None \/ forall id, In id (parse s r) -> In id (block_ids s)) ->
  exists cols, projection_to s (asm_vars s r) = OProjM cols (num_dofs s) /\
    StronglySorted le cols /\
    Permutation cols (concat (map (block_of s) (parse s (asm_vars s r)))) /\
    (forall i, In i cols <-> exists id, In id (parse s (asm_vars s r)) /\ In i (block_of s id)).
Proof.
  intros Hw s Ht Hr. pose proof (final_Inv g vops Hw) as HI. fold s in HI.
  assert (Hreg : forall id, In id (parse s (asm_vars s r)) -> In id (block_ids s)).
  { destruct Hr as [E|Hr]; [subst r; apply (all_registered g s HI)|].
    destruct r as [l|]; [exact Hr|apply (all_registered g s HI)]. }
  destruct (projection_ok g s _ HI Ht Hreg) as [cols [H1 [H2 [H3 [H4 _]]]]].
  exists cols. auto.
Qed.

Lemma thm_cols_null s r : truthy (asm_vars s r) = false ->
  projection_to s (asm_vars s r) = OProjM [] (num_dofs s).
Proof. apply projection_null. Qed.

(* ------------------------------------------------------------------------------------ *)
(* what set_equation stores: one block per listed grid, in md-grid order (subdomains, then
   interfaces), of the size the dof-info gives on that grid, numbered consecutively *)
Fixpoint img_spec (g : mdgrid) (info : nat * nat * nat) (ds : list dom) (off : nat) : image :=
  match ds with
  | [] => []
  | d :: r => (d, seq off (ndof g d info)) :: img_spec g info r (off + ndof g d info)
  end.

Lemma domin_remove_first d d' l : d' <> d -> domin d' (remove_first d l) = domin d' l.
Proof.
  intro Hne. unfold domin. induction l as [|x r IH]; cbn [remove_first existsb]; auto.
  destruct (dom_eqb x d) eqn:E.
  - apply dom_eqb_eq in E. subst x. destruct (dom_eqb d' d) eqn:E'; auto.
    apply dom_eqb_eq in E'. congruence.
  - cbn [existsb]. rewrite IH. reflexivity.
Qed.

Lemma set_loop_closed g info : forall ds, NoDup ds -> forall img total grids,
  fst (fst (set_loop g ds info img total grids)) =
  img ++ img_spec g info (filter (fun d => domin d grids) ds) total.
Proof.
  induction ds as [|d r IH]; intros Hnd img total grids; cbn [set_loop filter].
  - cbn. rewrite app_nil_r. reflexivity.
  - inversion Hnd as [|? ? Hn Hr]. subst. destruct (domin d grids) eqn:E.
    + rewrite IH by auto. rewrite <- app_assoc. cbn [app img_spec]. f_equal. f_equal. f_equal.
      apply filter_ext_in. intros x Hx. apply domin_remove_first. intro; subst; contradiction.
    + apply IH; auto.
Qed.

Lemma grid_order_NoDup g : NoDup (grid_order g).
Proof.
  apply (SS_irrefl_NoDup (fun d e => rank g d < rank g e)).
  - apply grid_order_sorted.
  - intros x H. lia.
Qed.

Theorem set_equation_layout g es name op grids info es' :
  set_equation g es name op grids info = (es', None) ->
  img_of es' name = img_spec g info (filter (fun d => domin d grids) (grid_order g)) 0 /\
  equations es' = equations es ++ [(name, op)] /\
  (forall n, n <> name -> img_of es' n = img_of es n).
Proof.
  unfold set_equation. destruct (dhas (equations es) name) eqn:Eh; [discriminate|].
  apply dhas_false in Eh.
  assert (Hstore : forall img, es' = store_eq es name op img info ->
            img_of es' name = img /\ equations es' = equations es ++ [(name, op)] /\
            (forall n, n <> name -> img_of es' n = img_of es n)).
  { intros img E. subst es'. unfold img_of. cbn. rewrite dget_dset_same.
    split; auto. split; [apply dset_absent; auto|].
    intros n Hn. rewrite dget_dset_other by auto. reflexivity. }
  destruct grids as [|d0 gr].
  - intro H. injection H as E. destruct (Hstore [] (eq_sym E)) as [H1 H2].
    split; auto. rewrite H1.
    clear. induction (grid_order g); cbn; auto.
  - destruct (negb _); [discriminate|].
    pose proof (set_loop_closed g info (grid_order g) (grid_order_NoDup g) [] 0 (d0 :: gr)) as Hl.
    destruct (set_loop g (grid_order g) info [] 0 (d0 :: gr)) as [[img tot] rest].
    cbn [fst app] in Hl. destruct rest; [|discriminate].
    intro H. injection H as E. destruct (Hstore img (eq_sym E)) as [H1 H2].
    split; auto. rewrite H1. exact Hl.
Qed.
