(* C31 — sort_point_pairs: loop-level invariant.  On success the output is a
   permutation of the input pairs (up to flipping) forming one chain. *)
From Coq Require Import List ZArith Bool Arith Lia Permutation.
Import ListNotations.
From PP Require Import Model.C28 Model.C31 Proofs.C31.

Definition dl : line := (0, 0)%Z.

(* ------------------------------------------------------------------ set_nth *)
Lemma set_nth_length : forall {A} (l : list A) i x, length (set_nth l i x) = length l.
Proof.
  intros A l. induction l as [|y l IH]; intros [|i] x; cbn; try reflexivity.
  rewrite IH. reflexivity.
Qed.

Lemma nth_set_nth_eq : forall {A} (l : list A) i x d, i < length l -> nth i (set_nth l i x) d = x.
Proof.
  intros A l. induction l as [|y l IH]; intros [|i] x d H; cbn in *; try lia; try reflexivity.
  apply IH. lia.
Qed.

Lemma nth_set_nth_neq : forall {A} (l : list A) i k x d, k <> i -> nth k (set_nth l i x) d = nth k l d.
Proof.
  intros A l. induction l as [|y l IH]; intros [|i] [|k] x d H; cbn; try reflexivity; try lia.
  apply IH. lia.
Qed.

Lemma nth_set_true_mono : forall (l : list bool) j k,
  nth k l false = true -> nth k (set_nth l j true) false = true.
Proof.
  intros l j k H. destruct (Nat.eq_dec k j) as [-> | N].
  - destruct (Nat.lt_ge_cases j (length l)) as [L | L].
    + apply nth_set_nth_eq. exact L.
    + rewrite nth_overflow in H by lia. discriminate.
  - rewrite nth_set_nth_neq by exact N. exact H.
Qed.

Lemma count_set_true : forall (l : list bool) j,
  nth_error l j = Some false -> count_true (set_nth l j true) = S (count_true l).
Proof.
  unfold count_true. induction l as [|b l IH]; intros [|j] H; cbn in *; try discriminate.
  - injection H as ->. reflexivity.
  - destruct b; cbn; rewrite (IH j H); reflexivity.
Qed.

Lemma count_le_length : forall l : list bool, count_true l <= length l.
Proof. intro l. unfold count_true. apply filter_len_le. Qed.

Lemma count_map_false : forall {A} (l : list A), count_true (map (fun _ => false) l) = 0.
Proof. intros A l. unfold count_true. induction l; cbn; auto. Qed.

Lemma nth_map_false : forall {A} (l : list A) k, nth k (map (fun _ => false) l) false = false.
Proof. intros A l. induction l as [|x l IH]; intros [|k]; cbn; auto. Qed.

Lemma nth_error_map_false : forall {A} (l : list A) k,
  k < length l -> nth_error (map (fun _ => false) l) k = Some false.
Proof.
  intros A l. induction l as [|x l IH]; intros [|k] H; cbn in *; try lia; auto. apply IH. lia.
Qed.

(* ------------------------------------------------------------------ the invariant *)
Section Inv.
  Variable lines : list line.
  Let n := length lines.
  Variable first : line.

  (* the first i columns are valid *)
  Definition good (st : sstate) (i : nat) : Prop :=
    (forall k, k < i -> exists a b, nth_error lines (nth k (s_ind st) 0) = Some (a, b) /\
                          (nth k (s_sorted st) dl = (a, b) \/ nth k (s_sorted st) dl = (b, a))) /\
    (forall k, S k < i -> snd (nth k (s_sorted st) dl) = fst (nth (S k) (s_sorted st) dl)) /\
    s_prev st = snd (nth (i - 1) (s_sorted st) dl) /\
    (forall k, k < i -> nth (nth k (s_ind st) 0) (s_found st) false = true) /\
    (forall k1 k2, k1 < i -> k2 < i -> nth k1 (s_ind st) 0 = nth k2 (s_ind st) 0 -> k1 = k2) /\
    nth 0 (s_sorted st) dl = first.

  Definition inv (st : sstate) (i : nat) : Prop :=
    length (s_sorted st) = n /\ length (s_found st) = n /\ length (s_ind st) = n /\
    1 <= i /\ count_true (s_found st) <= i /\
    (count_true (s_found st) = i -> i <= n /\ good st i).

  Lemma inv_step : forall st i,
    inv st i ->
    inv (match scan lines (s_found st) (s_prev st) 0 with
         | Some (j, l, np) =>
             {| s_sorted := set_nth (s_sorted st) i l;
                s_found := set_nth (s_found st) j true;
                s_prev := np;
                s_ind := set_nth (s_ind st) i j |}
         | None => st
         end) (S i).
  Proof.
    intros [sorted found prev ind] i (L1 & L2 & L3 & Hi & Hc & Hg). cbn [s_sorted s_found s_prev s_ind] in *.
    destruct (scan lines found prev 0) as [[[j l] np]|] eqn:ES.
    - destruct (scan_spec _ _ _ _ _ _ _ ES) as (k & a & b & Hj & Hl & Hf & Hor & Hp & Hn).
      cbn in Hj. subst k.
      assert (Cnt := count_set_true found j Hf).
      unfold inv. cbn [s_sorted s_found s_prev s_ind].
      rewrite !set_nth_length, Cnt.
      refine (conj _ (conj _ (conj _ (conj _ (conj _ _))))); try assumption; try lia.
      intro E. assert (E' : count_true found = i) by lia.
      destruct (Hg E') as [Hin (G1 & G2 & G3 & G4 & G5 & G6)].
      cbn [s_sorted s_found s_prev s_ind] in *.
      assert (Hlt : i < n).
      { pose proof (count_le_length (set_nth found j true)) as Hle.
        rewrite Cnt, set_nth_length in Hle. lia. }
      split; [lia|].
      + 
        assert (Fj : nth j found false = false).
        { apply nth_error_nth with (d := false) in Hf. exact Hf. }
        unfold good. cbn [s_sorted s_found s_prev s_ind].
        split; [|split; [|split; [|split; [|split]]]].
        * intros k Hk. destruct (Nat.eq_dec k i) as [-> | N].
          -- rewrite !nth_set_nth_eq by lia. exists a, b. split; [exact Hl|exact Hor].
          -- rewrite !nth_set_nth_neq by exact N. apply G1. lia.
        * intros k Hk. destruct (Nat.eq_dec (S k) i) as [E1 | N].
          -- rewrite <- E1 at 2. rewrite (nth_set_nth_eq sorted (S k)) by lia.
             rewrite nth_set_nth_neq by lia.
             rewrite Hp, G3. f_equal. f_equal. lia.
          -- rewrite !nth_set_nth_neq by lia. apply G2. lia.
        * replace (S i - 1) with i by lia. rewrite nth_set_nth_eq by lia. exact Hn.
        * intros k Hk. destruct (Nat.eq_dec k i) as [-> | N].
          -- rewrite nth_set_nth_eq by lia. apply nth_set_nth_eq.
             apply nth_error_Some. rewrite Hf. discriminate.
          -- rewrite (nth_set_nth_neq ind) by exact N. apply nth_set_true_mono. apply G4. lia.
        * intros k1 k2 H1 H2 Heq.
          destruct (Nat.eq_dec k1 i) as [-> | N1]; destruct (Nat.eq_dec k2 i) as [-> | N2];
            try reflexivity.
          -- rewrite nth_set_nth_eq in Heq by lia. rewrite nth_set_nth_neq in Heq by exact N2.
             exfalso. assert (T := G4 k2 ltac:(lia)). rewrite <- Heq, Fj in T. discriminate.
          -- rewrite (nth_set_nth_eq ind i) in Heq by lia. rewrite nth_set_nth_neq in Heq by exact N1.
             exfalso. assert (T := G4 k1 ltac:(lia)). rewrite Heq, Fj in T. discriminate.
          -- rewrite !nth_set_nth_neq in Heq by assumption. apply G5; [lia|lia|exact Heq].
        * rewrite nth_set_nth_neq by lia. exact G6.
    - unfold inv. cbn [s_sorted s_found s_prev s_ind].
      refine (conj _ (conj _ (conj _ (conj _ (conj _ _))))); try assumption; try lia.
  Qed.

  Lemma inv_loop : forall fuel st i, inv st i -> inv (sort_loop lines st i fuel) (i + fuel).
  Proof.
    induction fuel as [|fuel IH]; intros st i H; cbn [sort_loop].
    - replace (i + 0) with i by lia. exact H.
    - replace (i + S fuel) with (S i + fuel) by lia. apply IH. apply inv_step. exact H.
  Qed.
End Inv.

Lemma find_first_spec : forall {A} (f : A -> bool) l j0 hit x,
  find_first f l j0 = Some (hit, x) -> exists k, hit = j0 + k /\ nth_error l k = Some x.
Proof.
  intros A f l. induction l as [|y l IH]; intros j0 hit x H; cbn in H; [discriminate|].
  destruct (f y).
  - injection H as <- <-. exists 0. split; [lia|reflexivity].
  - destruct (IH (S j0) hit x H) as (k & Hk & Hn). exists (S k). split; [lia|exact Hn].
Qed.

(* the initial state satisfies the invariant *)
Lemma inv_init : forall lines first hit a b,
  nth_error lines hit = Some (a, b) -> (first = (a, b) \/ first = (b, a)) ->
  inv lines first
      {| s_sorted := set_nth (map (fun _ => ((-1)%Z, (-1)%Z)) lines) 0 first;
         s_found := set_nth (map (fun _ => false) lines) hit true;
         s_prev := snd first;
         s_ind := set_nth (map (fun _ => 0) lines) 0 hit |} 1.
Proof.
  intros lines first hit a b Hl Hor. unfold line in *.
  assert (Hlt : hit < length lines) by (apply nth_error_Some; rewrite Hl; discriminate).
  assert (Cnt : count_true (set_nth (map (fun _ : Z * Z => false) lines) hit true) = 1).
  { rewrite count_set_true by (apply nth_error_map_false; exact Hlt).
    rewrite count_map_false. reflexivity. }
  unfold inv. cbn [s_sorted s_found s_prev s_ind].
  rewrite !set_nth_length, !map_length, Cnt.
  refine (conj _ (conj _ (conj _ (conj _ (conj _ _))))); try reflexivity; try lia.
  intros _. unfold line in *. split; [lia|].
  unfold good. cbn [s_sorted s_found s_prev s_ind].
  split; [|split; [|split; [|split; [|split]]]].
  - intros k Hk. assert (k = 0) by lia. subst k.
    rewrite !nth_set_nth_eq by (rewrite map_length; lia). exists a, b. split; assumption.
  - intros k Hk. lia.
  - cbn [Nat.sub]. rewrite nth_set_nth_eq by (rewrite map_length; lia). reflexivity.
  - intros k Hk. assert (k = 0) by lia. subst k.
    rewrite nth_set_nth_eq by (rewrite map_length; lia).
    apply nth_set_nth_eq. rewrite map_length. exact Hlt.
  - intros. lia.
  - apply nth_set_nth_eq. rewrite map_length. lia.
Qed.

Lemma my_last_nth : forall {A} (l : list A) d, last l d = nth (length l - 1) l d.
Proof.
  intros A l d. induction l as [|a [|b r] IH]; try reflexivity.
  change (last (a :: b :: r) d) with (last (b :: r) d). rewrite IH.
  cbn [length]. replace (S (S (length r)) - 1) with (S (S (length r) - 1)) by lia. reflexivity.
Qed.

(* ------------------------------------------------------------------ main theorem *)
Lemma sort_point_pairs_sound : forall lines chk circ sorted ind,
  sort_point_pairs lines chk circ = SOk sorted ind ->
  let n := length lines in
  length sorted = n /\ Permutation ind (seq 0 n) /\
  (forall k, k < n -> exists a b, nth_error lines (nth k ind 0) = Some (a, b) /\
                         (nth k sorted dl = (a, b) \/ nth k sorted dl = (b, a))) /\
  (forall k, S k < n -> snd (nth k sorted dl) = fst (nth (S k) sorted dl)) /\
  (circ = true -> chk = true -> fst (nth 0 sorted dl) = snd (nth (n - 1) sorted dl)).
Proof.
  intros lines chk circ sorted ind H n. unfold sort_point_pairs in H. cbv zeta in H.
  fold n in H.
  match type of H with match ?s with _ => _ end = _ => destruct s as [[[first hit] chk']|] eqn:ES end;
    [|discriminate].
  (* facts about the start *)
  assert (S0 : exists a b, nth_error lines hit = Some (a, b) /\ (first = (a, b) \/ first = (b, a))
                           /\ (circ = true -> chk' = chk)).
  { destruct (negb circ) eqn:EC.
    - match type of ES with match ?ff with _ => _ end = _ =>
        destruct ff as [[h [a b]]|] eqn:EF end; [|discriminate].
      destruct (find_first_spec _ _ _ _ _ EF) as (k & Hk & Hn). cbn in Hk. subst k.
      injection ES as <- <- <-. exists a, b. split; [exact Hn|]. split.
      + destruct (1 <? count_val lines a); [right|left]; reflexivity.
      + intro Hc. rewrite Hc in EC. discriminate.
    - destruct lines as [|[a b] lr]; [discriminate|]. injection ES as <- <- <-.
      exists a, b. split; [reflexivity|]. split; [left; reflexivity|reflexivity]. }
  destruct S0 as (a & b & Hl & Hor & Hchk).
  assert (Hn1 : 1 <= n).
  { assert (hit < length lines) by (apply nth_error_Some; rewrite Hl; discriminate). unfold n. lia. }
  pose proof (inv_init lines first hit a b Hl Hor) as I0.
  pose proof (inv_loop lines first (n - 1) _ 1 I0) as I.
  replace (1 + (n - 1)) with n in I by lia.
  unfold line in *.
  match type of H with context [sort_loop lines ?s 1 (n - 1)] => set (st := sort_loop lines s 1 (n - 1)) in * end.
  destruct (negb (forallb (fun b => b) (s_found st))) eqn:EA; [discriminate|].
  apply negb_false_iff in EA.
  match type of H with (if ?c then _ else _) = _ => destruct c eqn:ECk end; [discriminate|].
  injection H as <- <-.
  destruct I as (L1 & L2 & L3 & _ & _ & Hg).
  assert (Cn : count_true (s_found st) = n).
  { unfold count_true. apply filter_all in EA. fold n in L2. rewrite EA. exact L2. }
  destruct (Hg Cn) as [_ (G1 & G2 & G3 & G4 & G5 & G6)].
  split; [exact L1|]. split; [|split; [exact G1|split; [exact G2|]]].
  - apply NoDup_Permutation_bis.
    + apply (NoDup_nth (s_ind st) 0). intros i j Hi Hj. fold n in L3. rewrite L3 in Hi, Hj.
      apply G5; assumption.
    + rewrite seq_length. fold n in L3. lia.
    + intros x Hx. apply (In_nth _ _ 0) in Hx. destruct Hx as (k & Hk & <-).
      fold n in L3. rewrite L3 in Hk. destruct (G1 k Hk) as (a' & b' & Hn' & _).
      apply in_seq. assert (nth k (s_ind st) 0 < length lines) by (apply nth_error_Some; intro HN; unfold line in *; congruence).
      unfold n. unfold line in *. lia.
  - intros Hc Hk. rewrite (Hchk Hc), Hk in ECk. cbn [andb] in ECk.
    apply negb_false_iff in ECk. apply Z.eqb_eq in ECk.
    transitivity (fst first); [f_equal; exact G6|].
    etransitivity; [exact ECk|]. f_equal.
    pose proof (my_last_nth (s_sorted st) dl) as LN.
    assert (E : length (s_sorted st) - 1 = n - 1) by (unfold line in *; lia).
    rewrite E in LN. exact LN.
Qed.

(* ------------------------------------------------------------------ completeness (cycles) *)
Definition orient (l : line) (o : bool) : line := if o then (snd l, fst l) else l.

Lemma scan_finds : forall lines found prev j0 j a b,
  length found = length lines ->
  nth_error lines j = Some (a, b) -> nth j found false = false ->
  (a = prev \/ b = prev) -> a <> b ->
  (forall k a' b', k <> j -> nth_error lines k = Some (a', b') -> nth k found false = false ->
                   a' <> prev /\ b' <> prev) ->
  scan lines found prev j0
  = Some (j0 + j, (if Z.eqb a prev then (a, b) else (b, a)), (if Z.eqb a prev then b else a)).
Proof.
  induction lines as [|[a0 b0] lr IH]; intros found prev j0 j a b HL Hl Hf Hor Hab Hoth.
  - destruct j; discriminate.
  - destruct found as [|f fr]; [discriminate|]. cbn [scan].
    destruct j as [|j].
    + cbn in Hl, Hf. injection Hl as -> ->. subst f. cbn [negb andb].
      destruct (Z.eqb a prev) eqn:Ea.
      * rewrite Nat.add_0_r. reflexivity.
      * apply Z.eqb_neq in Ea. destruct Hor as [Hor | Hor]; [contradiction|].
        subst prev. rewrite Z.eqb_refl. rewrite Nat.add_0_r. reflexivity.
    + cbn in Hl, Hf.
      assert (T : negb f && Z.eqb a0 prev = false /\ negb f && Z.eqb b0 prev = false).
      { destruct f; [split; reflexivity|]. cbn [negb andb].
        destruct (Hoth 0 a0 b0 ltac:(lia) eq_refl eq_refl) as [N1 N2].
        split; apply Z.eqb_neq; assumption. }
      destruct T as [T1 T2]. rewrite T1, T2.
      rewrite (IH fr prev (S j0) j a b); try assumption.
      * replace (S j0 + j) with (j0 + S j) by lia. reflexivity.
      * cbn in HL. lia.
      * intros k a' b' Hk Hlk Hfk. apply (Hoth (S k) a' b'); [lia|exact Hlk|exact Hfk].
Qed.

Section Cycle.
  Variable lines : list line.
  Let n := length lines.
  Variables (perm : list nat) (os : list bool) (es : list line).

  Hypothesis Hperm : Permutation perm (seq 0 n).
  Hypothesis Hes_len : length es = n.
  Hypothesis Hes : forall k, k < n -> nth k es dl = orient (nth (nth k perm 0) lines dl) (nth k os false).
  Hypothesis Hchain : forall k, S k < n -> snd (nth k es dl) = fst (nth (S k) es dl).
  Hypothesis Hclose : fst (nth 0 es dl) = snd (nth (n - 1) es dl).
  Hypothesis Hnodup : NoDup (map fst es).
  Hypothesis Hnoloop : forall l, In l lines -> fst l <> snd l.
  Hypothesis Hstart : nth 0 perm 0 = 0 /\ nth 0 os false = false.

  Lemma perm_len : length perm = n.
  Proof. rewrite (Permutation_length Hperm). apply seq_length. Qed.

  Lemma perm_lt : forall k, k < n -> nth k perm 0 < n.
  Proof.
    intros k Hk. assert (In (nth k perm 0) perm) by (apply nth_In; rewrite perm_len; exact Hk).
    apply (Permutation_in _ Hperm) in H. apply in_seq in H. lia.
  Qed.

  Lemma perm_inj : forall k1 k2, k1 < n -> k2 < n -> nth k1 perm 0 = nth k2 perm 0 -> k1 = k2.
  Proof.
    intros k1 k2 H1 H2. apply NoDup_nth; try (rewrite perm_len; assumption).
    apply (Permutation_NoDup (Permutation_sym Hperm)). apply seq_NoDup.
  Qed.

  Lemma perm_surj : forall j, j < n -> exists k, k < n /\ nth k perm 0 = j.
  Proof.
    intros j Hj. assert (In j perm).
    { apply (Permutation_in _ (Permutation_sym Hperm)). apply in_seq. lia. }
    apply (In_nth _ _ 0) in H. destruct H as (k & Hk & E). rewrite perm_len in Hk. eauto.
  Qed.

  Lemma fst_inj : forall k1 k2, k1 < n -> k2 < n ->
    fst (nth k1 es dl) = fst (nth k2 es dl) -> k1 = k2.
  Proof.
    intros k1 k2 H1 H2 E.
    assert (E' : nth k1 (map fst es) (fst dl) = nth k2 (map fst es) (fst dl))
      by (rewrite !map_nth; exact E).
    revert E'. apply (proj1 (NoDup_nth (map fst es) (fst dl)) Hnodup);
      rewrite map_length; pose proof Hes_len as HL; unfold n, line in *; lia.
  Qed.

  (* the state after i columns have been placed along the traversal *)
  Definition along (st : sstate) (i : nat) : Prop :=
    length (s_sorted st) = n /\ length (s_found st) = n /\ length (s_ind st) = n /\
    (forall k, k < i -> nth k (s_sorted st) dl = nth k es dl) /\
    (forall k, k < i -> nth k (s_ind st) 0 = nth k perm 0) /\
    (forall j, j < n -> (nth j (s_found st) false = true <-> exists k, k < i /\ nth k perm 0 = j)) /\
    s_prev st = snd (nth (i - 1) es dl).

  Lemma along_step : forall st i, 1 <= i -> i < n -> along st i ->
    along (match scan lines (s_found st) (s_prev st) 0 with
           | Some (j, l, np) =>
               {| s_sorted := set_nth (s_sorted st) i l;
                  s_found := set_nth (s_found st) j true;
                  s_prev := np;
                  s_ind := set_nth (s_ind st) i j |}
           | None => st
           end) (S i).
  Proof.
    intros [sorted found prev ind] i Hi1 Hin (L1 & L2 & L3 & A1 & A2 & A3 & A4).
    cbn [s_sorted s_found s_prev s_ind] in *.
    set (j := nth i perm 0).
    assert (Hj : j < n) by (apply perm_lt; exact Hin).
    destruct (nth j lines dl) as [a b] eqn:Eab.
    assert (Hlj : nth_error lines j = Some (a, b)).
    { rewrite <- Eab. apply nth_error_nth'. exact Hj. }
    assert (Hei : nth i es dl = orient (a, b) (nth i os false)).
    { rewrite (Hes i Hin). fold j. rewrite Eab. reflexivity. }
    assert (Hprev : fst (nth i es dl) = prev).
    { rewrite A4. symmetry. replace i with (S (i - 1)) at 2 by lia. apply Hchain. lia. }
    assert (Hab : a <> b).
    { apply (Hnoloop (a, b)). rewrite <- Eab. apply nth_In. exact Hj. }
    assert (Hunf : nth j found false = false).
    { destruct (nth j found false) eqn:E; [|reflexivity]. exfalso.
      apply (A3 j Hj) in E. destruct E as (k & Hk & Ek).
      assert (k = i) by (apply perm_inj; try lia; exact Ek). lia. }
    assert (Hor : a = prev \/ b = prev).
    { rewrite Hei in Hprev. unfold orient in Hprev. destruct (nth i os false); cbn in Hprev; auto. }
    assert (Hoth : forall k a' b', k <> j -> nth_error lines k = Some (a', b') ->
                     nth k found false = false -> a' <> prev /\ b' <> prev).
    { intros k a' b' Hkj Hlk Hfk.
      assert (Hkn : k < n) by (apply nth_error_Some; rewrite Hlk; discriminate).
      destruct (perm_surj k Hkn) as (k' & Hk'n & Ek').
      assert (Hk'i : i < k').
      { destruct (Nat.lt_trichotomy k' i) as [L | [E | L]]; [| |exact L].
        - exfalso. assert (nth k found false = true) by (apply (A3 k Hkn); eauto). congruence.
        - exfalso. apply Hkj. subst k'. unfold j. symmetry. exact Ek'. }
      assert (Hek : nth k' es dl = orient (a', b') (nth k' os false)).
      { rewrite (Hes k' Hk'n), Ek'. f_equal. apply nth_error_nth with (d := dl) in Hlk. exact Hlk. }
      (* the two entries of this line are fst e_k' and snd e_k' *)
      assert (F1 : fst (nth k' es dl) <> prev).
      { intro E. rewrite <- Hprev in E. apply fst_inj in E; lia. }
      assert (F2 : snd (nth k' es dl) <> prev).
      { intro E. rewrite <- Hprev in E.
        destruct (Nat.eq_dec k' (n - 1)) as [El | Nl].
        - subst k'. rewrite <- Hclose in E. apply fst_inj in E; lia.
        - rewrite (Hchain k') in E by lia. apply fst_inj in E; lia. }
      rewrite Hek in F1, F2. unfold orient in F1, F2.
      destruct (nth k' os false); cbn in F1, F2; split; assumption. }
    rewrite (scan_finds lines found prev 0 j a b L2 Hlj Hunf Hor Hab Hoth).
    cbn [Nat.add].
    assert (El : (if Z.eqb a prev then (a, b) else (b, a)) = nth i es dl).
    { rewrite Hei. unfold orient. rewrite Hei in Hprev. unfold orient in Hprev.
      destruct (nth i os false); cbn in Hprev.
      - assert (T : Z.eqb a prev = false) by (apply Z.eqb_neq; congruence). rewrite T. reflexivity.
      - assert (T : Z.eqb a prev = true) by (apply Z.eqb_eq; exact Hprev). rewrite T. reflexivity. }
    assert (Enp : (if Z.eqb a prev then b else a) = snd (nth i es dl)).
    { rewrite <- El. destruct (Z.eqb a prev); reflexivity. }
    unfold along. cbn [s_sorted s_found s_prev s_ind]. rewrite !set_nth_length.
    refine (conj L1 (conj L2 (conj L3 (conj _ (conj _ (conj _ _)))))).
    - intros k Hk. destruct (Nat.eq_dec k i) as [-> | N].
      + rewrite nth_set_nth_eq by lia. exact El.
      + rewrite nth_set_nth_neq by exact N. apply A1. lia.
    - intros k Hk. destruct (Nat.eq_dec k i) as [-> | N].
      + rewrite nth_set_nth_eq by lia. reflexivity.
      + rewrite nth_set_nth_neq by exact N. apply A2. lia.
    - intros j' Hj'. destruct (Nat.eq_dec j' j) as [-> | N].
      + rewrite nth_set_nth_eq by lia. split; [intros _; exists i; split; [lia|reflexivity]|reflexivity].
      + rewrite nth_set_nth_neq by exact N. rewrite (A3 j' Hj'). split.
        * intros (k & Hk & Ek). exists k. split; [lia|exact Ek].
        * intros (k & Hk & Ek). destruct (Nat.eq_dec k i) as [-> | Nk]; [exfalso; apply N; symmetry; exact Ek|].
          exists k. split; [lia|exact Ek].
    - replace (S i - 1) with i by lia. exact Enp.
  Qed.

  Lemma along_loop : forall fuel st i, 1 <= i -> i + fuel <= n -> along st i ->
    along (sort_loop lines st i fuel) (i + fuel).
  Proof.
    induction fuel as [|fuel IH]; intros st i Hi Hle H; cbn [sort_loop].
    - replace (i + 0) with i by lia. exact H.
    - replace (i + S fuel) with (S i + fuel) by lia. apply IH; [lia|lia|].
      apply along_step; [exact Hi|lia|exact H].
  Qed.
End Cycle.

Lemma forallb_nth_true : forall l : list bool,
  (forall j, j < length l -> nth j l false = true) -> forallb (fun b => b) l = true.
Proof.
  induction l as [|b l IH]; intro H; cbn [forallb]; [reflexivity|].
  rewrite (H 0 ltac:(cbn; lia) : b = true). cbn [andb]. apply IH.
  intros j Hj. apply (H (S j)). cbn. lia.
Qed.

(* a single cycle, given in any order with any flips: the call succeeds and returns the
   traversal that starts with the first input pair as given *)
Lemma sort_point_pairs_complete_cycle : forall lines chk perm os es,
  let n := length lines in
  Permutation perm (seq 0 n) -> length es = n ->
  (forall k, k < n -> nth k es dl = orient (nth (nth k perm 0) lines dl) (nth k os false)) ->
  (forall k, S k < n -> snd (nth k es dl) = fst (nth (S k) es dl)) ->
  fst (nth 0 es dl) = snd (nth (n - 1) es dl) ->
  NoDup (map fst es) ->
  (forall l, In l lines -> fst l <> snd l) ->
  nth 0 perm 0 = 0 /\ nth 0 os false = false ->
  1 <= n ->
  sort_point_pairs lines chk true = SOk es perm.
Proof.
  intros lines chk perm os es n Hperm Hel Hes Hchain Hclose Hnd Hnl Hstart Hn1.
  assert (Hl0 : exists l0 lr, lines = l0 :: lr).
  { destruct lines as [|l0 lr]; [cbn in n; lia|eauto]. }
  destruct Hl0 as (l0 & lr & El).
  assert (Hpos : 0 < length lines) by (unfold n in Hn1; lia).
  assert (E0 : nth 0 es dl = l0).
  { rewrite (Hes 0 ltac:(lia)). destruct Hstart as [-> ->]. rewrite El. reflexivity. }
  unfold sort_point_pairs. cbv zeta. cbn [negb]. fold n.
  match goal with |- match ?m with _ => _ end = _ =>
    replace m with (Some (l0, 0, chk)) by (rewrite El; reflexivity) end.
  match goal with |- context [sort_loop lines ?s 1 (n - 1)] => set (st0 := s) end.
  assert (A0 : along lines perm es st0 1).
  { unfold along, st0. cbn [s_sorted s_found s_prev s_ind].
    rewrite !set_nth_length, !map_length. fold n.
    refine (conj eq_refl (conj eq_refl (conj eq_refl (conj _ (conj _ (conj _ _)))))).
    - intros k Hk. assert (k = 0) by lia. subst k.
      rewrite nth_set_nth_eq by (rewrite map_length; unfold line in *; lia). symmetry. exact E0.
    - intros k Hk. assert (k = 0) by lia. subst k.
      rewrite nth_set_nth_eq by (rewrite map_length; unfold line in *; lia). symmetry. apply Hstart.
    - intros j Hj. destruct (Nat.eq_dec j 0) as [-> | N].
      + rewrite nth_set_nth_eq by (rewrite map_length; unfold line in *; lia).
        split; [intros _; exists 0; split; [lia|apply Hstart]|reflexivity].
      + rewrite nth_set_nth_neq by exact N. rewrite nth_map_false. split; [discriminate|].
        intros (k & Hk & Ek). assert (k = 0) by lia. subst k.
        destruct Hstart as [S0 _]. congruence.
    - cbn [Nat.sub]. rewrite E0. reflexivity. }
  pose proof (along_loop lines perm os es Hperm Hel Hes Hchain Hclose Hnd Hnl Hstart (n - 1) st0 1
                         ltac:(lia) ltac:(fold n; lia) A0) as A.
  replace (1 + (n - 1)) with n in A by lia.
  set (st := sort_loop lines st0 1 (n - 1)) in *.
  destruct A as (L1 & L2 & L3 & A1 & A2 & A3 & A4). fold n in L1, L2, L3.
  assert (AF : forallb (fun b => b) (s_found st) = true).
  { apply forallb_nth_true. intros j Hj. rewrite L2 in Hj. apply (A3 j Hj).
    apply (perm_surj lines perm os es Hperm Hel Hstart j Hj). }
  rewrite AF. cbn [negb].
  assert (EC : Z.eqb (fst l0) (snd (last (s_sorted st) (0, 0)%Z)) = true).
  { apply Z.eqb_eq. rewrite my_last_nth. change (0, 0)%Z with dl. rewrite L1, (A1 (n - 1)) by lia.
    rewrite <- E0. exact Hclose. }
  rewrite EC. cbn [negb]. rewrite andb_false_r.
  f_equal.
  - apply (nth_ext _ _ dl dl); [rewrite L1, Hel; reflexivity|].
    intros k Hk. rewrite L1 in Hk. apply A1. exact Hk.
  - apply (nth_ext _ _ 0 0); [rewrite L3; symmetry; apply (perm_len lines perm Hperm)|].
    intros k Hk. rewrite L3 in Hk. apply A2. exact Hk.
Qed.
