(* C27 — lemmas: the cached accessors of MortarProjections answer, in every call history,
   with the construction that belongs to the accessor. *)
From Coq Require Import List ZArith QArith Bool Arith Lia.
Import ListNotations.
From PP Require Import Model.C27 Model.C27_spec.
Local Open Scope nat_scope.

Lemma pkind_eqb_eq : forall a b, pkind_eqb a b = true -> a = b.
Proof. intros [] []; cbn; intros H; try reflexivity; discriminate H. Qed.

Lemma slot_eqb_eq : forall a b, slot_eqb a b = true -> a = b.
Proof.
  intros [] []; cbn; intros H; try reflexivity; try discriminate H.
  f_equal. now apply pkind_eqb_eq.
Qed.

Lemma slot_eqb_refl : forall a, slot_eqb a a = true.
Proof. intros [| | | |[]]; reflexivity. Qed.

Lemma same_slot : forall mp k k',
    conf_guard mp -> slot_of mp k = slot_of mp k' -> answer mp k = answer mp k'.
Proof.
  intros mp k k' (Hp & Hs). unfold slot_of, answer.
  destruct (mp_conf_p mp) eqn:Ep; destruct (mp_conf_s mp) eqn:Es;
    try (destruct (Hp eq_refl) as (E1 & E2)); try (destruct (Hs eq_refl) as (E3 & E4));
    destruct k, k'; cbn [k_is_primary k_to_mortar]; intros H;
    try reflexivity; try discriminate H; congruence.
Qed.

Definition with_cache (mp : mproj) (c : list (slot * mat)) : mproj :=
  mkMP (mp_sds mp) (mp_ifs mp) (mp_nd mp) (mp_loc mp) (mp_conf_p mp) (mp_conf_s mp) c.

Definition cache_ok (mp : mproj) : Prop :=
  forall s m, cache_get (mp_cache mp) s = Some m ->
              forall k, slot_of mp k = s -> answer mp k = Ok m.

Lemma mp_call_spec : forall mp k,
    conf_guard mp -> cache_ok mp ->
    snd (mp_call mp k) = answer mp k /\
    exists c, fst (mp_call mp k) = with_cache mp c /\ cache_ok (with_cache mp c).
Proof.
  intros mp k Hg Hok. unfold mp_call.
  destruct (cache_get (mp_cache mp) (slot_of mp k)) as [m|] eqn:Ec.
  - cbn [fst snd]. split; [symmetry; now apply (Hok _ _ Ec)|].
    exists (mp_cache mp). split; [now destruct mp|]. now destruct mp.
  - fold (answer mp k). destruct (answer mp k) as [m|e] eqn:Ea; cbn [fst snd].
    + split; [reflexivity|]. exists ((slot_of mp k, m) :: mp_cache mp). split; [reflexivity|].
      intros s m' Hget k' Hk'. cbn [with_cache mp_cache cache_get] in Hget.
      change (slot_of (with_cache mp ((slot_of mp k, m) :: mp_cache mp)) k') with (slot_of mp k') in Hk'.
      change (answer (with_cache mp ((slot_of mp k, m) :: mp_cache mp)) k') with (answer mp k').
      destruct (slot_eqb (slot_of mp k) s) eqn:Es.
      * apply slot_eqb_eq in Es. injection Hget as <-.
        rewrite <- Ea. apply same_slot; [exact Hg|congruence].
      * now apply (Hok s m' Hget).
    + split; [reflexivity|]. exists (mp_cache mp). split; [now destruct mp|]. now destruct mp.
Qed.

Lemma mp_run_spec : forall ks mp,
    conf_guard mp -> cache_ok mp -> mp_run mp ks = map (answer mp) ks.
Proof.
  induction ks as [|k ks IH]; intros mp Hg Hok; [reflexivity|].
  cbn [mp_run map].
  destruct (mp_call_spec mp k Hg Hok) as (Ho & c & Hmp & Hok').
  destruct (mp_call mp k) as [mp' o] eqn:Ecall. cbn [fst snd] in Ho, Hmp. subst.
  f_equal. rewrite IH; [reflexivity| |exact Hok'].
  exact Hg.
Qed.

Lemma cached_accessors : forall sds ifs nd loc ks,
    conf_guard (mp_init sds ifs nd loc) ->
    mp_run (mp_init sds ifs nd loc) ks
    = map (fun k => construct_projection sds ifs nd (k_to_mortar k) (k_is_primary k) (loc k)) ks.
Proof.
  intros sds ifs nd loc ks Hg.
  rewrite mp_run_spec; [reflexivity|exact Hg|].
  intros s m H. discriminate H.
Qed.

(* without the guard: weights within np.allclose of 1 on both flavours, but different *)
Lemma cached_accessors_refuted :
  exists sds ifs nd loc ks,
    mp_run (mp_init sds ifs nd loc) ks
    <> map (fun k => construct_projection sds ifs nd (k_to_mortar k) (k_is_primary k) (loc k)) ks.
Proof.
  exists [mkG 0 2 4 16], [mkI 0 0 1 1 1 [1]], 1,
    (fun k => match k with
              | M2P_int => [mkM 16 1 [(5, 0, 1%Q)]]
              | M2P_avg => [mkM 16 1 [(5, 0, (999999 # 1000000)%Q)]]
              | _ => []
              end),
    [M2P_int; M2P_avg].
  vm_compute. intro H. discriminate H.
Qed.
