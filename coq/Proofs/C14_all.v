(* C14 — the gluing theorem instantiated on the model's own family of subproblems. *)
From Coq Require Import List Arith Bool Lia Reals.
Import ListNotations.
From PP Require Import Model.C14.
Require PP.Proofs.C14 PP.Proofs.C14_graph.
Local Open Scope R_scope.

(* For every consistent grid, every number of parts, every partition vector and every
   choice of local matrices that are exact on the faces their subproblem is responsible
   for, the glued matrix is the one-piece matrix. *)
Theorem split_sum_on_grid : forall (G : Proofs.C14.lmat) (g : grid) (k : nat) (part : list nat)
                                   (ps : list Proofs.C14.part),
  grid_okb g = true -> length part = length (cell_nodes g) ->
  map fst ps = subproblems g k part ->
  Forall (Proofs.C14.local_ok G) ps ->
  forall f c, (f < length (face_nodes g))%nat ->
    Proofs.C14.assemble (length (face_nodes g)) ps f c = G f c.
Proof.
  intros G g k part ps GK LP E LO f c Hf.
  pose proof (Proofs.C14_graph.subproblems_family_ok g k part (Proofs.C14_graph.grid_okb_sound g GK) LP) as F.
  rewrite <- E in F. destruct (Proofs.C14.family_ok_sound _ ps F) as [OK COV].
  apply Proofs.C14.split_sum; assumption.
Qed.
