(* C45 — proofs: the key of an operator tree is a prefix code. *)
From Coq Require Import List ZArith Bool String Lia.
Import ListNotations.
From PP Require Import Model.C45.

(* ---------------------------------------------------------------------------------- *)
(* Operation names                                                                     *)
(* ---------------------------------------------------------------------------------- *)
Lemma opname_inj : forall o1 o2, opname o1 = opname o2 -> o1 = o2.
Proof. intros o1 o2 H; destruct o1; destruct o2; try reflexivity; discriminate H. Qed.

(* ---------------------------------------------------------------------------------- *)
(* Generic prefix-code argument                                                        *)
(* ---------------------------------------------------------------------------------- *)
Lemma opname_not_evaluate : forall o, opname o <> evaluate_name.
Proof. intros o; destruct o; discriminate. Qed.

(* induction principle for the nested tree type *)
Section TreeInd.
  Variable L : Type.
  Variable P : tree L -> Prop.
  Hypothesis HL : forall l, P (Leaf l).
  Hypothesis HB : forall o a b, P a -> P b -> P (Bin o a b).
  Hypothesis HE : forall f args, Forall P args -> P (Eval f args).

  Fixpoint tree_ind' (t : tree L) : P t :=
    match t with
    | Leaf l => HL l
    | Bin o a b => HB o a b (tree_ind' a) (tree_ind' b)
    | Eval f args =>
        HE f args ((fix go (l : list (tree L)) : Forall P l :=
                      match l with
                      | [] => Forall_nil P
                      | x :: r => Forall_cons x (tree_ind' x) (go r)
                      end) args)
    end.
End TreeInd.

Section Prefix.
  Variables (L T : Type) (leafkey : L -> T) (optok : string -> T) (functok : string -> nat -> T).
  Hypothesis leafkey_inj : forall a b, leafkey a = leafkey b -> a = b.
  Hypothesis optok_inj : forall s t, optok s = optok t -> s = t.
  Hypothesis functok_inj : forall f g n m, functok f n = functok g m -> f = g /\ n = m.
  Hypothesis leaf_not_op : forall a s, leafkey a <> optok s.

  Notation K := (key leafkey optok functok).

  Definition prefix_prop (t1 : tree L) : Prop :=
    forall t2 r1 r2, K t1 ++ r1 = K t2 ++ r2 -> t1 = t2 /\ r1 = r2.

  Lemma args_prefix :
    forall l1, Forall prefix_prop l1 ->
      forall l2 r1 r2, List.length l1 = List.length l2 ->
        flat_map K l1 ++ r1 = flat_map K l2 ++ r2 -> l1 = l2 /\ r1 = r2.
  Proof.
    induction 1 as [| x l1 Hx _ IH]; intros [| y l2] r1 r2 Hlen H; try discriminate Hlen.
    - cbn in H. auto.
    - cbn [flat_map] in H. rewrite <- !app_assoc in H.
      destruct (Hx y _ _ H) as [-> H'].
      injection Hlen as Hlen. destruct (IH l2 r1 r2 Hlen H') as [-> ->]. auto.
  Qed.

  Lemma key_prefix_all : forall t1, prefix_prop t1.
  Proof.
    apply tree_ind'; unfold prefix_prop.
    - intros l1 t2 r1 r2 H. destruct t2 as [l2 | o2 a2 b2 | f2 args2]; cbn in H.
      + injection H as Hk Hr. apply leafkey_inj in Hk. subst. auto.
      + injection H as Hk _. exfalso. eapply leaf_not_op; eauto.
      + injection H as Hk _. exfalso. eapply leaf_not_op; eauto.
    - intros o1 a1 b1 IHa IHb t2 r1 r2 H. destruct t2 as [l2 | o2 a2 b2 | f2 args2]; cbn in H.
      + injection H as Hk _. exfalso. eapply leaf_not_op; eauto.
      + injection H as Hk Hr. apply optok_inj in Hk. apply opname_inj in Hk. subst o2.
        rewrite <- !app_assoc in Hr.
        destruct (IHa a2 _ _ Hr) as [-> Hr']. destruct (IHb b2 _ _ Hr') as [-> Hr'']. auto.
      + injection H as Hk _. apply optok_inj in Hk. exfalso. eapply opname_not_evaluate; eauto.
    - intros f1 args1 IH t2 r1 r2 H. destruct t2 as [l2 | o2 a2 b2 | f2 args2]; cbn in H.
      + injection H as Hk _. exfalso. eapply leaf_not_op; eauto.
      + injection H as Hk _. apply optok_inj in Hk. exfalso.
        eapply opname_not_evaluate; eauto.
      + injection H as Hf Hr. apply functok_inj in Hf as [-> Hn].
        destruct (args_prefix args1 IH args2 r1 r2 Hn Hr) as [-> ->]. auto.
  Qed.

  Lemma key_injective_all : forall t1 t2, K t1 = K t2 -> t1 = t2.
  Proof.
    intros t1 t2 H. destruct (key_prefix_all t1 t2 [] []) as [Ht _];
      [now rewrite !app_nil_r | exact Ht].
  Qed.
End Prefix.

(* ---------------------------------------------------------------------------------- *)
(* Joining tokens with a separator (string level)                                      *)
(* ---------------------------------------------------------------------------------- *)
Section Join.
  Variables (A T : Type) (render : T -> list A) (sep : list A).
  (* no rendered token is a proper prefix of another rendered token *)
  Hypothesis prefix_free :
    forall x y r1 r2, render x ++ r1 = render y ++ r2 -> x = y.
  Hypothesis sep_nonempty : sep <> [].

  (* " ".join(tokens) *)
  Fixpoint join (ts : list T) : list A :=
    match ts with
    | [] => []
    | [x] => render x
    | x :: r => render x ++ sep ++ join r
    end.

  Lemma join_cons : forall x r, r <> [] -> join (x :: r) = render x ++ sep ++ join r.
  Proof. intros x r H; destruct r; [contradiction | reflexivity]. Qed.

  Lemma join_injective :
    forall ts1 ts2, ts1 <> [] -> ts2 <> [] -> join ts1 = join ts2 -> ts1 = ts2.
  Proof.
    induction ts1 as [| x r IH]; intros ts2 N1 N2 H; [contradiction|].
    destruct ts2 as [| y s]; [contradiction|].
    assert (x = y) as ->.
    { destruct r, s; cbn [join] in H.
      - apply (prefix_free x y [] []). now rewrite !app_nil_r.
      - apply (prefix_free x y [] (sep ++ join (t :: s))). now rewrite app_nil_r.
      - apply (prefix_free x y (sep ++ join (t :: r)) []). now rewrite app_nil_r.
      - eapply prefix_free; exact H. }
    f_equal.
    destruct r as [| r0 r], s as [| s0 s]; try reflexivity.
    - exfalso. cbn [join] in H.
      assert (render y ++ [] = render y ++ sep ++ join (s0 :: s)) as H' by now rewrite app_nil_r.
      apply app_inv_head in H'. symmetry in H'. apply app_eq_nil in H' as [H' _]. auto.
    - exfalso. cbn [join] in H.
      assert (render y ++ sep ++ join (r0 :: r) = render y ++ []) as H' by now rewrite app_nil_r.
      apply app_inv_head in H'. apply app_eq_nil in H' as [H' _]. auto.
    - rewrite !join_cons in H by discriminate.
      apply app_inv_head in H. apply app_inv_head in H.
      apply IH; [discriminate | discriminate | exact H].
  Qed.
End Join.

(* ---------------------------------------------------------------------------------- *)
(* Leaf keys of operators.py                                                           *)
(* ---------------------------------------------------------------------------------- *)
Section Leaves.
  Variable digest : Type.
  Variable sha : buffer -> digest.
  Hypothesis sha_inj : forall a b, sha a = sha b -> a = b.

  Lemma map_inj : forall (X Y : Type) (f : X -> Y), (forall a b, f a = f b -> a = b) ->
    forall l1 l2, map f l1 = map f l2 -> l1 = l2.
  Proof.
    intros X Y f Hf; induction l1 as [| a l1 IH]; intros [| b l2] H; try discriminate; auto.
    cbn in H. injection H as H1 H2. f_equal; auto.
  Qed.

  Lemma proj_key_inj : forall p q, proj_key digest sha p = proj_key digest sha q -> p = q.
  Proof.
    intros [r1 d1 ds1 rs1 t1] [r2 d2 ds2 rs2 t2] H. unfold proj_key in H; cbn in H.
    injection H as Hr Hd Hds Hrs Ht.
    apply sha_inj in Hr. apply sha_inj in Hd.
    unfold i64 in Hr, Hd. injection Hr as Hr. injection Hd as Hd. subst. reflexivity.
  Qed.

  Lemma leaf_key_inj : forall l1 l2, leaf_key digest sha l1 = leaf_key digest sha l2 -> l1 = l2.
  Proof.
    intros l1 l2 H; destruct l1; destruct l2; try discriminate H; unfold leaf_key in H.
    - injection H as ->. reflexivity.
    - injection H as -> Hh. apply sha_inj in Hh. subst. reflexivity.
    - injection H as -> -> Hh. apply (map_inj _ _ sha sha_inj) in Hh. subst. reflexivity.
    - injection H as -> -> -> ->. reflexivity.
    - injection H as -> -> -> -> ->. reflexivity.
    - injection H as -> -> -> -> ->. reflexivity.
    - assert (proj_key digest sha p = proj_key digest sha p0) as Hp by congruence.
      apply proj_key_inj in Hp. subst. reflexivity.
    - assert (map (proj_key digest sha) ps = map (proj_key digest sha) ps0) as Hp by congruence.
      apply (map_inj _ _ _ proj_key_inj) in Hp. subst. reflexivity.
    - injection H as -> -> -> -> -> ->. reflexivity.
    - injection H as -> ->. reflexivity.
  Qed.

  Lemma leaf_key_not_op : forall l s, leaf_key digest sha l <> TOp s.
  Proof. intros l s; destruct l; cbn; discriminate. Qed.

  Lemma top_inj : forall s t : string, @TOp digest s = TOp t -> s = t.
  Proof. intros s t H; injection H; auto. Qed.

  Lemma tfunc_inj : forall f g n m, @TFunc digest f n = TFunc g m -> f = g /\ n = m.
  Proof. intros f g n m H; injection H; auto. Qed.

  (* the key identifies the tree: all trees, function nodes included *)
  Lemma okey_injective :
    forall t1 t2 : tree leaf, okey digest sha t1 = okey digest sha t2 -> t1 = t2.
  Proof.
    intros t1 t2. unfold okey.
    apply key_injective_all;
      [exact leaf_key_inj | exact top_inj | exact tfunc_inj | exact leaf_key_not_op].
  Qed.

  Lemma okey_iff :
    forall t1 t2 : tree leaf, okey digest sha t1 = okey digest sha t2 <-> t1 = t2.
  Proof. intros t1 t2; split; [apply okey_injective | intros ->; reflexivity]. Qed.

  (* equal trees: equal keys and equal hashes, whatever the string hash is *)
  Lemma equal_trees_equal_keys :
    forall (H : Type) (hash : list (token digest) -> H) (t1 t2 : tree leaf),
      t1 = t2 ->
      okey digest sha t1 = okey digest sha t2 /\
      hash (okey digest sha t1) = hash (okey digest sha t2).
  Proof. intros H hash t1 t2 ->; split; reflexivity. Qed.

  (* a context: a path of operation / function nodes down to one hole *)
  Inductive frame :=
  | FBinL (o : binop) (s : tree leaf)                  (* Bin o [] s *)
  | FBinR (o : binop) (s : tree leaf)                  (* Bin o s [] *)
  | FEval (f : string) (before after : list (tree leaf)).

  Fixpoint plug (ctx : list frame) (t : tree leaf) : tree leaf :=
    match ctx with
    | [] => t
    | FBinL o s :: c => Bin o (plug c t) s
    | FBinR o s :: c => Bin o s (plug c t)
    | FEval f bf af :: c => Eval f (bf ++ plug c t :: af)
    end.

  Lemma plug_inj : forall ctx t1 t2, plug ctx t1 = plug ctx t2 -> t1 = t2.
  Proof.
    induction ctx as [| fr c IH]; intros t1 t2 H; cbn in H; [exact H|].
    destruct fr; injection H as H; auto.
    apply app_inv_head in H. injection H as H. auto.
  Qed.

  Lemma distinct_leaves_distinct_keys :
    forall ctx l1 l2, l1 <> l2 ->
      okey digest sha (plug ctx (Leaf l1)) <> okey digest sha (plug ctx (Leaf l2)).
  Proof.
    intros ctx l1 l2 Hne Hk. apply okey_injective in Hk.
    apply plug_inj in Hk. injection Hk as Hk. auto.
  Qed.
End Leaves.

(* ---------------------------------------------------------------------------------- *)
(* Function-evaluation nodes: the collisions of the key before the repair                *)
(* ---------------------------------------------------------------------------------- *)
Definition wit_x : tree leaf := Leaf (LVar "x" 0 0 (-1) (-1)).
Definition wit_y : tree leaf := Leaf (LVar "y" 0 0 (-1) (-1)).

(* the key construction before the repair: neither function nor arity *)
Fixpoint old_key {L T} (leafkey : L -> T) (optok : string -> T) (t : tree L) : list T :=
  match t with
  | Leaf l => [leafkey l]
  | Bin o a b => optok (opname o) :: old_key leafkey optok a ++ old_key leafkey optok b
  | Eval f args => optok evaluate_name :: flat_map (old_key leafkey optok) args
  end.

Lemma old_key_collisions :
  forall (digest : Type) (sha : buffer -> digest),
    let ok := old_key (leaf_key digest sha) TOp in
    (Eval "exp" [wit_x] <> Eval "log" [wit_x] /\
     ok (Eval "exp" [wit_x]) = ok (Eval "log" [wit_x])) /\
    (Eval "f" [Eval "g" [wit_x]; wit_y] <> Eval "f" [Eval "g" [wit_x; wit_y]] /\
     ok (Eval "f" [Eval "g" [wit_x]; wit_y]) = ok (Eval "f" [Eval "g" [wit_x; wit_y]])).
Proof. intros; repeat split; try discriminate; reflexivity. Qed.

(* ---------------------------------------------------------------------------------- *)
(* The executable comparison used by the correspondence decides key equality           *)
(* ---------------------------------------------------------------------------------- *)
Lemma key_eqb_spec : forall t1 t2, key_eqb t1 t2 = true <-> ikey t1 = ikey t2.
Proof.
  intros t1 t2; unfold key_eqb.
  destruct (list_eq_dec itoken_eq_dec (ikey t1) (ikey t2)); split; auto; discriminate.
Qed.

Lemma key_eqb_is_tree_equality :
  forall t1 t2, key_eqb t1 t2 = true <-> t1 = t2.
Proof.
  intros t1 t2. rewrite key_eqb_spec. unfold ikey. apply okey_iff. intros a b H; exact H.
Qed.
