(* C45 — proofs: the key of an operator tree is a prefix code. *)
From Coq Require Import List ZArith Bool String Lia.
Import ListNotations.
From PP Require Import Model.C45.

(* ---------------------------------------------------------------------------------- *)
(* Operation names                                                                     *)
(* ---------------------------------------------------------------------------------- *)
Lemma opname_inj : forall o1 o2, opname o1 = opname o2 -> o1 = o2.
Proof. intros o1 o2 H; destruct o1; destruct o2; try reflexivity; discriminate H. Qed.

(* ---------------------------------------------------------------------------------- *)
(* Generic prefix-code argument                                                        *)
(* ---------------------------------------------------------------------------------- *)
Section Prefix.
  Variables (L T : Type) (leafkey : L -> T) (optok : string -> T).
  Hypothesis leafkey_inj : forall a b, leafkey a = leafkey b -> a = b.
  Hypothesis optok_inj : forall s t, optok s = optok t -> s = t.
  Hypothesis leaf_not_op : forall a s, leafkey a <> optok s.

  Lemma key_prefix :
    forall t1 t2 r1 r2,
      eval_free t1 = true -> eval_free t2 = true ->
      key leafkey optok t1 ++ r1 = key leafkey optok t2 ++ r2 ->
      t1 = t2 /\ r1 = r2.
  Proof.
    induction t1 as [l1 | o1 a1 IHa b1 IHb | f1 args1]; intros t2 r1 r2 E1 E2 H.
    - destruct t2 as [l2 | o2 a2 b2 | f2 args2]; cbn in *.
      + injection H as Hk Hr. apply leafkey_inj in Hk. subst. auto.
      + injection H as Hk _. exfalso. eapply leaf_not_op; eauto.
      + discriminate E2.
    - destruct t2 as [l2 | o2 a2 b2 | f2 args2]; cbn in *.
      + injection H as Hk _. exfalso. eapply leaf_not_op; eauto.
      + injection H as Hk Hr.
        apply optok_inj in Hk. apply opname_inj in Hk. subst o2.
        apply andb_true_iff in E1 as [Ea1 Eb1]. apply andb_true_iff in E2 as [Ea2 Eb2].
        rewrite <- !app_assoc in Hr.
        destruct (IHa a2 _ _ Ea1 Ea2 Hr) as [-> Hr'].
        destruct (IHb b2 _ _ Eb1 Eb2 Hr') as [-> Hr''].
        auto.
      + discriminate E2.
    - discriminate E1.
  Qed.

  Lemma key_injective :
    forall t1 t2, eval_free t1 = true -> eval_free t2 = true ->
      key leafkey optok t1 = key leafkey optok t2 -> t1 = t2.
  Proof.
    intros t1 t2 E1 E2 H.
    destruct (key_prefix t1 t2 [] [] E1 E2) as [Ht _]; [now rewrite !app_nil_r | exact Ht].
  Qed.
End Prefix.

(* ---------------------------------------------------------------------------------- *)
(* Joining tokens with a separator (string level)                                      *)
(* ---------------------------------------------------------------------------------- *)
Section Join.
  Variables (A T : Type) (render : T -> list A) (sep : list A).
  (* no rendered token is a proper prefix of another rendered token *)
  Hypothesis prefix_free :
    forall x y r1 r2, render x ++ r1 = render y ++ r2 -> x = y.
  Hypothesis sep_nonempty : sep <> [].

  (* " ".join(tokens) *)
  Fixpoint join (ts : list T) : list A :=
    match ts with
    | [] => []
    | [x] => render x
    | x :: r => render x ++ sep ++ join r
    end.

  Lemma join_cons : forall x r, r <> [] -> join (x :: r) = render x ++ sep ++ join r.
  Proof. intros x r H; destruct r; [contradiction | reflexivity]. Qed.

  Lemma join_injective :
    forall ts1 ts2, ts1 <> [] -> ts2 <> [] -> join ts1 = join ts2 -> ts1 = ts2.
  Proof.
    induction ts1 as [| x r IH]; intros ts2 N1 N2 H; [contradiction|].
    destruct ts2 as [| y s]; [contradiction|].
    assert (x = y) as ->.
    { destruct r, s; cbn [join] in H.
      - apply (prefix_free x y [] []). now rewrite !app_nil_r.
      - apply (prefix_free x y [] (sep ++ join (t :: s))). now rewrite app_nil_r.
      - apply (prefix_free x y (sep ++ join (t :: r)) []). now rewrite app_nil_r.
      - eapply prefix_free; exact H. }
    f_equal.
    destruct r as [| r0 r], s as [| s0 s]; try reflexivity.
    - exfalso. cbn [join] in H.
      assert (render y ++ [] = render y ++ sep ++ join (s0 :: s)) as H' by now rewrite app_nil_r.
      apply app_inv_head in H'. symmetry in H'. apply app_eq_nil in H' as [H' _]. auto.
    - exfalso. cbn [join] in H.
      assert (render y ++ sep ++ join (r0 :: r) = render y ++ []) as H' by now rewrite app_nil_r.
      apply app_inv_head in H'. apply app_eq_nil in H' as [H' _]. auto.
    - rewrite !join_cons in H by discriminate.
      apply app_inv_head in H. apply app_inv_head in H.
      apply IH; [discriminate | discriminate | exact H].
  Qed.
End Join.

(* ---------------------------------------------------------------------------------- *)
(* Leaf keys of operators.py                                                           *)
(* ---------------------------------------------------------------------------------- *)
Section Leaves.
  Variable digest : Type.
  Variable sha : buffer -> digest.
  Hypothesis sha_inj : forall a b, sha a = sha b -> a = b.

  Lemma map_inj : forall (X Y : Type) (f : X -> Y), (forall a b, f a = f b -> a = b) ->
    forall l1 l2, map f l1 = map f l2 -> l1 = l2.
  Proof.
    intros X Y f Hf; induction l1 as [| a l1 IH]; intros [| b l2] H; try discriminate; auto.
    cbn in H. injection H as H1 H2. f_equal; auto.
  Qed.

  Lemma proj_key_inj : forall p q, proj_key digest sha p = proj_key digest sha q -> p = q.
  Proof.
    intros [r1 d1 ds1 rs1 t1] [r2 d2 ds2 rs2 t2] H. unfold proj_key in H; cbn in H.
    injection H as Hr Hd Hds Hrs Ht.
    apply sha_inj in Hr. apply sha_inj in Hd.
    unfold i64 in Hr, Hd. injection Hr as Hr. injection Hd as Hd. subst. reflexivity.
  Qed.

  Lemma leaf_key_inj : forall l1 l2, leaf_key digest sha l1 = leaf_key digest sha l2 -> l1 = l2.
  Proof.
    intros l1 l2 H; destruct l1; destruct l2; try discriminate H; unfold leaf_key in H.
    - injection H as ->. reflexivity.
    - injection H as -> Hh. apply sha_inj in Hh. subst. reflexivity.
    - injection H as -> -> Hh. apply (map_inj _ _ sha sha_inj) in Hh. subst. reflexivity.
    - injection H as -> -> ->. reflexivity.
    - injection H as -> -> -> ->. reflexivity.
    - injection H as -> -> -> ->. reflexivity.
    - assert (proj_key digest sha p = proj_key digest sha p0) as Hp by congruence.
      apply proj_key_inj in Hp. subst. reflexivity.
    - assert (map (proj_key digest sha) ps = map (proj_key digest sha) ps0) as Hp by congruence.
      apply (map_inj _ _ _ proj_key_inj) in Hp. subst. reflexivity.
  Qed.

  Lemma leaf_key_not_op : forall l s, leaf_key digest sha l <> TOp s.
  Proof. intros l s; destruct l; cbn; discriminate. Qed.

  Lemma top_inj : forall s t : string, @TOp digest s = TOp t -> s = t.
  Proof. intros s t H; injection H; auto. Qed.

  (* trees without function-evaluation nodes: the key identifies the tree *)
  Lemma okey_injective_eval_free :
    forall t1 t2 : tree leaf, eval_free t1 = true -> eval_free t2 = true ->
      okey digest sha t1 = okey digest sha t2 -> t1 = t2.
  Proof.
    intros t1 t2. unfold okey.
    apply key_injective; [exact leaf_key_inj | exact top_inj | exact leaf_key_not_op].
  Qed.

  Lemma okey_iff :
    forall t1 t2 : tree leaf, eval_free t1 = true -> eval_free t2 = true ->
      (okey digest sha t1 = okey digest sha t2 <-> t1 = t2).
  Proof.
    intros t1 t2 E1 E2; split; [apply okey_injective_eval_free; assumption | intros ->; reflexivity].
  Qed.

  (* equal trees: equal keys and equal hashes, whatever the string hash is *)
  Lemma equal_trees_equal_keys :
    forall (H : Type) (hash : list (token digest) -> H) (t1 t2 : tree leaf),
      t1 = t2 ->
      okey digest sha t1 = okey digest sha t2 /\
      hash (okey digest sha t1) = hash (okey digest sha t2).
  Proof. intros H hash t1 t2 ->; split; reflexivity. Qed.

  (* the three collisions of the unrepaired code, now excluded, inside any context *)
  Fixpoint plug (ctx : list (binop * bool * tree leaf)) (t : tree leaf) : tree leaf :=
    match ctx with
    | [] => t
    | (o, true, s) :: c => Bin o (plug c t) s
    | (o, false, s) :: c => Bin o s (plug c t)
    end.

  Lemma plug_eval_free : forall ctx t,
      forallb (fun x => eval_free (snd x)) ctx = true -> eval_free t = true ->
      eval_free (plug ctx t) = true.
  Proof.
    induction ctx as [| [[o b] s] c IH]; intros t Hc Ht; cbn in *; [exact Ht|].
    apply andb_true_iff in Hc as [Hs Hc]. destruct b; cbn; rewrite (IH t Hc Ht), Hs; reflexivity.
  Qed.

  Lemma plug_inj : forall ctx t1 t2, plug ctx t1 = plug ctx t2 -> t1 = t2.
  Proof.
    induction ctx as [| [[o b] s] c IH]; intros t1 t2 H; cbn in H; [exact H|].
    destruct b; injection H as H; auto.
  Qed.

  Lemma distinct_leaves_distinct_keys :
    forall ctx l1 l2,
      forallb (fun x => eval_free (snd x)) ctx = true -> l1 <> l2 ->
      okey digest sha (plug ctx (Leaf l1)) <> okey digest sha (plug ctx (Leaf l2)).
  Proof.
    intros ctx l1 l2 Hc Hne Hk.
    apply okey_injective_eval_free in Hk; try (apply plug_eval_free; auto).
    apply plug_inj in Hk. injection Hk as Hk. auto.
  Qed.
End Leaves.

(* ---------------------------------------------------------------------------------- *)
(* Function-evaluation nodes: the key does not identify the tree                       *)
(* ---------------------------------------------------------------------------------- *)
Definition wit_x : tree leaf := Leaf (LVar "x" 0 (-1) (-1)).
Definition wit_y : tree leaf := Leaf (LVar "y" 0 (-1) (-1)).

Lemma eval_function_collision :
  forall (digest : Type) (sha : buffer -> digest),
    Eval "exp" [wit_x] <> Eval "log" [wit_x] /\
    okey digest sha (Eval "exp" [wit_x]) = okey digest sha (Eval "log" [wit_x]).
Proof. intros; split; [discriminate | reflexivity]. Qed.

Lemma eval_arity_collision :
  forall (digest : Type) (sha : buffer -> digest),
    Eval "f" [Eval "g" [wit_x]; wit_y] <> Eval "f" [Eval "g" [wit_x; wit_y]] /\
    okey digest sha (Eval "f" [Eval "g" [wit_x]; wit_y])
    = okey digest sha (Eval "f" [Eval "g" [wit_x; wit_y]]).
Proof. intros; split; [discriminate | reflexivity]. Qed.

(* ---------------------------------------------------------------------------------- *)
(* The executable comparison used by the correspondence decides key equality           *)
(* ---------------------------------------------------------------------------------- *)
Lemma key_eqb_spec : forall t1 t2, key_eqb t1 t2 = true <-> ikey t1 = ikey t2.
Proof.
  intros t1 t2; unfold key_eqb.
  destruct (list_eq_dec itoken_eq_dec (ikey t1) (ikey t2)); split; auto; discriminate.
Qed.

Lemma key_eqb_is_tree_equality :
  forall t1 t2, eval_free t1 = true -> eval_free t2 = true ->
    (key_eqb t1 t2 = true <-> t1 = t2).
Proof.
  intros t1 t2 E1 E2. rewrite key_eqb_spec. unfold ikey.
  apply okey_iff; auto.
Qed.
