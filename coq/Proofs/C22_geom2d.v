(* C22 — the 2-D geometry model of C19 (PP.Model.C19, transcription of
   Grid._compute_geometry_2d) evaluated on an extracted subgrid equals the parent's
   geometry on the extracted cells and faces. *)
From Coq Require Import List ZArith QArith Bool Arith Lia Sorted Permutation.
Import ListNotations.
From PP Require Import Model.C22 Proofs.C22 Model.C19 Model.C22_geom.
Close Scope Q_scope.

Lemma filter_map_tag (cl : list (nat * Z)) (j c : nat) :
  filter (fun x : nat * nat * Z => Nat.eqb (snd (fst x)) c) (map (fun e : nat * Z => (fst e, j, snd e)) cl)
  = if j =? c then map (fun e : nat * Z => (fst e, j, snd e)) cl else [].
Proof.
  induction cl as [|e t IH]; [destruct (j =? c); reflexivity|].
  cbn [map filter fst snd]. rewrite IH. destruct (j =? c); reflexivity.
Qed.

Lemma filter_tagged (cf : csc) (c : nat) : forall s n,
  filter (fun x : nat * nat * Z => Nat.eqb (snd (fst x)) c)
         (flat_map (fun j => map (fun e : nat * Z => (fst e, j, snd e)) (nth j cf [])) (seq s n))
  = if (s <=? c) && (c <? s + n) then map (fun e : nat * Z => (fst e, c, snd e)) (nth c cf []) else [].
Proof.
  intros s n. revert s. induction n as [|n IH]; intros s.
  - cbn [seq flat_map filter]. destruct ((s <=? c) && (c <? s + 0)) eqn:E; [|reflexivity].
    apply andb_true_iff in E. destruct E as [E1 E2].
    apply Nat.leb_le in E1. apply Nat.ltb_lt in E2. lia.
  - cbn [seq flat_map]. rewrite filter_app, IH.
    rewrite filter_map_tag.
    destruct (Nat.eq_dec s c) as [->|Hne].
    + rewrite Nat.eqb_refl.
      replace (S c <=? c) with false by (symmetry; apply Nat.leb_gt; lia).
      replace (c <=? c) with true by (symmetry; apply Nat.leb_le; lia).
      replace (c <? c + S n) with true by (symmetry; apply Nat.ltb_lt; lia).
      cbn. apply app_nil_r.
    + replace (s =? c) with false by (symmetry; apply Nat.eqb_neq; exact Hne).
      cbn [app]. destruct (S s <=? c) eqn:E1; destruct (s <=? c) eqn:E2;
        destruct (c <? S s + n) eqn:E3; destruct (c <? s + S n) eqn:E4; try reflexivity;
        repeat match goal with
               | H : (_ <=? _) = true |- _ => apply Nat.leb_le in H
               | H : (_ <=? _) = false |- _ => apply Nat.leb_gt in H
               | H : (_ <? _) = true |- _ => apply Nat.ltb_lt in H
               | H : (_ <? _) = false |- _ => apply Nat.ltb_ge in H
               end; lia.
Qed.

Lemma cell_entries_to_grid2 nodes cf fn c :
  c < length cf -> cell_entries (to_grid2 nodes cf fn) c = nth c cf [].
Proof.
  intros H. unfold cell_entries, to_grid2, cf_entries. cbn [g_cf].
  rewrite filter_tagged.
  replace ((0 <=? c) && (c <? 0 + length cf)) with true
    by (symmetry; apply andb_true_iff; split; [apply Nat.leb_le; lia|apply Nat.ltb_lt; lia]).
  rewrite map_map. cbn [fst snd]. rewrite <- (map_id (nth c cf [])) at 2.
  apply map_ext. intros [f s]. reflexivity.
Qed.

Lemma faces_to_grid2 nodes cf fn f :
  nth f (g_faces (to_grid2 nodes cf fn)) (0, 0) = pair_of (nth f fn []).
Proof.
  unfold to_grid2. cbn [g_faces]. change (0, 0) with (pair_of []). apply map_nth.
Qed.

Definition two_nodes (fn : csc) (fs : list nat) : Prop :=
  forall f, In f fs -> length (nth f fn []) = 2.

Section Sub.
  Variables (nodes : list pt) (cf fn : csc) (sg : subgrid).
  Hypothesis Hm : maps_ok cf fn sg.
  Hypothesis H2 : two_nodes fn (sg_faces sg).

  Let g := to_grid2 nodes cf fn.
  Let g' := to_grid2 (take_nodes (0%Q, 0%Q) nodes (sg_nodes sg)) (sg_cf sg) (sg_fn sg).

  Lemma relabel_nth u (c : col) k :
    k < length c ->
    nth k (relabel u c) (0, 0%Z) = (nth (fst (nth k c (0, 0%Z))) u 0, snd (nth k c (0, 0%Z))).
  Proof. intros H. unfold relabel. rewrite (nth_map_lt _ c k (0, 0%Z) (0, 0%Z) H). reflexivity. Qed.

  Lemma face_of_sub j s :
    j < length (sg_faces sg) -> face_of g' j s = face_of g (nth j (sg_faces sg) 0) s.
  Proof.
    intros Hj. unfold face_of. unfold g, g'. rewrite !faces_to_grid2.
    pose proof (mo_face_cols _ _ _ Hm j Hj) as Hrel.
    pose proof (H2 _ (nth_In _ 0 Hj)) as Hlen.
    rewrite <- Hrel in Hlen. unfold relabel in Hlen. rewrite map_length in Hlen.
    rewrite <- Hrel. unfold pair_of.
    rewrite !relabel_nth by lia. cbn [fst snd].
    unfold node, to_grid2. cbn [g_nodes].
    assert (Hloc : forall k, k < 2 ->
              fst (nth k (nth j (sg_fn sg) []) (0, 0%Z)) < length (sg_nodes sg)).
    { intros k Hk. apply (mo_local_nodes _ _ _ Hm j _ Hj). apply nth_In. lia. }
    unfold take_nodes.
    rewrite (nth_map_lt _ (sg_nodes sg) _ 0 (0%Q, 0%Q) (Hloc 0 ltac:(lia))).
    rewrite (nth_map_lt _ (sg_nodes sg) _ 0 (0%Q, 0%Q) (Hloc 1 ltac:(lia))).
    reflexivity.
  Qed.

  Lemma cell_sfaces_sub i :
    i < length (sg_cells sg) -> cell_sfaces g' i = cell_sfaces g (nth i (sg_cells sg) 0).
  Proof.
    intros Hi. unfold cell_sfaces, g, g'.
    rewrite cell_entries_to_grid2 by (rewrite (mo_ncells _ _ _ Hm); exact Hi).
    assert (Hc : nth i (sg_cells sg) 0 < length cf).
    { pose proof (mo_cells_in _ _ _ Hm) as HF. rewrite Forall_forall in HF. apply HF, nth_In, Hi. }
    rewrite cell_entries_to_grid2 by exact Hc.
    rewrite <- (mo_cell_cols _ _ _ Hm i Hi). unfold relabel. rewrite map_map.
    apply map_ext_in. intros e He. cbn [fst snd].
    apply face_of_sub. apply (mo_local_faces _ _ _ Hm i e Hi He).
  Qed.
End Sub.

(* everything _compute_geometry_2d computes per face and per cell (for any orientation sign
   sigma of the plane) coincides on the subgrid and on the parent *)
Theorem geometry2_entities (nodes : list pt) (cf fn : csc) (c : cells) (sort : bool) (sg : subgrid) :
  extract_subgrid cf fn c sort = Ok sg ->
  two_nodes fn (sg_faces sg) ->
  let g := to_grid2 nodes cf fn in
  let g' := to_grid2 (take_nodes (0%Q, 0%Q) nodes (sg_nodes sg)) (sg_cf sg) (sg_fn sg) in
  (forall j, j < length (sg_faces sg) ->
     let e' := face_of g' j 1%Z in let e := face_of g (nth j (sg_faces sg) 0) 1%Z in
     e' = e /\ farea2 e' = farea2 e /\ fcenter e' = fcenter e /\
     forall sigma, fnormal sigma e' = fnormal sigma e) /\
  (forall i, i < length (sg_cells sg) ->
     let es' := cell_sfaces g' i in let es := cell_sfaces g (nth i (sg_cells sg) 0) in
     es' = es /\
     forall sigma, cell_volume sigma (temp_center es') es' = cell_volume sigma (temp_center es) es /\
                   cell_center sigma (temp_center es') es' = cell_center sigma (temp_center es) es).
Proof.
  intros H Htwo g g'. apply extract_subgrid_cells in H. destruct H as [_ [_ [_ Hm]]]. split.
  - intros j Hj e' e.
    assert (E : e' = e) by (apply (face_of_sub nodes cf fn sg Hm Htwo j 1%Z Hj)).
    rewrite E. repeat split; reflexivity.
  - intros i Hi es' es.
    assert (E : es' = es) by (apply (cell_sfaces_sub nodes cf fn sg Hm Htwo i Hi)).
    rewrite E. repeat split; reflexivity.
Qed.

(* ------------------------------------------------------------------------------------ *)
(* the whole result of the oriented branch, global decisions included *)
Lemma cf_entries_In cf f c s :
  In (f, c, s) (cf_entries cf) <-> c < length cf /\ In (f, s) (nth c cf []).
Proof.
  unfold cf_entries. rewrite in_flat_map. split.
  - intros [j [Hj Hin]]. apply in_seq in Hj. apply in_map_iff in Hin.
    destruct Hin as [[f0 s0] [E Hin]]. cbn in E. inversion E; subst. split; [lia|exact Hin].
  - intros [Hc Hin]. exists c. split; [apply in_seq; lia|].
    apply in_map_iff. exists (f, s). split; [reflexivity|exact Hin].
Qed.

Lemma sorted_nth_lt (u : list nat) : StronglySorted lt u ->
  forall i j, i < j -> j < length u -> nth i u 0 < nth j u 0.
Proof.
  induction 1 as [|a t Hs IH Hf]; intros i j Hij Hj; cbn [length] in Hj; [lia|].
  destruct j as [|j]; [lia|]. destruct i as [|i]; cbn [nth].
  - rewrite Forall_forall in Hf. apply Hf, nth_In. lia.
  - apply IH; lia.
Qed.

Lemma sorted_nth_inj (u : list nat) : StronglySorted lt u ->
  forall i j, i < length u -> j < length u -> nth i u 0 = nth j u 0 -> i = j.
Proof.
  intros Hs i j Hi Hj E. destruct (lt_eq_lt_dec i j) as [[H|H]|H]; [|exact H|].
  - pose proof (sorted_nth_lt u Hs i j H Hj). lia.
  - pose proof (sorted_nth_lt u Hs j i H Hi). lia.
Qed.

Lemma count_map_inj (u : nat -> nat) (l : list nat) (x : nat) :
  (forall y, In y l -> u y = u x -> y = x) -> count (map u l) (u x) = count l x.
Proof.
  unfold count. induction l as [|a t IH]; intros H; [reflexivity|].
  cbn [map count_occ]. destruct (Nat.eq_dec (u a) (u x)) as [E|E]; destruct (Nat.eq_dec a x) as [E'|E'].
  - f_equal. apply IH. intros y Hy. apply H. right. exact Hy.
  - exfalso. apply E'. apply H; [left; reflexivity|exact E].
  - exfalso. apply E. rewrite E'. reflexivity.
  - apply IH. intros y Hy. apply H. right. exact Hy.
Qed.

Section Global.
  Variables (nodes : list pt) (cf fn : csc) (sg : subgrid).
  Hypothesis Hm : maps_ok cf fn sg.
  Hypothesis H2 : two_nodes fn (sg_faces sg).

  Let g := to_grid2 nodes cf fn.
  Let g' := to_grid2 (take_nodes (0%Q, 0%Q) nodes (sg_nodes sg)) (sg_cf sg) (sg_fn sg).
  Let u := fun n => nth n (sg_nodes sg) 0.

  Lemma sub_entry_parent i e :
    i < length (sg_cells sg) -> In e (nth i (sg_cf sg) []) ->
    In (nth (fst e) (sg_faces sg) 0, snd e) (nth (nth i (sg_cells sg) 0) cf []).
  Proof.
    intros Hi He. rewrite <- (mo_cell_cols _ _ _ Hm i Hi). unfold relabel.
    apply in_map_iff. exists e. split; [reflexivity|exact He].
  Qed.

  Lemma cell_in_range i : i < length (sg_cells sg) -> nth i (sg_cells sg) 0 < length cf.
  Proof.
    intros Hi. pose proof (mo_cells_in _ _ _ Hm) as HF. rewrite Forall_forall in HF.
    apply HF, nth_In, Hi.
  Qed.

  (* the two local nodes of a local face, and their parents *)
  Lemma local_pair j :
    j < length (sg_faces sg) ->
    let p' := pair_of (nth j (sg_fn sg) []) in
    fst p' < length (sg_nodes sg) /\ snd p' < length (sg_nodes sg) /\
    pair_of (nth (nth j (sg_faces sg) 0) fn []) = (u (fst p'), u (snd p')).
  Proof.
    intros Hj p'.
    pose proof (mo_face_cols _ _ _ Hm j Hj) as Hrel.
    pose proof (H2 _ (nth_In _ 0 Hj)) as Hlen.
    rewrite <- Hrel in Hlen. unfold relabel in Hlen. rewrite map_length in Hlen.
    assert (Hloc : forall k, k < 2 ->
              fst (nth k (nth j (sg_fn sg) []) (0, 0%Z)) < length (sg_nodes sg)).
    { intros k Hk. apply (mo_local_nodes _ _ _ Hm j _ Hj). apply nth_In. lia. }
    split; [apply (Hloc 0); lia|]. split; [apply (Hloc 1); lia|].
    rewrite <- Hrel. unfold pair_of, p', pair_of. rewrite !relabel_nth by lia. reflexivity.
  Qed.

  Lemma oedge_sub i e :
    i < length (sg_cells sg) -> In e (nth i (sg_cf sg) []) ->
    let o' := oedge_idx g' e in
    fst o' < length (sg_nodes sg) /\ snd o' < length (sg_nodes sg) /\
    oedge_idx g (nth (fst e) (sg_faces sg) 0, snd e) = (u (fst o'), u (snd o')).
  Proof.
    intros Hi He o'.
    pose proof (mo_local_faces _ _ _ Hm i e Hi He) as Hf.
    destruct (local_pair (fst e) Hf) as [L1 [L2 L3]].
    unfold o', oedge_idx, g, g'. rewrite !faces_to_grid2. cbn [fst snd]. rewrite L3.
    destruct (0 <? snd e)%Z; cbn [fst snd]; auto.
  Qed.

  Lemma balanced_sub i :
    i < length (sg_cells sg) -> balanced g' i = balanced g (nth i (sg_cells sg) 0).
  Proof.
    intros Hi. unfold balanced.
    assert (E1 : cell_entries g' i = nth i (sg_cf sg) []).
    { unfold g'. apply cell_entries_to_grid2. rewrite (mo_ncells _ _ _ Hm). exact Hi. }
    assert (E2 : cell_entries g (nth i (sg_cells sg) 0)
                 = map (fun e => (nth (fst e) (sg_faces sg) 0, snd e)) (nth i (sg_cf sg) [])).
    { unfold g. rewrite cell_entries_to_grid2 by (apply cell_in_range, Hi).
      rewrite <- (mo_cell_cols _ _ _ Hm i Hi). reflexivity. }
    set (cl := nth i (sg_cf sg) []) in *.
    set (es' := map (oedge_idx g') cl).
    assert (Hes' : map (oedge_idx g) (cell_entries g (nth i (sg_cells sg) 0))
                   = map (fun p => (u (fst p), u (snd p))) es').
    { rewrite E2. unfold es'. rewrite !map_map. apply map_ext_in. intros e He.
      apply (oedge_sub i e Hi He). }
    rewrite E1. fold es'.
    rewrite Hes'. rewrite !map_map. cbn [fst snd].
    assert (HA : map (fun x => u (fst x)) es' = map u (map fst es')) by (rewrite map_map; reflexivity).
    assert (HB : map (fun x => u (snd x)) es' = map u (map snd es')) by (rewrite map_map; reflexivity).
    rewrite HA, HB, <- map_app.
    assert (Hrange : forall n, In n (map fst es' ++ map snd es') -> n < length (sg_nodes sg)).
    { intros n Hn. apply in_app_or in Hn. unfold es' in Hn. rewrite !map_map in Hn.
      destruct Hn as [Hn|Hn]; apply in_map_iff in Hn; destruct Hn as [e [<- He]];
        apply (oedge_sub i e Hi He). }
    assert (Hinj : forall l n, (forall y, In y l -> y < length (sg_nodes sg)) ->
                     n < length (sg_nodes sg) -> count (map u l) (u n) = count l n).
    { intros l n Hl Hn. apply count_map_inj. intros y Hy E.
      apply (sorted_nth_inj _ (mo_nodes_sorted _ _ _ Hm) y n (Hl y Hy) Hn E). }
    assert (HfA : forall y, In y (map fst es') -> y < length (sg_nodes sg))
      by (intros y Hy; apply Hrange, in_or_app; left; exact Hy).
    assert (HfB : forall y, In y (map snd es') -> y < length (sg_nodes sg))
      by (intros y Hy; apply Hrange, in_or_app; right; exact Hy).
    assert (Haux : forall L, (forall n, In n L -> n < length (sg_nodes sg)) ->
       forallb (fun n => count (map u (map fst es')) n =? count (map u (map snd es')) n) (map u L)
       = forallb (fun n => count (map fst es') n =? count (map snd es') n) L).
    { induction L as [|n t IHL]; intros HL; [reflexivity|].
      cbn [map forallb]. rewrite (Hinj _ n HfA) by (apply HL; left; reflexivity).
      rewrite (Hinj _ n HfB) by (apply HL; left; reflexivity).
      rewrite IHL by (intros y Hy; apply HL; right; exact Hy). reflexivity. }
    symmetry. apply Haux, Hrange.
  Qed.

  Lemma oriented_sub : oriented1 g = true -> oriented1 g' = true.
  Proof.
    unfold oriented1. intros H. apply andb_true_iff in H. destruct H as [Hs Hb].
    rewrite forallb_forall in Hs, Hb. apply andb_true_iff. split; apply forallb_forall.
    - intros [[f' i] s] Hin. unfold g', to_grid2 in Hin. cbn [g_cf] in Hin.
      apply cf_entries_In in Hin. destruct Hin as [Hi Hin].
      rewrite (mo_ncells _ _ _ Hm) in Hi.
      pose proof (sub_entry_parent i (f', s) Hi Hin) as Hp. cbn [fst snd] in *.
      apply (Hs (nth f' (sg_faces sg) 0, nth i (sg_cells sg) 0, s)).
      unfold g, to_grid2. cbn [g_cf]. apply cf_entries_In. split; [apply cell_in_range, Hi|exact Hp].
    - intros i Hi. apply in_seq in Hi. unfold g', to_grid2 in Hi. cbn [g_nc] in Hi.
      rewrite (mo_ncells _ _ _ Hm) in Hi. rewrite balanced_sub by lia.
      apply Hb. apply in_seq. unfold g, to_grid2. cbn [g_nc].
      pose proof (cell_in_range i ltac:(lia)). lia.
  Qed.
End Global.

(* ------------------------------------------------------------------------------------ *)
From Coq Require Import Lqa.
From PP Require Import Proofs.C19.
Open Scope Q_scope.

Lemma sumQ_pos_one l : (forall x, In x l -> 0 <= x) -> (exists x, In x l /\ 0 < x) -> 0 < sumQ l.
Proof.
  induction l as [|a t IH]; intros Hn [x [Hx Hp]]; [inversion Hx|].
  rewrite sumQ_cons.
  assert (0 <= a) by (apply Hn; left; reflexivity).
  assert (0 <= sumQ t) by (apply sumQ_nonneg; intros y Hy; apply Hn; right; exact Hy).
  destruct Hx as [->|Hx]; [lra|].
  assert (0 < sumQ t) by (apply IH; [intros y Hy; apply Hn; right; exact Hy|exists x; split; assumption]).
  lra.
Qed.

Lemma map_nth_seq {A B} (F : A -> B) (l : list A) (d : A) :
  map (fun i => F (nth i l d)) (seq 0 (length l)) = map F l.
Proof.
  rewrite <- (map_map (fun i => nth i l d) F). f_equal.
  induction l as [|a t IH]; [reflexivity|]. cbn [length seq map nth]. f_equal.
  rewrite <- seq_shift, map_map. exact IH.
Qed.

Close Scope Q_scope.

Theorem geometry2_subgrid (nodes : list pt) (cf fn : csc) (c : cells) (sort : bool)
        (sg : subgrid) (r : geom2) :
  extract_subgrid cf fn c sort = Ok sg ->
  two_nodes fn (sg_faces sg) ->
  let g := to_grid2 nodes cf fn in
  let g' := to_grid2 (take_nodes (0%Q, 0%Q) nodes (sg_nodes sg)) (sg_cf sg) (sg_fn sg) in
  geometry2 g = GOk r ->
  (exists i, i < length (sg_cells sg) /\ (0 < nth (nth i (sg_cells sg) 0%nat) (o_vol r) 0)%Q) ->
  exists r', geometry2 g' = GOk r' /\
    o_vol r' = map (fun k => nth k (o_vol r) 0%Q) (sg_cells sg) /\
    o_cc r' = map (fun k => nth k (o_cc r) (0%Q, 0%Q)) (sg_cells sg) /\
    o_area2 r' = map (fun f => nth f (o_area2 r) 0%Q) (sg_faces sg) /\
    o_fc r' = map (fun f => nth f (o_fc r) (0%Q, 0%Q)) (sg_faces sg) /\
    o_fn r' = map (fun f => nth f (o_fn r) (0%Q, 0%Q)) (sg_faces sg).
Proof.
  intros Hex Htwo g g' Hg Hposex.
  apply extract_subgrid_cells in Hex. destruct Hex as [_ [_ [_ Hm]]].
  destruct (geometry2_ok g r Hg) as [Hor [Hsig [Hvol [Hcc [Hfn [Hfc [Ha Hpos]]]]]]].
  set (sigma := qsign (plane_sum g)) in *.
  set (V := fun k => cell_volume sigma (temp_center (cell_sfaces g k)) (cell_sfaces g k)) in *.
  assert (Hnc : g_nc g = length cf) by reflexivity.
  assert (Hnf : length (g_faces g) = length fn) by (unfold g, to_grid2; cbn; apply map_length).
  assert (Hcell : forall i, i < length (sg_cells sg) -> (nth i (sg_cells sg) 0 < length cf)%nat)
    by (intros i Hi; apply (cell_in_range cf fn sg Hm i Hi)).
  assert (HV : forall k, (k < length cf)%nat -> nth k (o_vol r) 0%Q = V k).
  { intros k Hk. rewrite Hvol, Hnc. apply (Proofs.C22.nth_map_seq V (length cf) k 0%Q Hk). }
  assert (Hes : forall i, i < length (sg_cells sg) ->
            cell_sfaces g' i = cell_sfaces g (nth i (sg_cells sg) 0))
    by (intros i Hi; apply (cell_sfaces_sub nodes cf fn sg Hm Htwo i Hi)).
  assert (Hfo : forall j s, j < length (sg_faces sg) ->
            face_of g' j s = face_of g (nth j (sg_faces sg) 0) s)
    by (intros j s Hj; apply (face_of_sub nodes cf fn sg Hm Htwo j s Hj)).
  assert (Hnc' : g_nc g' = length (sg_cells sg)).
  { unfold g', to_grid2. cbn [g_nc]. apply (mo_ncells _ _ _ Hm). }
  assert (Hnf' : length (g_faces g') = length (sg_faces sg)).
  { unfold g', to_grid2. cbn [g_faces]. rewrite map_length. apply (mo_nfaces _ _ _ Hm). }
  (* the plane orientation of the subgrid is the parent's *)
  assert (HS : (sigma * plane_sum g' == sumQ (map (fun i => V (nth i (sg_cells sg) 0%nat)) (seq 0 (length (sg_cells sg)))))%Q).
  { unfold plane_sum. rewrite Hnc'. rewrite <- sumQ_map_scale. apply sumQ_map_ext.
    intros i Hi. apply in_seq in Hi. rewrite (Hes i) by lia. unfold V, cell_volume.
    rewrite <- sumQ_map_scale. apply sumQ_map_ext. intros e _. unfold subvol. reflexivity. }
  assert (Hsum : (0 < sigma * plane_sum g')%Q).
  { rewrite HS. apply sumQ_pos_one.
    - intros x Hx. apply in_map_iff in Hx. destruct Hx as [i [<- Hi]]. apply in_seq in Hi.
      apply Hpos. rewrite <- HV by (apply Hcell; lia). apply nth_In.
      rewrite Hvol, map_length, seq_length, Hnc. apply Hcell. lia.
    - destruct Hposex as [i [Hi Hp]]. exists (V (nth i (sg_cells sg) 0)). split.
      + apply in_map_iff. exists i. split; [reflexivity|apply in_seq; lia].
      + rewrite <- HV by (apply Hcell, Hi). exact Hp. }
  assert (Hsig' : qsign (plane_sum g') = sigma /\ ~ (plane_sum g' == 0)%Q).
  { unfold qsign. destruct Hsig as [E|E]; rewrite E in Hsum.
    - destruct (Qlt_le_dec 0 (plane_sum g')) as [H|H]; [split; [symmetry; exact E|lra]|lra].
    - destruct (Qlt_le_dec 0 (plane_sum g')) as [H|H]; [lra|].
      destruct (Qlt_le_dec (plane_sum g') 0) as [H'|H']; [split; [symmetry; exact E|lra]|lra]. }
  destruct Hsig' as [Hsg Hnz].
  assert (Hor' : oriented1 g' = true) by (apply (oriented_sub nodes cf fn sg Hm Htwo Hor)).
  (* the subgrid's volumes are the parent's: none is negative *)
  assert (Hvols' : map (fun i => cell_volume sigma (temp_center (cell_sfaces g' i)) (cell_sfaces g' i))
                       (seq 0 (g_nc g'))
                   = map (fun k => nth k (o_vol r) 0%Q) (sg_cells sg)).
  { rewrite Hnc'. rewrite <- (map_nth_seq (fun k => nth k (o_vol r) 0%Q) (sg_cells sg) 0).
    apply map_ext_in. intros i Hi. apply in_seq in Hi. rewrite (Hes i) by lia.
    rewrite HV by (apply Hcell; lia). reflexivity. }
  unfold geometry2. rewrite Hor'. cbn [negb].
  destruct (Qeq_bool (plane_sum g') 0) eqn:EQ; [apply Qeq_bool_iff in EQ; contradiction|].
  rewrite Hsg. rewrite Hvols'.
  destruct (existsb _ (map (fun k => nth k (o_vol r) 0%Q) (sg_cells sg))) eqn:EX.
  { exfalso. apply existsb_exists in EX. destruct EX as [v [Hv Hneg]].
    destruct (Qlt_le_dec v 0) as [Hlt|]; [|discriminate].
    apply in_map_iff in Hv. destruct Hv as [k [<- Hk]].
    assert (k < length cf)%nat as Hkc.
    { pose proof (mo_cells_in _ _ _ Hm) as HF. rewrite Forall_forall in HF. apply HF, Hk. }
    assert (0 <= nth k (o_vol r) 0)%Q.
    { apply Hpos. apply nth_In. rewrite Hvol, map_length, seq_length, Hnc. exact Hkc. }
    lra. }
  eexists. split; [reflexivity|]. cbn [o_vol o_cc o_area2 o_fc o_fn].
  split; [reflexivity|]. rewrite Hnf', Hnc'.
  assert (Hface : forall (T : Type) (F : sface -> T) (d : T) (L : list T),
            L = map (fun f => F (face_of g f 1%Z)) (seq 0 (length (g_faces g))) ->
            map (fun f => F (face_of g' f 1%Z)) (seq 0 (length (sg_faces sg)))
            = map (fun f => nth f L d) (sg_faces sg)).
  { intros T F d L HL. rewrite <- (map_nth_seq (fun f => nth f L d) (sg_faces sg) 0).
    apply map_ext_in. intros j Hj. apply in_seq in Hj. rewrite (Hfo j 1%Z) by lia.
    rewrite HL, Hnf.
    assert (nth j (sg_faces sg) 0 < length fn)%nat as Hlt.
    { pose proof (mo_faces_in _ _ _ Hm) as HF. rewrite Forall_forall in HF. apply HF, nth_In. lia. }
    rewrite (Proofs.C22.nth_map_seq (fun f => F (face_of g f 1%Z)) (length fn) _ d Hlt). reflexivity. }
  split; [|split; [|split]].
  - rewrite <- (map_nth_seq (fun k => nth k (o_cc r) (0%Q, 0%Q)) (sg_cells sg) 0).
    apply map_ext_in. intros i Hi. apply in_seq in Hi. rewrite (Hes i) by lia.
    rewrite Hcc, Hnc.
    rewrite (Proofs.C22.nth_map_seq
               (fun c => cell_center sigma (temp_center (cell_sfaces g c)) (cell_sfaces g c))
               (length cf) _ (0%Q, 0%Q) (Hcell i ltac:(lia))). reflexivity.
  - rewrite map_map. apply (Hface Q farea2 0%Q _ Ha).
  - rewrite map_map. apply (Hface pt fcenter (0%Q, 0%Q) _ Hfc).
  - rewrite map_map. apply (Hface pt (fnormal sigma) (0%Q, 0%Q) _ Hfn).
Qed.
