(* C24 — boundaries(), interfaces(dim, codim) and neighboring_subdomains after any
   history. *)
From Coq Require Import List Arith Bool Lia Permutation Sorted.
Import ListNotations.
From PP Require Import Model.C24 Model.C24_spec Proofs.C24_base Proofs.C24_sort Proofs.C24_inv
  Proofs.C24_step Proofs.C24_step2 Proofs.C24_step3 Proofs.C24.

(* ------------------------------------------------------------------ boundaries() *)
Lemma bg_dim_le g sp bg : Inv g sp -> In bg (bgs g) -> fst bg <= dim_max (sds g).
Proof.
  intros HI Hb. destruct (obs_boundary g sp HI) as (_ & _ & _ & _ & Hor).
  destruct (Hor bg Hb) as (s & Hs & Hl).
  destruct (inv_bi _ _ HI) as (_ & _ & _ & _ & B5). unfold sd_to_bg in Hl.
  rewrite (B5 s bg Hl). rewrite <- (inv_sds _ _ HI) in Hs.
  pose proof (dim_max_ge _ _ Hs). lia.
Qed.

Lemma obs_boundaries g sp d :
  Inv g sp -> (pS sp = [] \/ exists s, In s (pS sp) /\ 0 < fst s) ->
  exists L, boundaries g d = Ok L /\ Permutation L (dim_filter d (bgs g)) /\
            NoDup L /\ StronglySorted glt L.
Proof.
  intros HI Hcase. destruct (inv_bi _ _ HI) as (B1 & B2 & B3 & B4 & B5).
  assert (Hb : boundaries g d = argsort (sds g) (dim_filter d (bgs g))).
  { unfold boundaries. destruct (sds g) as [|x r] eqn:Es; [reflexivity|].
    destruct (s2b g) as [|y t] eqn:Eb; [|reflexivity]. exfalso.
    destruct Hcase as [E|(s & Hs & Hpos)].
    - rewrite <- (inv_sds _ _ HI), Es in E. discriminate.
    - assert (In s (map fst (s2b g))) by (apply (inv_bk _ _ HI); rewrite (inv_sds _ _ HI); auto).
      rewrite Eb in H. destruct H. }
  rewrite Hb.
  destruct (argsort_ok (sds g) (dim_filter d (bgs g))) as (L & H1 & H2 & H3).
  - apply dim_filter_nodup; auto.
  - intros Hne E. destruct (dim_filter d (bgs g)) as [|bg r] eqn:Ed; [exfalso; apply Hne; reflexivity|].
    assert (Hbg : In bg (bgs g)) by (eapply dim_filter_In; rewrite Ed; left; reflexivity).
    destruct (obs_boundary g sp HI) as (_ & _ & _ & _ & Hor).
    destruct (Hor bg Hbg) as (s & Hs & _). rewrite <- (inv_sds _ _ HI), E in Hs. destruct Hs.
  - intros x Hx. apply (bg_dim_le g sp x HI). eapply dim_filter_In; eauto.
  - exists L. repeat split; auto.
    eapply Permutation_NoDup; [symmetry; exact H2|]. apply dim_filter_nodup; auto.
Qed.

Lemma obs_boundaries_0d g sp d :
  Inv g sp -> pS sp <> [] -> (forall s, In s (pS sp) -> fst s = 0) ->
  boundaries g d = Err ValueErr.
Proof.
  intros HI Hne H0. unfold boundaries. rewrite (inv_sds _ _ HI).
  destruct (pS sp) as [|x r] eqn:Es; [congruence|].
  destruct (s2b g) as [|[k v] t] eqn:Eb; [reflexivity|]. exfalso.
  assert (Hk : In k (map fst (s2b g))) by (rewrite Eb; left; reflexivity).
  apply (inv_bk _ _ HI) in Hk. rewrite (inv_sds _ _ HI) in Hk. destruct Hk as [Hk Hpos].
  rewrite Es in Hk. specialize (H0 k Hk). lia.
Qed.

(* ------------------------------------------------------------------ interfaces(dim, codim) *)
Lemma codim_filter_nodup cm c l : NoDup l -> NoDup (codim_filter cm c l).
Proof. destruct c; cbn; auto. intros; apply NoDup_filter; auto. Qed.

Lemma codim_filter_In cm c l x : In x (codim_filter cm c l) -> In x l.
Proof. destruct c; cbn; auto. rewrite filter_In. tauto. Qed.

Lemma obs_interfaces_cd cm g sp d c :
  Inv g sp ->
  exists L, interfaces_cd cm g d c = Ok L /\
            Permutation L (codim_filter cm c (dim_filter d (map fst (pI sp)))) /\
            NoDup L /\ StronglySorted glt L.
Proof.
  intros HI. unfold interfaces_cd.
  assert (HnI : NoDup (intfs g)) by (rewrite (inv_intfs _ _ HI); apply (inv_ndI _ _ HI)).
  destruct (argsort_ok (sds g) (codim_filter cm c (dim_filter d (intfs g)))) as (L & H1 & H2 & H3).
  - apply codim_filter_nodup, dim_filter_nodup; auto.
  - intros Hne. apply (intfs_need_sds g sp HI). intros E. rewrite E in Hne.
    destruct d, c; apply Hne; reflexivity.
  - intros x Hx. apply (intf_dim_le g sp x HI).
    eapply dim_filter_In, codim_filter_In; eauto.
  - exists L. rewrite <- (inv_intfs _ _ HI). repeat split; auto.
    eapply Permutation_NoDup; [symmetry; exact H2|].
    apply codim_filter_nodup, dim_filter_nodup; auto.
Qed.

(* ------------------------------------------------------------------ neighboring_subdomains *)
Lemma rel_lists (m1 m2 : list (gid * (gid * gid))) :
  map fst m1 = map fst m2 -> NoDup (map fst m1) ->
  (forall i, orel (lookup i m1) (lookup i m2)) ->
  Forall2 (fun e1 e2 => unord (snd e1) (snd e2)) m1 m2.
Proof.
  revert m2. induction m1 as [|[k p] r IH]; intros [|[k' q] r'] Hk Hn Hrel; cbn in Hk;
    try discriminate; constructor.
  - inversion Hk; subst k'. specialize (Hrel k). cbn in Hrel. rewrite geqb_refl in Hrel. exact Hrel.
  - inversion Hk; subst k'. inversion Hn as [|? ? Hnk Hnr]; subst. apply IH; auto.
    intros i. specialize (Hrel i). cbn in Hrel. gcase k i; auto.
    subst. assert (E1 : lookup i r = None) by (apply lookup_None; auto).
    assert (E2 : lookup i r' = None) by (apply lookup_None; rewrite <- H1; auto).
    rewrite E1, E2. exact I.
Qed.

Lemma neigh_raw_rel s m1 m2 :
  Forall2 (fun e1 e2 : gid * (gid * gid) => unord (snd e1) (snd e2)) m1 m2 ->
  neigh_raw s m1 = neigh_raw s m2.
Proof.
  induction 1 as [|[i [a b]] [j [c d]] r r' Hu _ IH]; cbn; auto.
  unfold unord in Hu; cbn [fst snd] in Hu. rewrite IH.
  destruct Hu as [[-> ->]|[-> ->]]; auto.
  gcase d s; gcase c s; subst; auto.
Qed.

Lemma neigh_raw_In s I x :
  In x (neigh_raw s I) ->
  exists j c d, In (j, (c, d)) I /\ ((c = s /\ d = x) \/ (d = s /\ c = x)).
Proof.
  induction I as [|[j [c d]] r IH]; cbn; [tauto|].
  gcase c s.
  - intros [<-|H].
    + exists j, c, d. split; auto.
    + destruct (IH H) as (j' & c' & d' & Hin & Hor). exists j', c', d'. split; auto.
  - gcase d s.
    + intros [<-|H].
      * exists j, c, d. split; auto.
      * destruct (IH H) as (j' & c' & d' & Hin & Hor). exists j', c', d'. split; auto.
    + intros H. destruct (IH H) as (j' & c' & d' & Hin & Hor). exists j', c', d'. split; auto.
Qed.

Lemma neigh_raw_nodup s I :
  NoDup (map fst I) ->
  (forall i p j q, In (i, p) I -> In (j, q) I -> unord p q -> i = j) ->
  NoDup (neigh_raw s I).
Proof.
  induction I as [|[i [a b]] r IH]; cbn [neigh_raw map fst]; intros Hn Hu; [constructor|].
  inversion Hn as [|? ? Hi Hr]; subst.
  assert (IH' : NoDup (neigh_raw s r)).
  { apply IH; auto. intros; eapply Hu; eauto; right; auto. }
  assert (Hfresh : forall x, ((a = s /\ b = x) \/ (b = s /\ a = x)) -> ~ In x (neigh_raw s r)).
  { intros x Hx Hin. destruct (neigh_raw_In s r x Hin) as (j & c & d & Hj & Hor).
    assert (i = j).
    { eapply (Hu i (a, b) j (c, d)); [left; reflexivity | right; exact Hj |].
      unfold unord; cbn [fst snd]. intuition congruence. }
    subst j. apply Hi. apply in_map_iff. exists (i, (c, d)); auto. }
  gcase a s.
  - constructor; auto.
  - gcase b s; auto. constructor; auto.
Qed.

Definition nb_filter (s : gid) (hi lo : bool) (l : list gid) : list gid :=
  if hi then filter (fun x => fst s <? fst x) l
  else if lo then filter (fun x => fst x <? fst s) l else l.

Lemma obs_neighbours g sp s hi lo :
  Inv g sp ->
  (hi && lo = true -> neighbours g s hi lo = Err ValueErr) /\
  (hi && lo = false ->
   exists L, neighbours g s hi lo = Ok L /\
             Permutation L (nb_filter s hi lo (neigh_raw s (pI sp))) /\
             NoDup L /\ StronglySorted glt L).
Proof.
  intros HI. unfold neighbours. split; intros Hb; rewrite Hb; [reflexivity|].
  assert (Hraw : neigh_raw s (i2s g) = neigh_raw s (pI sp)).
  { apply neigh_raw_rel. apply rel_lists.
    - rewrite (inv_keys _ _ HI), (inv_intfs _ _ HI). reflexivity.
    - rewrite (inv_keys _ _ HI), (inv_intfs _ _ HI). apply (inv_ndI _ _ HI).
    - intros i. pose proof (inv_rel _ _ HI i) as Hr.
      destruct (lookup i (pI sp)), (lookup i (i2s g)); cbn in *; auto. apply unord_sym; auto. }
  rewrite Hraw.
  assert (Hnd : NoDup (neigh_raw s (pI sp))).
  { apply neigh_raw_nodup; [apply (inv_ndI _ _ HI)|].
    intros i [a b] j [c d] H1 H2 Hu.
    apply In_lookup in H1; [|apply (inv_ndI _ _ HI)].
    apply In_lookup in H2; [|apply (inv_ndI _ _ HI)].
    destruct (inv_wf _ _ HI i a b H1) as (_ & _ & _ & _ & Huniq). eapply Huniq; eauto. }
  assert (Hin : forall x, In x (neigh_raw s (pI sp)) -> In x (sds g)).
  { intros x Hx. destruct (neigh_raw_In s _ x Hx) as (j & c & d & Hj & Hor).
    apply In_lookup in Hj; [|apply (inv_ndI _ _ HI)].
    destruct (inv_wf _ _ HI j c d Hj) as (Hc & Hd & _). rewrite (inv_sds _ _ HI).
    destruct Hor as [[_ <-]|[_ <-]]; auto. }
  assert (Hgen : forall l, NoDup l -> (forall x, In x l -> In x (sds g)) ->
            exists L, argsort (sds g) l = Ok L /\ Permutation L l /\ NoDup L /\ StronglySorted glt L).
  { intros l Hl Hsub. destruct (argsort_ok (sds g) l Hl) as (L & H1 & H2 & H3).
    - intros Hne E. destruct l as [|x r]; [exfalso; apply Hne; reflexivity|].
      specialize (Hsub x (or_introl eq_refl)). rewrite E in Hsub. destruct Hsub.
    - intros x Hx. apply dim_max_ge; auto.
    - exists L. repeat split; auto. eapply Permutation_NoDup; [symmetry; exact H2 | auto]. }
  unfold nb_filter. destruct hi; [|destruct lo].
  - apply Hgen; [apply NoDup_filter; auto|]. intros x Hx. apply filter_In in Hx. apply Hin; tauto.
  - apply Hgen; [apply NoDup_filter; auto|]. intros x Hx. apply filter_In in Hx. apply Hin; tauto.
  - apply Hgen; auto.
Qed.

(* ------------------------------------------------------------------ final forms *)
Lemma thm_boundaries ops d :
  hist_ok sempty ops = true ->
  ((pS (present ops) = [] \/ exists s, In s (pS (present ops)) /\ 0 < fst s) ->
   exists L, boundaries (final ops) d = Ok L /\
             Permutation L (dim_filter d (bgs (final ops))) /\
             NoDup L /\ StronglySorted glt L) /\
  (pS (present ops) <> [] -> (forall s, In s (pS (present ops)) -> fst s = 0) ->
   boundaries (final ops) d = Err ValueErr).
Proof.
  intros H. pose proof (reach_inv ops H) as HI. split.
  - apply obs_boundaries; auto.
  - apply obs_boundaries_0d; auto.
Qed.

Lemma thm_interfaces_cd cm ops d c :
  hist_ok sempty ops = true ->
  exists L, interfaces_cd cm (final ops) d c = Ok L /\
            Permutation L (codim_filter cm c (dim_filter d (map fst (pI (present ops))))) /\
            NoDup L /\ StronglySorted glt L.
Proof. intros H. apply obs_interfaces_cd. apply reach_inv; auto. Qed.

Lemma thm_neighbours ops s hi lo :
  hist_ok sempty ops = true ->
  (hi && lo = true -> neighbours (final ops) s hi lo = Err ValueErr) /\
  (hi && lo = false ->
   exists L, neighbours (final ops) s hi lo = Ok L /\
             Permutation L (nb_filter s hi lo (neigh_raw s (pI (present ops)))) /\
             NoDup L /\ StronglySorted glt L).
Proof. intros H. apply obs_neighbours. apply reach_inv; auto. Qed.
