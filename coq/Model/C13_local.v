(* C13 — certificate (ii) for MPSA: the local systems as the code assembled them.
   LA = grad_eqs of mpsa.py:_create_inverse_gradient_matrix before row scaling (interior
   traction rows, Neumann rows, displacement rows; nd*nd consecutive columns per sub-cell,
   gradient entry G_ij in column i*nd + j of the block); the right-hand side of row r for the
   cell displacements and face data of a field is (RC u_cells + RB bdata)_r with RC =
   rhs_cells (the return value of Mpsa._create_rhs_cell_center) and RB = rhs_bound (return
   value of Mpsa._create_bound_rhs) folded to face unknowns; RC / RB sit in the ST / BS slots
   of an instV whose geometry is the grid the code works on (after map_grid in 2-D).
   Executable definitions only. *)
From Coq Require Import List ZArith Bool Arith QArith.
Import ListNotations.
From PP Require Import Model.C11 Model.C13.
Local Open Scope nat_scope.

Section Field.
  Variable F : Type.
  Variable P : ops F.
  Definition rowA (A : mat3 F) (i : nat) : vec3 F :=
    let '(r1, r2, r3) := A in match i with 0 => r1 | 1 => r2 | _ => r3 end.
  (* the constant gradient A of the field in the code's column layout *)
  Definition gstarV (c : coefV F) (nd col : nat) : F :=
    let k := col mod (nd * nd) in comp F (rowA (snd c) (k / nd)) (k mod nd).
  Definition res_localV (I : instV F) (LA : coo F) (nd : nat) (c : coefV F) (r : nat) : F :=
    osub P (row_apply F P LA r (gstarV c nd)) (stress_of F P I c r).
End Field.

(* rows lo <= r < hi are the Neumann rows: at nodes where the averaged part of Hooke's law is
   eliminated (mpsa.py:_eliminate_ncasym) they are inconsistent by construction, and the
   property claims nothing on Neumann faces; they are not checked *)
Definition local_certV (I : instV dyad) (LA : coo dyad) (nrows lo hi : nat) : bool :=
  forallb (fun t =>
             let c := basisV dyad DO t in
             let mg := dmaxabs LA (gstarV dyad c (ndV I)) in
             let mu_ := dmaxabs (ST I) (ucellV dyad DO I c) in
             let mb := dmaxabs (BS I) (bdataV dyad DO I c) in
             forallb (fun r => ((lo <=? r) && (r <? hi))
                               || within2 (res_localV dyad DO I LA (ndV I) c r)
                                          (dadd (dmul (drow_sum LA r) mg)
                                                (dadd (dmul (drow_sum (ST I) r) mu_)
                                                      (dmul (drow_sum (BS I) r) mb))))
                     (seq 0 nrows))
          (basis_list (ndV I)).

Definition check_localV (nrows nnzA lo hi : Z) (I : instV dyad) (la : list Z) : bool :=
  let LA := of_dcoo la in
  (0 <? nrows)%Z && (Z.of_nat (length la) =? nnzA)%Z && (0 <=? lo)%Z && (lo <=? hi)%Z && (hi <=? nrows)%Z
  && forallb (fun t : nat * nat * dyad => (fst (fst t) <? Z.to_nat nrows)
                                          && (snd (fst t) <? Z.to_nat nrows)) LA
  && ((ndV I =? 2) || (ndV I =? 3))
  && local_certV I LA (Z.to_nat nrows) (Z.to_nat lo) (Z.to_nat hi).
