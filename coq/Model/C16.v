(* C16 — TPSA is invariant under rigid translations.
   porepy/numerics/fv/tpsa.py : Tpsa.discretize is a long chain of vectorised sparse-matrix
   products; it is NOT re-implemented here.  The model is the set of CHARACTERISING
   CONDITIONS of the scheme with respect to translations (certificate tie, DESIGN.md §1 (K)):

     * sparse rows of the real discretisation matrices, with the columns of the cell
       unknowns  [u (nd*nc) | rotation (rd*nc) | solid pressure (nc)]  followed by the
       columns of the displacement boundary values  g (nd*nf, face-major);
     * the "translation state" of a translation t: u = t in every cell, rotation = 0,
       solid pressure = 0, g = t on Dirichlet face-components and g = 0 (zero traction) on
       Neumann face-components: a column of class (Some k) carries t_k, class None carries 0;
     * component sums of a row (csum): the sum of the entries standing in columns of
       class (Some k).  A row applied to the translation state is  sum_k t_k * csum_k;
     * the assembled finite-volume system  Div * [F | RHS] - Accumulation  built from the
       face rows and the cell-face incidence (gather / *_row / system_rows);
     * boolean checkers of the certificates (row sums of the stress rows are zero, the
       displacement averaging rows sum to one, the solid-mass rows sum to the face normal,
       the rotation rows sum to -(n x .), the signed normals of every cell sum to zero, the
       assembled rows sum to zero), evaluated by vm_compute on the real matrices converted
       exactly to rationals, with the relative tolerance  tol * (1 + sum |row entries|).

   Executable definitions only. *)
From Coq Require Import List ZArith QArith Qabs Bool Arith.
Import ListNotations.
From PP Require Lib.RowInv.
Local Open Scope Q_scope.

Definition row := list (nat * Q).      (* (column, value), duplicates allowed (summed) *)
Definition vec := nat -> Q.

Fixpoint rdot (r : row) (v : vec) : Q :=
  match r with
  | [] => 0
  | ja :: r' => snd ja * v (fst ja) + rdot r' v
  end.

(* column classification: Some k = "carries component k of the translation", None = 0 *)
Definition cls_t := nat -> option nat.

Definition sv (cls : cls_t) (t : list Q) : vec :=
  fun j => match cls j with Some k => nth k t 0 | None => 0 end.

Definition pick (cls : cls_t) (k j : nat) (a : Q) : Q :=
  match cls j with
  | Some k' => if Nat.eqb k' k then a else 0
  | None => 0
  end.

Fixpoint csum (cls : cls_t) (k : nat) (r : row) : Q :=
  match r with
  | [] => 0
  | ja :: r' => pick cls k (fst ja) (snd ja) + csum cls k r'
  end.

Fixpoint rowabs (r : row) : Q :=
  match r with [] => 0 | ja :: r' => Qabs (snd ja) + rowabs r' end.

(* sum_{i < length t} t_i * f (k + i) *)
Fixpoint tsum (k : nat) (t : list Q) (f : nat -> Q) : Q :=
  match t with [] => 0 | x :: t' => x * f k + tsum (S k) t' f end.

Fixpoint tabs (t : list Q) : Q :=
  match t with [] => 0 | x :: t' => Qabs x + tabs t' end.

(* a row written as weighted differences  sum_j w_j (v_j - v_i) *)
Fixpoint diffsum (ws : row) (i : nat) (v : vec) : Q :=
  match ws with [] => 0 | jw :: ws' => snd jw * (v (fst jw) - v i) + diffsum ws' i v end.

(* ------------------------------------------------------------------ one discretised grid *)
Record inst := mk_inst {
  i_nd : nat;                         (* sd.dim (2 or 3) *)
  i_rd : nat;                         (* rotation components per cell/face: 1 in 2-D, 3 in 3-D *)
  i_nc : nat;  i_nf : nat;
  i_inc : list (list (nat * Q));      (* per cell: (face, sign) = the rows of sd.divergence(1) *)
  i_normals : list (list Q);          (* per face: sd.face_normals[:nd, f] *)
  i_dir : list bool;                  (* bc.is_dir.ravel('F'), nd*nf *)
  i_srows : list row;                 (* [stress | stress_rotation | stress_total_pressure | bound_stress], nd*nf rows *)
  i_rrows : list row;                 (* [rotation_displacement | rotation_rotation | 0 | bound_rotation_displacement], rd*nf rows *)
  i_mrows : list row;                 (* [solid_mass_displacement | 0 | solid_mass_total_pressure | bound_mass_displacement], nf rows *)
  i_arows : list row;                 (* [c2f (captured) | 0 | 0 | bound_displacement_face], nd*nf rows *)
  i_acc : list Q;                     (* accumulation diagonal for rotation (rd*nc) and solid pressure (nc) *)
  i_inv : option (list (list Q) * Q)  (* optional certificate (N, d): N * A = d * I for the assembled
                                         system matrix A (first ndof columns of system_rows) *)
}.

Definition ndof (I : inst) : nat := (i_nd I + i_rd I + 1) * i_nc I.

Definition cls_of (I : inst) : cls_t := fun j =>
  if j <? i_nd I * i_nc I then Some (j mod i_nd I)
  else if j <? ndof I then None
  else let j' := (j - ndof I)%nat in
       if nth j' (i_dir I) false then Some (j' mod i_nd I) else None.

Definition scale (s : Q) (r : row) : row := map (fun ja => (fst ja, s * snd ja)) r.

(* sum over the faces of one cell of  sign * (row of that face) *)
Definition gather (rows : list row) (stride off : nat) (ic : list (nat * Q)) : row :=
  flat_map (fun fs => scale (snd fs) (nth (fst fs * stride + off) rows [])) ic.

Definition momentum_row (I : inst) (c k : nat) : row :=
  gather (i_srows I) (i_nd I) k (nth c (i_inc I) []).

Definition rotation_row (I : inst) (c i : nat) : row :=
  gather (i_rrows I) (i_rd I) i (nth c (i_inc I) [])
  ++ [((i_nd I * i_nc I + (c * i_rd I + i))%nat, - nth (c * i_rd I + i) (i_acc I) 0)].

Definition mass_row (I : inst) (c : nat) : row :=
  gather (i_mrows I) 1 0 (nth c (i_inc I) [])
  ++ [(((i_nd I + i_rd I) * i_nc I + c)%nat, - nth (i_rd I * i_nc I + c) (i_acc I) 0)].

Definition cell_rows (I : inst) (c : nat) : list row :=
  map (momentum_row I c) (seq 0 (i_nd I))
  ++ map (rotation_row I c) (seq 0 (i_rd I))
  ++ [mass_row I c].

(* rows of  Div * [F | RHS] - [Accumulation | 0]  (residual A x - b as a function of (x, g)) *)
Definition system_rows (I : inst) : list row := flat_map (cell_rows I) (seq 0 (i_nc I)).

(* ------------------------------------------------------------------ targets *)
Definition ncomp (I : inst) (f j : nat) : Q := nth j (nth f (i_normals I) []) 0.

(* coefficient of t_k in component i of the rotation flux  -(Rbar(n) t):
   2-D: -Rbar(n) = (n_1, -n_0);  3-D: -(n x t).  Some (j, s) stands for  s * n_j. *)
Definition rot_coef (nd i k : nat) : option (nat * Q) :=
  match nd with
  | 2%nat => match k with
             | 0%nat => Some (1%nat, 1)
             | 1%nat => Some (0%nat, -(1))
             | _ => None
             end
  | 3%nat => match i, k with
             | 0%nat, 1%nat => Some (2%nat, 1)
             | 0%nat, 2%nat => Some (1%nat, -(1))
             | 1%nat, 0%nat => Some (2%nat, -(1))
             | 1%nat, 2%nat => Some (0%nat, 1)
             | 2%nat, 0%nat => Some (1%nat, 1)
             | 2%nat, 1%nat => Some (0%nat, -(1))
             | _, _ => None
             end
  | _ => None
  end.

Definition mass_coef (k : nat) : option (nat * Q) := Some (k, 1).

Definition tgt (co : option (nat * Q)) (n : nat -> Q) : Q :=
  match co with Some js => snd js * n (fst js) | None => 0 end.

(* signed sum over the faces of a cell *)
Fixpoint isum (ic : list (nat * Q)) (g : nat -> Q) : Q :=
  match ic with [] => 0 | fs :: ic' => snd fs * g (fst fs) + isum ic' g end.

Fixpoint iabs (ic : list (nat * Q)) (g : nat -> Q) : Q :=
  match ic with [] => 0 | fs :: ic' => Qabs (snd fs * g (fst fs)) + iabs ic' g end.

(* ------------------------------------------------------------------ checkers *)
Definition near (tol : Q) (r : row) (x y : Q) : bool :=
  Qle_bool (Qabs (x - y)) (tol * (1 + rowabs r)).

Definition row_ok (tol : Q) (cls : cls_t) (nd : nat) (target : nat -> Q) (r : row) : bool :=
  forallb (fun k => near tol r (csum cls k r) (target k)) (seq 0 nd).

Definition stress_ok (tol : Q) (I : inst) : bool :=
  forallb (row_ok tol (cls_of I) (i_nd I) (fun _ => 0)) (i_srows I).

Definition avg_ok (tol : Q) (I : inst) : bool :=
  forallb (fun q => row_ok tol (cls_of I) (i_nd I)
                      (fun k => if Nat.eqb k (q mod i_nd I) then 1 else 0)
                      (nth q (i_arows I) []))
          (seq 0 (i_nd I * i_nf I)).

Definition mass_ok (tol : Q) (I : inst) : bool :=
  forallb (fun f => row_ok tol (cls_of I) (i_nd I)
                      (fun k => tgt (mass_coef k) (ncomp I f))
                      (nth f (i_mrows I) []))
          (seq 0 (i_nf I)).

Definition rot_ok (tol : Q) (I : inst) : bool :=
  forallb (fun q => row_ok tol (cls_of I) (i_nd I)
                      (fun k => tgt (rot_coef (i_nd I) (q mod i_rd I) k) (ncomp I (q / i_rd I)))
                      (nth q (i_rrows I) []))
          (seq 0 (i_rd I * i_nf I)).

Definition normals_ok (tol : Q) (I : inst) : bool :=
  forallb (fun ic =>
    forallb (fun j => Qle_bool (Qabs (isum ic (fun f => ncomp I f j)))
                               (tol * (1 + iabs ic (fun f => ncomp I f j))))
            (seq 0 (i_nd I)))
          (i_inc I).

Definition system_ok (tol : Q) (I : inst) : bool :=
  forallb (row_ok tol (cls_of I) (i_nd I) (fun _ => 0)) (system_rows I).

Definition shape_ok (I : inst) : bool :=
  ((i_nd I =? 2) && (i_rd I =? 1) || (i_nd I =? 3) && (i_rd I =? 3))
  && (length (i_inc I) =? i_nc I) && (length (i_normals I) =? i_nf I)
  && (length (i_dir I) =? i_nd I * i_nf I)
  && (length (i_srows I) =? i_nd I * i_nf I) && (length (i_rrows I) =? i_rd I * i_nf I)
  && (length (i_mrows I) =? i_nf I) && (length (i_arows I) =? i_nd I * i_nf I)
  && (length (i_acc I) =? (i_rd I + 1) * i_nc I)
  && forallb (fun ic => forallb (fun fs => fst fs <? i_nf I) ic) (i_inc I).

(* exact left-inverse certificate of the assembled system matrix (small instances) *)
Definition inv_cert_ok (I : inst) : bool :=
  match i_inv I with
  | None => true
  | Some Nd => RowInv.inv_ok (ndof I) (system_rows I) (fst Nd) (snd Nd)
  end.

Definition check (tol : Q) (I : inst) : bool :=
  shape_ok I && stress_ok tol I && avg_ok tol I && mass_ok tol I && rot_ok tol I
  && normals_ok tol I && system_ok tol I && inv_cert_ok I.

(* diagnostics: which certificate fails *)
Definition check_diag (tol : Q) (I : inst) :=
  (shape_ok I, stress_ok tol I, avg_ok tol I, (mass_ok tol I, rot_ok tol I),
   normals_ok tol I, system_ok tol I, inv_cert_ok I).
