(* C41 — interpolation tables (porepy/utils/interpolation_tables.py), over exact rationals.
   Transcribes InterpolationTable.{_set_sizes, __init__, _find_base_vertex (with the
   upper-boundary clamp of the fix commit), _right_left_weights, _generate_indices,
   _index_from_base_and_increment, interpolate, gradient} and
   AdaptiveInterpolationTable.{_find_base_vertex, quadrature_points_from_coordinates,
   _fill_values, _index_from_base_and_increment, _right_left_weights, interpolate, gradient}
   for scalar-valued functions (dim = 1).  Executable definitions only. *)
From Coq Require Import List ZArith QArith Qround Bool.
Import ListNotations.
Open Scope Q_scope.

Inductive err := ValueErr | IndexErr | AssertErr.
Definition res (A : Type) := sum err A.
Definition ok {A} (a : A) : res A := inr a.
Definition fail {A} (e : err) : res A := inl e.
Definition bind {A B} (r : res A) (k : A -> res B) : res B :=
  match r with inl e => inl e | inr a => k a end.

Fixpoint mapM {A B} (g : A -> res B) (l : list A) : res (list B) :=
  match l with
  | [] => ok []
  | a :: r => bind (g a) (fun b => bind (mapM g r) (fun bs => ok (b :: bs)))
  end.

Definition Qltb (a b : Q) : bool := negb (Qle_bool b a).

Fixpoint qprod (l : list Q) : Q := match l with [] => 1 | a :: r => a * qprod r end.
Fixpoint qsum (l : list Q) : Q := match l with [] => 0 | a :: r => a + qsum r end.
Fixpoint zsum (l : list Z) : Z := match l with [] => 0%Z | a :: r => (a + zsum r)%Z end.

Fixpoint map2 {A B C} (g : A -> B -> C) (l : list A) (m : list B) : list C :=
  match l, m with a :: l', b :: m' => g a b :: map2 g l' m' | _, _ => [] end.

Fixpoint set_nth {A} (n : nat) (v : A) (l : list A) : list A :=
  match l, n with
  | [], _ => []            (* python would raise IndexError; callers guard axis < d *)
  | _ :: r, O => v :: r
  | a :: r, S n' => a :: set_nth n' v r
  end.

(* ---------------------------------------------------------------- grid set-up *)

(* self._h = (high - low) / (npt - 1) *)
Definition hstep (lo hi : Q) (n : Z) : Q := (hi - lo) / inject_Z (n - 1).

(* np.linspace(lo, hi, n): k-th point lo + k*step (numpy stores the last point as hi; in
   exact arithmetic the same number) *)
Definition linspace (lo hi : Q) (n : Z) : list Q :=
  map (fun k => lo + inject_Z (Z.of_nat k) * hstep lo hi n) (seq 0 (Z.to_nat n)).

(* np.cumprod(hstack((1, npt)))[:d] *)
Fixpoint strides_from (acc : Z) (npt : list Z) : list Z :=
  match npt with [] => [] | n :: r => acc :: strides_from (acc * n)%Z r end.

(* [c.ravel(F) for c in meshgrid(axes..., indexing=ij)] zipped: the grid points with
   the FIRST axis running fastest *)
Fixpoint fpoints (axes : list (list Q)) : list (list Q) :=
  match axes with
  | [] => [[]]
  | a :: rest => flat_map (fun tail => map (fun x => x :: tail) a) (fpoints rest)
  end.

Record table := {
  t_low : list Q; t_high : list Q; t_npt : list Z;
  t_h : list Q; t_axes : list (list Q); t_strides : list Z; t_vals : list Q }.

Fixpoint map3 {A B C D} (g : A -> B -> C -> D) (l : list A) (m : list B) (n : list C) : list D :=
  match l, m, n with a :: l', b :: m', c :: n' => g a b c :: map3 g l' m' n' | _, _, _ => [] end.

(* InterpolationTable.__init__ *)
Definition mk_table (low high : list Q) (npt : list Z) (f : list Q -> Q) : table :=
  let axes := map3 linspace low high npt in
  {| t_low := low; t_high := high; t_npt := npt;
     t_h := map3 hstep low high npt;
     t_axes := axes;
     t_strides := strides_from 1 npt;
     t_vals := map (fun p => Qred (f p)) (fpoints axes) |}.

(* ---------------------------------------------------------------- standard table *)

(* one axis of _find_base_vertex (after the fix): range check, floor division, clamp *)
Definition base_axis (x h lo hi : Q) (n : Z) : res Z :=
  if Qltb x lo || Qltb hi x then fail ValueErr
  else ok (Z.min (Qfloor ((x - lo) / h)) (n - 2)).

Fixpoint find_base (x h lo hi : list Q) (npt : list Z) : res (list Z) :=
  match x, h, lo, hi, npt with
  | xi :: x', hi_ :: h', l :: lo', u :: hi', n :: npt' =>
      bind (base_axis xi hi_ l u n) (fun b => bind (find_base x' h' lo' hi' npt') (fun bs => ok (b :: bs)))
  | _, _, _, _, _ => ok []      (* zip stops at the shortest *)
  end.

(* python list indexing with a non-negative index *)
Definition pyget {A} (l : list A) (i : Z) : res A :=
  if (i <? 0)%Z then fail IndexErr   (* negative indices wrap in numpy; never produced inside the box *)
  else match nth_error l (Z.to_nat i) with Some v => ok v | None => fail IndexErr end.

Definition tol13 : Q := 1 # 10000000000000.
Definition tol10 : Q := 1 # 10000000000.

(* _right_left_weights: right weights (left = 1 - right), with the sanity assertion.  Since the
   fix commit 14b126cee the code's band is 1e-13 + 8 ulps of |x|/h; the model keeps the
   narrower band 1e-13: in exact arithmetic the weights of a point of the box are in [0,1], so
   the difference is not observable (Proofs.C41.weight_band) *)
Fixpoint right_weights (x : list Q) (axes : list (list Q)) (h : list Q) (base : list Z) : res (list Q) :=
  match x, axes, h, base with
  | xi :: x', a :: axes', hi_ :: h', b :: base' =>
      bind (pyget a b) (fun p =>
      bind (right_weights x' axes' h' base') (fun ws => ok (Qred ((xi - p) / hi_) :: ws)))
  | _, _, _, _ => ok []
  end.

Definition weights_ok (rw : list Q) : bool :=
  forallb (fun w => Qle_bool (- tol13) w && Qle_bool w (1 + tol13)) rw.

(* itertools.product(range(2), repeat=d): first axis slowest *)
Fixpoint incrs (d : nat) : list (list Z) :=
  match d with
  | O => [[]]
  | S d' => map (cons 0%Z) (incrs d') ++ map (cons 1%Z) (incrs d')
  end.

(* right_weight * incr + left_weight * (1 - incr), per axis *)
Definition axis_weight (rw : Q) (inc : Z) : Q := rw * inject_Z inc + (1 - rw) * (1 - inject_Z inc).

(* np.sum((base_ind + incr) * strides) *)
Definition lin_index (base inc strides : list Z) : Z :=
  zsum (map2 Z.mul (map2 Z.add base inc) strides).

(* the loop of interpolate() for one point *)
Fixpoint interp_loop (vals : list Q) (rw : list Q) (base strides : list Z)
         (incs : list (list Z)) (acc : Q) : res Q :=
  match incs with
  | [] => ok acc
  | inc :: rest =>
      let w := qprod (map2 axis_weight rw inc) in
      let idx := lin_index base inc strides in
      if (idx <? Z.of_nat (length vals))%Z then
        bind (pyget vals idx) (fun v => interp_loop vals rw base strides rest (Qred (acc + w * v)))
      else if Qltb w tol10 then interp_loop vals rw base strides rest acc
      else fail AssertErr
  end.

Definition interpolate (t : table) (x : list Q) : res Q :=
  bind (find_base x (t_h t) (t_low t) (t_high t) (t_npt t)) (fun base =>
  bind (right_weights x (t_axes t) (t_h t) base) (fun rw =>
  if weights_ok rw then
    interp_loop (t_vals t) rw base (t_strides t) (incrs (length (t_low t))) 0
  else fail AssertErr)).

(* the loop of gradient() for one point: no inside-grid filter *)
Fixpoint grad_loop (vals : list Q) (rw : list Q) (base strides : list Z) (axis : nat)
         (incs : list (list Z)) (acc : Q) : res Q :=
  match incs with
  | [] => ok acc
  | inc :: rest =>
      let wi := set_nth axis (2 * inject_Z (nth axis inc 0%Z) - 1) (map2 axis_weight rw inc) in
      let w := qprod wi in
      let idx := lin_index base inc strides in
      bind (pyget vals idx) (fun v => grad_loop vals rw base strides axis rest (Qred (acc + w * v)))
  end.

Definition gradient (t : table) (x : list Q) (axis : nat) : res Q :=
  bind (find_base x (t_h t) (t_low t) (t_high t) (t_npt t)) (fun base =>
  bind (right_weights x (t_axes t) (t_h t) base) (fun rw =>
  if weights_ok rw then
    bind (grad_loop (t_vals t) rw base (t_strides t) axis (incrs (length (t_low t))) 0) (fun s =>
    match nth_error (t_h t) axis with Some ha => ok (s / ha) | None => fail IndexErr end)
  else fail AssertErr)).

(* batch call: one ValueError for the whole batch if any point is outside *)
Definition interpolate_batch (t : table) (xs : list (list Q)) : res (list Q) :=
  bind (mapM (fun x => find_base x (t_h t) (t_low t) (t_high t) (t_npt t)) xs) (fun _ =>
  mapM (interpolate t) xs).
Definition gradient_batch (t : table) (xs : list (list Q)) (axis : nat) : res (list Q) :=
  bind (mapM (fun x => find_base x (t_h t) (t_low t) (t_high t) (t_npt t)) xs) (fun _ =>
  mapM (fun x => gradient t x axis) xs).

(* ---------------------------------------------------------------- adaptive table *)

(* one stored vertex: integer multi-index (SparseNdArray._coords column), coordinate
   (self._pt column), value (SparseNdArray._values column) *)
Record entry := { e_idx : list Z; e_pt : list Q; e_val : Q }.

Record atable := { a_h : list Q; a_base : list Q; a_store : list entry }.

Definition list_Zeqb (a b : list Z) : bool :=
  (length a =? length b)%nat && forallb (fun p => (fst p =? snd p)%Z) (combine a b).

Fixpoint lookup (s : list entry) (k : list Z) : option entry :=
  match s with
  | [] => None
  | e :: r => if list_Zeqb (e_idx e) k then Some e else lookup r k
  end.

(* AdaptiveInterpolationTable._find_base_vertex(safeguarding=False): no box, no clamp *)
Definition afind_base (x h base : list Q) : list Z :=
  map3 (fun xi hi_ bi => Qfloor ((xi - bi) / hi_)) x h base.

(* coord = base_point + h * index *)
Definition vertex_coord (h base : list Q) (k : list Z) : list Q :=
  map3 (fun hi_ bi ki => bi + hi_ * inject_Z ki) h base k.

(* _fill_values for one point, without the rounding safeguard: every corner of the
   hypercube that is not stored yet is evaluated and appended *)
Fixpoint fill_loop (f : list Q -> Q) (h base : list Q) (b : list Z) (incs : list (list Z))
         (s : list entry) : list entry :=
  match incs with
  | [] => s
  | inc :: rest =>
      let k := map2 Z.add b inc in
      match lookup s k with
      | Some _ => fill_loop f h base b rest s
      | None =>
          let c := vertex_coord h base k in
          fill_loop f h base b rest (s ++ [{| e_idx := k; e_pt := c; e_val := Qred (f c) |}])
      end
  end.

Definition afill (f : list Q -> Q) (t : atable) (x : list Q) : atable :=
  {| a_h := a_h t; a_base := a_base t;
     a_store := fill_loop f (a_h t) (a_base t) (afind_base x (a_h t) (a_base t))
                          (incrs (length (a_h t))) (a_store t) |}.

(* adaptive _right_left_weights: coordinates of the stored base vertex *)
Definition aright_weights (t : atable) (x : list Q) (b : list Z) : res (list Q) :=
  match lookup (a_store t) b with
  | None => fail AssertErr
  | Some e => ok (map3 (fun xi pi hi_ => Qred ((xi - pi) / hi_)) x (e_pt e) (a_h t))
  end.

(* parent loops with _index_from_base_and_increment(linear=True) = position in the store
   (assert np.all(is_mem)); inside_grid is always true there *)
Fixpoint ainterp_loop (s : list entry) (rw : list Q) (b : list Z) (axis : option nat)
         (incs : list (list Z)) (acc : Q) : res Q :=
  match incs with
  | [] => ok acc
  | inc :: rest =>
      let w0 := map2 axis_weight rw inc in
      let wi := match axis with
                | None => w0
                | Some ax => set_nth ax (2 * inject_Z (nth ax inc 0%Z) - 1) w0
                end in
      match lookup s (map2 Z.add b inc) with
      | None => fail AssertErr
      | Some e => ainterp_loop s rw b axis rest (Qred (acc + qprod wi * e_val e))
      end
  end.

(* interpolate / gradient return the value and the new table state *)
Definition ainterpolate (f : list Q -> Q) (t : atable) (x : list Q) : res Q * atable :=
  let t' := afill f t x in
  let b := afind_base x (a_h t') (a_base t') in
  (bind (aright_weights t' x b) (fun rw =>
   if weights_ok rw then ainterp_loop (a_store t') rw b None (incrs (length (a_h t'))) 0
   else fail AssertErr), t').

Definition agradient (f : list Q -> Q) (t : atable) (x : list Q) (axis : nat) : res Q * atable :=
  let t' := afill f t x in
  let b := afind_base x (a_h t') (a_base t') in
  (bind (aright_weights t' x b) (fun rw =>
   if weights_ok rw then
     bind (ainterp_loop (a_store t') rw b (Some axis) (incrs (length (a_h t'))) 0) (fun s =>
     match nth_error (a_h t') axis with Some ha => ok (s / ha) | None => fail IndexErr end)
   else fail AssertErr), t').

Definition mk_atable (low high : list Q) (npt : list Z) : atable :=
  {| a_h := map3 hstep low high npt; a_base := low; a_store := [] |}.

(* a history of adaptive queries: None = interpolate, Some ax = gradient along ax *)
Fixpoint arun (f : list Q -> Q) (t : atable) (qs : list (list Q * option nat)) : list (res Q) * atable :=
  match qs with
  | [] => ([], t)
  | (x, None) :: r => let (v, t') := ainterpolate f t x in
                      let (vs, t'') := arun f t' r in (v :: vs, t'')
  | (x, Some ax) :: r => let (v, t') := agradient f t x ax in
                         let (vs, t'') := arun f t' r in (v :: vs, t'')
  end.

(* ---------------------------------------------------------------- multilinear functions *)

(* coefficient table of length 2^d: f(x1..xd) = (first half)(x2..xd) + x1 * (second half)(x2..xd) *)
Fixpoint mlin (d : nat) (cs : list Q) (x : list Q) : Q :=
  match d, x with
  | S d', xi :: x' =>
      let n := Nat.pow 2 d' in
      mlin d' (firstn n cs) x' + xi * mlin d' (skipn n cs) x'
  | _, _ => match cs with c :: _ => c | [] => 0 end
  end.

(* affine function c0 + sum c_i x_i *)
Definition affine (c0 : Q) (cs : list Q) (x : list Q) : Q := c0 + qsum (map2 Qmult cs x).

(* ---------------------------------------------------------------- tie helpers *)

Definition Qabs' (a : Q) : Q := if Qle_bool 0 a then a else - a.

(* |a - b| <= 1e-9 * (1 + |b|) *)
Definition close (a b : Q) : bool :=
  Qle_bool (Qabs' (a - b)) ((1 # 1000000000) * (1 + Qabs' b)).

Inductive out := OVals (l : list Q) | OErr (e : err).

Definition err_eqb (a b : err) : bool :=
  match a, b with ValueErr, ValueErr | IndexErr, IndexErr | AssertErr, AssertErr => true | _, _ => false end.

Definition agree_out (impl : out) (model : res (list Q)) : bool :=
  match impl, model with
  | OVals l, inr m => (length l =? length m)%nat && forallb (fun p => close (fst p) (snd p)) (combine l m)
  | OErr e, inl e' => err_eqb e e'
  | _, _ => false
  end.

Fixpoint sequence {A} (l : list (res A)) : res (list A) :=
  match l with [] => ok [] | a :: r => bind a (fun v => bind (sequence r) (fun vs => ok (v :: vs))) end.

(* one tie case: a table for mlin d cs on the box, a batch of points; the implementation's
   interpolate output, its gradient outputs per axis, and the outputs of an adaptive table
   (same grid) queried point by point: interpolate then gradients; nstored = number of
   stored vertices at the end (compared only when [cmp_store]) *)
Definition agree_case (d : nat) (low high : list Q) (npt : list Z) (cs : list Q)
           (xs : list (list Q)) (i_interp : out) (i_grads : list out)
           (a_queries : list (list Q * option nat)) (a_out : out)
           (cmp_store : bool) (nstored : Z) : bool :=
  let f := mlin d cs in
  let t := mk_table low high npt f in
  agree_out i_interp (interpolate_batch t xs) &&
  (length i_grads =? d)%nat &&
  forallb (fun p => agree_out (snd p) (gradient_batch t xs (fst p))) (combine (seq 0 d) i_grads) &&
  (let (vs, t') := arun f (mk_atable low high npt) a_queries in
   agree_out a_out (sequence vs) &&
   (negb cmp_store || (Z.of_nat (length (a_store t')) =? nstored)%Z)).
