(* C24 — the abstract container against which the transcription (Model/C24.v) is proved:
   which subdomains and interfaces SHOULD be present after a history, which calls are
   well-formed and which must be rejected.  Executable definitions only. *)
From Coq Require Import List Arith Bool.
Import ListNotations.
From PP Require Import Model.C24.

Record spec := mks {
  pS : list gid;                    (* the subdomains that should be present *)
  pI : list (gid * (gid * gid))     (* interface -> the two subdomains it joins, as given *)
}.
Definition sempty : spec := mks [] [].

Definition neqb (a b : gid) : bool := negb (geqb a b).
Definition ren (o n x : gid) : gid := if geqb x o then n else x.
Definition ren_entry (o n : gid) (e : gid * (gid * gid)) : gid * (gid * gid) :=
  (fst e, (ren o n (fst (snd e)), ren o n (snd (snd e)))).

Definition s_replace1 (sp : spec) (o n : gid) : spec :=
  mks (filter (fun x => neqb x o) (pS sp) ++ [n]) (map (ren_entry o n) (pI sp)).

Definition sstep (sp : spec) (o : op) : spec :=
  match o with
  | AddSd l => mks (pS sp ++ l) (pI sp)
  | AddIntf i a b => mks (pS sp) (pI sp ++ [(i, (a, b))])
  | RemoveSd s => mks (filter (fun x => neqb x s) (pS sp))
                      (filter (fun e => negb (touches s (snd e))) (pI sp))
  | Replace im sm => fold_left (fun sp e => s_replace1 sp (fst e) (snd e)) sm sp
  end.

(* ---- well-formed calls ---- *)
Fixpoint nodupb (l : list gid) : bool :=
  match l with [] => true | x :: r => negb (mem x r) && nodupb r end.

(* some interface already joins a and b *)
Definition joined (a b : gid) (I : list (gid * (gid * gid))) : bool :=
  existsb (fun e => pair_eqb (snd e) (a, b) || pair_eqb (snd e) (b, a)) I.

Fixpoint ok_replace (S : list gid) (sm : list (gid * gid)) : bool :=
  match sm with
  | [] => true
  | (o, n) :: r => mem o S && negb (mem n S) && (fst n =? fst o)
                   && ok_replace (filter (fun x => neqb x o) S ++ [n]) r
  end.

Definition okb (sp : spec) (o : op) : bool :=
  match o with
  | AddSd l => nodupb l && forallb (fun x => negb (mem x (pS sp))) l
  | AddIntf i a b =>
      negb (mem i (map fst (pI sp))) && mem a (pS sp) && mem b (pS sp)
      && (fst i <=? fst a) && (fst i <=? fst b) && (absdiff (fst a) (fst b) <? 3)
      && negb (joined a b (pI sp))
  | RemoveSd s => mem s (pS sp)
  | Replace im sm => ok_replace (pS sp) sm
  end.

(* ---- calls the container must reject, with the exception they must raise ---- *)
Definition rejb (sp : spec) (o : op) : option err :=
  match o with
  | AddSd l => if existsb (fun x => mem x (pS sp)) l || negb (dupfree l)
               then Some ValueErr else None
  | AddIntf i a b => if mem i (map fst (pI sp)) then Some ValueErr
                     else if absdiff (fst a) (fst b) <? 3 then None else Some ValueErr
  | RemoveSd s => if mem s (pS sp) then None else Some KeyErr
  | Replace im ((o, n) :: _) => if mem o (pS sp) then None else Some KeyErr
  | Replace im [] => None
  end.

(* ---- histories: every call is well-formed, or of a rejected kind ---- *)
Fixpoint hist_ok (sp : spec) (ops : list op) : bool :=
  match ops with
  | [] => true
  | o :: r => if okb sp o then hist_ok (sstep sp o) r
              else match rejb sp o with Some _ => hist_ok sp r | None => false end
  end.

Fixpoint srun (sp : spec) (ops : list op) : spec :=
  match ops with
  | [] => sp
  | o :: r => if okb sp o then srun (sstep sp o) r else srun sp r
  end.

Fixpoint souts (sp : spec) (ops : list op) : list outcome :=
  match ops with
  | [] => []
  | o :: r => if okb sp o then Done :: souts (sstep sp o) r
              else match rejb sp o with
                   | Some e => Raised e :: souts sp r
                   | None => Done :: souts sp r
                   end
  end.
