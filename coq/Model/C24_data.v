(* C24 — the data dictionaries attached to subdomains, interfaces and boundary grids.
   The keys of _subdomain_data / _interface_data / _boundary_grid_data are the key lists
   of Model/C24.v; this file transcribes which dictionary OBJECT is stored under each key:
   every dictionary created by the container gets a token (creation counter), and
   replace_subdomains_and_interfaces hands the old grid's dictionary on to the new grid
   (`self._subdomain_data[sd_new] = data`, `_boundary_grid_data[bg_new] =
   _boundary_grid_data[bg_old]`).  Executable definitions only. *)
From Coq Require Import List Arith Bool.
Import ListNotations.
From PP Require Import Model.C24.

Record dat := mkd {
  vS : list (gid * nat);      (* subdomain -> token of its data dictionary *)
  vI : list (gid * nat);      (* interface -> token *)
  vB : list (gid * nat);      (* boundary grid -> token *)
  nd : nat                    (* dictionaries created so far *)
}.
Definition dempty : dat := mkd [] [] [] 0.

(* fresh dictionaries for the keys, in order *)
Fixpoint alloc (ks : list gid) (m : list (gid * nat)) (n : nat) : list (gid * nat) * nat :=
  match ks with [] => (m, n) | k :: r => alloc r (dset k n m) (S n) end.

(* the boundary grids created by add_subdomains(l), in creation order *)
Definition new_bgs (g' : st) (l : list gid) : list gid :=
  flat_map (fun s => if 0 <? gdim s
                     then match lookup s (s2b g') with Some b => [b] | None => [] end
                     else []) l.

(* d[n] = d[o] *)
Definition copy (o n : gid) (m : list (gid * nat)) : list (gid * nat) :=
  match lookup o m with Some t => dset n t m | None => m end.

(* one (sd_old, sd_new) item: the subdomain's dictionary is handed on right after the
   lookup of sd_old; the boundary grid's dictionary only when the item completes *)
Definition replace_oneD (g : st) (d : dat) (o n : gid) : dat :=
  if negb (mem o (sds g)) then d
  else
    let d1 := mkd (copy o n (vS d)) (vI d) (vB d) (nd d) in
    match replace_one g o n with
    | (_, Done) =>
        if 0 <? gdim o then
          match lookup o (s2b g) with
          | Some bgo => mkd (vS d1) (vI d1) (copy bgo (gdim n - 1, nbg g) (vB d1)) (nd d1)
          | None => d1
          end
        else d1
    | (_, Raised _) => d1
    end.

Fixpoint replace_allD (g : st) (d : dat) (sm : list (gid * gid)) : dat :=
  match sm with
  | [] => d
  | (o, n) :: r => match replace_one g o n with
                   | (g', Done) => replace_allD g' (replace_oneD g d o n) r
                   | (_, Raised _) => replace_oneD g d o n
                   end
  end.

(* [g] is the container BEFORE the call *)
Definition stepD (g : st) (d : dat) (o : op) : dat :=
  match o with
  | AddSd l =>
      match step g o with
      | (g', Done) => let (m, k) := alloc l (vS d) (nd d) in
                      let (mb, k2) := alloc (new_bgs g' l) (vB d) k in
                      mkd m (vI d) mb k2
      | (_, Raised _) => d
      end
  | AddIntf i a b =>
      match step g o with
      | (_, Done) => mkd (vS d) (dset i (nd d) (vI d)) (vB d) (S (nd d))
      | (_, Raised _) => d
      end
  | RemoveSd _ => d                 (* keys are deleted, no dictionary changes hands *)
  | Replace im sm => replace_allD g d sm
  end.

Fixpoint runD (g : st) (d : dat) (ops : list op) : st * dat :=
  match ops with
  | [] => (g, d)
  | o :: r => runD (fst (step g o)) (stepD g d o) r
  end.

(* subdomain_data(sd) etc.: the dictionary stored under each present key *)
Definition data_of (keys : list gid) (m : list (gid * nat)) : list (gid * option nat) :=
  map (fun k => (k, lookup k m)) keys.

(* ---------------- tie ---------------- *)
Definition ko_eqb (a b : gid * option nat) : bool :=
  geqb (fst a) (fst b) && opt_eqb Nat.eqb (snd a) (snd b).

Record dobs := mkdobs {
  do_sd : list (gid * option nat);
  do_if : list (gid * option nat);
  do_bg : list (gid * option nat)
}.

Definition dobs_ok (g : st) (d : dat) (x : dobs) : bool :=
  list_eqb ko_eqb (data_of (sds g) (vS d)) (do_sd x)
  && list_eqb ko_eqb (data_of (intfs g) (vI d)) (do_if x)
  && list_eqb ko_eqb (data_of (bgs g) (vB d)) (do_bg x).

Fixpoint agreeD_from (cm : list (gid * nat)) (g : st) (d : dat) (ops : list op)
         (os : list ob) (ds : list (option dobs)) : bool :=
  match ops, os, ds with
  | [], [], [] => true
  | o :: r, x :: xs, y :: ys =>
      let (g', out) := step g o in
      let d' := stepD g d o in
      (match x with Brief z => outcome_eqb out z | Full z => obs_ok cm g' out z end)
      && (match y with None => true | Some z => dobs_ok g' d' z end)
      && agreeD_from cm g' d' r xs ys
  | _, _, _ => false
  end.

Definition agreeD (cm : list (gid * nat)) (ops : list op) (os : list ob)
           (ds : list (option dobs)) : bool :=
  agreeD_from cm empty dempty ops os ds.

Definition KT (k : gid) (t : nat) : gid * option nat := (k, Some t).
Definition NoD : option dobs := None.
Definition SomeD (a b c : list (gid * option nat)) : option dobs := Some (mkdobs a b c).
