(* C37 — executable comparison functions used by the generated case files (the tie):
   structure (boundaries, extracted blocks, permutations, block form) over Z, and the
   exact-rational check A . A^-1 = I (tolerance 1e-9) on the implementation's float output. *)
From Coq Require Import List ZArith QArith Qabs Bool Arith.
Import ListNotations.
From PP Require Import Lib.Csr Lib.Dense Model.C37.

Definition qadd (a b : Q) : Q := Qred (a + b).
Definition qmul (a b : Q) : Q := Qred (a * b).
Definition qmm (n : nat) (A B : list (list Q)) : list (list Q) := mat_mul 0%Q qadd qmul n A B.
Definition zq (M : list (list Z)) : list (list Q) := map (map inject_Z) M.

Definition tol : Q := (1 # 1000000000)%Q.

Definition approx_id (n : nat) (M : list (list Q)) : bool :=
  (length M =? n) &&
  forallb (fun ir =>
    (length (snd ir) =? n) &&
    forallb (fun jx => Qle_bool (Qabs (snd jx - (if fst ir =? fst jx then 1 else 0))) tol)
            (combine (seq 0 n) (snd ir)))
    (combine (seq 0 n) M).

(* Ai is a two-sided inverse of the integer matrix A up to the tolerance *)
Definition approx_inverse (n : nat) (A : list (list Z)) (Ai : list (list Q)) : bool :=
  shapedb n n Ai && approx_id n (qmm n (zq A) Ai) && approx_id n (qmm n Ai (zq A)).

(* the dense matrix of a stored csr (false) / csc (true) matrix *)
Definition dense_of (csc : bool) (A : csr) : list (list Z) :=
  if csc then transpose 0%Z (nmaj A) (to_dense A) else to_dense A.

(* diagonal blocks of a dense matrix for given sizes *)
Definition diag_blocks (M : list (list Z)) (sz : list nat) : list (list (list Z)) :=
  map (fun bs => map (fun r => seg (fst bs) (fst bs + snd bs) r) (seg (fst bs) (fst bs + snd bs) M))
      (combine (idx_blocks sz) sz).

Definition is_block_diag (M : list (list Z)) (sz : list nat) : bool :=
  eqb_matZ (block_diag 0%Z (diag_blocks M sz)) M.

(* backend result as reported by the harness: inverse (as exact rationals) or error *)
Definition inv_agrees (n : nat) (D : list (list Z)) (model_ok : bool) (model_err : err)
                      (impl : res (list (list Q))) : bool :=
  match impl with
  | Ok Ai => model_ok && approx_inverse n D Ai
  | Err e => negb model_ok && err_eqb e model_err
  end.

Definition res_parts {E} (r : res E) : bool * err :=
  match r with Ok _ => (true, Undefined) | Err e => (false, e) end.

(* block-diagonal case: searched boundaries, blocks handed to np.linalg.inv by the python
   backend (line-wise), their block_diag is the stored matrix, both backends' outcome *)
Definition tie_bd (csc : bool) (A : csr) (sz : list nat) (nnz_impl : list nat)
                  (py_blocks : res (list (list (list Z))))
                  (inv_py inv_nb : res (list (list Q))) : bool :=
  let szf := filter (fun s => 0 <? s) sz in
  let A' := if has_stored_zero A then eliminate_zeros A else A in
  let mp := extract_blocks Python A sz in
  let mn := extract_blocks Numba A sz in
  let D := dense_of csc A in
  eqb_listN (idx_nnz A' szf) nnz_impl
  && res_eqb eqb_blocks mp py_blocks
  && (match mp with Ok bs => eqb_matZ (block_diag 0%Z bs) (to_dense A) | Err _ => true end)
  && inv_agrees (nmaj A) D (fst (res_parts mp)) (snd (res_parts mp)) inv_py
  && inv_agrees (nmaj A) D (fst (res_parts mn)) (snd (res_parts mn)) inv_nb.

Definition eqb_perm3 (a b : list nat * list nat * list nat) : bool :=
  eqb_listN (fst (fst a)) (fst (fst b)) && eqb_listN (snd (fst a)) (snd (fst b))
  && eqb_listN (snd a) (snd b).

(* permuted case: the permutation computed from the components, the component
   certificate, the block form handed to the block inverter, the matrix form P.A.Q of the
   slicers, and the inverse *)
Definition tie_perm (n : nat) (M : list (list Z))
                    (perm_impl : res (list nat * list nat * list nat))
                    (abd_impl : list (list Z)) (inv_impl : res (list (list Q))) : bool :=
  let cs := components n M in
  let mp := perm_of_components n cs in
  res_eqb eqb_perm3 mp perm_impl
  && comps_closed n M cs
  && match mp with
     | Err _ => true
     | Ok (rp, cp, sz) =>
         let B := to_block_form 0%Z n M rp cp in
         is_permb n rp && is_permb n cp
         && eqb_matZ B abd_impl
         && is_block_diag B sz
         && eqb_matZ (mat_mul 0%Z Z.add Z.mul n
                        (mat_mul 0%Z Z.add Z.mul n (perm_mat 0%Z 1%Z n rp) M)
                        (perm_mat 0%Z 1%Z n (invperm n cp))) B
         && eqb_listN (map (fun x => nth x (invperm n cp) 0%nat) cp) (seq 0%nat n)
         && match inv_impl with
            | Ok Ai => approx_inverse n M Ai
            | Err _ => false
            end
     end.

(* ---------------------------------------------------------------- scaled data and result layout *)

(* the stored values are the integers times an exact power-of-two scale sc *)
Definition zqs (sc : Q) (M : list (list Z)) : list (list Q) :=
  map (map (fun z => Qred (inject_Z z * sc))) M.

Definition approx_inverse_s (n : nat) (sc : Q) (A : list (list Z)) (Ai : list (list Q)) : bool :=
  shapedb n n Ai && approx_id n (qmm n (zqs sc A) Ai) && approx_id n (qmm n Ai (zqs sc A)).

Definition inv_agrees_s (n : nat) (sc : Q) (D : list (list Z)) (model_ok : bool) (model_err : err)
                        (impl : res (list (list Q))) : bool :=
  match impl with
  | Ok Ai => model_ok && approx_inverse_s n sc D Ai
  | Err e => negb model_ok && err_eqb e model_err
  end.

(* as tie_bd, for data scaled by sc, plus the storage layout (indptr, indices) of the
   matrix returned by block_diag_matrix *)
Definition tie_bd_s (csc : bool) (A : csr) (sz : list nat) (sc : Q) (nnz_impl : list nat)
                    (py_blocks : res (list (list (list Z))))
                    (inv_py inv_nb : res (list (list Q)))
                    (lay_ptr lay_idx : list nat) : bool :=
  let szf := filter (fun s => 0 <? s)%nat sz in
  let A' := if has_stored_zero A then eliminate_zeros A else A in
  let mp := extract_blocks Python A sz in
  let mn := extract_blocks Numba A sz in
  let D := dense_of csc A in
  eqb_listN (idx_nnz A' szf) nnz_impl
  && res_eqb eqb_blocks mp py_blocks
  && (match mp with
      | Ok bs => eqb_matZ (block_diag 0%Z bs) (to_dense A)
                 && eqb_listN (bdm_indptr szf) lay_ptr && eqb_listN (bdm_indices szf) lay_idx
      | Err _ => true
      end)
  && inv_agrees_s (nmaj A) sc D (fst (res_parts mp)) (snd (res_parts mp)) inv_py
  && inv_agrees_s (nmaj A) sc D (fst (res_parts mn)) (snd (res_parts mn)) inv_nb.

Definition tie_perm_s (n : nat) (M : list (list Z)) (sc : Q)
                      (perm_impl : res (list nat * list nat * list nat))
                      (abd_impl : list (list Z)) (inv_impl : res (list (list Q))) : bool :=
  let cs := components n M in
  let mp := perm_of_components n cs in
  res_eqb eqb_perm3 mp perm_impl
  && comps_closed n M cs
  && match mp with
     | Err _ => true
     | Ok (rp, cp, sz) =>
         let B := to_block_form 0%Z n M rp cp in
         is_permb n rp && is_permb n cp
         && eqb_matZ B abd_impl
         && is_block_diag B sz
         && eqb_matZ (mat_mul 0%Z Z.add Z.mul n
                        (mat_mul 0%Z Z.add Z.mul n (perm_mat 0%Z 1%Z n rp) M)
                        (perm_mat 0%Z 1%Z n (invperm n cp))) B
         && eqb_listN (map (fun x => nth x (invperm n cp) 0%nat) cp) (seq 0%nat n)
         && match inv_impl with
            | Ok Ai => approx_inverse_s n sc M Ai
            | Err _ => false
            end
     end.

(* ---------------------------------------------------------------- per-line scales *)

(* the stored values are the integers of line i times an exact power-of-two scale rs_i
   (blocks of very different magnitude) *)
Definition zqr (rs : list Q) (M : list (list Z)) : list (list Q) :=
  map (fun ir => map (fun z => Qred (inject_Z z * fst ir)) (snd ir)) (combine rs M).

Definition approx_inverse_r (n : nat) (rs : list Q) (A : list (list Z)) (Ai : list (list Q)) : bool :=
  (length rs =? n)%nat && shapedb n n Ai
  && approx_id n (qmm n (zqr rs A) Ai) && approx_id n (qmm n Ai (zqr rs A)).

Definition inv_agrees_r (n : nat) (rs : list Q) (D : list (list Z)) (model_ok : bool) (model_err : err)
                        (impl : res (list (list Q))) : bool :=
  match impl with
  | Ok Ai => model_ok && approx_inverse_r n rs D Ai
  | Err e => negb model_ok && err_eqb e model_err
  end.

Definition tie_bd_r (csc : bool) (A : csr) (sz : list nat) (rs : list Q) (nnz_impl : list nat)
                    (py_blocks : res (list (list (list Z))))
                    (inv_py inv_nb : res (list (list Q)))
                    (lay_ptr lay_idx : list nat) : bool :=
  let szf := filter (fun s => 0 <? s)%nat sz in
  let A' := if has_stored_zero A then eliminate_zeros A else A in
  let mp := extract_blocks Python A sz in
  let mn := extract_blocks Numba A sz in
  let D := dense_of csc A in
  eqb_listN (idx_nnz A' szf) nnz_impl
  && res_eqb eqb_blocks mp py_blocks
  && (match mp with
      | Ok bs => eqb_matZ (block_diag 0%Z bs) (to_dense A)
                 && eqb_listN (bdm_indptr szf) lay_ptr && eqb_listN (bdm_indices szf) lay_idx
      | Err _ => true
      end)
  && inv_agrees_r (nmaj A) rs D (fst (res_parts mp)) (snd (res_parts mp)) inv_py
  && inv_agrees_r (nmaj A) rs D (fst (res_parts mn)) (snd (res_parts mn)) inv_nb.

Definition tie_perm_r (n : nat) (M : list (list Z)) (rs : list Q)
                      (perm_impl : res (list nat * list nat * list nat))
                      (abd_impl : list (list Z)) (inv_impl : res (list (list Q))) : bool :=
  let cs := components n M in
  let mp := perm_of_components n cs in
  res_eqb eqb_perm3 mp perm_impl
  && comps_closed n M cs
  && match mp with
     | Err _ => true
     | Ok (rp, cp, sz) =>
         let B := to_block_form 0%Z n M rp cp in
         is_permb n rp && is_permb n cp
         && eqb_matZ B abd_impl
         && is_block_diag B sz
         && match inv_impl with
            | Ok Ai => approx_inverse_r n rs M Ai
            | Err _ => false
            end
     end.
