(* C01 — rules outside the tree language of Model/C01.v: safe_power (functions.py, after
   the repair of its Jacobian) and row assignment (AdArray.__setitem__).
   Executable definitions only. *)
From Coq Require Import List ZArith QArith Qabs Bool Arith.
Import ListNotations.
From PP Require Import Model.C01 Model.C01Q.

Section RulesX.
  Context {T : Type} (O : Ops T).

  (* safe_power(power, zero_val, tol, var):
       nonzero = |val| > tol
       vals = zero_val ; vals[nonzero] = val[nonzero] ** power
       der  = 0        ; der[nonzero]  = power * val[nonzero] ** (power - 1.0)
       jac  = diags(der) * var.jac *)
  Definition sp_val (p : pexp T) (zero_val tol x : T) : T :=
    if oltb O tol (np_abs O x) then pow_plain O x p else zero_val.
  Definition sp_fac (p : pexp T) (tol x : T) : T :=
    if oltb O tol (np_abs O x)
    then match p with
         | PZ n => omul O (oofZ O n) (opowz O x (n - 1))
         | PR q => omul O q (orpow O x (osub O q (@o1 T O)))
         end
    else @o0 T O.
  Definition d_safe_power (p : pexp T) (zero_val tol : T) (a : dual (T:=T)) : dual (T:=T) :=
    (sp_val p zero_val tol (fst a), omul O (sp_fac p tol (fst a)) (snd a)).

  (* a[key] = b  (b an AdArray): rows idx[k] of value and Jacobian are replaced by row k of
     b (last write wins for repeated indices), other rows are kept *)
  Fixpoint find_last (idx : list nat) (i : nat) (k : nat) (acc : option nat) : option nat :=
    match idx with
    | [] => acc
    | j :: r => find_last r i (S k) (if Nat.eqb j i then Some k else acc)
    end.
  Definition set_rows {A} (idx : list nat) (a b : nat -> A) (i : nat) : A :=
    match find_last idx i 0 None with Some k => b k | None => a i end.
End RulesX.

(* tie: safe_power on a vector with identity Jacobian: value and diagonal factor *)
Definition agree_sp (p : pexp Q) (zero_val tol : Q) (xs val fac : list Q) : bool :=
  Nat.eqb (length val) (length xs) && Nat.eqb (length fac) (length xs)
  && forallb (fun xvf =>
                let r := d_safe_power QOpsS p zero_val tol (fst xvf, 1%Q) in
                close (fst r) (fst (snd xvf)) && close (snd r) (snd (snd xvf)))
             (combine xs (combine val fac)).

(* tie: a[idx] = b on AdArrays given as lists of (value, Jacobian row) *)
Definition agree_set (idx : list nat) (a b res : list (Q * list Q)) : bool :=
  Nat.eqb (length res) (length a)
  && forallb (fun ir =>
                let m := set_rows idx (fun i => nth i a (0%Q, [])) (fun k => nth k b (0%Q, []))
                                  (fst ir) in
                close (fst m) (fst (snd ir))
                && Nat.eqb (length (snd m)) (length (snd (snd ir)))
                && forallb (fun mr => close (fst mr) (snd mr))
                           (combine (snd m) (snd (snd ir))))
             (combine (seq 0 (length res)) res).
