(* C34 — uniquify_point_set / _unique_points_in_cluster (porepy/utils/array_operations.py).
   Faithful transcription ([chained = false]): cluster_norm is the norm of the FIRST point
   of the current norm cluster (updated only when a new cluster starts) — this is the open
   finding of C34.  [chained = true] is the variant in which every norm is compared with
   the previous one (the repair that was considered; it changes the pinned result of
   tests/utils/test_array_operations.py::test_uniquify_point_set[params1] and was therefore
   not committed).

   Numbers: points have integer coordinates and the tolerance is an integer t (the harness
   feeds the implementation with the same data scaled by a power of two, so every
   comparison below is the exact value of the float comparison).  sqrt is eliminated by
   comparing squares: for sorted norms 0 <= n1 <= n2 and t >= 0,
       |n1 - n2| > t   <=>   L > 0 /\ L^2 > 4 t^2 n1^2   with L = n2^2 - n1^2 - t^2.
   Executable definitions only. *)
From Coq Require Import List ZArith Bool Arith.
Import ListNotations.

Definition pt := list Z.

Fixpoint dist2 (a b : pt) : Z :=
  match a, b with
  | x :: r, y :: s => ((x - y) * (x - y) + dist2 r s)%Z
  | _, _ => 0%Z
  end.

Fixpoint norm2 (a : pt) : Z :=
  match a with x :: r => (x * x + norm2 r)%Z | [] => 0%Z end.

(* np.sum((col - u)**2) < tol**2 *)
Definition close (t : Z) (a b : pt) : bool := (dist2 a b <? t * t)%Z.

(* abs(cluster_norm - current_norm) > tol, on squared norms s1 <= s2 *)
Definition brk (t s1 s2 : Z) : bool :=
  let L := (s2 - s1 - t * t)%Z in (0 <? L)%Z && (4 * (t * t) * s1 <? L * L)%Z.

(* argsort: stable insertion sort of indices by key *)
Fixpoint ins (key : nat -> Z) (i : nat) (l : list nat) : list nat :=
  match l with
  | [] => [i]
  | j :: r => if (key i <=? key j)%Z then i :: j :: r else j :: ins key i r
  end.

Fixpoint argsort (key : nat -> Z) (l : list nat) : list nat :=
  match l with [] => [] | i :: r => ins key i (argsort key r) end.

(* the loop over sorted norms: the head of the result continues the current cluster;
   a new cluster starts where the norm exceeds cluster_norm by more than tol;
   cluster_norm = [cn]: first norm of the cluster (code) / previous norm (chained) *)
Fixpoint groups (chained : bool) (t : Z) (key : nat -> Z) (cn : Z) (l : list nat)
  : list (list nat) :=
  match l with
  | [] => [[]]
  | i :: r =>
      if brk t cn (key i)
      then match groups chained t key (key i) r with
           | g :: gs => [] :: (i :: g) :: gs
           | [] => []
           end
      else match groups chained t key (if chained then key i else cn) r with
           | g :: gs => (i :: g) :: gs
           | [] => []
           end
  end.

Definition norm_clusters (chained : bool) (t : Z) (key : nat -> Z) (sidx : list nat)
  : list (list nat) :=
  match sidx with
  | [] => []
  | i0 :: _ => groups chained t key (key i0) sidx
  end.

(* np.argmax(within_tol) when np.any(within_tol) *)
Fixpoint find_close (t : Z) (col : pt) (reps : list (pt * nat)) : option nat :=
  match reps with
  | [] => None
  | (c, _) :: r => if close t col c then Some 0 else option_map S (find_close t col r)
  end.

Fixpoint replace {A} (k : nat) (v : A) (l : list A) : list A :=
  match l, k with
  | [], _ => []
  | _ :: r, O => v :: r
  | x :: r, S k' => x :: replace k' v r
  end.

Definition dflt : pt * nat := ([], 0).

(* points[:, i]; indices are always in range in the code — the totalisation returns the
   first point for an index out of range *)
Definition pnt (pts : list pt) (i : nat) : pt := nth i pts (hd [] pts).

(* _unique_points_in_cluster: reps = (unique_cols[:, j], new_2_old[j]); o2n = pairs
   (original index, index of its representative inside the cluster) *)
Fixpoint inner (t : Z) (pts : list pt) (grp : list nat)
         (reps : list (pt * nat)) (o2n : list (nat * nat)) : list (pt * nat) * list (nat * nat) :=
  match grp with
  | [] => (reps, o2n)
  | i :: r =>
      let col := pnt pts i in
      match find_close t col reps with
      | None => inner t pts r (reps ++ [(col, i)]) (o2n ++ [(i, length reps)])
      | Some k =>
          let reps' := if i <? snd (nth k reps dflt) then replace k (col, i) reps else reps in
          inner t pts r reps' (o2n ++ [(i, k)])
      end
  end.

(* the loop over the norm clusters *)
Fixpoint assemble (t : Z) (pts : list pt) (gs : list (list nat))
         (reps : list (pt * nat)) (o2n : list (nat * nat)) : list (pt * nat) * list (nat * nat) :=
  match gs with
  | [] => (reps, o2n)
  | g :: r =>
      let (rg, og) := inner t pts g [] [] in
      assemble t pts r (reps ++ rg)
               (o2n ++ map (fun p => (fst p, snd p + length reps)) og)
  end.

Fixpoint assoc (i : nat) (l : list (nat * nat)) : nat :=
  match l with
  | [] => 0
  | (j, k) :: r => if i =? j then k else assoc i r
  end.

Fixpoint index_of (v : nat) (l : list nat) : nat :=
  match l with [] => 0 | x :: r => if v =? x then 0 else S (index_of v r) end.

(* everything after the norm clustering, for a given list of clusters *)
Definition uniquify_groups (t : Z) (pts : list pt) (gs : list (list nat))
  : list pt * list nat * list nat :=
  let (reps, o2n) := assemble t pts gs [] [] in
  let ordering := argsort (fun k => Z.of_nat (snd (nth k reps dflt)))
                          (seq 0 (length reps)) in
  (map (fun k => fst (nth k reps dflt)) ordering,
   map (fun k => snd (nth k reps dflt)) ordering,
   map (fun i => index_of (assoc i o2n) ordering) (seq 0 (length pts))).

(* uniquify_point_set(points, tol), parameterised by the norm-sorted index vector *)
Definition uniquify_with (chained : bool) (t : Z) (pts : list pt) (sidx : list nat)
  : list pt * list nat * list nat :=
  match pts with
  | [] => ([], [], [])
  | _ => uniquify_groups t pts (norm_clusters chained t (fun i => norm2 (pnt pts i)) sidx)
  end.

Definition sort_by_norm (pts : list pt) : list nat :=
  argsort (fun i => norm2 (pnt pts i)) (seq 0 (length pts)).

Definition uniquify (t : Z) (pts : list pt) : list pt * list nat * list nat :=
  uniquify_with false t pts (sort_by_norm pts).

(* ---------------- comparison with the implementation's output ---------------- *)
Fixpoint eqb_pt (a b : pt) : bool :=
  match a, b with
  | [], [] => true
  | x :: r, y :: s => (x =? y)%Z && eqb_pt r s
  | _, _ => false
  end.

Fixpoint eqb_pts (a b : list pt) : bool :=
  match a, b with
  | [], [] => true
  | x :: r, y :: s => eqb_pt x y && eqb_pts r s
  | _, _ => false
  end.

Fixpoint eqb_nats (a b : list nat) : bool :=
  match a, b with
  | [], [] => true
  | x :: r, y :: s => (x =? y) && eqb_nats r s
  | _, _ => false
  end.

Definition agree (t : Z) (pts : list pt) (u : list pt) (n2o o2n : list nat) : bool :=
  match uniquify t pts with
  | (u', n2o', o2n') => eqb_pts u' u && eqb_nats n2o' n2o && eqb_nats o2n' o2n
  end.
