(* C18 — mixed finite elements (RT0, MVEM) reproduce linear pressures; SPD mass matrices.
   rt0.py / mvem.py / dual_elliptic.py are NOT re-implemented; the model is (certificate tie,
   DESIGN.md §1 (K)):

   A. an exact rational positive-definiteness checker for dense matrices: symmetric Gaussian
      elimination (successive Schur complements = the L D L^T factorisation, computed here in Q,
      pivots > 0), run on the symmetric part of the real mass matrix;
   B. the saddle-point system  [M D^T; D 0] x = b(p)  seen through its rows: the exact candidate
      (u_f = -(K a).n_f, p_c = a.x_c + c0) depends linearly on theta = (a_0, a_1, a_2, c0), and
      so does the right-hand side; rows carry the 4 real right-hand sides in 4 extra columns;
   C. the consistency hypothesis of the method-level exactness theorem: the mass matrix applied
      to the interpolant of the constant flux -K e_m equals  sum_c s_cf (x_c - x_f)_m.
   Executable definitions only. *)
From Coq Require Import List ZArith QArith Qabs Bool Arith.
Import ListNotations.
From PP Require Import Lib.RowLin.
Local Open Scope Q_scope.

(* ------------------------------------------------------------------ A. dense matrices *)
Definition mat := list (list Q).

Fixpoint dotv (x y : list Q) : Q :=
  match x, y with
  | a :: x', b :: y' => a * b + dotv x' y'
  | _, _ => 0
  end.

Definition mulmv (M : mat) (x : list Q) : list Q := map (fun r => dotv r x) M.
Definition quad (M : mat) (x : list Q) : Q := dotv x (mulmv M x).

Definition hd0 (r : list Q) : Q := match r with [] => 0 | a :: _ => a end.

(* u - k * v, length of u, missing entries of v count as 0; entries normalised *)
Fixpoint axpy (k : Q) (v u : list Q) : list Q :=
  match u with
  | [] => []
  | ui :: u' => Qred (ui - k * hd0 v) :: axpy k (tl v) u'
  end.

(* Schur complement of the leading entry a of  (a :: b) :: rows *)
Definition schur (a : Q) (b : list Q) (rows : mat) : mat :=
  map (fun r => axpy (hd0 r / a) b (tl r)) rows.

Fixpoint qlist_eqb (x y : list Q) : bool :=
  match x, y with
  | [], [] => true
  | a :: x', b :: y' => Qeq_bool a b && qlist_eqb x' y'
  | _, _ => false
  end.

Definition Qlt_bool (a b : Q) : bool := negb (Qle_bool b a).

(* n x n, leading pivots of the successive Schur complements positive, first column equal to
   first row at every stage *)
Fixpoint spd_chk (n : nat) (M : mat) : bool :=
  match n with
  | O => match M with [] => true | _ => false end
  | S n' =>
    match M with
    | (a :: b) :: rows =>
        Qlt_bool 0 a && (length b =? n') && (length rows =? n')
        && forallb (fun r => length r =? S n') rows
        && qlist_eqb (map hd0 rows) b
        && spd_chk n' (schur a b rows)
    | _ => false
    end
  end.

Definition ent (M : mat) (i j : nat) : Q := nth j (nth i M []) 0.

Definition sympart (n : nat) (M : mat) : mat :=
  map (fun i => map (fun j => Qred ((ent M i j + ent M j i) / 2)) (seq 0 n)) (seq 0 n).

Definition sym_close (tol : Q) (n : nat) (M : mat) : bool :=
  forallb (fun i => forallb (fun j =>
     Qle_bool (Qabs (ent M i j - ent M j i)) (tol * (1 + Qabs (ent M i j)))) (seq 0 n)) (seq 0 n).

Definition mass_ok (tol : Q) (n : nat) (M : mat) : bool :=
  sym_close tol n M && spd_chk n (sympart n M).

(* Gram form  x^T (B^T W B) x  written as  (B x)^T W (B x) *)
Definition gram_quad (W B : mat) (x : list Q) : Q := quad W (mulmv B x).

(* ------------------------------------------------------------------ B. the saddle-point system *)
Record inst := mk_inst {
  i_nf : nat;  i_nc : nat;
  i_K : list (list Q);                 (* constant permeability, 3 x 3, symmetric *)
  i_normals : list (list Q);           (* sd.face_normals[:, f], 3 components *)
  i_cc : list (list Q);                (* sd.cell_centers[:, c] *)
  i_fc : list (list Q);                (* sd.face_centers[:, f] *)
  i_finc : list (list (nat * Q));      (* per face: (cell, sign) = rows of sd.cell_faces *)
  i_rows : list row;                   (* rows of [A | -b_0 -b_1 -b_2 -b_3], A from assemble_matrix_rhs,
                                          b_m = its right-hand side for the basis pressure m *)
  i_mass : mat                         (* dense mass matrix *)
}.

Definition coord (pts : list (list Q)) (p l : nat) : Q := nth l (nth p pts []) 0.

Definition dot3 (u v : list Q) : Q :=
  nth 0 u 0 * nth 0 v 0 + nth 1 u 0 * nth 1 v 0 + nth 2 u 0 * nth 2 v 0.

(* face dof of the interpolated constant flux  -K e_m :  -(K e_m) . n_f  (K symmetric) *)
Definition ustar (I : inst) (m f : nat) : Q := - dot3 (nth m (i_K I) []) (nth f (i_normals I) []).

(* basis pressure m: x_m for m < 3, the constant 1 for m = 3 *)
Definition pbasis (pts : list (list Q)) (m p : nat) : Q := if m <? 3 then coord pts p m else 1.

(* exact candidate for the basis pressure m over the columns [flux nf | pressure nc | 4 rhs columns] *)
Definition basis (I : inst) (m : nat) : vec := fun j =>
  if j <? i_nf I then (if m <? 3 then ustar I m j else 0)
  else if j <? i_nf I + i_nc I then pbasis (i_cc I) m (j - i_nf I)
  else if j =? i_nf I + i_nc I + m then 1 else 0.

(* theta = [a_0; a_1; a_2; c0] : p(x) = a.x + c0 *)
Definition xstate (I : inst) (theta : list Q) : vec := lin_state (basis I) theta.

Definition resid_ok (tol : Q) (I : inst) : bool :=
  forallb (fun r => forallb (fun m => near tol (rabs r (basis I m)) (rdot r (basis I m)) 0)
                            (seq 0 4))
          (i_rows I).

(* ------------------------------------------------------------------ C. consistency of the mass matrix *)
Fixpoint isum (ic : list (nat * Q)) (g : nat -> Q) : Q :=
  match ic with [] => 0 | fs :: ic' => snd fs * g (fst fs) + isum ic' g end.
Fixpoint iabs (ic : list (nat * Q)) (g : nat -> Q) : Q :=
  match ic with [] => 0 | fs :: ic' => Qabs (snd fs * g (fst fs)) + iabs ic' g end.

Fixpoint dotabs (x y : list Q) : Q :=
  match x, y with a :: x', b :: y' => Qabs (a * b) + dotabs x' y' | _, _ => 0 end.

Definition ustar_vec (I : inst) (m : nat) : list Q := map (ustar I m) (seq 0 (i_nf I)).

(* (M u*_m)_f  =  sum_c s_cf (x_c - x_f)_m   for m < 3 *)
Definition consist_ok (tol : Q) (I : inst) : bool :=
  forallb (fun m =>
    forallb (fun f =>
      near tol (dotabs (nth f (i_mass I) []) (ustar_vec I m)
                + iabs (nth f (i_finc I) []) (fun c => coord (i_cc I) c m - coord (i_fc I) f m))
           (dotv (nth f (i_mass I) []) (ustar_vec I m))
           (isum (nth f (i_finc I) []) (fun c => coord (i_cc I) c m - coord (i_fc I) f m)))
      (seq 0 (i_nf I)))
    (seq 0 3).

Definition shape_ok (I : inst) : bool :=
  (length (i_K I) =? 3) && (length (i_normals I) =? i_nf I) && (length (i_cc I) =? i_nc I)
  && (length (i_fc I) =? i_nf I) && (length (i_finc I) =? i_nf I)
  && (length (i_rows I) =? i_nf I + i_nc I) && (length (i_mass I) =? i_nf I).

Definition check (tol : Q) (I : inst) : bool :=
  shape_ok I && mass_ok tol (i_nf I) (i_mass I) && resid_ok tol I && consist_ok tol I.

Definition check_diag (tol : Q) (I : inst) :=
  (shape_ok I, sym_close tol (i_nf I) (i_mass I), spd_chk (i_nf I) (sympart (i_nf I) (i_mass I)),
   resid_ok tol I, consist_ok tol I).
