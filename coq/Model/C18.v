(* C18 — mixed finite elements (RT0, MVEM) reproduce linear pressures; SPD mass matrices.
   rt0.py / mvem.py / dual_elliptic.py are NOT re-implemented; the model is (certificate tie,
   DESIGN.md §1 (K)):

   A. an exact rational positive-definiteness checker for dense matrices: symmetric Gaussian
      elimination (successive Schur complements = the L D L^T factorisation, computed here in Q,
      pivots > 0), run on the symmetric part of the real mass matrix;
   B. the saddle-point system  [M D^T; D 0] x = b(p)  seen through its rows: the exact candidate
      (u_f = -(K n_f).(P a), p_c = a.x_c + c0) depends linearly on theta = (a_0, a_1, a_2, c0), and
      so does the right-hand side; rows carry the 4 real right-hand sides in 4 extra columns;
   C. the consistency hypothesis of the method-level exactness theorem: the mass matrix applied
      to the interpolant of the constant flux -K e_m equals  sum_c s_cf (x_c - x_f)_m.
   Executable definitions only. *)
From Coq Require Import List ZArith QArith Qabs Bool Arith.
Import ListNotations.
From PP Require Import Lib.RowLin Lib.SumF Lib.RowInv.
Local Open Scope Q_scope.

(* ------------------------------------------------------------------ A. dense matrices *)
Definition mat := list (list Q).

Fixpoint dotv (x y : list Q) : Q :=
  match x, y with
  | a :: x', b :: y' => a * b + dotv x' y'
  | _, _ => 0
  end.

Definition mulmv (M : mat) (x : list Q) : list Q := map (fun r => dotv r x) M.
Definition quad (M : mat) (x : list Q) : Q := dotv x (mulmv M x).

Definition hd0 (r : list Q) : Q := match r with [] => 0 | a :: _ => a end.

(* u - k * v, length of u, missing entries of v count as 0; entries normalised *)
Fixpoint axpy (k : Q) (v u : list Q) : list Q :=
  match u with
  | [] => []
  | ui :: u' => Qred (ui - k * hd0 v) :: axpy k (tl v) u'
  end.

(* Schur complement of the leading entry a of  (a :: b) :: rows *)
Definition schur (a : Q) (b : list Q) (rows : mat) : mat :=
  map (fun r => axpy (hd0 r / a) b (tl r)) rows.

Fixpoint qlist_eqb (x y : list Q) : bool :=
  match x, y with
  | [], [] => true
  | a :: x', b :: y' => Qeq_bool a b && qlist_eqb x' y'
  | _, _ => false
  end.

Definition Qlt_bool (a b : Q) : bool := negb (Qle_bool b a).

(* n x n, leading pivots of the successive Schur complements positive, first column equal to
   first row at every stage *)
Fixpoint spd_chk (n : nat) (M : mat) : bool :=
  match n with
  | O => match M with [] => true | _ => false end
  | S n' =>
    match M with
    | (a :: b) :: rows =>
        Qlt_bool 0 a && (length b =? n') && (length rows =? n')
        && forallb (fun r => length r =? S n') rows
        && qlist_eqb (map hd0 rows) b
        && spd_chk n' (schur a b rows)
    | _ => false
    end
  end.

Definition ent (M : mat) (i j : nat) : Q := nth j (nth i M []) 0.

Definition sympart (n : nat) (M : mat) : mat :=
  map (fun i => map (fun j => Qred ((ent M i j + ent M j i) / 2)) (seq 0 n)) (seq 0 n).

Definition sym_close (tol : Q) (n : nat) (M : mat) : bool :=
  forallb (fun i => forallb (fun j =>
     Qle_bool (Qabs (ent M i j - ent M j i)) (tol * (1 + Qabs (ent M i j)))) (seq 0 n)) (seq 0 n).

(* n rows of length n *)
Definition wf_b (n : nat) (M : mat) : bool :=
  (length M =? n) && forallb (fun r => length r =? n) M.

Definition mass_ok (tol : Q) (n : nat) (M : mat) : bool :=
  wf_b n M && sym_close tol n M && spd_chk n (sympart n M).

(* Gram form  x^T (B^T W B) x  written as  (B x)^T W (B x) *)
Definition gram_quad (W B : mat) (x : list Q) : Q := quad W (mulmv B x).

(* the matrix B^T W B itself (B : m x n, W : m x m), the identity, shapes, entrywise closeness *)
Definition gram_mat (n m : nat) (W B : mat) : mat :=
  map (fun i => map (fun j =>
         Qred (sumf m (fun k => sumf m (fun l => ent B k i * ent W k l * ent B l j))))
       (seq 0 n)) (seq 0 n).

Definition idmat (m : nat) : mat :=
  map (fun i => map (fun j => if Nat.eqb i j then 1 else 0) (seq 0 m)) (seq 0 m).

Definition wfr_b (m n : nat) (B : mat) : bool :=
  (length B =? m) && forallb (fun r => length r =? n) B.

Definition mat_close (tol : Q) (n : nat) (X Y : mat) : bool :=
  forallb (fun i => forallb (fun j =>
     Qle_bool (Qabs (ent X i j - ent Y i j)) (tol * (1 + Qabs (ent Y i j)))) (seq 0 n)) (seq 0 n).

(* one local RT0 mass matrix A (n x n, n = dim+1 faces) with its factors captured from
   RT0.massHdiv:  B = N C  (m x n, m = dim (dim+1)),  W = HB * inv_K_exp  (m x m) *)
Record local := mk_local { l_n : nat; l_m : nat; l_A : mat; l_W : mat; l_B : mat }.

Definition local_ok (tol : Q) (L : local) : bool :=
  wfr_b (l_m L) (l_n L) (l_B L)
  && mass_ok tol (l_m L) (l_W L)                                             (* W positive definite *)
  && spd_chk (l_n L) (gram_mat (l_n L) (l_m L) (idmat (l_m L)) (l_B L))      (* B^T B PD: B injective *)
  && wf_b (l_n L) (l_A L)
  && mat_close tol (l_n L) (l_A L) (gram_mat (l_n L) (l_m L) (l_W L) (l_B L)). (* A = B^T W B *)

(* ------------------------------------------------------------------ B. the saddle-point system *)
Record inst := mk_inst {
  i_nf : nat;  i_nc : nat;
  i_K : list (list Q);                 (* constant permeability, 3 x 3, symmetric, ambient coordinates *)
  i_P : list (list Q);                 (* orthogonal projection onto the tangent space of the grid
                                          (identity for 3-D grids; embedded 1-D / 2-D grids see the
                                          tangential part P K P of the tensor) *)
  i_normals : list (list Q);           (* sd.face_normals[:, f], 3 components *)
  i_cc : list (list Q);                (* sd.cell_centers[:, c] *)
  i_fc : list (list Q);                (* sd.face_centers[:, f] *)
  i_finc : list (list (nat * Q));      (* per face: (cell, sign) = rows of sd.cell_faces *)
  i_rows : list row;                   (* rows of [A | -b_0 -b_1 -b_2 -b_3], A from assemble_matrix_rhs,
                                          b_m = its right-hand side for the basis pressure m *)
  i_mass : mat;                        (* dense mass matrix *)
  i_xs : list Q;                       (* node abscissae of a 1-D grid along the x axis discretised by
                                          RT0 (execution tie of the 1-D model); [] otherwise *)
  i_inv : option (mat * Q);            (* optional certificate (N, d): N * A = d * I for the assembled matrix *)
  i_locals : list local                (* RT0: the local mass matrices with their captured factors *)
}.

Definition coord (pts : list (list Q)) (p l : nat) : Q := nth l (nth p pts []) 0.

Definition dot3 (u v : list Q) : Q :=
  nth 0 u 0 * nth 0 v 0 + nth 1 u 0 * nth 1 v 0 + nth 2 u 0 * nth 2 v 0.

(* face dof of the interpolated constant flux  -K P e_m :  -(K n_f) . (P e_m)  (K, P symmetric) *)
Definition kn (I : inst) (f : nat) : list Q :=
  map (fun r => dot3 r (nth f (i_normals I) [])) (i_K I).
Definition ustar (I : inst) (m f : nat) : Q := - dot3 (kn I f) (nth m (i_P I) []).

(* basis pressure m: x_m for m < 3, the constant 1 for m = 3 *)
Definition pbasis (pts : list (list Q)) (m p : nat) : Q := if m <? 3 then coord pts p m else 1.

(* exact candidate for the basis pressure m over the columns [flux nf | pressure nc | 4 rhs columns] *)
Definition basis (I : inst) (m : nat) : vec := fun j =>
  if j <? i_nf I then (if m <? 3 then ustar I m j else 0)
  else if j <? i_nf I + i_nc I then pbasis (i_cc I) m (j - i_nf I)
  else if j =? i_nf I + i_nc I + m then 1 else 0.

(* theta = [a_0; a_1; a_2; c0] : p(x) = a.x + c0 *)
Definition xstate (I : inst) (theta : list Q) : vec := lin_state (basis I) theta.

Definition resid_ok (tol : Q) (I : inst) : bool :=
  forallb (fun r => forallb (fun m => near tol (rabs r (basis I m)) (rdot r (basis I m)) 0)
                            (seq 0 4))
          (i_rows I).

(* ------------------------------------------------------------------ C. consistency of the mass matrix *)
Fixpoint isum (ic : list (nat * Q)) (g : nat -> Q) : Q :=
  match ic with [] => 0 | fs :: ic' => snd fs * g (fst fs) + isum ic' g end.
Fixpoint iabs (ic : list (nat * Q)) (g : nat -> Q) : Q :=
  match ic with [] => 0 | fs :: ic' => Qabs (snd fs * g (fst fs)) + iabs ic' g end.

Fixpoint dotabs (x y : list Q) : Q :=
  match x, y with a :: x', b :: y' => Qabs (a * b) + dotabs x' y' | _, _ => 0 end.

Definition ustar_vec (I : inst) (m : nat) : list Q := map (ustar I m) (seq 0 (i_nf I)).

(* (M u*_m)_f  =  sum_c s_cf (x_c - x_f)_m   for m < 3 *)
Definition consist_ok (tol : Q) (I : inst) : bool :=
  forallb (fun m =>
    forallb (fun f =>
      near tol (dotabs (nth f (i_mass I) []) (ustar_vec I m)
                + iabs (nth f (i_finc I) []) (fun c => coord (i_cc I) c m - coord (i_fc I) f m))
           (dotv (nth f (i_mass I) []) (ustar_vec I m))
           (isum (nth f (i_finc I) []) (fun c => coord (i_cc I) c m - coord (i_fc I) f m)))
      (seq 0 (i_nf I)))
    (seq 0 3).

Definition shape_ok (I : inst) : bool :=
  (length (i_K I) =? 3) && (length (i_P I) =? 3) && (length (i_normals I) =? i_nf I) && (length (i_cc I) =? i_nc I)
  && (length (i_fc I) =? i_nf I) && (length (i_finc I) =? i_nf I)
  && (length (i_rows I) =? i_nf I + i_nc I) && (length (i_mass I) =? i_nf I).

(* ------------------------------------------------------------------ D. RT0 on an interval partition.
   Transcription of RT0.discretize + DualElliptic.assemble_matrix_rhs for sd.dim = 1 on a grid
   along the x axis (faces = nodes x_0 .. x_n, cells = intervals, every boundary face Dirichlet):
   massHdiv with HB = [[2,1],[1,2]]/6, N = [[0,d],[-d,0]] (d = +-h), signs (-1,+1) gives the local
   mass matrix (h/k) [[1/3,1/6],[1/6,1/3]]; div = -cell_faces^T has +1 at the left face and -1 at
   the right face of a cell; rhs = -sign * bc_value on the two boundary faces. *)
Definition xn (xs : list Q) (i : nat) : Q := nth i xs 0.
Definition hlen (xs : list Q) (c : nat) : Q := xn xs (S c) - xn xs c.
Definition ncell (xs : list Q) : nat := pred (length xs).

Definition rt0_flux_row (xs : list Q) (k : Q) (f : nat) : row :=
  let n := ncell xs in
  (if 0 <? f then [(pred f, hlen xs (pred f) / (6 * k)); (f, hlen xs (pred f) / (3 * k))] else [])
  ++ (if f <? n then [(f, hlen xs f / (3 * k)); (S f, hlen xs f / (6 * k))] else [])
  ++ (if f <? n then [((S n + f)%nat, 1)] else [])
  ++ (if 0 <? f then [((S n + pred f)%nat, -(1))] else []).

Definition rt0_cell_row (c : nat) : row := [(c, 1); (S c, -(1))].

(* right-hand side entry i for boundary pressures pb0 (at x_0) and pbn (at x_n) *)
Definition rt0_rhs (xs : list Q) (pb0 pbn : Q) (i : nat) : Q :=
  if i =? 0 then pb0 else if i =? ncell xs then - pbn else 0.

(* row i of the assembled system, i < 2n+1 *)
Definition rt0_row (xs : list Q) (k : Q) (i : nat) : row :=
  if i <? S (ncell xs) then rt0_flux_row xs k i else rt0_cell_row (i - S (ncell xs)).

(* exact candidate for p(x) = a x + c0: flux -k a on every face, mid-point pressures *)
Definition rt0_cand (xs : list Q) (k a c0 : Q) : vec := fun j =>
  if j <? S (ncell xs) then - k * a
  else a * ((xn xs (j - S (ncell xs)) + xn xs (S (j - S (ncell xs)))) / 2) + c0.

(* execution tie: the real rows [A | -b_x -b_y -b_z -b_1] against the model *)
Definition rt0_model_row (xs : list Q) (k : Q) (i : nat) : row :=
  let N := (S (ncell xs) + ncell xs)%nat in
  rt0_row xs k i
  ++ [(N, - rt0_rhs xs (xn xs 0) (xn xs (ncell xs)) i); ((N + 3)%nat, - rt0_rhs xs 1 1 i)].

Definition agree_1d (tol : Q) (xs : list Q) (k : Q) (impl : list row) : bool :=
  let N := (S (ncell xs) + ncell xs)%nat in
  (1 <=? ncell xs) && (length impl =? N)
  && forallb (fun i => forallb (fun j =>
        near tol (Qabs (coef (nth i impl []) j)) (coef (nth i impl []) j)
             (coef (rt0_model_row xs k i) j)) (seq 0 (N + 4))) (seq 0 N).

Definition tie_1d_ok (tol : Q) (I : inst) : bool :=
  match i_xs I with
  | [] => true
  | xs => (S (ncell xs) =? i_nf I) && (ncell xs =? i_nc I)
          && agree_1d tol xs (nth 0 (nth 0 (i_K I) []) 0) (i_rows I)
  end.

Definition inv_cert_ok (I : inst) : bool :=
  match i_inv I with
  | None => true
  | Some Nd => inv_ok (i_nf I + i_nc I) (i_rows I) (fst Nd) (snd Nd)
  end.

Definition check (tol : Q) (I : inst) : bool :=
  shape_ok I && mass_ok tol (i_nf I) (i_mass I) && resid_ok tol I && consist_ok tol I
  && tie_1d_ok tol I && inv_cert_ok I && forallb (local_ok tol) (i_locals I).

Definition check_diag (tol : Q) (I : inst) :=
  (shape_ok I, wf_b (i_nf I) (i_mass I) && sym_close tol (i_nf I) (i_mass I),
   spd_chk (i_nf I) (sympart (i_nf I) (i_mass I)),
   resid_ok tol I, consist_ok tol I, tie_1d_ok tol I, inv_cert_ok I, forallb (local_ok tol) (i_locals I)).
