(* C27 — specification vocabulary used in the theorem statements (executable). *)
From Coq Require Import List ZArith QArith Bool Arith.
Import ListNotations.
From PP Require Import Model.C27.
Local Open Scope nat_scope.

(* number of entities (cells / faces) of the grids listed before the grid with identity k *)
Fixpoint pre (num : grid -> nat) (l : list grid) (k : nat) : nat :=
  match l with
  | [] => 0
  | g :: r => if gid g =? k then 0 else num g + pre num r k
  end.

(* the global index block of grid g in a vector ordered like the list [all], nd values per
   entity: offset = nd * (entities of the grids before g in [all]) *)
Definition block (num : grid -> nat) (all : list grid) (nd : nat) (g : grid) : list nat :=
  seq (pre num all (gid g) * nd) (num g * nd).

(* concatenation of the blocks of the requested grids, in the order of the request *)
Definition blocks (num : grid -> nat) (all : list grid) (nd : nat) (req : list grid) : list nat :=
  flat_map (block num all nd) req.

(* selection matrix with [ncols] columns: row k has its single entry 1 in column cs[k] *)
Definition selection (ncols : nat) (cs : list nat) : mat :=
  mkM (length cs) ncols
      (map (fun p => (fst p, snd p, 1%Q)) (combine (seq 0 (length cs)) cs)).

Definition identity (n : nat) : mat := mkM n n (map (fun k => (k, k, 1%Q)) (seq 0 n)).

(* diagonal 0/1 matrix with ones exactly at the indices cs *)
Definition indicator (n : nat) (cs : list nat) : mat :=
  mkM n n (map (fun c => (c, c, 1%Q)) cs).

(* a grid as porepy builds them: at least one cell; point grids have no faces, other grids
   have faces *)
Definition wf_grid (g : grid) : Prop :=
  0 < ncells g /\ (gdim g = 0 -> nfaces g = 0) /\ (0 < gdim g -> 0 < nfaces g).

Definition total (num : grid -> nat) (all : list grid) (nd : nat) : nat := sum_by num all * nd.

(* ---- mortar projections: per-interface blocks placed at the global offsets ---- *)
Definition side_gid (is_primary : bool) (i : intf) : nat :=
  if is_primary then iprim i else isec i.

(* entity of the non-mortar side: faces of the primary grid for codimension 1, else cells *)
Definition side_num (is_primary : bool) (codim : nat) : grid -> nat :=
  if (codim =? 1) && is_primary then nfaces else ncells.

(* subdomain -> mortar: rows = mortar cells (interfaces in list order), columns = global
   subdomain entities (subdomains in list order) *)
Fixpoint placed_to_mortar (num : grid -> nat) (is_primary : bool) (sds : list grid) (nd : nat)
         (ifs : list intf) (locs : list mat) (moff : nat) : list entry :=
  match ifs, locs with
  | i :: ri, L :: rl =>
      (if mem_gid (side_gid is_primary i) sds
       then map (fun e => (moff + erow e,
                           pre num sds (side_gid is_primary i) * nd + ecol e, evl e)) (ents L)
       else [])
      ++ placed_to_mortar num is_primary sds nd ri rl (moff + imc i * nd)
  | _, _ => []
  end.

(* mortar -> subdomain: the transposed placement *)
Fixpoint placed_from_mortar (num : grid -> nat) (is_primary : bool) (sds : list grid) (nd : nat)
         (ifs : list intf) (locs : list mat) (moff : nat) : list entry :=
  match ifs, locs with
  | i :: ri, L :: rl =>
      (if mem_gid (side_gid is_primary i) sds
       then map (fun e => (pre num sds (side_gid is_primary i) * nd + erow e,
                           moff + ecol e, evl e)) (ents L)
       else [])
      ++ placed_from_mortar num is_primary sds nd ri rl (moff + imc i * nd)
  | _, _ => []
  end.

(* the listed per-interface matrices have the shapes MortarGrid gives them, for the
   interfaces whose (primary / secondary) subdomain is listed *)
Fixpoint locs_fit (num : grid -> nat) (to_mortar is_primary : bool) (sds : list grid) (nd : nat)
         (ifs : list intf) (locs : list mat) : Prop :=
  match ifs, locs with
  | [], [] => True
  | i :: ri, L :: rl =>
      (forall g, In g sds -> gid g = side_gid is_primary i ->
         if to_mortar
         then nr L = imc i * nd /\ nc L = num g * nd
              /\ Forall (fun e => ecol e < num g * nd) (ents L)
         else nc L = imc i * nd /\ nr L = num g * nd
              /\ Forall (fun e => erow e < num g * nd) (ents L))
      /\ locs_fit num to_mortar is_primary sds nd ri rl
  | _, _ => False
  end.

(* ---- boundary projection ---- *)
(* global (list-ordered, nd values per face) indices of the domain-boundary faces *)
Definition bnd_cols (sds : list grid) (nd : nat) (b : bgrid) : list nat :=
  match bg_bnd b with
  | Some bnd =>
      if 0 <? gdim (bg_grid b)
      then flat_map (fun f => map (fun d => pre nfaces sds (gid (bg_grid b)) * nd + (f * nd + d))
                                  (seq 0 nd)) bnd
      else []
  | None => []
  end.

Definition all_bnd_cols (bgs : list bgrid) (nd : nat) : list nat :=
  flat_map (bnd_cols (map bg_grid bgs) nd) bgs.

(* every listed subdomain of dimension > 0 has its boundary grid; the boundary faces are
   distinct face indices of the grid *)
Definition wf_bgrid (b : bgrid) : Prop :=
  wf_grid (bg_grid b) /\
  (0 < gdim (bg_grid b) ->
     exists bnd, bg_bnd b = Some bnd /\ NoDup bnd /\ Forall (fun f => f < nfaces (bg_grid b)) bnd).

(* ---- the cached accessors ---- *)
(* what accessor k is meant to return: the construction from its own per-interface matrices *)
Definition answer (mp : mproj) (k : pkind) : res mat :=
  construct_projection (mp_sds mp) (mp_ifs mp) (mp_nd mp) (k_to_mortar k) (k_is_primary k)
                       (mp_loc mp k).

(* on a side classified as conforming (all weights within np.allclose of 1) the integrating
   and the averaging per-interface matrices coincide *)
Definition conf_guard (mp : mproj) : Prop :=
  (mp_conf_p mp = true ->
     mp_loc mp M2P_int = mp_loc mp M2P_avg /\ mp_loc mp P2M_int = mp_loc mp P2M_avg) /\
  (mp_conf_s mp = true ->
     mp_loc mp M2S_int = mp_loc mp M2S_avg /\ mp_loc mp S2M_int = mp_loc mp S2M_avg).
