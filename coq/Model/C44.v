(* C44 — clipping of line segments by a polygon (porepy/geometry/constrain_geometry.py:
   lines_by_polygon).  Executable definitions only.

   Part 1: exact Cyrus-Beck clipping of a segment by a CONVEX polygon (an intersection of
   half-planes) over Q: the parameter interval [t0, t1] of the part inside.
   Part 2: the GLUE of lines_by_polygon around shapely, transcribed from the code (after the
   repair "fix: lines_by_polygon keeps the line pieces of a GeometryCollection
   intersection"): which geometry types of poly.intersection(line) are handled, the
   touches / length / empty filters, the kept-edge indices and the propagation of the edge
   tags.  shapely itself is a Section variable.
   Part 3: comparison functions of the tie. *)
From Coq Require Import List ZArith QArith Qabs Qminmax Bool Arith.
Import ListNotations.
Open Scope Q_scope.

Definition pt := (Q * Q)%type.
Definition px (p : pt) : Q := fst p.
Definition py (p : pt) : Q := snd p.

(* ---------------------------------------------------------------- Part 1: convex clipping *)
(* half-plane { p : nx * x + ny * y <= c } *)
Record hplane := { h_nx : Q; h_ny : Q; h_c : Q }.
Definition hval (h : hplane) (p : pt) : Q := h_nx h * px p + h_ny h * py p - h_c h.

Definition seg_pt (p0 p1 : pt) (t : Q) : pt :=
  (px p0 + t * (px p1 - px p0), py p0 + t * (py p1 - py p0)).

(* one Cyrus-Beck step: along the segment hval = a + b t *)
Definition clip_step (p0 p1 : pt) (st : option (Q * Q)) (h : hplane) : option (Q * Q) :=
  match st with
  | None => None
  | Some (t0, t1) =>
      let a := hval h p0 in
      let b := hval h p1 - hval h p0 in
      if Qeq_bool b 0 then (if Qle_bool a 0 then Some (t0, t1) else None)
      else if Qle_bool 0 b then
             let t1' := Qmin t1 (- a / b) in
             if Qle_bool t0 t1' then Some (t0, t1') else None
           else
             let t0' := Qmax t0 (- a / b) in
             if Qle_bool t0' t1 then Some (t0', t1) else None
  end.

Definition clip (p0 p1 : pt) (hs : list hplane) : option (Q * Q) :=
  fold_left (clip_step p0 p1) hs (Some (0, 1)).

(* the half-planes of a polygon given by its vertices in counter-clockwise order: the
   inside is to the left of every edge v -> w *)
Definition edge_hplane (v w : pt) : hplane :=
  let ex := px w - px v in
  let ey := py w - py v in
  {| h_nx := ey; h_ny := - ex; h_c := ey * px v - ex * py v |}.
Definition polygon_hplanes (vs : list pt) : list hplane :=
  match vs with
  | [] => []
  | v0 :: _ => map (fun vw => edge_hplane (fst vw) (snd vw)) (combine vs (tl vs ++ [v0]))
  end.

(* the segment runs inside the line of a polygon edge *)
Definition on_edge_line (p0 p1 : pt) (h : hplane) : bool :=
  Qeq_bool (hval h p0) 0 && Qeq_bool (hval h p1) 0.

(* what lines_by_polygon returns for one segment and a convex polygon: the clipped piece,
   unless it is a single point or lies on the boundary (shapely: touches) *)
Definition convex_pieces (vs : list pt) (p0 p1 : pt) : list (pt * pt) :=
  let hs := polygon_hplanes vs in
  if Qeq_bool (px p0) (px p1) && Qeq_bool (py p0) (py p1) then []   (* length > 0 *)
  else
  match clip p0 p1 hs with
  | None => []
  | Some (t0, t1) =>
      if Qle_bool t1 t0 then []
      else if existsb (on_edge_line p0 p1) hs then []
      else [(seg_pt p0 p1 t0, seg_pt p0 p1 t1)]
  end.

(* ------------------------------------------------------------------- Part 2: the glue *)
Section Glue.
  Variable piece : Type.               (* a LineString as shapely returns it *)
  Inductive part := PLine (p : piece) | PPoint.
  (* the type of poly.intersection(line) *)
  Inductive geom :=
  | GLine (p : piece)                  (* LineString (possibly empty) *)
  | GMulti (ps : list piece)           (* MultiLineString *)
  | GColl (parts : list part)          (* GeometryCollection: lines and points *)
  | GOther.                            (* Point, MultiPoint, ... *)
  Variable isect : nat -> geom.        (* poly.intersection(line of edge ei) *)
  Variable nonempty : piece -> bool.   (* len(coords) > 0 *)
  Variable touches : piece -> bool.    (* int_line.touches(poly) *)
  Variable poslen : piece -> bool.     (* int_line.length > 0 *)

  Definition lines_of (g : geom) : list piece :=
    match g with
    | GLine p => [p]
    | GMulti ps => ps
    | GColl parts => flat_map (fun x => match x with PLine p => [p] | PPoint => [] end) parts
    | GOther => []
    end.
  Definition keep (p : piece) : bool := nonempty p && negb (touches p) && poslen p.

  (* int_pts / edges_kept_aslist after the loop over the edges: (piece, edge index) *)
  Definition edge_result (ei : nat) : list (piece * nat) :=
    map (fun p => (p, ei)) (filter keep (lines_of (isect ei))).
  Definition result (ne : nat) : list (piece * nat) := flat_map edge_result (seq 0 ne).

  (* edges_kept, and the tag rows edges[2:, edges_kept] attached to the pieces by position *)
  Definition kept (ne : nat) : list nat := map snd (result ne).
  Definition tags_out {T} (tag : nat -> T) (ne : nat) : list T := map tag (kept ne).
End Glue.

Arguments PLine {piece} p.
Arguments PPoint {piece}.
Arguments GLine {piece} p.
Arguments GMulti {piece} ps.
Arguments GColl {piece} parts.
Arguments GOther {piece}.

(* --------------------------------------------------------------- Part 3: comparisons *)
Definition close (a b : Q) : bool :=
  Qle_bool (Qabs (a - b)) ((1 # 1000000000) * (1 + Qabs b)).
Definition closep (a b : pt) : bool := close (px a) (px b) && close (py a) (py b).
Definition close_piece (m i : pt * pt) : bool :=
  (closep (fst i) (fst m) && closep (snd i) (snd m))
  || (closep (fst i) (snd m) && closep (snd i) (fst m)).

Fixpoint all2 {A B} (f : A -> B -> bool) (a : list A) (b : list B) : bool :=
  match a, b with
  | [], [] => true
  | x :: r, y :: s => f x y && all2 f r s
  | _, _ => false
  end.

Definition pred (p : pt) : pt := (Qred (px p), Qred (py p)).

(* convex tie: for every segment the model's pieces against the implementation's *)
Definition agree_convex (vs : list pt) (segs : list (pt * pt)) (impl : list (list (pt * pt))) : bool :=
  all2 (fun s out =>
          all2 close_piece
               (map (fun m => (pred (fst m), pred (snd m))) (convex_pieces vs (fst s) (snd s))) out)
       segs impl.

(* glue tie: a captured piece = its end points and the three flags shapely answered *)
Record cpiece := { c_a : pt; c_b : pt; c_nonempty : bool; c_touches : bool; c_poslen : bool }.

Definition agree_glue (isects : list (geom cpiece)) (tags : list Z)
           (impl_pieces : list (pt * pt)) (impl_kept : list nat) (impl_tags : list Z) : bool :=
  let isect := fun ei => nth ei isects GOther in
  let ne := length isects in
  let r := result cpiece isect c_nonempty c_touches c_poslen ne in
  all2 (fun m i => close_piece (c_a (fst m), c_b (fst m)) i) r impl_pieces
  && all2 Nat.eqb (kept cpiece isect c_nonempty c_touches c_poslen ne) impl_kept
  && all2 Z.eqb (tags_out cpiece isect c_nonempty c_touches c_poslen
                          (fun ei => nth ei tags 0%Z) ne) impl_tags.

(* constructors for the generated case files (binary integers as indices) *)
Definition zn (i : Z) : nat := Z.to_nat i.
