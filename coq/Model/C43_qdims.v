(* C43 — dimension normal form with RATIONAL exponents: c * pi^k * prod base_i ^ q_i.
   Extends Model.C43 (mono_of_units, integer powers) to unit strings with decimal powers
   such as "Pa^0.5 * m^-1.5".  A non-integer power is accepted on units whose own normal
   form has coefficient 1 and no pi (all base units, Pa, J, N, W; not degree).
   Executable definitions only. *)
From Coq Require Import String Ascii List ZArith QArith Bool.
Import ListNotations.
From PP Require Import Model.C43.
Open Scope string_scope.

Record qmono := { qcoef : Q; qpi : Z; qd : list Q }.

Definition of_mono (m : mono) : qmono :=
  {| qcoef := coef m; qpi := pi_exp m; qd := map inject_Z (dims m) |}.

Fixpoint qvadd (a b : list Q) : list Q :=
  match a, b with
  | x :: a', y :: b' => Qred (x + y) :: qvadd a' b'
  | [], _ => b
  | _, [] => a
  end.

Definition qmono_mul (a b : qmono) : qmono :=
  {| qcoef := Qred (qcoef a * qcoef b); qpi := (qpi a + qpi b)%Z; qd := qvadd (qd a) (qd b) |}.

(* m ** q for a non-integer q *)
Definition qpow_frac (m : mono) (q : Q) : option qmono :=
  if Qeq_bool (coef m) 1 && Z.eqb (pi_exp m) 0
  then Some {| qcoef := 1; qpi := 0; qd := map (fun d => Qred (inject_Z d * q)) (dims m) |}
  else None.

Definition qmono_of_sub (bases : list string) derived (sub : string) : option qmono :=
  match tokenize sub with
  | TMany => None
  | TName s => option_map of_mono (mono_of_name bases derived s)
  | TPow s p =>
      match mono_of_name bases derived s, parse_float p with
      | Some m, PNum q =>
          let r := Qred q in
          if Pos.eqb (Qden r) 1 then Some (of_mono (mono_pow m (Qnum r))) else qpow_frac m q
      | _, _ => None
      end
  end.

Fixpoint qmono_of_subs (bases : list string) derived (subs : list string) : option qmono :=
  match subs with
  | [] => Some (of_mono (mono_one bases))
  | s :: r => match qmono_of_sub bases derived s, qmono_of_subs bases derived r with
              | Some a, Some b => Some (qmono_mul a b)
              | _, _ => None
              end
  end.

Definition qmono_of_units (bases : list string) derived (units : string) : option qmono :=
  let u := strip_spaces units in
  if is_marker u then Some (of_mono (mono_one bases))
  else qmono_of_subs bases derived (split_on "*" u).

Fixpoint qlist_eqb (a b : list Q) : bool :=
  match a, b with
  | [], [] => true
  | x :: a', y :: b' => Qeq_bool x y && qlist_eqb a' b'
  | _, _ => false
  end.

Definition qmono_eqb (a b : qmono) : bool :=
  Qeq_bool (qcoef a) (qcoef b) && Z.eqb (qpi a) (qpi b) && qlist_eqb (qd a) (qd b).
