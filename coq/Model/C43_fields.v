(* C43 — the constants a material object is constructed with: the dataclass fields of its
   class in declaration order, each with its default unless given as keyword argument
   (the dataclass-generated __init__; asdict(self) in __post_init__ lists them in this
   order).  The field tables are generated (Gen/C43_tables.v: class_fields).
   Executable definitions only. *)
From Coq Require Import String List ZArith QArith Bool.
Import ListNotations.
From PP Require Import Model.C43.
Open Scope string_scope.

Definition override {T} (fields : list (string * T)) (given : list (string * T))
  : list (string * T) :=
  map (fun fd => (fst fd, match assoc (fst fd) given with Some v => v | None => snd fd end))
      fields.

(* a keyword that is not a field: TypeError of the generated __init__ (not in the enum of
   the model: such calls are not generated) *)
Definition all_fields {T} (fields : list (string * T)) (given : list (string * T)) : bool :=
  forallb (fun kv => match assoc (fst kv) fields with Some _ => true | None => false end) given.

Fixpoint keys_eqb (a b : list string) : bool :=
  match a, b with
  | [], [] => true
  | x :: a', y :: b' => String.eqb x y && keys_eqb a' b'
  | _, _ => false
  end.

(* every field of a class is declared in its SI_units table *)
Definition fields_ok (si_tables : list (string * list (string * string)))
           (class_fields : list (string * list (string * Q))) : bool :=
  forallb (fun cf =>
    match assoc (fst cf) si_tables with
    | Some tab => forallb (fun fd => match assoc (fst fd) tab with Some _ => true
                                                                 | None => false end) (snd cf)
    | None => false
    end) class_fields.

(* tie: the object is built from the keyword arguments [given]; the implementation reports
   the keys of constants_in_SI in its order, their values, and the attributes *)
Definition agree_material_given pi_float derived other
           (si_units : list (string * string)) (fields : list (string * Q))
           (env1 env2 : list (string * Q)) (given : list (string * Q))
           (keys : list string) (attrs1 si1 attrs2 si2 : list Q) : bool :=
  all_fields fields given &&
  let cs := override fields given in
  keys_eqb keys (map fst cs) &&
  agree_material pi_float derived other si_units env1 env2 cs attrs1 si1 attrs2 si2.
