(* C40 — which arrays of a tensor object are freshly allocated and which are aliases.
   Arrays are identified by allocation numbers (a counter s is threaded through); an object
   is the list of the array ids it holds: values first, then the constitutive-parameter
   attributes (mu, lmbda, extra fields — none for SecondOrderTensor).  The operations
   transcribe, statement by statement, where tensor.py allocates (`np.zeros`, `.copy()`,
   arithmetic results, integer-array indexing, tensordot) and where it merely binds an
   existing array (`self.mu = mu`, `setattr(self, key, field)`).
   Executable definitions only. *)
From Coq Require Import List Arith Bool.
Import ListNotations.

Record obj := { o_values : nat; o_fields : list nat }.
Definition ids (o : obj) : list nat := o_values o :: o_fields o.

(* FourthOrderTensor(mu, lmbda, other_fields): c = mu_mat * mu + ... is a new array; the
   argument arrays themselves become the attributes *)
Definition construct4 (s : nat) (args : list nat) : obj * nat :=
  ({| o_values := s; o_fields := args |}, S s).

(* copy: one .copy() per attribute (k new arrays), the constructor's own values array
   (discarded), then C.values = self.values.copy() *)
Definition copy4h (s : nat) (t : obj) : obj * nat :=
  let k := length (o_fields t) in
  ({| o_values := s + k + 1; o_fields := seq s k |}, s + k + 2).

(* restrict_to_cells: copy, then vals[cells] for every attribute and values[::, ::, cells]
   (integer-array indexing allocates) *)
Definition restrict4h (s : nat) (t : obj) : obj * nat :=
  let (c, s1) := copy4h s t in
  let k := length (o_fields c) in
  ({| o_values := s1 + k; o_fields := seq s1 k |}, s1 + k + 1).

(* SecondOrderTensor(...): perm = np.zeros(...) *)
Definition construct2 (s : nat) : obj * nat := ({| o_values := s; o_fields := [] |}, S s).
(* copy: six slice copies, then the constructor's array *)
Definition copy2h (s : nat) (t : obj) : obj * nat :=
  ({| o_values := s + 6; o_fields := [] |}, s + 7).
Definition restrict2h (s : nat) (t : obj) : obj * nat :=
  let (c, s1) := copy2h s t in ({| o_values := s1; o_fields := [] |}, S s1).
(* rotate: self.values = np.tensordot(...) rebinds values to a new array *)
Definition rotateh (s : nat) (t : obj) : obj * nat :=
  ({| o_values := s; o_fields := o_fields t |}, S s).

(* upper triangle of the "is the same array" matrix of a list of ids *)
Fixpoint share_matrix (l : list nat) : list bool :=
  match l with
  | [] => []
  | x :: r => map (Nat.eqb x) r ++ share_matrix r
  end.

Fixpoint bools_eqb (a b : list bool) : bool :=
  match a, b with
  | [], [] => true
  | x :: a', y :: b' => Bool.eqb x y && bools_eqb a' b'
  | _, _ => false
  end.

(* tie: arguments (mu, lmbda, ne extra fields), the tensor, its copy, its restriction, the
   copy of the restriction — impl reports np.shares_memory for every pair of arrays *)
Definition agree_alias4 (ne : nat) (impl : list bool) : bool :=
  let args := seq 0 (2 + ne) in
  let s0 := 2 + ne in
  let (t, s1) := construct4 s0 args in
  let (c, s2) := copy4h s1 t in
  let (r, s3) := restrict4h s2 t in
  let (c2, s4) := copy4h s3 r in
  bools_eqb (share_matrix (args ++ ids t ++ ids c ++ ids r ++ ids c2)) impl.

(* tie: na argument arrays, the tensor, its copy, its restriction, the values array of the
   copy after rotate *)
Definition agree_alias2 (na : nat) (impl : list bool) : bool :=
  let args := seq 0 na in
  let (t, s1) := construct2 na in
  let (c, s2) := copy2h s1 t in
  let (r, s3) := restrict2h s2 t in
  let (c', s4) := rotateh s3 c in
  bools_eqb (share_matrix (args ++ ids t ++ ids c ++ ids r ++ ids c')) impl.
