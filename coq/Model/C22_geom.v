(* C22 — the incidence pair of the C22 model (cell_faces / face_nodes as lists of csc
   columns) as a grid of the 2-D geometry model of C19 (PP.Model.C19: transcription of
   Grid._compute_geometry_2d).  Executable definitions only. *)
From Coq Require Import List ZArith QArith Bool Arith.
Import ListNotations.
From PP Require Import Model.C22 Model.C19.
Close Scope Q_scope.

(* the two nodes of a face, in the stored order of face_nodes.indices *)
Definition pair_of (c : col) : nat * nat := (fst (nth 0 c (0, 0%Z)), fst (nth 1 c (0, 0%Z))).

(* cell_faces entries (face, cell, sign) in csc storage order *)
Definition cf_entries (cf : csc) : list (nat * nat * Z) :=
  flat_map (fun c => map (fun e => (fst e, c, snd e)) (nth c cf [])) (seq 0 (length cf)).

Definition to_grid2 (nodes : list pt) (cf fn : csc) : grid2 :=
  {| g_nodes := nodes; g_faces := map pair_of fn; g_cf := cf_entries cf; g_nc := length cf |}.

(* tie: compute_geometry() of the real extracted subgrid against the C19 model evaluated
   on the model's extraction result *)
Definition agree_sub_geometry (nodes : list pt) (cf fn : csc) (c : cells) (sort : bool)
           (impl : option geom2) : bool :=
  match extract_subgrid cf fn c sort with
  | Ok sg => agree2 (to_grid2 (take_nodes (0%Q, 0%Q) nodes (sg_nodes sg)) (sg_cf sg) (sg_fn sg)) impl
  | Err _ => false
  end.
