(* C14 — bookkeeping of split / partial finite-volume discretisations.
   Transcribes, on an incidence model of the grid (nodes of every face, nodes of every cell,
   faces of every cell):
     _fvutils.cell_ind_for_partial_update (modes nodes / cells / faces, combined by hstack),
     _fvutils.subproblems (per partition: cells, nodes, stencil cells and faces, local-to-
       global cell and face maps of the extracted subgrid),
     the gluing in Mpfa/Mpsa/Biot.discretize: rows of faces outside faces_in_subgrid are
       zeroed (remove_nonlocal_contribution), results are mapped to the active grid and
       summed, then divided by np.bincount(concatenate(faces_in_subgrid)); rows outside
       the active faces are zeroed; update mode replaces the rows of the active faces.
   The numerical kernel (the local discretisation) is NOT modelled: it enters the theorems
   (PP.Proofs.C14) as an arbitrary local matrix with a locality hypothesis.
   Executable definitions only. *)
From Coq Require Import List Arith Bool.
Import ListNotations.

Record grid := mkgrid {
  num_nodes : nat;
  face_nodes : list (list nat);   (* nodes of face f *)
  cell_nodes : list (list nat);   (* nodes of cell c *)
  cell_faces : list (list nat) }. (* faces of cell c *)

Definition memb (x : nat) (l : list nat) : bool := existsb (Nat.eqb x) l.
Definition meets (a b : list nat) : bool := existsb (fun x => memb x b) a.
Definition subset (a b : list nat) : bool := forallb (fun x => memb x b) a.

(* indices i (increasing) of the entries of l that satisfy p *)
Definition where_ {E} (p : E -> bool) (l : list E) : list nat :=
  map fst (filter (fun ie => p (snd ie)) (combine (seq 0 (length l)) l)).

Definition union_sorted (n : nat) (a b : list nat) : list nat :=
  filter (fun x => memb x a || memb x b) (seq 0 n).

Definition nodes_of_cells (g : grid) (cells : list nat) : list nat :=
  filter (fun v => existsb (fun c => memb v (nth c (cell_nodes g) [])) cells) (seq 0 (num_nodes g)).
Definition nodes_of_faces (g : grid) (faces : list nat) : list nat :=
  filter (fun v => existsb (fun f => memb v (nth f (face_nodes g) [])) faces) (seq 0 (num_nodes g)).
Definition faces_touching (g : grid) (nodes : list nat) : list nat :=
  where_ (fun fn => meets fn nodes) (face_nodes g).
Definition faces_inside (g : grid) (nodes : list nat) : list nat :=
  where_ (fun fn => subset fn nodes) (face_nodes g).
Definition cells_touching (g : grid) (nodes : list nat) : list nat :=
  where_ (fun cn => meets cn nodes) (cell_nodes g).

(* mode "nodes": cells sharing a specified node; faces with ALL nodes specified *)
Definition stencil_nodes (g : grid) (nodes : list nat) : list nat * list nat :=
  (cells_touching g nodes, faces_inside g nodes).

(* mode "cells": faces sharing a vertex with the cells; cells sharing a vertex with
   those faces *)
Definition stencil_cells (g : grid) (cells : list nat) : list nat * list nat :=
  let v1 := nodes_of_cells g cells in
  let af := faces_touching g v1 in
  let v2 := union_sorted (num_nodes g) v1 (nodes_of_faces g af) in
  (cells_touching g v2, af).

(* mode "faces": faces sharing a vertex with the faces; cells sharing a vertex with the
   cells that share a vertex with the active faces -- the boolean array active_faces is
   shared between the modes, so the faces activated by the "cells" mode ([prev]) take part *)
Definition stencil_faces (g : grid) (prev : list nat) (faces : list nat) : list nat * list nat :=
  let pv := nodes_of_faces g faces in
  let af := union_sorted (length (face_nodes g)) prev (faces_touching g pv) in
  let an := nodes_of_faces g af in
  let pc := cells_touching g an in
  let an2 := union_sorted (num_nodes g) an (nodes_of_cells g pc) in
  (cells_touching g an2, af).

Fixpoint insert (x : nat) (l : list nat) : list nat :=
  match l with [] => [x] | y :: r => if x <=? y then x :: l else y :: insert x r end.
Definition sort (l : list nat) : list nat := fold_right insert [] l.

Definition uniq_sorted (n : nat) (l : list nat) : list nat := filter (fun x => memb x l) (seq 0 n).

(* cell_ind_for_partial_update: the cell lists of the given modes are stacked and
   uniquified (np.unique; code after the repair `fix: cell_ind_for_partial_update returns
   each cell once ...`, it used to sort only); the faces are the union *)
Definition cell_ind_for_partial_update (g : grid) (cells faces nodes : option (list nat))
  : list nat * list nat :=
  let nf := length (face_nodes g) in
  let rc := match cells with Some c => stencil_cells g c | None => ([], []) end in
  let rf := match faces with Some f => stencil_faces g (snd rc) f | None => ([], []) end in
  let rn := match nodes with Some v => stencil_nodes g v | None => ([], []) end in
  (uniq_sorted (length (cell_nodes g)) (fst rc ++ fst rf ++ fst rn),
   union_sorted nf (snd rc) (union_sorted nf (snd rf) (snd rn))).

(* find_active_indices *)
Definition find_active_indices (g : grid) (cells faces nodes : option (list nat))
  : list nat * list nat :=
  match cells, faces, nodes with
  | None, None, None => (seq 0 (length (cell_nodes g)), seq 0 (length (face_nodes g)))
  | _, _, _ => cell_ind_for_partial_update g cells faces nodes
  end.

(* extract_subgrid(g, cells): the faces of the subgrid in increasing global order *)
Definition faces_of_cells (g : grid) (cells : list nat) : list nat :=
  filter (fun f => existsb (fun c => memb f (nth c (cell_faces g) [])) cells)
         (seq 0 (length (face_nodes g))).

Record subproblem := mksub {
  faces_in_subgrid : list nat;   (* faces this subproblem is responsible for *)
  cells_in_partition : list nat;
  l2g_cells : list nat;          (* cells of the extracted subgrid (with overlap) *)
  l2g_faces : list nat }.        (* faces of the extracted subgrid *)


(* subproblems(...) for a given cell partition vector (pp.partition.partition is external) *)
Definition subproblems (g : grid) (num_part : nat) (part : list nat) : list subproblem :=
  let nc := length (cell_nodes g) in
  let nf := length (face_nodes g) in
  if num_part =? 1 then [mksub (seq 0 nf) (seq 0 nc) (seq 0 nc) (seq 0 nf)]
  else
    map (fun p =>
      let cip := where_ (Nat.eqb p) part in
      let nip := nodes_of_cells g cip in
      let st := cell_ind_for_partial_update g None None (Some nip) in
      mksub (snd st) cip (fst st) (faces_of_cells g (fst st)))
      (uniq_sorted (S (fold_right Nat.max 0 part)) part).

(* np.bincount(np.concatenate(faces_in_subgrid_accum)) *)
Definition bincount (l : list nat) : list nat :=
  map (fun f => count_occ Nat.eq_dec l f) (seq 0 (S (fold_right Nat.max 0 l))).
Definition num_face_repetitions (subs : list subproblem) : list nat :=
  bincount (concat (map faces_in_subgrid subs)).

(* local rows zeroed before the transfer: positions of l2g_faces not in faces_in_subgrid *)
Definition eliminate_face (s : subproblem) : list nat :=
  where_ (fun f => negb (memb f (faces_in_subgrid s))) (l2g_faces s).

(* the shortcut "all faces of the active grid are in this subgrid": local and active
   numberings coincide and the local result is added without mappings (code after the
   repair `fix: Mpfa.discretize adds ...`; it used to REPLACE the running sum) *)
Definition takes_shortcut (nf : nat) (s : subproblem) : bool :=
  nf =? length (faces_in_subgrid s).

(* ---------------------------------------------------------------- comparisons (tie) *)
Definition eqb_listN (a b : list nat) : bool :=
  (length a =? length b) && forallb (fun p => Nat.eqb (fst p) (snd p)) (combine a b).
Definition eqb_sub (a b : subproblem) : bool :=
  eqb_listN (faces_in_subgrid a) (faces_in_subgrid b)
  && eqb_listN (cells_in_partition a) (cells_in_partition b)
  && eqb_listN (l2g_cells a) (l2g_cells b) && eqb_listN (l2g_faces a) (l2g_faces b).
Definition eqb_subs (a b : list subproblem) : bool :=
  (length a =? length b) && forallb (fun p => eqb_sub (fst p) (snd p)) (combine a b).

(* structural facts the gluing theorem needs, evaluated on a concrete family *)
Fixpoint nodupb (l : list nat) : bool :=
  match l with [] => true | x :: r => negb (memb x r) && nodupb r end.
Definition family_ok (nf : nat) (subs : list subproblem) : bool :=
  forallb (fun s => nodupb (l2g_faces s) && nodupb (faces_in_subgrid s)
                    && subset (faces_in_subgrid s) (l2g_faces s)) subs
  && forallb (fun f => existsb (fun s => memb f (faces_in_subgrid s)) subs) (seq 0 nf).

Definition tie_sub (g : grid) (num_part : nat) (part : list nat) (impl : list subproblem)
                   (reps elim_sizes : list nat) : bool :=
  let m := subproblems g num_part part in
  eqb_subs m impl
  && eqb_listN (num_face_repetitions m) reps
  && eqb_listN (map (fun s => length (eliminate_face s)) m) elim_sizes
  && family_ok (length (face_nodes g)) m.

Definition tie_active (g : grid) (cells faces nodes : option (list nat))
                      (impl_cells impl_faces : list nat) : bool :=
  let r := find_active_indices g cells faces nodes in
  eqb_listN (fst r) impl_cells && eqb_listN (snd r) impl_faces.

(* consistency of the incidence model of a grid (evaluated on every grid of the tie):
   faces of a cell are numbered and their nodes are nodes of the cell, every face belongs
   to a cell and has a node, node numbers are in range *)
Definition grid_okb (g : grid) : bool :=
  (length (cell_faces g) =? length (cell_nodes g))
  && forallb (fun c => forallb (fun f => (f <? length (face_nodes g))
                                       && subset (nth f (face_nodes g) []) (nth c (cell_nodes g) []))
                               (nth c (cell_faces g) [])) (seq 0 (length (cell_nodes g)))
  && forallb (fun f => existsb (fun c => memb f (nth c (cell_faces g) [])) (seq 0 (length (cell_nodes g)))
                       && negb (length (nth f (face_nodes g) []) =? 0)) (seq 0 (length (face_nodes g)))
  && forallb (fun c => forallb (fun v => v <? num_nodes g) (nth c (cell_nodes g) [])) (seq 0 (length (cell_nodes g))).


Definition tie_sub_grid (g : grid) (num_part : nat) (part : list nat) (impl : list subproblem)
                        (reps elim_sizes : list nat) : bool :=
  grid_okb g && (length part =? length (cell_nodes g)) && tie_sub g num_part part impl reps elim_sizes.
