(* C34 (second part) — ismember_columns and intersect_sets
   (porepy/utils/array_operations.py).  Columns are integer tuples (list Z, any sign).
   Executable definitions only. *)
From Coq Require Import List ZArith Bool Arith.
Import ListNotations.
From PP Require Model.C34.
From PP Require Import Model.C46.   (* coord, ceqb, uniq (= np.unique(axis=1)), index_of, mask *)

(* ---------------- ismember_columns(a, b, sort) ---------------- *)
(* np.sort(x, axis=0): every column ascending *)
Fixpoint zins (x : Z) (l : list Z) : list Z :=
  match l with
  | [] => [x]
  | y :: r => if (x <=? y)%Z then x :: y :: r else y :: zins x r
  end.
Fixpoint zsort (l : list Z) : list Z :=
  match l with [] => [] | x :: r => zins x (zsort r) end.

Definition normc (srt : bool) (c : coord) : coord := if srt then zsort c else c.

(* np.searchsorted(sorted, v) (side='left') on a sorted vector *)
Fixpoint ssl (l : list nat) (v : nat) : nat :=
  match l with [] => 0 | x :: r => if x <? v then S (ssl r v) else 0 end.

(* [sort_ind] = np.argsort(ind_b): numpy's default sort is not stable, so WHICH sorting
   permutation is returned is not specified; the model takes it as an input (contract:
   a permutation of range(len(b)) along which ind_b is non-decreasing) *)
Definition ind_b_of (srt : bool) (a b : list coord) : list nat :=
  let sa := map (normc srt) a in
  let sb := map (normc srt) b in
  map (fun x => index_of x (uniq (sa ++ sb))) sb.

Definition ismember_with (srt : bool) (a b : list coord) (sort_ind : list nat)
  : list bool * list nat :=
  let sa := map (normc srt) a in
  let sb := map (normc srt) b in
  let u := uniq (sa ++ sb) in                                (* np.unique(c, axis=1, ...) *)
  let ind_a := map (fun x => index_of x u) sa in             (* ind[:num_a] *)
  let ind_b := map (fun x => index_of x u) sb in             (* ind[num_a:] *)
  let ismem := map (fun k => existsb (Nat.eqb k) ind_b) ind_a in        (* np.isin *)
  let sorted := map (fun j => nth j ind_b 0) sort_ind in     (* ind_b[sort_ind] *)
  let ypos := map (ssl sorted) (mask ind_a ismem) in
  (ismem, map (fun p => nth p sort_ind 0) ypos).

(* one admissible argsort: the stable one *)
Definition stable_sort_ind (srt : bool) (a b : list coord) : list nat :=
  let ind_b := ind_b_of srt a b in
  Model.C34.argsort (fun j => Z.of_nat (nth j ind_b 0)) (seq 0 (length ind_b)).

Definition ismember (srt : bool) (a b : list coord) : list bool * list nat :=
  ismember_with srt a b (stable_sort_ind srt a b).

(* boolean check of the argsort contract (used by the tie on numpy's actual output) *)
Fixpoint nondecr (l : list nat) : bool :=
  match l with
  | x :: ((y :: _) as r) => (x <=? y) && nondecr r
  | _ => true
  end.

Definition sort_ind_ok (ind_b sort_ind : list nat) : bool :=
  (length sort_ind =? length ind_b)
  && forallb (fun j => existsb (Nat.eqb j) sort_ind) (seq 0 (length ind_b))
  && nondecr (map (fun j => nth j ind_b 0) sort_ind).

(* ---------------- intersect_sets(a, b, tol),  tol = tol2 / 2 ---------------- *)
Definition within (tol2 : Z) (p q : coord) : bool :=
  (4 * Model.C34.dist2 p q <=? tol2 * tol2)%Z.

(* all columns of b within tol of p, ascending (what the ball query must return, as a set) *)
Fixpoint find_within (tol2 : Z) (p : coord) (b : list coord) : list nat :=
  match b with
  | [] => []
  | q :: r => (if within tol2 p q then [0] else []) ++ map S (find_within tol2 p r)
  end.

Definition bf_query (tol2 : Z) (a b : list coord) : list (list nat) :=
  map (fun p => find_within tol2 p b) a.

(* np.unique of an index vector: sorted, duplicate free *)
Fixpoint uins (x : nat) (l : list nat) : list nat :=
  match l with
  | [] => [x]
  | y :: r => if x <? y then x :: y :: r else if x =? y then y :: r else y :: uins x r
  end.
Fixpoint usort (l : list nat) : list nat :=
  match l with [] => [] | x :: r => uins x (usort r) end.

Section Intersect.
  (* a_tree.query_ball_tree(b_tree, tol): external (scipy) *)
  Variable query : list coord -> list coord -> list (list nat).

  Definition intersect (a b : list coord)
    : list nat * list nat * list bool * list (list nat) :=
    let inter := query a b in
    let ib := concat inter in
    let ia := flat_map (fun i => match nth i inter [] with [] => [] | _ :: _ => [i] end)
                       (seq 0 (length inter)) in
    let a_in_b := map (fun i => existsb (Nat.eqb i) ia) (seq 0 (length a)) in
    (usort ia, usort ib, a_in_b, inter).
End Intersect.

(* ---------------- comparison with the implementation's output ---------------- *)
Fixpoint eqb_bools (a b : list bool) : bool :=
  match a, b with
  | [], [] => true
  | x :: r, y :: s => Bool.eqb x y && eqb_bools r s
  | _, _ => false
  end.

Fixpoint eqb_natss (a b : list (list nat)) : bool :=
  match a, b with
  | [], [] => true
  | x :: r, y :: s => Model.C34.eqb_nats x y && eqb_natss r s
  | _, _ => false
  end.

(* [sort_ind] = what np.argsort returned inside the call (captured by the harness) *)
Definition agree_ismember (srt : bool) (a b : list coord) (sort_ind : list nat)
           (ismem : list bool) (ia : list nat) : bool :=
  let (m, i) := ismember_with srt a b sort_ind in
  sort_ind_ok (ind_b_of srt a b) sort_ind && eqb_bools m ismem && Model.C34.eqb_nats i ia.

(* [inter] = the implementation's match lists, each sorted ascending by the harness *)
Definition agree_intersect (tol2 : Z) (a b : list coord) (ia ib : list nat)
           (a_in_b : list bool) (inter : list (list nat)) : bool :=
  match intersect (bf_query tol2) a b with
  | (ia', ib', m', inter') =>
      Model.C34.eqb_nats ia' ia && Model.C34.eqb_nats ib' ib && eqb_bools m' a_in_b
      && eqb_natss inter' inter
  end.
