(* C17 — single-point upstream weighting.
   Transcribes porepy/numerics/fv/upwind.py : Upwind.discretize (and
   Grid.cell_faces_as_dense, which it calls) face by face.
   Executable definitions only.

   Indices (faces, cells, rows, columns) are [nat]; the value -1 that the code uses for
   "no cell on this side" is [None].  Matrix values and incidence signs are [Z].  The
   flux type [T] is abstract: the code only looks at [np.sign(q) >= 0]. *)
From Coq Require Import List ZArith Bool Arith.
Import ListNotations.

(* scipy.sparse.coo_matrix raises ValueError on a negative / too large column index *)
Inductive err := ValueErr.

Inductive result (A : Type) := Ok (a : A) | Err (e : err).
Arguments Ok {A}. Arguments Err {A}.

(* one stored entry of sd.cell_faces as returned by sps.find: (face, cell, sign) *)
Definition inc := (nat * nat * Z)%type.
(* sparse matrix as coordinate list (row, column, value) *)
Definition coo := list (nat * nat * Z).

(* ------------------------------------------------------------------------------ *)
(* Grid.cell_faces_as_dense:
     cf_dense = -ones((2, nf));  cf_dense[0, fi[pos]] = ci[pos];  cf_dense[1, fi[neg]] = ci[neg]
   numpy fancy assignment: the LAST entry of a face/side wins = the first match in the
   reversed entry list. *)
Definition side_ok (side : bool) (s : Z) : bool :=
  if side then (0 <? s)%Z else (s <? 0)%Z.

Definition dense (side : bool) (cf : list inc) (f : nat) : option nat :=
  match find (fun t : inc => let '(fi, _, s) := t in (fi =? f) && side_ok side s) (rev cf) with
  | Some (_, ci, _) => Some ci
  | None => None
  end.

(* components of an incidence entry, and the executable well-formedness check evaluated
   on every generated grid: at most one cell on each side of every face *)
Definition tf (t : inc) : nat := fst (fst t).
Definition tc (t : inc) : nat := snd (fst t).
Definition ts (t : inc) : Z := snd t.

Definition one_sidedb (cf : list inc) : bool :=
  forallb (fun t => forallb (fun t' =>
     negb ((tf t =? tf t') && (0 <? ts t * ts t')%Z) || (tc t =? tc t')) cf) cf.

(* np.asarray(sd.divergence(dim=1).sum(axis=0)) : per face, the sum of the stored signs *)
Definition sgn_div (cf : list inc) (f : nat) : Z :=
  fold_right (fun (t : inc) acc => let '(fi, _, s) := t in
                                   if fi =? f then (s + acc)%Z else acc) 0%Z cf.

(* sps.kron(M, sps.eye(k)) *)
Definition kron (k : nat) (M : coo) : coo :=
  flat_map (fun t : nat * nat * Z => let '(r, c, v) := t in
              map (fun j => (r * k + j, c * k + j, v)) (seq 0 k)) M.

(* coo_matrix((val[ind], (ind, ind))) for ind = np.where(sel)[0] *)
Definition diag_rows (faces : list nat) (sel : nat -> bool) (val : nat -> Z) : coo :=
  map (fun f => (f, f, val f)) (filter sel faces).

Definition isnone {A} (o : option A) : bool := match o with None => true | Some _ => false end.

Section Upwind.
  Variable T : Type.
  Variable nonneg : T -> bool.          (* np.sign(q) >= 0 *)

  Record input := {
    dim : nat;                           (* sd.dim *)
    nf : nat;                            (* sd.num_faces *)
    nc : nat;                            (* sd.num_cells *)
    cf : list inc;                       (* sps.find(sd.cell_faces) *)
    q : nat -> T;                        (* parameter darcy_flux, per face *)
    is_dir : nat -> bool;                (* bc.is_dir *)
    is_neu : nat -> bool;                (* bc.is_neu *)
    ncomp : nat                          (* num_components *)
  }.

  Record output := {
    upwind : coo;            upwind_shape : nat * nat;
    bound_dir : coo;         bound_dir_shape : nat * nat;
    bound_neu : coo;         bound_neu_shape : nat * nat
  }.

  Variable I : input.

  (* pos_flux = darcy_flux >= 0 ; neg_flux = not pos_flux *)
  Definition pos (f : nat) : bool := nonneg (q I f).

  (* upstream_cell_ind[pos] = cf_dense[0, pos]; upstream_cell_ind[neg] = cf_dense[1, neg] *)
  Definition up (f : nat) : option nat :=
    if pos f then dense true (cf I) f else dense false (cf I) f.

  (* inflow_ind: is_dir & ((pos & cf_dense[0] < 0) | (neg & cf_dense[1] < 0)) *)
  Definition inflow (f : nat) : bool :=
    is_dir I f && ((pos f && isnone (dense true (cf I) f))
                   || (negb (pos f) && isnone (dense false (cf I) f))).

  (* delete_ind = sort(r_[neumann_ind, inflow_ind]) *)
  Definition deleted (f : nat) : bool := is_neu I f || inflow f.

  (* coo_matrix((values, (row, col)), shape=(nf, nc)) after np.delete(…, delete_ind);
     a remaining column index -1 (or >= nc) makes scipy raise ValueError *)
  Fixpoint upstream_rows (faces : list nat) : option coo :=
    match faces with
    | [] => Some []
    | f :: r =>
        if deleted f then upstream_rows r
        else match up f with
             | None => None
             | Some c => if nc I <=? c then None
                         else match upstream_rows r with
                              | Some M => Some ((f, c, 1%Z) :: M)
                              | None => None
                              end
             end
    end.

  Definition faces : list nat := seq 0 (nf I).

  Definition discretize : result output :=
    if dim I =? 0 then
      (* point grid shortcut *)
      Ok {| upwind := []; upwind_shape := (0, 1);
            bound_dir := []; bound_dir_shape := (0, 0);
            bound_neu := []; bound_neu_shape := (0, 0) |}
    else
      match upstream_rows faces with
      | None => Err ValueErr
      | Some M =>
          let k := ncomp I in
          Ok {| upwind := kron k M;
                upwind_shape := (nf I * k, nc I * k);
                bound_dir := kron k (diag_rows faces inflow (fun _ => 1%Z));
                bound_dir_shape := (nf I * k, nf I * k);
                bound_neu := kron k (diag_rows faces (is_neu I) (sgn_div (cf I)));
                bound_neu_shape := (nf I * k, nf I * k) |}
      end.
End Upwind.

Arguments dim {T}. Arguments nf {T}. Arguments nc {T}. Arguments cf {T}. Arguments q {T}.
Arguments is_dir {T}. Arguments is_neu {T}. Arguments ncomp {T}.

(* ------------------------------------------------------------------------------ *)
(* Executed instance: integer-valued fluxes (exact in binary64). *)
Definition nonnegZ (x : Z) : bool := (0 <=? Z.sgn x)%Z.

(* Executed instance of the tie: dyadic fluxes (m, k) standing for the binary64 value m * 2^k
   (exact for the small mantissas and exponents the harness draws); the sign is that of m. *)
Definition dyadic := (Z * Z)%type.
Definition sgnD (x : dyadic) : Z := Z.sgn (fst x).
Definition nonnegD (x : dyadic) : bool := (0 <=? sgnD x)%Z.

Definition entry_eqb (a b : nat * nat * Z) : bool :=
  let '(r, c, v) := a in let '(r', c', v') := b in (r =? r') && (c =? c') && (v =? v')%Z.

Fixpoint coo_eqb (a b : coo) : bool :=
  match a, b with
  | [], [] => true
  | x :: a', y :: b' => entry_eqb x y && coo_eqb a' b'
  | _, _ => false
  end.

(* the harness reports the mathematical matrix: explicitly stored zeros dropped *)
Definition canon (M : coo) : coo := filter (fun t : nat * nat * Z => negb (snd t =? 0)%Z) M.

Definition shape_eqb (a b : nat * nat) : bool := (fst a =? fst b) && (snd a =? snd b).

Definition nthb (l : list bool) (i : nat) : bool := nth i l false.
Definition nthz (l : list Z) (i : nat) : Z := nth i l 0%Z.

(* The harness writes every index as a binary Z literal (unary nat literals are slow to
   parse); they are converted here, inside the evaluated term. *)
Definition zt := (Z * Z * Z)%type.
Definition of_zt (t : zt) : nat * nat * Z := let '(a, b, v) := t in (Z.to_nat a, Z.to_nat b, v).
Definition of_zshape (s : Z * Z) : nat * nat := (Z.to_nat (fst s), Z.to_nat (snd s)).

Definition nthd (l : list dyadic) (i : nat) : dyadic := nth i l (0, 0)%Z.

Definition mk_input (dim nf nc : Z) (cf : list zt) (q : list dyadic) (isdir isneu : list bool)
           (k : Z) : input dyadic :=
  {| dim := Z.to_nat dim; nf := Z.to_nat nf; nc := Z.to_nat nc; cf := map of_zt cf;
     q := nthd q; is_dir := nthb isdir; is_neu := nthb isneu; ncomp := Z.to_nat k |}.

Definition zmat := (list zt * (Z * Z))%type.

(* expected: None = the implementation raised ValueError; Some (three matrices with shapes) *)
Definition agree (I : input dyadic) (expected : option (zmat * zmat * zmat)) : bool :=
  one_sidedb (cf I) &&
  match discretize dyadic nonnegD I, expected with
  | Err ValueErr, None => true
  | Ok o, Some (u, us, (d, ds), (n, ns)) =>
      coo_eqb (canon (upwind o)) (map of_zt u) && shape_eqb (upwind_shape o) (of_zshape us)
      && coo_eqb (canon (bound_dir o)) (map of_zt d) && shape_eqb (bound_dir_shape o) (of_zshape ds)
      && coo_eqb (canon (bound_neu o)) (map of_zt n) && shape_eqb (bound_neu_shape o) (of_zshape ns)
  | _, _ => false
  end.

(* ------------------------------------------------------------------------------ *)
(* Upwind.assemble_matrix_rhs (legacy):  matrix = div @ diag(flux) @ upwind,
   rhs = div @ (bound_neu + bound_dir @ diag(flux)) @ bc_values; ValueError when the number
   of components is not 1 (shape mismatch).  Executed for fluxes with exponent 0 (integers). *)
Definition zentry (M : coo) (r c : nat) : Z :=
  fold_right (fun (t : nat * nat * Z) acc =>
     let '(r', c', v) := t in if (r' =? r) && (c' =? c) then (v + acc)%Z else acc) 0%Z M.
Definition zrow (M : coo) (x : nat -> Z) (r : nat) : Z :=
  fold_right (fun (t : nat * nat * Z) acc =>
     let '(r', c', v) := t in if r' =? r then (v * x c' + acc)%Z else acc) 0%Z M.

Definition assemble_matrix (I : input dyadic) (o : output) (i j : nat) : Z :=
  fold_right (fun t acc => if tc t =? i
                           then (ts t * fst (q I (tf t)) * zentry (upwind o) (tf t) j + acc)%Z else acc)
             0%Z (cf I).
Definition assemble_rhs (I : input dyadic) (o : output) (bcv : nat -> Z) (i : nat) : Z :=
  fold_right (fun t acc => if tc t =? i
     then (ts t * (zrow (bound_neu o) bcv (tf t)
                   + zrow (bound_dir o) (fun f => fst (q I f) * bcv f)%Z (tf t)) + acc)%Z else acc)
             0%Z (cf I).

(* expected: None = ValueError *)
Definition agree_assemble (I : input dyadic) (bcv : list Z) (expected : option (list zt * list Z))
  : bool :=
  match discretize dyadic nonnegD I with
  | Err _ => true
  | Ok o =>
      if ncomp I =? 1 then
        match expected with
        | None => false
        | Some (m, r) =>
            let mm := map of_zt m in
            forallb (fun i => forallb (fun j => (assemble_matrix I o i j =? zentry mm i j)%Z)
                                      (seq 0 (nc I))) (seq 0 (nc I))
            && forallb (fun i => (assemble_rhs I o (nthz bcv) i =? nthz r i)%Z) (seq 0 (nc I))
        end
      else match expected with None => true | Some _ => false end
  end.
