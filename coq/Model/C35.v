(* C35 — sparse-matrix utilities and index helpers.
   Transcribes, array operation by array operation,
     porepy/utils/array_operations.py: expand_index_pointers, expand_indices_nd,
                                       expand_indices_add_increment
     porepy/numerics/linalg/matrix_operations.py: rlencode, rldecode, slice_indices,
       slice_sparse_matrix, zero_rows/zero_columns, stack_mat, stack_diag
   (the code as it is after the repairs `fix: rldecode ...`, `fix: stack_diag ...`).
   csr and csc matrices share one record (PP.Lib.Csr): the functions only touch the
   compressed axis.  Executable definitions only. *)
From Coq Require Import List ZArith Bool Arith.
Import ListNotations.
From PP Require Import Lib.Csr.

Inductive err := IndexErr | ValueErr.
Inductive res (A : Type) := Ok (a : A) | Err (e : err).
Arguments Ok {A} a.
Arguments Err {A} e.

(* ---------------------------------------------------------------- numpy primitives *)

(* np.cumsum *)
Fixpoint cumsum_acc (acc : Z) (l : list Z) : list Z :=
  match l with [] => [] | x :: r => (acc + x)%Z :: cumsum_acc (acc + x)%Z r end.
Definition cumsum := cumsum_acc 0%Z.

Fixpoint cumsumN (acc : nat) (l : list nat) : list nat :=
  match l with [] => [] | x :: r => (acc + x) :: cumsumN (acc + x) r end.

Definition sumZ (l : list Z) : Z := fold_right Z.add 0%Z l.

(* x[p] = v  (in range) *)
Fixpoint upd {E} (l : list E) (p : nat) (v : E) : list E :=
  match l, p with
  | [], _ => []
  | _ :: r, O => v :: r
  | x :: r, S p' => x :: upd r p' v
  end.

(* x[pos] = vals  (fancy-index assignment, left to right) *)
Fixpoint scatter {E} (base : list E) (pos : list nat) (vals : list E) : list E :=
  match pos, vals with
  | p :: ps, v :: vs => scatter (upd base p v) ps vs
  | _, _ => base
  end.

(* x[ks] for indices known to be in range (default otherwise) *)
Definition gather {E} (d : E) (l : list E) (ks : list nat) : list E :=
  map (fun k => nth k l d) ks.

(* x[ks] with numpy's bounds check: None = IndexError *)
Fixpoint gather_opt {E} (l : list E) (ks : list nat) : option (list E) :=
  match ks with
  | [] => Some []
  | k :: r => match nth_error l k, gather_opt l r with
              | Some x, Some xs => Some (x :: xs)
              | _, _ => None
              end
  end.

(* x[r] for a boolean mask of the same length *)
Fixpoint mask {E} (r : list bool) (l : list E) : list E :=
  match r, l with
  | true :: r', x :: l' => x :: mask r' l'
  | false :: r', _ :: l' => mask r' l'
  | _, _ => []
  end.

(* np.flatnonzero / np.argwhere(...).ravel(), positions counted from s *)
Fixpoint argwhere_from (s : nat) (bs : list bool) : list nat :=
  match bs with
  | [] => []
  | true :: r => s :: argwhere_from (S s) r
  | false :: r => argwhere_from (S s) r
  end.

(* np.diff(hstack((prev, l))) *)
Fixpoint diffZ (prev : Z) (l : list Z) : list Z :=
  match l with [] => [] | x :: r => (x - prev)%Z :: diffZ x r end.

(* ---------------------------------------------------------------- expand_index_pointers *)

Definition expand_index_pointers (lo hi : list Z) : res (list Z) :=
  (* if lo.size == 1: lo = lo * np.ones(hi.size) ; if hi.size == 1: hi = hi * np.ones(lo.size) *)
  let lo1 := if length lo =? 1 then repeat (hd 0%Z lo) (length hi) else lo in
  let hi1 := if length hi =? 1 then repeat (hd 0%Z hi) (length lo1) else hi in
  if negb (length lo1 =? length hi1) then Err ValueErr else
  (* pos_diff = hi >= lo + 1 *)
  let pos := map (fun p => (fst p + 1 <=? snd p)%Z) (combine lo1 hi1) in
  if negb (existsb (fun b => b) pos) then Ok [] else
  let lo2 := mask pos lo1 in
  let hi2 := map (fun h => (h - 1)%Z) (mask pos hi1) in
  (* num_elements_in_interval = hi - lo + 1 *)
  let num := map (fun p => (snd p - fst p + 1)%Z) (combine lo2 hi2) in
  let x := repeat 1%Z (Z.to_nat (sumZ num)) in
  (* x[0] = lo[0] *)
  let x := upd x 0 (hd 0%Z lo2) in
  (* x[np.cumsum(num[0:-1])] = lo[1:] - hi[0:-1] *)
  let x := scatter x (map Z.to_nat (cumsum (removelast num)))
                   (map (fun p => (fst p - snd p)%Z) (combine (tl lo2) (removelast hi2))) in
  Ok (cumsum x).

(* np.arange(l, h) *)
Definition zrange (l h : Z) : list Z :=
  map (fun k => (l + Z.of_nat k)%Z) (seq 0 (Z.to_nat (h - l))).

(* the same function on natural-number pointers, as the matrix routines use it *)
Definition expand_nat (lo hi : list nat) : list nat :=
  match expand_index_pointers (map Z.of_nat lo) (map Z.of_nat hi) with
  | Ok l => map Z.to_nat l
  | Err _ => []
  end.

(* ---------------------------------------------------------------- expand_indices_* *)

(* 2-D integer arrays are lists of rows.  ravel(order="C") / ravel(order="F") of an array
   with w columns *)
Definition ravel_c (rows : list (list Z)) : list Z := concat rows.
Definition ravel_f (w : nat) (rows : list (list Z)) : list Z :=
  flat_map (fun j => map (fun r => nth j r 0%Z) rows) (seq 0 w).

Definition expand_indices_nd (ind : list Z) (nd : nat) (order_f : bool) : list Z :=
  if nd =? 1 then ind else
  (* new_ind = nd * ind + np.arange(nd)[:, np.newaxis]      (shape nd x len(ind)) *)
  let new_ind := map (fun d => map (fun i => (Z.of_nat nd * i + Z.of_nat d)%Z) ind) (seq 0 nd) in
  if order_f then ravel_f (length ind) new_ind else ravel_c new_ind.

Definition expand_indices_add_increment (x : list Z) (n : nat) (incr : Z) : list Z :=
  (* np.tile(x, (n, 1)) + increment * np.array([np.arange(n)]).transpose()   (shape n x len(x)) *)
  let ind_incr := map (fun k => map (fun v => (v + incr * Z.of_nat k)%Z) x) (seq 0 n) in
  ravel_f (length x) ind_incr.

(* ---------------------------------------------------------------- rlencode / rldecode *)

Section RunLength.
  Variable T : Type.
  Variable eqb : T -> T -> bool.     (* equality of two columns of A *)

  (* np.any(A[:, 0:-1] != A[:, 1:], axis=0) *)
  Fixpoint neq_adj (l : list T) : list bool :=
    match l with
    | x :: ((y :: _) as r) => negb (eqb x y) :: neq_adj r
    | _ => []
    end.

  (* A is given as the list of its columns.  For an array without columns the index
     vector is [-1] and A[:, [-1]] raises IndexError. *)
  Definition rlencode (l : list T) : res (list T * list Z) :=
    match l with
    | [] => Err IndexErr
    | _ =>
        let i := argwhere_from 0 (neq_adj l) ++ [length l - 1] in
        let num := diffZ (-1)%Z (map Z.of_nat i) in
        match gather_opt l i with
        | Some v => Ok (v, num)
        | None => Err IndexErr
        end
    end.

  Definition rldecode (A : list T) (n : list Z) : res (list T) :=
    let r := map (fun c => (0 <? c)%Z) n in
    (* i = cumsum(hstack((0, n[r]))) *)
    let i := cumsum (0%Z :: mask r n) in
    let j := repeat 0%Z (Z.to_nat (last i 0%Z)) in
    (* j[i[1:-1]] = 1 *)
    let mid := removelast (tl i) in
    let j := scatter j (map Z.to_nat mid) (repeat 1%Z (length mid)) in
    (* A[np.flatnonzero(r)[np.cumsum(j)]] *)
    match gather_opt (argwhere_from 0 r) (map Z.to_nat (cumsum j)) with
    | None => Err IndexErr
    | Some ix => match gather_opt A ix with
                 | None => Err IndexErr
                 | Some B => Ok B
                 end
    end.
End RunLength.

Arguments rlencode {T} eqb l.
Arguments rldecode {T} A n.

(* ---------------------------------------------------------------- matrix routines *)

Definition lines_ok (A : csr) (ind : list nat) : bool := forallb (fun i => i <? nmaj A) ind.

(* array_ind of slice_indices: positions of the lines' entries in indices/data *)
Definition array_ind (A : csr) (ind : list nat) : list nat :=
  expand_nat (gather 0 (indptr A) ind) (gather 0 (indptr A) (map S ind)).

Definition slice_indices (A : csr) (ind : list nat) : res (list nat * list nat) :=
  if negb (lines_ok A ind) then Err IndexErr else
  let ai := array_ind A ind in Ok (gather 0 (indices A) ai, ai).

Definition slice_sparse_matrix (A : csr) (ind : list nat) : res csr :=
  if negb (lines_ok A ind) then Err IndexErr else
  let ai := array_ind A ind in
  let lo := gather 0 (indptr A) ind in
  let hi := gather 0 (indptr A) (map S ind) in
  Ok {| nmaj := length ind; nmin := nmin A;
        (* indptr[1:] = cumsum(A.indptr[ind + 1] - A.indptr[ind]) *)
        indptr := 0 :: cumsumN 0 (map (fun p => snd p - fst p) (combine lo hi));
        indices := gather 0 (indices A) ai;
        data := gather 0%Z (data A) ai |}.

(* zero_rows (csr) / zero_columns (csc): A.data[array_ind] = 0, structure untouched *)
Definition zero_lines (A : csr) (ind : list nat) : res csr :=
  if negb (lines_ok A ind) then Err IndexErr else
  let ai := array_ind A ind in
  Ok {| nmaj := nmaj A; nmin := nmin A; indptr := indptr A; indices := indices A;
        data := scatter (data A) ai (repeat 0%Z (length ai)) |}.

(* stack_mat: vstack for csr, hstack for csc *)
Definition stack_mat (A B : csr) : res csr :=
  if negb (nmin A =? nmin B) then Err ValueErr else
  if length (indptr B) =? 1 then Ok A else
  Ok {| nmaj := nmaj A + nmaj B; nmin := nmin A;
        indptr := indptr A ++ map (fun p => p + last (indptr A) 0) (tl (indptr B));
        indices := indices A ++ indices B;
        data := data A ++ data B |}.

(* stack_diag: [[A, 0], [0, B]] *)
Definition stack_diag (A B : csr) : csr :=
  {| nmaj := nmaj A + nmaj B; nmin := nmin A + nmin B;
     indptr := indptr A ++ map (fun p => p + last (indptr A) 0) (tl (indptr B));
     indices := indices A ++ map (fun j => j + nmin A) (indices B);
     data := data A ++ data B |}.

(* ---------------------------------------------------------------- merge_matrices *)

(* np.argsort (stable insertion sort of (key, position) pairs) *)
Fixpoint ins_key (p : nat * nat) (l : list (nat * nat)) : list (nat * nat) :=
  match l with
  | [] => [p]
  | q :: r => if fst p <=? fst q then p :: q :: r else q :: ins_key p r
  end.
Definition sort_keys (l : list (nat * nat)) : list (nat * nat) := fold_right ins_key [] l.
Definition argsort (l : list nat) : list nat := map snd (sort_keys (combine l (seq 0 (length l)))).

(* np.unique(l).size == l.size *)
Fixpoint nodupb (l : list nat) : bool :=
  match l with [] => true | x :: r => negb (existsb (Nat.eqb x) r) && nodupb r end.

Fixpoint map2 {A B C} (f : A -> B -> C) (a : list A) (b : list B) : list C :=
  match a, b with x :: a', y :: b' => f x y :: map2 f a' b' | _, _ => [] end.

(* np.insert(arr, pos, vals): every value goes in front of the element that had position
   pos in arr (pos = len(arr): at the end); values with equal positions keep their order *)
Fixpoint insert_at {E} (p : nat) (arr : list E) (pvs : list (nat * E)) : list E :=
  match arr with
  | [] => map snd (filter (fun pv => p <=? fst pv) pvs)
  | x :: r => map snd (filter (fun pv => fst pv =? p) pvs) ++ x :: insert_at (S p) r pvs
  end.
Definition np_insert {E} (arr : list E) (pos : list nat) (vals : list E) : list E :=
  insert_at 0 arr (combine pos vals).

(* np.diff *)
Fixpoint diffN (l : list nat) : list nat :=
  match l with a :: ((b :: _) as r) => (b - a) :: diffN r | _ => [] end.

(* the body of merge_matrices once the lines are in increasing order *)
Definition merge_sorted (A B1 : csr) (lines1 : list nat) : csr :=
  let ip := indptr A in
  let lo := gather 0 ip lines1 in
  let hi := gather 0 ip (map S lines1) in
  let ind_ix := expand_nat lo hi in
  (* num_rem[lines + 1] = indptr[lines + 1] - indptr[lines]; cumsum; indptr - num_rem *)
  let num_rem := cumsumN 0 (scatter (repeat 0 (length ip)) (map S lines1) (map2 Nat.sub hi lo)) in
  let ip1 := map2 Nat.sub ip num_rem in
  (* keep[ind_ix] = False; indices[keep]; data[keep] *)
  let keep := scatter (repeat true (length (data A))) ind_ix (repeat false (length ind_ix)) in
  let indices1 := mask keep (indices A) in
  let data1 := mask keep (data A) in
  (* num_added[lines + 1] = diff(b_indptr); cumsum *)
  let blens := diffN (indptr B1) in
  let num_added := cumsumN 0 (scatter (repeat 0 (length ip1)) (map S lines1) blens) in
  (* indPos = np.repeat(indptr[lines], diff(b_indptr)) *)
  let ind_pos := flat_map (fun pc => repeat (fst pc) (snd pc)) (combine (gather 0 ip1 lines1) blens) in
  {| nmaj := nmaj A; nmin := nmin A;
     indptr := map2 Nat.add ip1 num_added;
     indices := np_insert indices1 ind_pos (indices B1);
     data := np_insert data1 ind_pos (data B1) |}.

(* A[lines, :] = B (csr) / A[:, lines] = B (csc), in place; the code after
   `fix: merge_matrices handles lines to replace that are not sorted` *)
Definition merge_matrices (A B : csr) (lines : list nat) : res csr :=
  if negb (nmin A =? nmin B) then Err ValueErr else
  if negb (length lines =? nmaj B) then Err ValueErr else
  if negb (nodupb lines) then Err ValueErr else
  (* if np.any(lines[1:] < lines[:-1]): sort the lines and the lines of B with them *)
  let sorted := monotone lines in
  let sort_ind := argsort lines in
  let lines1 := if sorted then lines else gather 0 lines sort_ind in
  match (if sorted then Ok B else slice_sparse_matrix B sort_ind) with
  | Err e => Err e
  | Ok B1 => if negb (lines_ok A lines1) then Err IndexErr else Ok (merge_sorted A B1 lines1)
  end.

(* ---------------------------------------------------------------- block_diag_index *)

(* i[a : a + len(vals)] = vals   (the code's slices have exactly the length of the value) *)
Definition assign_slice {E} (base : list E) (a : nat) (vals : list E) : list E :=
  firstn a base ++ vals ++ skipn (a + length vals) base.

(* block_diag_index(m): column indices of the block diagonal csr matrix with square blocks *)
Definition block_diag_index1 (m : list nat) : list nat :=
  let n := 0 :: m in                                        (* np.insert(m, 0, 0) *)
  let idx_blocks := cumsumN 0 n in
  let idx_inv_blocks := cumsumN 0 (map (fun s => s * s) n) in
  let i0 := repeat 0 (last idx_inv_blocks 0) in
  fold_left (fun i ib =>
               let i_range := seq (nth ib idx_blocks 0) (nth (S ib) idx_blocks 0 - nth ib idx_blocks 0) in
               (* i_val = n[ib+1] copies of i_range; i[idx_inv[ib] : idx_inv[ib+1]] = i_val.flat *)
               assign_slice i (nth ib idx_inv_blocks 0) (concat (repeat i_range (nth (S ib) n 0))))
            (seq 0 (length n - 1)) i0.

(* block_diag_index(m, n): row and column indices of all entries of rectangular blocks *)
Definition block_diag_index2 (m n : list Z) : res (list Z * list Z) :=
  let pos := cumsum (0%Z :: m) in
  let p1 := removelast pos in
  let p2 := map (fun x => (x - 1)%Z) (tl pos) in
  match rldecode p1 n, rldecode p2 n with
  | Ok p1_full, Ok p2_full =>
      match expand_index_pointers p1_full (map (fun x => (x + 1)%Z) p2_full) with
      | Ok i =>
          let sumn := map Z.of_nat (seq 0 (Z.to_nat (sumZ n))) in
          match rldecode m n with
          | Ok m_n_full => match rldecode sumn m_n_full with
                           | Ok j => Ok (i, j)
                           | Err e => Err e
                           end
          | Err e => Err e
          end
      | Err e => Err e
      end
  | Err e, _ => Err e
  | _, Err e => Err e
  end.

(* ---------------------------------------------------------------- block matrices *)

Definition sum_nat (l : list nat) : nat := fold_right Nat.add 0 l.

(* _csx_matrix_from_sparse_blocks for blocks that already have the requested format
   (blocks of the other format are first converted by scipy's asformat: not modelled) *)
Definition csx_from_sparse_blocks (blocks : list csr) : res csr :=
  match blocks with
  | [] => Err ValueErr                       (* np.concatenate of an empty list *)
  | [b] => Ok b                              (* shortcut: the block itself *)
  | _ =>
      (* indices_offset = cumsum([0] + minor extents); indptr_offset = cumsum([0] + indptr[-1]) *)
      let indices_offset := 0 :: cumsumN 0 (map nmin blocks) in
      let indptr_offset := 0 :: cumsumN 0 (map (fun m => last (indptr m) 0) blocks) in
      Ok {| nmaj := sum_nat (map nmaj blocks); nmin := sum_nat (map nmin blocks);
            indptr := 0 :: concat (map2 (fun m o => map (fun p => p + o) (tl (indptr m))) blocks indptr_offset);
            indices := concat (map2 (fun m o => map (fun j => j + o) (indices m)) blocks indices_offset);
            data := concat (map data blocks) |}
  end.

(* block_diag_matrix(vals, sz): csr matrix with square diagonal blocks of sizes sz whose
   values are given block after block, row-major *)
Definition block_diag_matrix (vals : list Z) (sz : list nat) : res csr :=
  (* indptr = hstack((0, cumsum(rldecode(sz, sz)))) *)
  match rldecode sz (map Z.of_nat sz) with
  | Err e => Err e
  | Ok lens =>
      Ok {| nmaj := sum_nat sz; nmin := sum_nat sz;
            indptr := 0 :: cumsumN 0 lens;
            indices := block_diag_index1 sz;
            data := vals |}
  end.

(* np.tile(l, k) for a 1-D array *)
Definition tile {E} (l : list E) (k : nat) : list E := concat (repeat l k).

(* _csx_matrix_from_dense_blocks: uniform block size, values block after block, line-major *)
Definition csx_from_dense_blocks (vals : list Z) (bs nb : nat) : res csr :=
  if negb (length vals =? bs * bs * nb) then Err ValueErr else
  (* indptr = np.arange(0, bs**2 * nb + 1, bs) *)
  let ip := map (fun k => k * bs) (seq 0 (bs * nb + 1)) in
  let idx :=
    if 1 <? bs then
      (* base = tile(tile(arange(bs), (bs, 1)).reshape((1, -1)), nb)[0] *)
      let base := tile (tile (seq 0 bs) bs) nb in
      (* block_increase = tile(arange(nb), (bs**2, 1)).reshape((1, -1), order="F")[0] * bs:
         the F-ravel of bs**2 equal rows arange(nb) *)
      let incr := map (fun b => b * bs)
                      (flat_map (fun j => map (fun r => nth j r 0) (repeat (seq 0 nb) (bs * bs))) (seq 0 nb)) in
      map2 Nat.add base incr
    else seq 0 nb in
  Ok {| nmaj := nb * bs; nmin := nb * bs; indptr := ip; indices := idx; data := vals |}.

(* ---------------------------------------------------------------- tie helpers *)

Definition eqb_lz := eqb_listZ.
Fixpoint eqb_llz (a b : list (list Z)) : bool :=
  match a, b with
  | [], [] => true
  | x :: r, y :: s => eqb_listZ x y && eqb_llz r s
  | _, _ => false
  end.

Definition eqb_err (a b : err) : bool :=
  match a, b with IndexErr, IndexErr => true | ValueErr, ValueErr => true | _, _ => false end.

Definition agree_lz (m : res (list Z)) (r : res (list Z)) : bool :=
  match m, r with
  | Ok a, Ok b => eqb_listZ a b
  | Err a, Err b => eqb_err a b
  | _, _ => false
  end.

Definition agree_csr (m : res csr) (r : res csr) : bool :=
  match m, r with
  | Ok a, Ok b => eqb_csr a b
  | Err a, Err b => eqb_err a b
  | _, _ => false
  end.

Definition agree_rlencode (m : res (list (list Z) * list Z)) (r : res (list (list Z) * list Z)) : bool :=
  match m, r with
  | Ok (v, n), Ok (w, k) => eqb_llz v w && eqb_listZ n k
  | Err a, Err b => eqb_err a b
  | _, _ => false
  end.

Definition agree_llz (m : res (list (list Z))) (r : res (list (list Z))) : bool :=
  match m, r with
  | Ok a, Ok b => eqb_llz a b
  | Err a, Err b => eqb_err a b
  | _, _ => false
  end.

Definition agree_slice_indices (m r : res (list nat * list nat)) : bool :=
  match m, r with
  | Ok (a, b), Ok (c, d) => eqb_listN a c && eqb_listN b d
  | Err a, Err b => eqb_err a b
  | _, _ => false
  end.

(* the dense reference of a result, compared with numpy's toarray() of the real result *)
Definition agree_dense (m : res csr) (d : list (list Z)) : bool :=
  match m with Ok a => eqb_llz (to_dense a) d | Err _ => false end.

Definition agree_lzlz (m r : res (list Z * list Z)) : bool :=
  match m, r with
  | Ok (a, b), Ok (c, d) => eqb_listZ a c && eqb_listZ b d
  | Err a, Err b => eqb_err a b
  | _, _ => false
  end.
