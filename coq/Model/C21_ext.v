(* C21 (extension) — signs_and_cells_of_boundary_faces with an arbitrary sorting permutation and
   with numpy's index handling (negative indices wrap, out-of-range raises IndexError), and
   Grid.set_periodic_map.  Executable definitions only. *)
From Coq Require Import List ZArith Bool Arith.
Import ListNotations.
From PP Require Import Model.C21.
Open Scope Z_scope.

Inductive err2 := ValueErr2 | IndexErr2.
Inductive res2 (A : Type) := Ok2 (a : A) | Err2 (e : err2).
Arguments Ok2 {A}. Arguments Err2 {A}.

(* signs_and_cells_of_boundary_faces where IA = np.argsort(faces) is ANY permutation (numpy's
   default quicksort is not stable: with repeated faces it may return any sorting permutation) *)
Definition signs_cells_perm (cf : list ent) (faces : list Z) (IA : list nat)
  : res (list Z * list Z) :=
  let IC := argsort (map Z.of_nat IA) in
  let en := slice_rows cf (take faces IA) in
  if negb (length en =? length faces)%nat then Err ValueErr
  else
    let fs := argsort (map e_r en) in
    Ok (take (take (map e_v en) fs) IC, take (take (map e_c en) fs) IC).

(* numpy indexing of the rows of cell_faces: -nf <= f < 0 wraps, anything else out of
   [-nf, nf) raises IndexError (before the size test) *)
Definition in_range (nf : nat) (f : Z) : bool := (- Z.of_nat nf <=? f) && (f <? Z.of_nat nf).
Definition wrap (nf : nat) (f : Z) : Z := if f <? 0 then f + Z.of_nat nf else f.

Definition signs_cells_idx (nf : nat) (cf : list ent) (faces : list Z) : res2 (list Z * list Z) :=
  if negb (forallb (in_range nf) faces) then Err2 IndexErr2
  else match signs_cells_perm cf (map (wrap nf) faces) (argsort faces) with
       | Ok r => Ok2 r
       | Err _ => Err2 ValueErr2
       end.

(* ------------------------------------------------------------------------------------ *)
(* set_periodic_map(periodic_face_map): rows of the map as lists.  Result: the new
   domain_boundary_faces tag or the error, and whether self.periodic_face_map was assigned. *)
Fixpoint updb (l : list bool) (i : nat) (x : bool) : list bool :=
  match l, i with
  | [], _ => []
  | _ :: r, O => x :: r
  | y :: r, S i' => y :: updb r i' x
  end.

Definition maxZ (l : list Z) : Z := match l with [] => 0 | a :: r => fold_left Z.max r a end.
Definition minZ (l : list Z) : Z := match l with [] => 0 | a :: r => fold_left Z.min r a end.

Definition set_periodic (tag : list bool) (nf : nat) (pm : list (list Z))
  : res2 (list bool) * bool :=
  if negb (length pm =? 2)%nat then (Err2 ValueErr2, false)     (* shape[0] != 2 *)
  else
    let flat := concat pm in                                     (* ravel("C") *)
    match flat with
    | [] => (Err2 ValueErr2, false)                              (* np.max of an empty array *)
    | _ =>
        if Z.of_nat nf <=? maxZ flat then (Err2 ValueErr2, false)
        else if minZ flat <? 0 then (Err2 ValueErr2, false)
        else (Ok2 (fold_left (fun t i => updb t (Z.to_nat i) false) flat tag), true)
    end.

(* ------------------------------------------------------------------------------------ *)
(* tie *)
Inductive sc_out2 := Sc2Ok (sgn ci : list Z) | Sc2ValueErr | Sc2IndexErr.
Definition agree_idx (nf : nat) (cf : list ent) (faces : list Z) (o : sc_out2) : bool :=
  match signs_cells_idx nf cf faces, o with
  | Ok2 (s, c), Sc2Ok s' c' => eqb_lz s s' && eqb_lz c c'
  | Err2 ValueErr2, Sc2ValueErr => true
  | Err2 IndexErr2, Sc2IndexErr => true
  | _, _ => false
  end.

Inductive per_out := PerOk (tag : list bool) | PerValueErr | PerIndexErr.
Definition agree_per (tag : list bool) (nf : nat) (pm : list (list Z)) (o : per_out)
           (assigned : bool) : bool :=
  match set_periodic tag nf pm, o with
  | (Ok2 t, a), PerOk t' => eqb_lb t t' && Bool.eqb a assigned
  | (Err2 ValueErr2, a), PerValueErr => Bool.eqb a assigned
  | (Err2 IndexErr2, a), PerIndexErr => Bool.eqb a assigned
  | _, _ => false
  end.

(* ------------------------------------------------------------------------------------ *)
(* the comparison of Model.C21.agree with the connection map checked on ALL cell pairs (cheap
   for grids with few cells that share very many faces) *)
Definition conn_agree_all (nc : nat) (cf : list ent) (L : list (Z * Z)) : bool :=
  let cells := map Z.of_nat (seq 0 nc) in
  forallb (fun i => forallb (fun j => Bool.eqb (conn_true cf i j) (mem2 (i, j) L)) cells) cells
  && forallb (fun p => (0 <=? fst p) && (fst p <? Z.of_nat nc) && (0 <=? snd p) && (snd p <? Z.of_nat nc)) L.

Definition agree_poly (dimg : Z) (nf nc : nat) (cf fn : list ent) (faces : list Z) (ddim : Z)
           (o_dense : list Z * list Z) (o_conn : list (Z * Z)) (o_tag : list bool)
           (o_sc : sc_out) (o_cn : list (Z * Z)) (o_div : div_out) : bool :=
  let d := dense nf cf in
  eqb_lz (fst d) (fst o_dense) && eqb_lz (snd d) (snd o_dense)
  && conn_agree_all nc cf o_conn
  && eqb_lb (bnd_tag dimg nf cf) o_tag
  && match signs_cells cf faces, o_sc with
     | Ok (s, c), ScOk s' c' => eqb_lz s s' && eqb_lz c c'
     | Err ValueErr, ScErr => true
     | _, _ => false
     end
  && set_agree (cn_true fn cf) (cn_struct fn cf) o_cn
  && match divergence cf ddim, o_div with
     | Ok m, DivOk m' => (length m =? length m')%nat && forallb (fun e => mem3 e m') m
                         && forallb (fun e => mem3 e m) m'
     | Err ValueErr, DivErr => true
     | _, _ => false
     end.
