(* C19 (3-D part) — Grid._compute_geometry_3d over Q.
   Transcription of the sub-triangle / sub-tetrahedron construction:
     face: ordered node loop p_0 .. p_{k-1}; temporary face centre c = mean of the nodes;
           one sub-triangle (p_i, p_{i+1}, c) per edge with
             sub_normal   = (p_{i+1} - p_i) x (c - p_i) / 2
             sub_centroid = (p_i + p_{i+1} + c) / 3
           face_normal = sum of sub_normals; sub_normals_sign = sign(sub_normal . face_normal)
           face_area   = sum |sub_normal|;  face_center = sum |sub_normal| sub_centroid / face_area
     cell: temporary centre t = mean over all its sub-triangles of the face centre;
           tet_volume = (sub_centroid - t) . (sub_normal * cell_faces sign * sub_normals_sign) / 3
           ValueError unless all tet_volumes > -1e-12
           volume = sum tet_volumes;  centre = t + sum tet_volume * 3/4 (sub_centroid - t) / volume
   The only irrational operation is |sub_normal|.  For PLANAR faces every sub_normal is a
   multiple of the face normal N, |sub_normal| = |sub_normal . N| / |N|, and |N| cancels in the
   face centre; the model uses that form and returns [G3NonPlanar] (outside the modelled domain)
   when some sub_normal is not parallel to its face normal.  area^2 = (sum |n_i . N|)^2 / (N . N).
   Executable definitions only. *)
From Coq Require Import List ZArith QArith Qabs Bool Arith.
Import ListNotations.
From PP Require Import Model.C19.
Open Scope Q_scope.

Definition v3 := (Q * Q * Q)%type.
Definition vx (a : v3) : Q := fst (fst a).
Definition vy (a : v3) : Q := snd (fst a).
Definition vz (a : v3) : Q := snd a.
Definition mk3 (x y z : Q) : v3 := (x, y, z).
Definition v0 : v3 := (0, 0, 0).
(* every operation normalises its result with Qred (Qred q == q): pure bookkeeping that keeps
   the exact rationals small during execution *)
Definition vadd (a b : v3) : v3 :=
  mk3 (Qred (vx a + vx b)) (Qred (vy a + vy b)) (Qred (vz a + vz b)).
Definition vsub (a b : v3) : v3 :=
  mk3 (Qred (vx a - vx b)) (Qred (vy a - vy b)) (Qred (vz a - vz b)).
Definition vscale (k : Q) (a : v3) : v3 :=
  mk3 (Qred (k * vx a)) (Qred (k * vy a)) (Qred (k * vz a)).
Definition vdot (a b : v3) : Q := Qred (vx a * vx b + vy a * vy b + vz a * vz b).
Definition vcross (a b : v3) : v3 :=
  mk3 (Qred (vy a * vz b - vz a * vy b)) (Qred (vz a * vx b - vx a * vz b))
      (Qred (vx a * vy b - vy a * vx b)).
Definition vsum (l : list v3) : v3 := fold_right vadd v0 l.
Definition vred (a : v3) : v3 := mk3 (Qred (vx a)) (Qred (vy a)) (Qred (vz a)).
Definition sumQr (l : list Q) : Q := fold_right (fun x s => Qred (x + s)) 0 l.

(* ------------------------------------------------------------------------------------ *)
(* faces *)
Definition rot {A} (l : list A) : list A := match l with [] => [] | a :: r => r ++ [a] end.
(* edge i runs from node i to the next node of the loop *)
Definition loop_edges (ps : list v3) : list (v3 * v3) := combine ps (rot ps).

Definition nQ (n : nat) : Q := inject_Z (Z.of_nat n).
Definition mean3 (ps : list v3) : v3 := vscale (/ nQ (length ps)) (vsum ps).

Definition sub_normal (c : v3) (e : v3 * v3) : v3 :=
  vscale (1 # 2) (vcross (vsub (snd e) (fst e)) (vsub c (fst e))).
Definition sub_centroid (c : v3) (e : v3 * v3) : v3 :=
  vscale (1 # 3) (vadd (vadd (fst e) (snd e)) c).

Definition face_normal_c (c : v3) (ps : list v3) : v3 := vsum (map (sub_normal c) (loop_edges ps)).
Definition face_normal (ps : list v3) : v3 := face_normal_c (mean3 ps) ps.

(* |sub_normal| * |N| for a planar face *)
Definition sub_weight (c N : v3) (e : v3 * v3) : Q := Qabs (vdot (sub_normal c e) N).
Definition face_center (ps : list v3) : v3 :=
  let c := mean3 ps in let N := face_normal ps in
  let es := loop_edges ps in
  vscale (/ sumQr (map (sub_weight c N) es))
         (vsum (map (fun e => vscale (sub_weight c N e) (sub_centroid c e)) es)).
Definition face_area2 (ps : list v3) : Q :=
  let c := mean3 ps in let N := face_normal ps in
  let w := sumQr (map (sub_weight c N) (loop_edges ps)) in Qred (w * w / vdot N N).

Definition is_zero3 (a : v3) : bool := Qeq_bool (vx a) 0 && Qeq_bool (vy a) 0 && Qeq_bool (vz a) 0.
Definition planar (ps : list v3) : bool :=
  let c := mean3 ps in let N := face_normal ps in
  forallb (fun e => is_zero3 (vcross (sub_normal c e) N)) (loop_edges ps).

(* ------------------------------------------------------------------------------------ *)
(* cells: one record per sub-triangle of every face of the cell *)
Record subtri := { st_n : v3;      (* sub_normal *)
                   st_sgn : Q;     (* sub_normals_sign *)
                   st_c : v3;      (* sub_centroid *)
                   st_fc : v3;     (* centre of the parent face *)
                   st_s : Q }.     (* cell_faces sign of the parent face *)

Definition face_subtris (ps : list v3) (s : Z) : list subtri :=
  let c := mean3 ps in let N := face_normal ps in let fc := face_center ps in
  map (fun e => {| st_n := sub_normal c e; st_sgn := qsign (vdot (sub_normal c e) N);
                   st_c := sub_centroid c e; st_fc := fc; st_s := inject_Z s |})
      (loop_edges ps).

Definition outer (t : subtri) : v3 := vscale (Qred (st_s t * st_sgn t)) (st_n t).
Definition tmp_center (ts : list subtri) : v3 :=
  vscale (/ nQ (length ts)) (vsum (map st_fc ts)).
Definition tet_volume (t0 : v3) (t : subtri) : Q := Qred (vdot (vsub (st_c t) t0) (outer t) / 3).
Definition cell_volume3 (t0 : v3) (ts : list subtri) : Q := sumQr (map (tet_volume t0) ts).
Definition cell_center3 (t0 : v3) (ts : list subtri) : v3 :=
  vadd t0 (vscale (/ cell_volume3 t0 ts)
                  (vsum (map (fun t => vscale (Qred (tet_volume t0 t * (3 # 4))) (vsub (st_c t) t0)) ts))).

(* ------------------------------------------------------------------------------------ *)
(* the grid *)
Record grid3 := { k_nodes : list v3; k_faces : list (list nat);
                  k_cf : list (nat * nat * Z); k_nc : nat }.

Definition face_pts (g : grid3) (f : nat) : list v3 :=
  map (fun i => nth i (k_nodes g) v0) (nth f (k_faces g) []).
Definition cell_subtris (g : grid3) (c : nat) : list subtri :=
  flat_map (fun x => face_subtris (face_pts g (fst (fst x))) (snd x))
           (filter (fun x => Nat.eqb (snd (fst x)) c) (k_cf g)).

(* executable forms of the hypotheses of the 3-D theorems (evaluated on every real cell by the tie) *)
Definition iloop (l : list nat) : list (nat * nat) := combine l (rot l).
Definition swapi (e : nat * nat) : nat * nat := (snd e, fst e).
Definition cell_entries3 (g : grid3) (c : nat) : list (nat * nat * Z) :=
  filter (fun x => Nat.eqb (snd (fst x)) c) (k_cf g).
(* directed node-number edges of the cell's faces, reversed for faces with sign -1 *)
Definition cell_iedges (g : grid3) (c : nat) : list (nat * nat) :=
  flat_map (fun x => let es := iloop (nth (fst (fst x)) (k_faces g) []) in
                     if (snd x =? 1)%Z then es else map swapi es)
           (cell_entries3 g c).
Definition pair_eqb (a b : nat * nat) : bool := Nat.eqb (fst a) (fst b) && Nat.eqb (snd a) (snd b).
Definition countp (l : list (nat * nat)) (x : nat * nat) : nat := length (filter (pair_eqb x) l).
(* every directed edge occurs as often as its reverse; all signs are +-1 *)
Definition watertight_b (g : grid3) (c : nat) : bool :=
  let E := cell_iedges g c in
  forallb (fun e => Nat.eqb (countp E e) (countp E (swapi e))) E
  && forallb (fun x => ((snd x =? 1) || (snd x =? -1))%Z) (cell_entries3 g c).
(* planar face whose sub-triangles are all oriented like the face, non-degenerate normal *)
Definition star_planar_b (ps : list v3) : bool :=
  let c := mean3 ps in let N := face_normal ps in
  planar ps
  && forallb (fun e => if Qlt_le_dec 0 (vdot (sub_normal c e) N) then true else false) (loop_edges ps)
  && (if Qlt_le_dec 0 (vdot N N) then true else false).
Definition cell_hyps_b (g : grid3) (c : nat) : bool :=
  watertight_b g c
  && forallb (fun x => star_planar_b (face_pts g (fst (fst x)))) (cell_entries3 g c).

Record geom3 := { q_area2 : list Q; q_fc : list v3; q_fn : list v3;
                  q_vol : list Q; q_cc : list v3 }.
Inductive gres3 := G3Ok (r : geom3) | G3NegTet | G3NonPlanar.

Definition geometry3 (g : grid3) : gres3 :=
  let fs := map (face_pts g) (seq 0 (length (k_faces g))) in
  if negb (forallb planar fs) then G3NonPlanar
  else
    let cells := map (cell_subtris g) (seq 0 (k_nc g)) in
    (* if not np.all(tet_volumes > -1e-12): raise ValueError *)
    if existsb (fun ts => let t0 := tmp_center ts in
                          existsb (fun t => Qle_bool (tet_volume t0 t) (- (1 # 1000000000000))) ts)
               cells
    then G3NegTet
    else
      G3Ok {| q_area2 := map face_area2 fs; q_fc := map face_center fs;
              q_fn := map face_normal fs;
              q_vol := map (fun ts => cell_volume3 (tmp_center ts) ts) cells;
              q_cc := map (fun ts => cell_center3 (tmp_center ts) ts) cells |}.

(* ------------------------------------------------------------------------------------ *)
(* comparison with the implementation (scale-aware, as in Model.C19) *)
Definition closev (sx sy sz : Q) (a b : v3) : bool :=
  closeS sx (vx a) (vx b) && closeS sy (vy a) (vy b) && closeS sz (vz a) (vz b).

Definition agree3 (g : grid3) (impl : option geom3) : bool :=
  match geometry3 g, impl with
  | G3NegTet, None => true
  | G3Ok r, Some i =>
      forallb (cell_hyps_b g) (seq 0 (k_nc g)) &&
      let nx := maxabs (map vx (k_nodes g)) in
      let ny := maxabs (map vy (k_nodes g)) in
      let nz := maxabs (map vz (k_nodes g)) in
      let fn := map vred (q_fn r) in
      all2 (closeS 0) (map Qred (q_area2 r)) (q_area2 i)
      && all2 (closev nx ny nz) (map vred (q_fc r)) (q_fc i)
      && all2 (closev (maxabs (map vx fn)) (maxabs (map vy fn)) (maxabs (map vz fn))) fn (q_fn i)
      && all2 (closeS 0) (map Qred (q_vol r)) (q_vol i)
      && all2 (closev nx ny nz) (map vred (q_cc r)) (q_cc i)
  | _, _ => false
  end.
