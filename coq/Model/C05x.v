(* C05 — extension of the model PP.Model.C05 (which stays as it is: other properties build on
   it) by further entry points of pp.ad.EquationSystem:
     md_variable(name, domains), get_variables(variables, grids)   as producers of references
     variables                                                     (listing)
     update_variable_num_dofs()                                    after the grids changed size
   The grid numbers become part of the state (they can change), and every Variable object ever
   created is remembered (a removed Variable object still knows its domain).
   Executable definitions only. *)
From Coq Require Import List ZArith Bool Arith.
Import ListNotations.
From PP Require Import Model.C05.

Record xst := {
  xg : mdgrid;          (* current num_cells/num_faces/num_nodes of the grids *)
  xs : st;              (* the EquationSystem (base model) *)
  xall : list var       (* every Variable object created so far, creation order *)
}.

Definition xinit (g : mdgrid) : xst := {| xg := g; xs := init; xall := [] |}.

(* ---------------- references ---------------- *)
Inductive xvref :=
| XV (r : vref)                                        (* Variable | str | md-variable object *)
| XMdName (name : nat) (doms : option (list dom))      (* es.md_variable(name, domains) *)
| XGetVars (inner : option (list vref)) (grids : option (list dom)).
                                                       (* *es.get_variables(inner, grids) *)
Definition xrefs := option (list xvref).

Definition is_sd' (d : dom) : bool := match d with Sd _ => true | Intf _ => false end.

(* EquationSystem.md_variable: the ids of the sub-variables of the returned md-variable *)
Definition md_variable (s : st) (name : nat) (doms : option (list dom)) : list nat + err :=
  match doms with
  | None =>
      let vs := filter (fun v => Nat.eqb (vname v) name) (vars s) in
      match vs with
      | [] => inr IndexErr                                   (* variables[0] *)
      | v0 :: _ =>
          if existsb (fun v => negb (Bool.eqb (is_sd' (vdom v)) (is_sd' (vdom v0)))) vs
          then inr ValueErr
          else inl (map vid vs)
      end
  | Some ds =>
      inl (map vid (filter (fun v => Nat.eqb (vname v) name && existsb (dom_eqb (vdom v)) ds)
                           (vars s)))
  end.

Definition find_all (x : xst) (id : nat) : option var :=
  find (fun v => Nat.eqb (vid v) id) (xall x).


(* EquationSystem.get_variables(variables=inner, grids=grids), no tags *)
Definition get_variables (x : xst) (inner : option (list vref)) (grids : option (list dom))
  : list nat :=
  match inner, grids with
  | None, None => map vid (vars (xs x))
  | _, _ =>
      let ids := parse (xs x) inner in
      let gs := match grids with
                | Some l => l
                | None => map vdom (vars (xs x))           (* self.variable_domains *)
                end in
      filter (fun id => match find_all x id with
                        | Some v => existsb (dom_eqb (vdom v)) gs
                        | None => false end) ids
  end.

(* what one element of the argument list contributes: number of python list elements
   (for the truthiness test of projection_to) and the ids _parse_variable_type yields *)
Definition xparse1 (x : xst) (r : xvref) : (nat * list nat) + err :=
  match r with
  | XV r => inl (1, parse1 (xs x) r)
  | XMdName n ds => match md_variable (xs x) n ds with
                    | inl ids => inl (1, ids) | inr e => inr e end
  | XGetVars inner grids => let ids := get_variables x inner grids in inl (length ids, ids)
  end.

Fixpoint xparse_list (x : xst) (l : list xvref) : (nat * list nat) + err :=
  match l with
  | [] => inl (0, [])
  | r :: rest =>
      match xparse1 x r with
      | inr e => inr e
      | inl (n, ids) =>
          match xparse_list x rest with
          | inr e => inr e
          | inl (m, ids') => inl (n + m, ids ++ ids')
          end
      end
  end.

(* result: is the python argument truthy, parsed ids *)
Definition xparse (x : xst) (r : xrefs) : (bool * list nat) + err :=
  match r with
  | None => inl (false, map vid (vars (xs x)))
  | Some l => match xparse_list x l with
              | inr e => inr e
              | inl (n, ids) => inl (negb (Nat.eqb n 0), ids)
              end
  end.

(* ---------------- the base operations on parsed ids ---------------- *)
Definition set_values_ids (s : st) (ids : list nat) (values : list Z) (w : wloc)
           (additive : bool) : st * out :=
  match set_loop s (numbers s) ids values w additive 0 0 (store s) with
  | (sto, _, Some e) => (with_store s sto, OErr e)
  | (sto, dof_end, None) =>
      (with_store s sto, if Nat.eqb dof_end (length values) then ODone else OErr AssertErr)
  end.

Definition get_values_ids (s : st) (ids : list nat) (l : loc) : out :=
  match get_loop s (numbers s) ids l with inl v => OVals v | inr e => OErr e end.

Definition dofs_ids (s : st) (ids : list nat) : out :=
  match dofs_loop s ids with inl l => OIdx l | inr e => OErr e end.

Definition projection_ids (s : st) (truthy : bool) (ids : list nat) : out :=
  if truthy then
    match dofs_loop s ids with
    | inr e => OErr e
    | inl idx => OProjM (sort idx) (num_dofs s)
    end
  else OProjM [] (num_dofs s).

(* ---------------- update_variable_num_dofs ---------------- *)
Fixpoint set_nth (l : list nat) (k x : nat) : list nat :=
  match l, k with
  | [], _ => []
  | _ :: r, O => x :: r
  | y :: r, S k' => y :: set_nth r k' x
  end.

(* the loop over self._variables.items(); in-place writes before an error persist *)
Fixpoint update_loop (g : mdgrid) (vs : list var) (nums : list (nat * nat)) (szs : list nat)
  : list nat * option err :=
  match vs with
  | [] => (szs, None)
  | v :: r =>
      match lookup nums (vid v) with
      | None => (szs, Some KeyErr)
      | Some k =>
          if k <? length szs
          then update_loop g r nums (set_nth szs k (ndof g (vdom v) (vdof v)))
          else (szs, Some IndexErr)
      end
  end.

Definition update_num_dofs (g : mdgrid) (s : st) : st * out :=
  let '(szs, e) := update_loop g (vars s) (numbers s) (sizes s) in
  ({| vars := vars s; numbers := numbers s; sizes := szs; next_id := next_id s;
      store := store s |},
   match e with None => ODone | Some e => OErr e end).

(* ---------------- operations ---------------- *)
Inductive xop :=
| XBase (o : op)
| XRemove (r : xrefs)
| XSet (r : xrefs) (values : list Z) (w : wloc) (additive : bool)
| XGet (r : xrefs) (l : loc)
| XDofs (r : xrefs)
| XProj (r : xrefs)
| XVariables                  (* es.variables *)
| XRegrid (g' : mdgrid)       (* the grids now have these sizes (no EquationSystem call) *)
| XUpdate.                    (* es.update_variable_num_dofs() *)

Definition with_xs (x : xst) (s' : st) : xst :=
  {| xg := xg x; xs := s';
     xall := xall x ++ filter (fun v => next_id (xs x) <=? vid v) (vars s') |}.

Definition xstep (x : xst) (o : xop) : xst * out :=
  let s := xs x in
  match o with
  | XBase o => let (s', r) := step (xg x) s o in (with_xs x s', r)
  | XRemove r =>
      match xparse x r with
      | inr e => (x, OErr e)
      | inl (_, ids) => let (s', r) := remove_loop (xg x) s ids in (with_xs x s', r)
      end
  | XSet r values w additive =>
      match xparse x r with
      | inr e => (x, OErr e)
      | inl (_, ids) => let (s', r) := set_values_ids s ids values w additive in
                        (with_xs x s', r)
      end
  | XGet r l =>
      match xparse x r with
      | inr e => (x, OErr e)
      | inl (_, ids) => (x, get_values_ids s ids l)
      end
  | XDofs r =>
      match xparse x r with
      | inr e => (x, OErr e)
      | inl (_, ids) => (x, dofs_ids s ids)
      end
  | XProj r =>
      match xparse x r with
      | inr e => (x, OErr e)
      | inl (t, ids) => (x, projection_ids s t ids)
      end
  | XVariables => (x, OIdx (map vid (vars s)))
  | XRegrid g' => ({| xg := g'; xs := s; xall := xall x |}, ODone)
  | XUpdate => let (s', r) := update_num_dofs (xg x) s in (with_xs x s', r)
  end.

Fixpoint xrun (x : xst) (ops : list xop) : xst * list out :=
  match ops with
  | [] => (x, [])
  | o :: r => let (x', y) := xstep x o in
              let (x'', ys) := xrun x' r in (x'', y :: ys)
  end.

Definition xagree (g : mdgrid) (ops : list xop) (outs : list obs) : bool :=
  eqb_list agree_out (snd (xrun (xinit g) ops)) outs.
