(* C06 — equation bookkeeping and (restricted) assembly of pp.ad.EquationSystem.
   Transcribes porepy/numerics/ad/equation_system.py: set_equation, remove_equation,
   _parse_equations, _parse_single_equation, assemble (both branches of evaluate_jacobian,
   the bookkeeping of assembled_equation_indices, the column slicing by projection_to).
   The variable side (dof layout, projection_to) is the model of C05 (PP.Model.C05).
   Executable definitions only.

   What an equation evaluates to is an INPUT of the model: [eval op] is the list of rows of
   the AdArray the operator [op] evaluates to on the current state, a row being the dense
   Jacobian row (width num_dofs) together with the entry of the value vector.  Equations are
   referred to by their name (a number); whether the caller passes the name string or the
   Operator object makes no difference to the code (both are resolved to the name first) and
   is not distinguished here.  Grids are referred to by their position in
   mdg.subdomains() / mdg.interfaces() (as in C05). *)
From Coq Require Import List ZArith Bool Arith.
Import ListNotations.
From PP Require Import Model.C05.

(* ---------------- Python dictionaries keyed by a number (insertion ordered) ----------- *)
Fixpoint dget {A} (d : list (nat * A)) (k : nat) : option A :=
  match d with
  | [] => None
  | (k', v) :: r => if Nat.eqb k' k then Some v else dget r k
  end.

Definition dhas {A} (d : list (nat * A)) (k : nat) : bool :=
  match dget d k with Some _ => true | None => false end.

(* d.update({k: v}): an existing key keeps its position *)
Fixpoint dset {A} (d : list (nat * A)) (k : nat) (v : A) : list (nat * A) :=
  match d with
  | [] => [(k, v)]
  | (k', v') :: r => if Nat.eqb k' k then (k', v) :: r else (k', v') :: dset r k v
  end.

(* d1.update(d2) *)
Definition dupdate {A} (d1 d2 : list (nat * A)) : list (nat * A) :=
  fold_left (fun d kv => dset d (fst kv) (snd kv)) d2 d1.

(* del d[k] / d.pop(k) *)
Definition ddel {A} (d : list (nat * A)) (k : nat) : list (nat * A) :=
  filter (fun kv => negb (Nat.eqb (fst kv) k)) d.

(* ---------------- state ---------------- *)
(* _equation_image_space_composition[name]: grid -> block_idx (rows local to the equation),
   in dictionary order *)
Definition image := list (dom * list nat).

Record est := {
  equations : list (nat * nat);               (* _equations: name -> operator, insertion order *)
  comp : list (nat * image);                  (* _equation_image_space_composition *)
  sinfo : list (nat * (nat * nat * nat));     (* _equation_image_size_info *)
  aei : list (nat * list nat)                 (* assembled_equation_indices *)
}.

Definition einit : est := {| equations := []; comp := []; sinfo := []; aei := [] |}.

Definition domin (d : dom) (l : list dom) : bool := existsb (dom_eqb d) l.

(* list.remove(x): the first occurrence *)
Fixpoint remove_first (d : dom) (l : list dom) : list dom :=
  match l with
  | [] => []
  | x :: r => if dom_eqb x d then r else x :: remove_first d r
  end.

(* ---------------- set_equation ---------------- *)
(* the two loops  for sd in mdg.subdomains() / for intf in mdg.interfaces():
   image_info, total_num_equ and the (shrinking) copy of the grid list.
   Number of rows on a grid: cells*c + nodes*n + faces*f on a subdomain, cells*c on an
   interface = C05's [ndof]. *)
Fixpoint set_loop (g : mdgrid) (ds : list dom) (info : nat * nat * nat)
         (img : image) (total : nat) (grids : list dom) : image * nat * list dom :=
  match ds with
  | [] => (img, total, grids)
  | d :: r =>
      if domin d grids then
        let n := ndof g d info in
        set_loop g r info (img ++ [(d, seq total n)]) (total + n) (remove_first d grids)
      else set_loop g r info img total grids
  end.

Definition store_eq (s : est) (name op : nat) (img : image) (info : nat * nat * nat) : est :=
  {| equations := dset (equations s) name op;
     comp := dset (comp s) name img;
     sinfo := dset (sinfo s) name info;
     aei := aei s |}.

Definition b2n (b : bool) : nat := if b then 1 else 0.

Definition set_equation (g : mdgrid) (s : est) (name op : nat) (grids : list dom)
           (info : nat * nat * nat) : est * option err :=
  if dhas (equations s) name then (s, Some ValueErr) else
  match grids with
  | [] => (store_eq s name op [] info, None)
  | _ =>
      let all_subdomains := forallb is_sd grids in
      let all_interfaces := forallb (fun d => negb (is_sd d)) grids in
      (* if not all_interfaces + all_subdomains <= 1: raise AssertionError *)
      if negb (b2n all_interfaces + b2n all_subdomains <=? 1) then (s, Some AssertErr) else
      let '(img, _, rest) := set_loop g (grid_order g) info [] 0 grids in
      match rest with
      | [] => (store_eq s name op img info, None)
      | _ => (s, Some AssertErr)              (* assert len(grids) == 0 *)
      end
  end.

(* ---------------- remove_equation ---------------- *)
Definition remove_equation (s : est) (name : nat) : est * option err :=
  if dhas (equations s) name then
    let s1 := {| equations := ddel (equations s) name; comp := comp s; sinfo := sinfo s;
                 aei := aei s |} in
    if dhas (comp s) name then
      ({| equations := ddel (equations s) name; comp := ddel (comp s) name;
          sinfo := sinfo s; aei := aei s |}, None)
    else (s1, Some KeyErr)
  else (s, Some ValueErr).

(* ---------------- _parse_single_equation / _parse_equations ---------------- *)
(* row restriction of one equation: None = the whole equation *)
Definition rowsel := option (list nat).

(* a dictionary  equation -> list of grids  (an equation may occur under two keys, its name
   and its Operator) *)
Definition restriction := list (nat * list dom).

Inductive eitem := IName (n : nat) | IDict (d : restriction).

(* the argument [equations] of assemble: None, a list, or a dictionary *)
Inductive eqarg := ENone | EList (l : list eitem) | EDict (d : restriction).

(* the loop  for equ, grids in equation.items()  of _parse_single_equation *)
Fixpoint parse_restr (s : est) (d : restriction) (block : list (nat * rowsel))
  : list (nat * rowsel) + err :=
  match d with
  | [] => inl block
  | (name, grids) :: r =>
      if negb (dhas (equations s) name) then inr ValueErr else
      match dget (comp s) name with
      | None => inr KeyErr
      | Some img =>
          (* unknown_grids = set(grids).difference(set(img_info.keys())) *)
          if existsb (fun d => negb (domin d (map fst img))) grids then inr ValueErr else
          (* for grid in img_info: if grid in grids: block_idx.append(img_info[grid]) *)
          let idx := concat (map snd (filter (fun kv => domin (fst kv) grids) img)) in
          parse_restr s r (dset block name (Some idx))
      end
  end.

Definition parse_single (s : est) (it : eitem) : list (nat * rowsel) + err :=
  match it with
  | IName n => if dhas (equations s) n then inl [(n, None)] else inr ValueErr
  | IDict d => parse_restr s d []
  end.

(* for equation in equations (a list): requested_row_blocks.update(block) *)
Fixpoint parse_list (s : est) (l : list eitem) (req : list (nat * rowsel))
  : list (nat * rowsel) + err :=
  match l with
  | [] => inl req
  | it :: r =>
      match parse_single s it with
      | inr e => inr e
      | inl block => parse_list s r (dupdate req block)
      end
  end.

(* for equation in equations (a dict): restricted_equations.update(
     _parse_single_equation({equation: equations[equation]})) *)
Fixpoint parse_dict (s : est) (d : restriction) (res : list (nat * rowsel))
  : list (nat * rowsel) + err :=
  match d with
  | [] => inl res
  | kv :: r =>
      match parse_single s (IDict [kv]) with
      | inr e => inr e
      | inl block => parse_dict s r (dupdate res block)
      end
  end.

Definition ordered_blocks (s : est) (req : list (nat * rowsel)) : list (nat * rowsel) :=
  flat_map (fun kv => match dget req (fst kv) with
                      | Some r => [(fst kv, r)]
                      | None => []
                      end) (equations s).

Definition parse_equations (s : est) (a : eqarg) : list (nat * rowsel) + err :=
  match a with
  | ENone => inl (map (fun kv => (fst kv, None)) (equations s))
  | EList l =>
      match parse_list s l [] with
      | inr e => inr e
      | inl req => inl (ordered_blocks s (dupdate req []))
      end
  | EDict d =>
      match parse_dict s d [] with
      | inr e => inr e
      | inl res => inl (ordered_blocks s (dupdate [] res))
      end
  end.

(* ---------------- assemble ---------------- *)
Section Assemble.
  Context {V : Type}.
  Variable vzero : V.
  Variable vopp : V -> V.

  (* a row of an evaluated equation: the row of ad.jac (dense) and the entry of ad.val *)
  Definition prow := (list V * V)%type.

  Variable eval : nat -> list prow.     (* operator -> its AdArray on the current state *)

  (* numpy indexing with an index array: x[idx]; None = IndexError *)
  Fixpoint take (x : list prow) (idx : list nat) : option (list prow) :=
    match idx with
    | [] => Some []
    | i :: r =>
        match nth_error x i, take x r with
        | Some v, Some t => Some (v :: t)
        | _, _ => None
        end
    end.

  Definition last_plus1 (l : list nat) : nat := S (last l 0).

  (* the loop of the evaluate_jacobian=True branch:
     accumulated rows, ind_start, assembled_equation_indices *)
  Fixpoint jac_loop (eqs : list (nat * nat)) (blocks : list (nat * rowsel))
           (acc : list prow) (ind_start : nat) (ind : list (nat * list nat))
    : (list prow * list (nat * list nat)) * option err :=
    match blocks with
    | [] => ((acc, ind), None)
    | (name, row) :: r =>
        match dget eqs name with
        | None => ((acc, ind), Some KeyErr)
        | Some op =>
            let ad := eval op in
            match (match row with Some idx => take ad idx | None => Some ad end) with
            | None => ((acc, ind), Some IndexErr)
            | Some blk =>
                let block_length := length blk in
                let block_indices := seq ind_start block_length in
                let ind' := dset ind name block_indices in
                let ind_start' := if 0 <? block_length then last_plus1 block_indices
                                  else ind_start in
                jac_loop eqs r (acc ++ blk) ind_start' ind'
            end
        end
    end.

  (* the loop of the evaluate_jacobian=False branch *)
  Fixpoint res_loop (eqs : list (nat * nat)) (blocks : list (nat * rowsel)) (acc : list prow)
    : list prow * option err :=
    match blocks with
    | [] => (acc, None)
    | (name, row) :: r =>
        match dget eqs name with
        | None => (acc, Some KeyErr)
        | Some op =>
            match (match row with Some idx => take (eval op) idx | None => Some (eval op) end) with
            | None => (acc, Some IndexErr)
            | Some blk => res_loop eqs r (acc ++ blk)
            end
        end
    end.

  Inductive aout :=
  | AJac (A : list (list V)) (b : list V) (ncols : nat)
  | ARes (b : list V)
  | AErr (e : err).

  (* A * projection.transpose(): column c of the product is column cols[c] of A *)
  Definition cut (cols : list nat) (x : list V) : list V := map (fun c => nth c x vzero) cols.

  (* if variables is None: variables = self.variables *)
  Definition asm_vars (s : st) (r : refs) : refs :=
    match r with None => Some (map ById (map vid (vars s))) | Some l => Some l end.

  Definition with_aei (es : est) (ind : list (nat * list nat)) : est :=
    {| equations := equations es; comp := comp es; sinfo := sinfo es; aei := ind |}.

  Definition assemble (s : st) (es : est) (jac : bool) (a : eqarg) (r : refs) : est * aout :=
    match parse_equations es a with
    | inr e => (es, AErr e)
    | inl blocks =>
        if jac then
          match jac_loop (equations es) blocks [] 0 [] with
          | ((_, ind), Some e) => (with_aei es ind, AErr e)
          | ((rows, ind), None) =>
              match projection_to s (asm_vars s r) with
              | OProjM cols _ =>
                  (with_aei es ind,
                   AJac (map (fun rw => cut cols (fst rw)) rows)
                        (map (fun rw => vopp (snd rw)) rows) (length cols))
              | OErr e => (with_aei es ind, AErr e)
              | _ => (with_aei es ind, AErr AssertErr)
              end
          end
        else
          match res_loop (equations es) blocks [] with
          | (_, Some e) => (es, AErr e)
          | (rows, None) => (es, ARes (map (fun rw => vopp (snd rw)) rows))
          end
    end.

  (* ---------------- operations ---------------- *)
  Inductive eop :=
  | ESet (name op : nat) (grids : list dom) (info : nat * nat * nat)
  | ERemove (name : nat)
  | EAssemble (jac : bool) (a : eqarg) (r : refs).

  Inductive eout := XDone | XErr (e : err) | XAsm (o : aout).

  Definition estep (g : mdgrid) (s : st) (es : est) (o : eop) : est * eout :=
    match o with
    | ESet name op grids info =>
        match set_equation g es name op grids info with
        | (es', None) => (es', XDone)
        | (es', Some e) => (es', XErr e)
        end
    | ERemove name =>
        match remove_equation es name with
        | (es', None) => (es', XDone)
        | (es', Some e) => (es', XErr e)
        end
    | EAssemble jac a r =>
        match assemble s es jac a r with
        | (es', AErr e) => (es', XErr e)
        | (es', o) => (es', XAsm o)
        end
    end.

  (* outputs and the value of assembled_equation_indices after every call *)
  Fixpoint erun (g : mdgrid) (s : st) (es : est) (ops : list eop)
    : est * list (eout * list (nat * list nat)) :=
    match ops with
    | [] => (es, [])
    | o :: r =>
        let (es', x) := estep g s es o in
        let (es'', xs) := erun g s es' r in
        (es'', (x, aei es') :: xs)
    end.

  Definition efinal (g : mdgrid) (s : st) (ops : list eop) : est := fst (erun g s einit ops).
End Assemble.

Arguments AJac {V}.
Arguments ARes {V}.
Arguments AErr {V}.
Arguments XDone {V}.
Arguments XErr {V}.
Arguments XAsm {V}.

(* ---------------- comparison with observed outputs (tie) ---------------- *)
(* sparse row (column, value) list -> dense row of width n *)
(* (columns and ranges are binary integers and a sparse row is the flat list
   [c1; v1; c2; v2; ...] to keep the generated files small) *)
Fixpoint sget (r : list Z) (c : Z) : Z :=
  match r with
  | c' :: v :: t => if Z.eqb c' c then v else sget t c
  | _ => 0%Z
  end.
Definition dense (n : nat) (r : list Z) : list Z :=
  map (fun c => sget r (Z.of_nat c)) (seq 0 n).

(* evaluated operators as the harness records them: per operator and row the value followed
   by the sparse Jacobian row *)
Definition evtab := list (list (list Z)).
Definition eval_of (n : nat) (t : evtab) (op : nat) : list (@prow Z) :=
  map (fun rw => match rw with
                 | v :: r => (dense n r, v)
                 | [] => (dense n [], 0%Z)
                 end) (nth op t []).

Inductive eobs :=
| YDone
| YErr (e : err)
| YJac (A : list (list Z)) (b : list Z) (ncols : Z)
| YRes (b : list Z).

Definition agree_eout (m : @eout Z) (o : eobs) : bool :=
  match m, o with
  | XDone, YDone => true
  | XErr a, YErr b => err_eqb a b
  | XAsm (AJac A b n), YJac A' b' n' =>
      Z.eqb (Z.of_nat n) n' && eqb_list (eqb_list Z.eqb) A (map (dense n) A') &&
      eqb_list Z.eqb b b'
  | XAsm (ARes b), YRes b' => eqb_list Z.eqb b b'
  | _, _ => false
  end.

Definition agree_ind (m o : list (nat * list nat)) : bool :=
  eqb_list (fun p q => Nat.eqb (fst p) (fst q) && eqb_list Nat.eqb (snd p) (snd q)) m o.

(* indices recorded as (name, start, length) when consecutive *)
Definition ranges (l : list (nat * (Z * Z))) : list (nat * list nat) :=
  map (fun p => (fst p, seq (Z.to_nat (fst (snd p))) (Z.to_nat (snd (snd p))))) l.

Definition agree6 (g : mdgrid) (vops : list op) (t : evtab) (ops : list (@eop))
           (outs : list (eobs * list (nat * list nat))) : bool :=
  let s := final g vops in
  let n := num_dofs s in
  eqb_list (fun m o => agree_eout (fst m) (fst o) && agree_ind (snd m) (snd o))
           (snd (erun 0%Z Z.opp (eval_of n t) g s einit ops)) outs.
