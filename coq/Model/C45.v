(* C45 — hash keys of AD operator trees.
   Transcribes porepy/numerics/ad/operators.py (after the repair commit recorded in
   known_findings/C45.json):
     Operator._key            " ".join([operation.value] + [child._key() ...])
     Operator.__hash__        hash(self._key())
     Scalar / DenseArray / SparseArray / TimeDependentDenseArray / Variable /
     MixedDimensionalVariable / Projection / ProjectionList ._key
   A key is modelled as the LIST OF TOKENS that the code joins with " ": one token per
   operation name and one token per leaf key.  A leaf token carries exactly the fields the
   f-string of the corresponding _key override prints (its literal prefix, e.g.
   "(scalar, " / "(var, name=", is the constructor).
   Executable definitions only. *)
From Coq Require Import List ZArith Bool String Arith.
Import ListNotations.

(* Operations attached by the arithmetic overloads to a node with exactly two children.
   [opname] gives Operations.<member>.value, the string written into the key. *)
Inductive binop :=
  OAdd | OSub | OMul | ORmul | OMatmul | ORmatmul | ODiv | ORdiv | OPow | ORpow.

Definition opname (o : binop) : string :=
  match o with
  | OAdd => "add" | OSub => "sub" | OMul => "mul" | ORmul => "rmul"
  | OMatmul => "matmul" | ORmatmul => "rmatmul" | ODiv => "div" | ORdiv => "rdiv"
  | OPow => "pow" | ORpow => "rpow"
  end%string.

Definition evaluate_name : string := "evaluate"%string.

(* ---------------------------------------------------------------------------------- *)
(* Trees, polymorphic in the leaf type, and the generic key construction               *)
(* ---------------------------------------------------------------------------------- *)
Section Tree.
  Variable L : Type.

  (* Bin  = Operator(children=[a, b], operation=o)      built by __add__ ... __rmatmul__
     Eval = Operator(children=args, operation=evaluate) built by AbstractFunction.__call__;
            [f] is the identity of the function object whose .func is attached to the node
            (it is NOT one of the children). *)
  Inductive tree :=
  | Leaf (l : L)
  | Bin (o : binop) (a b : tree)
  | Eval (f : string) (args : list tree).

  Variable T : Type.
  Variable leafkey : L -> T.       (* the _key() of a leaf: one token *)
  Variable optok : string -> T.    (* operation.value as a token *)
  Variable functok : string -> nat -> T.
                                   (* "(function, name=.., num_args=..)" of an evaluate node *)

  (* Operator._key: [self.operation.value] + [child._key() for child in children]; for an
     evaluate node the name of the function object and the number of children come right
     after the operation name. *)
  Fixpoint key (t : tree) : list T :=
    match t with
    | Leaf l => [leafkey l]
    | Bin o a b => optok (opname o) :: key a ++ key b
    | Eval f args => optok evaluate_name :: functok f (List.length args) :: flat_map key args
    end.

  Fixpoint eval_free (t : tree) : bool :=
    match t with
    | Leaf _ => true
    | Bin _ a b => eval_free a && eval_free b
    | Eval _ _ => false
    end.
End Tree.

Arguments Leaf {L} l.
Arguments Bin {L} o a b.
Arguments Eval {L} f args.
Arguments key {L T} leafkey optok functok t.
Arguments eval_free {L} t.

(* ---------------------------------------------------------------------------------- *)
(* Leaf data and leaf keys of operators.py                                             *)
(* ---------------------------------------------------------------------------------- *)

(* A contiguous numpy buffer as sha256 sees it: item type code + elements (integers by
   value, float64 by their IEEE-754 bit pattern).  For a fixed item type this is in
   bijection with the byte string. *)
Record buffer := { dt : Z; elems : list Z }.

Definition dt_float64 : Z := 1.
Definition dt_int64 : Z := 2.

(* np.ascontiguousarray(ind, dtype=np.int64) *)
Definition i64 (l : list Z) : buffer := {| dt := dt_int64; elems := l |}.

(* ArraySlicer fields read by Projection._key *)
Record proj := {
  p_range : list Z; p_domain : list Z; p_domain_size : Z; p_range_size : Z;
  p_transposed : bool }.

Inductive leaf :=
| LScalar (bits : Z)                                   (* Scalar._value (a float)            *)
| LDense (shape : list Z) (buf : buffer)               (* DenseArray._values                 *)
| LSparse (ty : string) (shape : list Z) (bufs : list buffer)
                                                       (* type name, shape, property arrays  *)
(* [kind]: the kind of domain (0 subdomains, 1 interfaces, 2 boundary grids, 3 none): the
   three kinds are numbered by separate counters, so ids identify a domain only with it *)
| LTdda (name : string) (kind : Z) (doms : list Z) (tidx : Z)   (* TimeDependentDenseArray   *)
| LVar (name : string) (kind : Z) (dom : Z) (tidx iidx : Z)     (* Variable; private indices *)
| LMdVar (name : string) (kind : Z) (doms : list Z) (tidx iidx : Z)
| LProj (p : proj)
| LProjList (ps : list proj)
| LMerged (name : string) (kind : Z) (doms : list Z) (mkey pkey : string) (ikey : option string)
                                     (* ad_utils.MergedOperator: class name of the discretization,
                                        domain ids, discretization_matrix_key, physics_key,
                                        inner_physics_key (coupling terms) *)
| LDiv (dim : Z) (doms : list Z).    (* grid_operators.Divergence *)

Section Key.
  Variable digest : Type.
  Variable sha : buffer -> digest.                     (* sha256(...).hexdigest() *)

  Definition projtok : Type := (digest * digest * Z * Z * bool)%type.

  Inductive token :=
  | TOp (s : string)
  | TFunc (name : string) (nargs : nat)                (* "(function, name=, num_args=)"     *)
  | TScalar (bits : Z)                                 (* "(scalar, {value})"               *)
  | TDense (shape : list Z) (h : digest)               (* "(dense_array, shape=, hash=)"    *)
  | TSparse (ty : string) (shape : list Z) (hs : list digest)
                                                       (* (sparse_array, hash=TYPE_SHAPE_HASHES) *)
  | TTdda (name : string) (kind : Z) (doms : list Z) (tidx : Z)
  | TVar (name : string) (kind : Z) (dom : Z) (tidx iidx : Z)
  | TMdVar (name : string) (kind : Z) (doms : list Z) (tidx iidx : Z)
  | TProj (p : projtok)                                (* "(prolongation, ...)"             *)
  | TProjList (ps : list projtok)                      (* "(slicing_operator_list, ...)"    *)
  | TMerged (name : string) (kind : Z) (doms : list Z) (mkey pkey : string) (ikey : option string)
                                                       (* "(Merged_operator, name=, ...)"   *)
  | TDiv (dim : Z) (doms : list Z).                    (* "(divergence, dim=, subdomains=)" *)

  (* Projection._key: hashes of the two index arrays, domain_size, range_size, flag *)
  Definition proj_key (p : proj) : projtok :=
    (sha (i64 (p_range p)), sha (i64 (p_domain p)), p_domain_size p, p_range_size p,
     p_transposed p).

  Definition leaf_key (l : leaf) : token :=
    match l with
    | LScalar b => TScalar b
    | LDense sh buf => TDense sh (sha buf)
    | LSparse ty sh bufs => TSparse ty sh (map sha bufs)
    | LTdda n k ds t => TTdda n k ds t
    | LVar n k d t i => TVar n k d t i
    | LMdVar n k ds t i => TMdVar n k ds t i
    | LProj p => TProj (proj_key p)
    | LProjList ps => TProjList (map proj_key ps)
    | LMerged n k ds mk pk ik => TMerged n k ds mk pk ik   (* ", inner_physics_key=" only if not None *)
    | LDiv d ds => TDiv d ds
    end.

  Definition okey (t : tree leaf) : list token := key leaf_key TOp TFunc t.
End Key.

Arguments TOp {digest} s.
Arguments TFunc {digest} name nargs.
Arguments TScalar {digest} bits.
Arguments TDense {digest} shape h.
Arguments TSparse {digest} ty shape hs.
Arguments TTdda {digest} name kind doms tidx.
Arguments TVar {digest} name kind dom tidx iidx.
Arguments TMdVar {digest} name kind doms tidx iidx.
Arguments TProj {digest} p.
Arguments TProjList {digest} ps.
Arguments TMerged {digest} name kind doms mkey pkey ikey.
Arguments TDiv {digest} dim doms.

(* ---------------------------------------------------------------------------------- *)
(* Execution instance for the correspondence: an ideal (injective) hash = the buffer   *)
(* ---------------------------------------------------------------------------------- *)
Definition buffer_eq_dec : forall a b : buffer, {a = b} + {a <> b}.
Proof. decide equality; auto using Z.eq_dec, (list_eq_dec Z.eq_dec). Defined.

Definition itoken := token buffer.

Definition itoken_eq_dec : forall a b : itoken, {a = b} + {a <> b}.
Proof.
  assert (forall a b : projtok buffer, {a = b} + {a <> b}) as pd.
  { intros a b. repeat decide equality; auto using Z.eq_dec, bool_dec, buffer_eq_dec. }
  assert (forall a b : option string, {a = b} + {a <> b}) as od
      by (decide equality; apply string_dec).
  decide equality;
    auto using Z.eq_dec, Nat.eq_dec, string_dec, bool_dec, buffer_eq_dec, (list_eq_dec Z.eq_dec),
      (list_eq_dec buffer_eq_dec), (list_eq_dec pd).
Defined.

Definition ikey (t : tree leaf) : list itoken := okey buffer (fun b => b) t.

Definition key_eqb (t1 t2 : tree leaf) : bool :=
  if list_eq_dec itoken_eq_dec (ikey t1) (ikey t2) then true else false.

(* [keq]: the two real operators returned the same _key() string; [heq]: the same hash().
   The model predicts keq; equal keys must give equal hashes (hash = hash of the key). *)
Definition agree (t1 t2 : tree leaf) (keq heq : bool) : bool :=
  Bool.eqb (key_eqb t1 t2) keq && implb keq heq.
