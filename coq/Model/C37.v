(* C37 — block-diagonal inversion.
   Transcribes porepy/numerics/linalg/matrix_operations.py:
     invert_diagonal_blocks (dispatcher + python backend + numba backend, block location by
       np.searchsorted(indices, cumsum(sizes)); code as it is after the repair
       `fix: invert_diagonal_blocks drops explicitly stored zeros ...`),
     block_diag_index / block_diag_matrix (layout of the result),
     generate_permutation_to_block_diag_matrix (post-processing of the connected components),
     invert_permuted_block_diag_matrix (the slicer applications at dense level).
   Compressed storage = PP.Lib.Csr (one record for csr and csc: "line" = row / column; a csc
   matrix is read column-wise, i.e. as the csr storage of its transpose), integer data.
   Dense matrices = PP.Lib.Dense.  Executable definitions only. *)
From Coq Require Import List ZArith Bool Arith.
Import ListNotations.
From PP Require Import Lib.Csr Lib.Dense.

Inductive err := IndexErr | AssertErr | ValueErr | Undefined.
Inductive res (A : Type) := Ok (a : A) | Err (e : err).
Arguments Ok {A} a.
Arguments Err {A} e.

(* ---------------------------------------------------------------- numpy primitives *)

Fixpoint cumsumN (acc : nat) (l : list nat) : list nat :=
  match l with [] => [] | x :: r => (acc + x) :: cumsumN (acc + x) r end.

(* np.searchsorted(a, key) (side='left'): binary search; on an array that is not sorted it
   returns whatever the bisection meets (as numpy does) *)
Fixpoint bsearch (fuel lo hi : nat) (a : list nat) (key : nat) : nat :=
  match fuel with
  | O => lo
  | S f =>
      if lo <? hi then
        let mid := lo + (hi - lo) / 2 in
        if nth mid a 0 <? key then bsearch f (S mid) hi a key else bsearch f lo mid a key
      else lo
  end.

Definition searchsorted (a : list nat) (key : nat) : nat :=
  bsearch (S (length a)) 0 (length a) a key.

(* ---------------------------------------------------------------- eliminate_zeros *)

Definition nonzero_entry (e : nat * Z) : bool := negb (Z.eqb (snd e) 0).

(* scipy's eliminate_zeros (on the copy made by the dispatcher): every line keeps its
   non-zero entries in storage order *)
Definition eliminate_zeros (A : csr) : csr :=
  let rs := map (filter nonzero_entry) (rows A) in
  {| nmaj := nmaj A; nmin := nmin A;
     indptr := 0 :: cumsumN 0 (map (@length _) rs);
     indices := map fst (concat rs);
     data := map snd (concat rs) |}.

Definition has_stored_zero (A : csr) : bool := existsb (fun v => Z.eqb v 0) (data A).

(* ---------------------------------------------------------------- block location *)

(* idx_blocks = cumsum([0] + sizes) *)
Definition idx_blocks (sz : list nat) : list nat := 0 :: cumsumN 0 sz.

(* idx_nnz = searchsorted(a.indices, idx_blocks) *)
Definition idx_nnz (A : csr) (sz : list nat) : list nat :=
  map (searchsorted (indices A)) (idx_blocks sz).

(* number of stored entries per line: indptr[1:] - indptr[:-1] *)
Definition line_reps (A : csr) : list nat :=
  map (fun i => nth (S i) (indptr A) 0 - nth i (indptr A) 0) (seq 0 (nmaj A)).

(* np.repeat(np.arange(n), reps): the line number of every stored entry *)
Definition line_ids (A : csr) : list nat :=
  flat_map (fun i => repeat i (nth i (line_reps A) 0)) (seq 0 (nmaj A)).

(* flat_block[seq_ij] = vals for integer positions; numpy semantics: a negative position
   wraps once, anything else outside the block is an IndexError; the last write wins *)
Fixpoint upd {E} (l : list E) (p : nat) (v : E) : list E :=
  match l, p with
  | [], _ => []
  | _ :: r, O => v :: r
  | x :: r, S p' => x :: upd r p' v
  end.

Fixpoint assign (flat : list Z) (pos : list Z) (vals : list Z) : res (list Z) :=
  match pos, vals with
  | p :: ps, v :: vs =>
      let n := Z.of_nat (length flat) in
      let q := (if p <? 0 then p + n else p)%Z in
      if ((0 <=? q) && (q <? n))%Z then assign (upd flat (Z.to_nat q) v) ps vs
      else Err IndexErr
  | _, _ => Ok flat
  end.

(* np.reshape(flat, (s, s)) *)
Fixpoint chunks {E} (n s : nat) (l : list E) : list (list E) :=
  match n with O => [] | S n' => firstn s l :: chunks n' s (skipn s l) end.

(* positions l_major * s + l_minor, relative to the block start b0 *)
Definition local_pos (b0 s : nat) (lmaj lmin : list nat) : list Z :=
  map (fun p => ((Z.of_nat (fst p) - Z.of_nat b0) * Z.of_nat s
                 + (Z.of_nat (snd p) - Z.of_nat b0))%Z) (combine lmaj lmin).

(* operate_on_block of the python backend: the dense block read line-wise (for csr the
   block itself, for csc its transpose) *)
Definition block_py (A : csr) (ids : list nat) (b0 s n0 n1 : nat) : res (list (list Z)) :=
  let pos := local_pos b0 s (seg n0 n1 ids) (seg n0 n1 (indices A)) in
  match assign (repeat 0%Z (s * s)) pos (seg n0 n1 (data A)) with
  | Ok flat => Ok (chunks s s flat)
  | Err e => Err e
  end.

(* the prange body of the numba backend: the line numbers are rebuilt from the block's own
   lines; a length mismatch with the searched slice is numba's
   "Sizes of l_row, l_col do not match" AssertionError; positions outside the block are
   not checked by numba (undefined behaviour, result value [Undefined]) *)
Definition block_nb (A : csr) (b0 s n0 n1 : nat) : res (list (list Z)) :=
  let reps := line_reps A in
  let lmaj := flat_map (fun i => repeat i (nth i reps 0)) (seq b0 s) in
  let lmin := seg n0 n1 (indices A) in
  if negb (length lmaj =? length lmin) then Err AssertErr
  else
    let pos := local_pos b0 s lmaj lmin in
    if forallb (fun p => (0 <=? p) && (p <? Z.of_nat (s * s)))%Z pos
    then match assign (repeat 0%Z (s * s)) pos (seg n0 n1 (data A)) with
         | Ok flat => Ok (chunks s s flat)
         | Err e => Err e
         end
    else Err Undefined.

Fixpoint all_ok {E} (l : list (res E)) : res (list E) :=
  match l with
  | [] => Ok []
  | Ok x :: r => match all_ok r with Ok xs => Ok (x :: xs) | Err e => Err e end
  | Err e :: _ => Err e
  end.

(* (block start, size, first entry, one-past-last entry) for every block *)
Fixpoint block_table (sz bl nz : list nat) : list (nat * nat * nat * nat) :=
  match sz, bl, nz with
  | s :: sz', b :: bl', n0 :: ((n1 :: _) as nz') => (b, s, n0, n1) :: block_table sz' bl' nz'
  | _, _, _ => []
  end.

Inductive backend := Python | Numba.

(* the dispatcher up to the calls of np.linalg.inv: zero sizes dropped, stored zeros
   dropped on a copy, then the dense blocks handed to the inverter *)
Definition extract_blocks (bk : backend) (A0 : csr) (sz0 : list nat) : res (list (list (list Z))) :=
  let sz := filter (fun s => 0 <? s) sz0 in
  let A := if has_stored_zero A0 then eliminate_zeros A0 else A0 in
  let tab := block_table sz (idx_blocks sz) (idx_nnz A sz) in
  let ids := line_ids A in
  all_ok (map (fun t => match t with (b0, s, n0, n1) =>
                 match bk with Python => block_py A ids b0 s n0 n1 | Numba => block_nb A b0 s n0 n1 end
               end) tab).

(* the same without the repair (kept to exhibit the regression witness) *)
Definition extract_blocks_unrepaired (bk : backend) (A : csr) (sz0 : list nat) : res (list (list (list Z))) :=
  let sz := filter (fun s => 0 <? s) sz0 in
  let tab := block_table sz (idx_blocks sz) (idx_nnz A sz) in
  let ids := line_ids A in
  all_ok (map (fun t => match t with (b0, s, n0, n1) =>
                 match bk with Python => block_py A ids b0 s n0 n1 | Numba => block_nb A b0 s n0 n1 end
               end) tab).

(* ---------------------------------------------------------------- block premise *)

(* no stored entry straddles a block boundary: for every boundary b and stored entry
   (line i, minor index j):  i < b  <->  j < b *)
Definition line_respects (b : nat) (ir : nat * list (nat * Z)) : bool :=
  forallb (fun e => Bool.eqb (fst ir <? b) (fst e <? b)) (snd ir).

Definition block_monotone (A : csr) (sz : list nat) : bool :=
  forallb (fun b => forallb (line_respects b) (combine (seq 0 (nmaj A)) (rows A)))
          (idx_blocks sz).

(* no minor index twice in one line (canonical storage) *)
Fixpoint nodupb (l : list nat) : bool :=
  match l with [] => true | x :: r => negb (existsb (Nat.eqb x) r) && nodupb r end.
Definition lines_nodup (A : csr) : bool := forallb (fun r => nodupb (map fst r)) (rows A).

(* ---------------------------------------------------------------- layout of the result *)

(* block_diag_matrix(vals, sizes): csr with full s x s blocks; indices from
   block_diag_index(sizes), indptr = [0] ++ cumsum(rldecode(sizes, sizes)) *)
Definition bdm_indices (sz : list nat) : list nat :=
  concat (map (fun bs => concat (repeat (seq (fst bs) (snd bs)) (snd bs)))
              (combine (idx_blocks sz) sz)).
Definition bdm_indptr (sz : list nat) : list nat :=
  0 :: cumsumN 0 (flat_map (fun s => repeat s s) sz).

(* ---------------------------------------------------------------- permutation to block form *)

(* one connected component of the bipartite graph: (sorted rows, sorted columns) *)
Definition comp := (list nat * list nat)%type.

Definition nz (M : list (list Z)) (i j : nat) : bool := negb (Z.eqb (mget 0%Z M i j) 0).

Definition memb (x : nat) (l : list nat) : bool := existsb (Nat.eqb x) l.

(* one sweep of the closure: columns reached from the rows, rows reached from the columns *)
Definition grow (n : nat) (M : list (list Z)) (c : comp) : comp :=
  let cols := filter (fun j => memb j (snd c) || existsb (fun i => nz M i j) (fst c)) (seq 0 n) in
  let rws := filter (fun i => memb i (fst c) || existsb (fun j => nz M i j) cols) (seq 0 n) in
  (rws, cols).

Fixpoint iter {E} (k : nat) (f : E -> E) (x : E) : E :=
  match k with O => x | S k' => iter k' f (f x) end.

(* components in the order networkx yields them for the edge list of sps.find
   (row-major): by smallest row; rows without entries do not appear *)
Fixpoint components_from (fuel n : nat) (M : list (list Z)) (todo : list nat) : list comp :=
  match fuel, todo with
  | S f, i :: _ =>
      if existsb (fun j => nz M i j) (seq 0 n) then
        let c := iter n (grow n M) ([i], []) in
        c :: components_from f n M (filter (fun x => negb (memb x (fst c))) todo)
      else components_from f n M (filter (fun x => negb (Nat.eqb x i)) todo)
  | _, _ => []
  end.

Definition components (n : nat) (M : list (list Z)) : list comp :=
  components_from (S n) n M (seq 0 n).

(* nodes of columns that have entries but whose component was started from a row: all
   columns with entries are reached, so nothing else to add *)

(* generate_permutation_to_block_diag_matrix after the component search:
   (row_perm, col_perm, block_sizes) *)
Definition perm_of_components (n : nat) (cs : list comp)
  : res (list nat * list nat * list nat) :=
  match cs with
  | [_] => Ok (seq 0 n, seq 0 n, [n])
  | _ =>
      if forallb (fun c => length (fst c) =? length (snd c)) cs then
        let rp := concat (map fst cs) in
        let cp := concat (map snd cs) in
        let missing := filter (fun i => negb (memb i rp)) (seq 0 n) in
        let rp' := rp ++ missing in
        let cp' := cp ++ missing in
        if (length rp' =? n) && (length cp' =? n)
        then Ok (rp', cp', map (fun c => length (fst c)) cs ++ map (fun _ => 1) missing)
        else Err AssertErr
      else Err AssertErr
  end.

Definition generate_permutation (n : nat) (M : list (list Z)) :=
  perm_of_components n (components n M).

(* a connected-component certificate is acceptable when no non-zero entry links a row of
   one component to a column outside it (the contract of networkx.connected_components
   that the block form relies on) *)
Definition comps_closed (n : nat) (M : list (list Z)) (cs : list comp) : bool :=
  forallb (fun c =>
    forallb (fun i => forallb (fun j => negb (nz M i j) || (Bool.eqb (memb i (fst c)) (memb j (snd c))))
                              (seq 0 n)) (seq 0 n)) cs.

(* ArraySlicer applications at dense level, generic in the entry type *)
Section Slicers.
  Variable T : Type.
  Variable zero : T.

  (* ArraySlicer(domain_indices = p) @ A  (the "onto" shortcut A[p]) *)
  Definition select_rows (A : list (list T)) (p : list nat) (w : nat) : list (list T) :=
    map (fun i => nth i A (zeros zero w)) p.

  (* ArraySlicer(range_indices = p) @ A : out[p_i] = A[i] into zeros *)
  Definition scatter_rows (A : list (list T)) (p : list nat) (n w : nat) : list (list T) :=
    fold_left (fun out ia => upd out (fst ia) (snd ia)) (combine p A) (repeat (zeros zero w) n).

  (* A_block_diag = row_slicer @ (col_slicer.T @ A.T).T *)
  Definition to_block_form (n : nat) (A : list (list T)) (rp cp : list nat) : list (list T) :=
    select_rows (transpose zero n (select_rows (transpose zero n A) cp n)) rp n.

  (* inv_A = col_slicer @ (row_slicer.T @ inv_A_block_diag.T).T *)
  Definition from_block_form (n : nat) (Bi : list (list T)) (rp cp : list nat) : list (list T) :=
    scatter_rows (transpose zero n (scatter_rows (transpose zero n Bi) rp n n)) cp n n.
End Slicers.
Arguments select_rows {T}.
Arguments scatter_rows {T}.
Arguments to_block_form {T}.
Arguments from_block_form {T}.

(* inverse index list: position of i in p *)
Fixpoint index_of (x : nat) (l : list nat) : nat :=
  match l with [] => 0 | y :: r => if Nat.eqb x y then 0 else S (index_of x r) end.
Definition invperm (n : nat) (p : list nat) : list nat := map (fun i => index_of i p) (seq 0 n).

Definition is_permb (n : nat) (p : list nat) : bool :=
  (length p =? n) && forallb (fun i => memb i p) (seq 0 n).

(* ---------------------------------------------------------------- comparisons (ties) *)

Definition eqb_listN (a b : list nat) : bool :=
  (length a =? length b) && forallb (fun p => Nat.eqb (fst p) (snd p)) (combine a b).
Definition eqb_listZ (a b : list Z) : bool :=
  (length a =? length b) && forallb (fun p => Z.eqb (fst p) (snd p)) (combine a b).
Definition eqb_matZ (a b : list (list Z)) : bool :=
  (length a =? length b) && forallb (fun p => eqb_listZ (fst p) (snd p)) (combine a b).
Definition eqb_blocks (a b : list (list (list Z))) : bool :=
  (length a =? length b) && forallb (fun p => eqb_matZ (fst p) (snd p)) (combine a b).

Definition err_eqb (a b : err) : bool :=
  match a, b with
  | IndexErr, IndexErr | AssertErr, AssertErr | ValueErr, ValueErr | Undefined, Undefined => true
  | _, _ => false
  end.

Definition res_eqb {E} (f : E -> E -> bool) (a b : res E) : bool :=
  match a, b with
  | Ok x, Ok y => f x y
  | Err e1, Err e2 => err_eqb e1 e2
  | _, _ => false
  end.
