(* C26 — mortar projections (porepy/grids/mortar_grid.py).
   Transcribes, over exact rationals and for 1-D mortar grids (fractures in 2-D domains),
     MortarGrid._init_projections, _set_projections, update_mortar, update_secondary,
     _check_mappings
   with the weights of match_1d taken from PP.Model.C33.  Sparse matrices are coordinate
   lists (row, col, value); their meaning is the matrix obtained by summing duplicates, as
   scipy's csr/csc conversions do.  optimized_compressed_storage only changes the storage
   format and is the identity here.  Executable definitions only. *)
From Coq Require Import List QArith Bool Arith.
Import ListNotations.
From PP Require Import Model.C33.
Open Scope Q_scope.

Inductive merr := MIndexErr | MValueErr.

(* ---------------- sparse-matrix operations on coordinate lists ---------------- *)
Definition mat := list entry.

Definition mtrans (a : mat) : mat := map (fun e => (ecol e, erow e, ewt e)) a.   (* A.T *)

(* A * B *)
Definition mmul (a b : mat) : mat :=
  flat_map (fun x => map (fun y => (erow x, ecol y, ewt x * ewt y))
                         (filter (fun y => Nat.eqb (erow y) (ecol x)) b)) a.

(* scipy's products return matrices with duplicates summed and sorted indices *)
Fixpoint minsert (e : entry) (l : mat) : mat :=
  match l with
  | [] => [e]
  | y :: r =>
      if Nat.eqb (erow e) (erow y) && Nat.eqb (ecol e) (ecol y)
      then (erow y, ecol y, Qred (ewt e + ewt y)) :: r
      else if Nat.ltb (erow e) (erow y) || (Nat.eqb (erow e) (erow y) && Nat.ltb (ecol e) (ecol y))
           then e :: y :: r
           else y :: minsert e r
  end.
Definition mcompress (a : mat) : mat := fold_right minsert [] a.
Definition mprod (a b : mat) : mat := mcompress (mmul a b).

Definition mshift (dr dc : nat) (a : mat) : mat :=
  map (fun e => ((erow e + dr)%nat, (ecol e + dc)%nat, ewt e)) a.

Definition ident (n : nat) : mat := map (fun i => (i, i, 1)) (seq 0 n).   (* sps.identity *)

(* sps.bmat of a block-diagonal arrangement; blocks = (rows, cols, entries) *)
Fixpoint bdiag (r0 c0 : nat) (blocks : list (nat * nat * mat)) : mat :=
  match blocks with
  | [] => []
  | (nr, nc, a) :: rest => mshift r0 c0 a ++ bdiag (r0 + nr) (c0 + nc) rest
  end.

(* sps.bmat of a block column *)
Fixpoint vstack (r0 : nat) (blocks : list (nat * mat)) : mat :=
  match blocks with
  | [] => []
  | (nr, a) :: rest => mshift r0 0 a ++ vstack (r0 + nr) rest
  end.

(* ---------------- state of a MortarGrid ---------------- *)
Record mstate := {
  sides : list (list cell);      (* side_grids.values(), each a 1-D grid (cells) *)
  n_prim : nat;                  (* number of faces of the primary grid *)
  n_sec : nat;                   (* number of cells of the secondary grid *)
  p2m_int : mat; p2m_avg : mat; s2m_int : mat; s2m_avg : mat;
  m2p_int : mat; m2p_avg : mat; m2s_int : mat; m2s_avg : mat }.

Definition n_mortar (s : mstate) : nat :=
  fold_right (fun g acc => (length g + acc)%nat) 0%nat (sides s).

(* _set_projections(primary, secondary) *)
Definition set_projections (prim sec : bool) (s : mstate) : mstate :=
  {| sides := sides s; n_prim := n_prim s; n_sec := n_sec s;
     p2m_int := p2m_int s; p2m_avg := p2m_avg s; s2m_int := s2m_int s; s2m_avg := s2m_avg s;
     m2p_int := if prim then mtrans (p2m_avg s) else m2p_int s;
     m2p_avg := if prim then mtrans (p2m_int s) else m2p_avg s;
     m2s_int := if sec then mtrans (s2m_avg s) else m2s_int s;
     m2s_avg := if sec then mtrans (s2m_int s) else m2s_avg s |}.

(* _check_mappings(tol=1e-4): every row of the *_to_mortar_int matrices sums to more than tol *)
Definition check_tol : Q := 1 # 10000.
Definition check_mappings (s : mstate) : bool :=
  forallb (fun m => qltb check_tol (row_sum (p2m_int s) m)) (seq 0 (n_mortar s)) &&
  forallb (fun m => qltb check_tol (row_sum (s2m_int s) m)) (seq 0 (n_mortar s)).

(* project_to_side_grids: for every side (in the order of side_grids) the matrix that picks
   its cells out of all mortar cells; the column offset is the running count of the cells of
   the preceding sides *)
Fixpoint proj_blocks (counter : nat) (gs : list (list cell)) : list mat :=
  match gs with
  | [] => []
  | g :: rest =>
      map (fun r => (r, (r + counter)%nat, 1)) (seq 0 (length g))
      :: proj_blocks (counter + length g) rest
  end.
Definition project_to_side_grids (s : mstate) : list mat := proj_blocks 0 (sides s).

(* sign_of_mortar_sides (nd = 1): the diagonal; one side: ones; two sides: -1 on the cells of
   the LEFT side grid, +1 on those of the RIGHT one (side_grids is ordered LEFT, RIGHT) *)
Definition sign_of_mortar_sides (s : mstate) : list Q :=
  match sides s with
  | [l; r] => repeat (- (1)) (length l) ++ repeat 1 (length r)
  | _ => repeat 1 (n_mortar s)
  end.

(* MortarGrid.cell_volumes = hstack of the side grids' cell volumes (1-D side grids) *)
Definition mortar_cell_volumes (nrm : Q) (s : mstate) : list Q :=
  map (cell_vol nrm) (concat (sides s)).

(* ---------------- _init_projections ---------------- *)
(* a triple of sparse_array_to_row_col_data(primary_secondary): (secondary, primary, data) *)
Definition triple := (nat * nat * Q)%type.
Definition t_sec (t : triple) : nat := fst (fst t).
Definition t_prim (t : triple) : nat := snd (fst t).
Definition t_data (t : triple) : Q := snd t.

(* stable sort by the secondary index (np.argsort(secondary_f, kind="stable")) *)
Fixpoint tinsert (x : triple) (l : list triple) : list triple :=
  match l with
  | [] => [x]
  | y :: r => if (t_sec x <=? t_sec y)%nat then x :: y :: r else y :: tinsert x r
  end.
(* inserting from the right keeps equal keys in their original order *)
Definition tsort (l : list triple) : list triple := fold_right tinsert [] l.

(* np.reshape(ix, (2, -1), order="F").ravel("C") : even positions, then odd positions *)
Fixpoint evens (A : Type) (l : list A) : list A :=
  match l with
  | [] => []
  | x :: r => x :: match r with [] => [] | _ :: r' => evens A r' end
  end.
Definition odds (A : Type) (l : list A) : list A :=
  match l with [] => [] | _ :: r => evens A r end.
Arguments evens {A}. Arguments odds {A}.

Definition max_sec (l : list triple) : nat := fold_right (fun t m => Nat.max (t_sec t) m) 0%nat l.
Definition count_sec (l : list triple) (c : nat) : nat :=
  length (filter (fun t => Nat.eqb (t_sec t) c) l).

Definition init_projections (side_grids : list (list cell)) (np ns : nat)
           (ps : list triple) (fdi : option (list nat)) : merr + mstate :=
  let nsides := length side_grids in
  (* duplicate faces go last when face_duplicate_ind is given (two sides) *)
  let ps1 := match fdi with
             | Some dup =>
                 if Nat.eqb nsides 2 then
                   let second t := existsb (Nat.eqb (t_prim t)) dup in
                   filter (fun t => negb (second t)) ps ++ filter second ps
                 else ps
             | None => ps
             end in
  let srt := tsort ps1 in
  let ordered :=
    if Nat.eqb nsides 2 then
      (* np.allclose(np.bincount(secondary_f), 2) *)
      if negb (Nat.eqb (length ps1) 0) &&
         forallb (fun c => Nat.eqb (count_sec ps1 c) 2) (seq 0 (S (max_sec ps1)))
      then inr (evens srt ++ odds srt)
      else inl MValueErr
    else inr srt in
  match ordered with
  | inl e => inl e
  | inr ts =>
      let ncell := fold_right (fun g acc => (length g + acc)%nat) 0%nat side_grids in
      if negb (Nat.eqb ncell (length ts)) then inl MValueErr
      else
        let cells := seq 0 (length ts) in
        let pm := map (fun kt => (fst kt, t_prim (snd kt), t_data (snd kt))) (combine cells ts) in
        let sm := map (fun kt => (fst kt, t_sec (snd kt), t_data (snd kt))) (combine cells ts) in
        inr (set_projections true true
               {| sides := side_grids; n_prim := np; n_sec := ns;
                  p2m_int := pm; p2m_avg := pm; s2m_int := sm; s2m_avg := sm;
                  m2p_int := []; m2p_avg := []; m2s_int := []; m2s_avg := [] |})
  end.

(* ---------------- updates ---------------- *)
Section Updates.
  Variable nrm : Q.   (* see Model.C33: factor from coordinate differences to lengths *)
  Variable tol : Q.

  (* match_1d on cell lists (points already gathered) *)
  Definition match_cells (sc : scaling) (new old : list cell) : merr + mat :=
    match lt_outer nrm 0 new old with
    | inl _ => inl MIndexErr
    | inr isect =>
        inr (scale_entries (fun i => cell_vol nrm (nth i new (0, 0)))
                           (fun j => cell_vol nrm (nth j old (0, 0))) tol sc isect)
    end.

  (* blocks of update_mortar: for every stored side, the given new grid or the identity *)
  Fixpoint mortar_blocks (sc : scaling) (olds : list (list cell))
           (news : list (option (list cell))) : merr + list (nat * nat * mat) :=
    match olds with
    | [] => inr []
    | g :: rest =>
        let (nw, news') := match news with [] => (None, []) | x :: r => (x, r) end in
        let blk := match nw with
                   | None => inr (length g, length g, ident (length g))
                   | Some ng => match match_cells sc ng g with
                                | inl e => inl e
                                | inr m => inr (length ng, length g, m)
                                end
                   end in
        match blk with
        | inl e => inl e
        | inr b => match mortar_blocks sc rest news' with
                   | inl e => inl e
                   | inr bs => inr (b :: bs)
                   end
        end
    end.

  Fixpoint new_sides (olds : list (list cell)) (news : list (option (list cell)))
    : list (list cell) :=
    match olds with
    | [] => []
    | g :: rest =>
        match news with
        | [] => g :: rest
        | None :: r => g :: new_sides rest r
        | Some ng :: r => ng :: new_sides rest r
        end
    end.

  (* the part of update_mortar after the per-side matrices have been computed *)
  Definition update_mortar_with (ba bi : list (nat * nat * mat)) (sides' : list (list cell))
             (s : mstate) : merr + mstate :=
    let ma := bdiag 0 0 ba in
    let mi := bdiag 0 0 bi in
    let s1 := set_projections true true
      {| sides := sides'; n_prim := n_prim s; n_sec := n_sec s;
         p2m_int := mprod mi (p2m_int s); p2m_avg := mprod ma (p2m_avg s);
         s2m_int := mprod mi (s2m_int s); s2m_avg := mprod ma (s2m_avg s);
         m2p_int := m2p_int s; m2p_avg := m2p_avg s;
         m2s_int := m2s_int s; m2s_avg := m2s_avg s |} in
    if check_mappings s1 then inr s1 else inl MValueErr.

  Definition update_mortar (news : list (option (list cell))) (s : mstate) : merr + mstate :=
    match mortar_blocks Averaged (sides s) news, mortar_blocks Integrated (sides s) news with
    | inl e, _ => inl e
    | _, inl e => inl e
    | inr ba, inr bi => update_mortar_with ba bi (new_sides (sides s) news) s
    end.

  Fixpoint secondary_blocks (sc : scaling) (gs : list (list cell)) (new_g : list cell)
    : merr + list (nat * mat) :=
    match gs with
    | [] => inr []
    | g :: rest =>
        match match_cells sc g new_g with
        | inl e => inl e
        | inr m => match secondary_blocks sc rest new_g with
                   | inl e => inl e
                   | inr bs => inr ((length g, m) :: bs)
                   end
        end
    end.

  (* the part of update_secondary after the per-side matrices have been computed *)
  Definition update_secondary_with (ba bi : list (nat * mat)) (nsec : nat) (s : mstate)
    : merr + mstate :=
    let s1 := set_projections false true
      {| sides := sides s; n_prim := n_prim s; n_sec := nsec;
         p2m_int := p2m_int s; p2m_avg := p2m_avg s;
         s2m_int := vstack 0 bi; s2m_avg := vstack 0 ba;
         m2p_int := m2p_int s; m2p_avg := m2p_avg s;
         m2s_int := m2s_int s; m2s_avg := m2s_avg s |} in
    if check_mappings s1 then inr s1 else inl MValueErr.

  Definition update_secondary (new_g : list cell) (s : mstate) : merr + mstate :=
    match secondary_blocks Averaged (sides s) new_g,
          secondary_blocks Integrated (sides s) new_g with
    | inl e, _ => inl e
    | _, inl e => inl e
    | inr ba, inr bi => update_secondary_with ba bi (length new_g) s
    end.

  (* ---- 2-D mortar grids: match_2d.  The overlap areas come from shapely (C33: Section
     variables under the area contract); here they are DATA of the operation: for one pair of
     grids the triple list returned by intersections.triangulations and the cell volumes of
     the two grids.  The weights are scale_entries of them (C33 model of match_2d), the
     arrangement and products are the same code as in 1-D.  A 2-D side grid is represented
     by a list of placeholder cells of the right length (only its length is used). ---- *)
  Record kblock := { kb_vnew : list Q; kb_vold : list Q; kb_isect : list entry }.

  Definition kmatch (sc : scaling) (b : kblock) : mat :=
    scale_entries (fun i => nth i (kb_vnew b) 0) (fun j => nth j (kb_vold b) 0) tol sc
                  (kb_isect b).

  Definition placeholder (n : nat) : list cell := repeat (0, 0) n.

  Fixpoint mortar_blocks_k (sc : scaling) (olds : list (list cell))
           (news : list (option kblock)) : list (nat * nat * mat) :=
    match olds with
    | [] => []
    | g :: rest =>
        let (nw, news') := match news with [] => (None, []) | x :: r => (x, r) end in
        (match nw with
         | None => (length g, length g, ident (length g))
         | Some b => (length (kb_vnew b), length g, kmatch sc b)
         end) :: mortar_blocks_k sc rest news'
    end.

  Fixpoint new_sides_k (olds : list (list cell)) (news : list (option kblock))
    : list (list cell) :=
    match olds with
    | [] => []
    | g :: rest =>
        match news with
        | [] => g :: rest
        | None :: r => g :: new_sides_k rest r
        | Some b :: r => placeholder (length (kb_vnew b)) :: new_sides_k rest r
        end
    end.

  Definition update_mortar_k (news : list (option kblock)) (s : mstate) : merr + mstate :=
    update_mortar_with (mortar_blocks_k Averaged (sides s) news)
                       (mortar_blocks_k Integrated (sides s) news)
                       (new_sides_k (sides s) news) s.

  (* update_secondary: match_2d(g_side, new_g): one block per side, "new" = the side grid *)
  Definition update_secondary_k (blocks : list kblock) (nsec : nat) (s : mstate)
    : merr + mstate :=
    update_secondary_with
      (map (fun b => (length (kb_vnew b), kmatch Averaged b)) blocks)
      (map (fun b => (length (kb_vnew b), kmatch Integrated b)) blocks) nsec s.

  Inductive op :=
  | UpdMortar (news : list (option (list cell)))
  | UpdSecondary (new_g : list cell)
  | UpdMortarK (news : list (option kblock))
  | UpdSecondaryK (blocks : list kblock) (nsec : nat).

  Definition step (s : mstate) (o : op) : merr + mstate :=
    match o with
    | UpdMortar news => update_mortar news s
    | UpdSecondary g => update_secondary g s
    | UpdMortarK news => update_mortar_k news s
    | UpdSecondaryK blocks nsec => update_secondary_k blocks nsec s
    end.

  (* the area contract of C33 on the data of an operation (checked in the tie) *)
  Definition kblock_ok (b : kblock) : bool := sums_ok (kb_isect b) (kb_vnew b) (kb_vold b).
  Definition op_contract (o : op) : bool :=
    match o with
    | UpdMortarK news => forallb (fun x => match x with Some b => kblock_ok b | None => true end) news
    | UpdSecondaryK blocks _ => forallb kblock_ok blocks
    | _ => true
    end.

  (* states after every operation; stops at the first exception *)
  Fixpoint run (s : mstate) (ops : list op) : list (merr + mstate) :=
    match ops with
    | [] => []
    | o :: r => match step s o with
                | inl e => [inl e]
                | inr s' => inr s' :: run s' r
                end
    end.
End Updates.

(* ---------------- comparison with the implementation (tie) ---------------- *)
Definition mget (a : mat) (i j : nat) : Q :=
  qsum (map ewt (filter (fun e => Nat.eqb (erow e) i && Nat.eqb (ecol e) j) a)).

(* same matrix up to 1e-9 (duplicates summed, explicit zeros immaterial) *)
Definition mat_close (a b : mat) : bool :=
  forallb (fun e => qclose (mget a (erow e) (ecol e)) (mget b (erow e) (ecol e))) a &&
  forallb (fun e => qclose (mget a (erow e) (ecol e)) (mget b (erow e) (ecol e))) b.

(* the eight projection matrices of the implementation, as coordinate lists *)
(* the implementation's answer: the eight projection matrices, the matrices of
   project_to_side_grids, the diagonal of sign_of_mortar_sides and (1-D) cell_volumes *)
Definition dump := (list mat * list mat * list Q * option (list Q))%type.
Definition state_close (nrm : Q) (s : mstate) (d : dump) : bool :=
  let '(mats, projs, sgn, vols) := d in
  (match mats with
   | [a1; a2; a3; a4; a5; a6; a7; a8] =>
       mat_close (p2m_int s) a1 && mat_close (p2m_avg s) a2 &&
       mat_close (s2m_int s) a3 && mat_close (s2m_avg s) a4 &&
       mat_close (m2p_int s) a5 && mat_close (m2p_avg s) a6 &&
       mat_close (m2s_int s) a7 && mat_close (m2s_avg s) a8
   | _ => false
   end) &&
  list_eqb (list_eqb entry_eqb) (project_to_side_grids s) projs &&
  list_eqb Qeq_bool (sign_of_mortar_sides s) sgn &&
  match vols with
  | Some v => list_eqb qclose (mortar_cell_volumes nrm s) v
  | None => true
  end.

Definition res_close (nrm : Q) (r : merr + mstate) (d : merr + dump) : bool :=
  match r, d with
  | inl MIndexErr, inl MIndexErr => true
  | inl MValueErr, inl MValueErr => true
  | inr s, inr x => state_close nrm s x
  | _, _ => false
  end.

Fixpoint all2 {A B} (f : A -> B -> bool) (a : list A) (b : list B) : bool :=
  match a, b with
  | [], [] => true
  | x :: r, y :: t => f x y && all2 f r t
  | _, _ => false
  end.

Definition agree_hist (nrm tol : Q) (side_grids : list (list cell)) (np ns : nat)
           (ps : list triple) (fdi : option (list nat)) (ops : list op)
           (impl : list (merr + dump)) : bool :=
  match init_projections side_grids np ns ps fdi, impl with
  | inl e, [d] => res_close nrm (inl e) d
  | inr s0, d0 :: ds =>
      res_close nrm (inr s0) d0 && all2 (res_close nrm) (run nrm tol s0 ops) ds &&
      forallb op_contract ops
  | _, _ => false
  end.
