(* C19 (2-D, legacy branch) — Grid._compute_geometry_2d including the fallback that assumes
   convex cells, for grids in the plane z = 0.  [geometry2f] returns what the code returns on
   every path:
     - orientation checks 1/3 and 2/3 pass: plane normal sigma = sign(S); volumes by signed
       sub-triangles; if a volume is negative (check 3/3) the volumes are recomputed by the
       legacy rule with the SAME plane normal;
     - check 1/3 or 2/3 fails: plane normal from pp.map_geometry.compute_normal(nodes), legacy rule.
   Legacy rule: sub-triangle volumes are absolute values; a face normal is flipped when, for
   some cell entry of the face, sign * (face_center - temp_center) . normal < 0.
   Executable definitions only. *)
From Coq Require Import List ZArith QArith Qabs Bool Arith.
Import ListNotations.
From PP Require Import Model.C19.
Open Scope Q_scope.

(* map_geometry.compute_normal for points in the plane z = 0: +-1 = sign of the z-component of
   v1 x v_j, v1 = longest vector from the centroid (first maximum), j = first maximiser of
   |v1 x v_j|  (squared lengths: same arg max) *)
Definition argmax_idx (l : list Q) : nat :=
  match l with [] => O | a :: r => argmax_first a O 1 r end.
Definition general_normal (nodes : list pt) : Q :=
  let k := inject_Z (Z.of_nat (length nodes)) in
  let cx := sumQ (map px nodes) / k in
  let cy := sumQ (map py nodes) / k in
  let v := map (fun p => (Qred (px p - cx), Qred (py p - cy))) nodes in
  let v1 := nth (argmax_idx (map (fun a => Qred (dot a a)) v)) v (0, 0) in
  let cr := map (fun a => Qred (cross v1 a)) v in
  qsign (nth (argmax_idx (map (fun c => Qred (c * c)) cr)) cr 0).

(* sub-triangle area |subsimplex_normal| *)
Definition subabs (t : pt) (e : sface) : Q := Qabs (subnormal t e).
Definition fb_volume (t : pt) (es : list sface) : Q := sumQ (map (subabs t) es).
Definition fb_moment (t : pt) (es : list sface) : pt :=
  (sumQ (map (fun e => subabs t e * ((px t + 2 * px (fcenter e)) / 3)) es),
   sumQ (map (fun e => subabs t e * ((py t + 2 * py (fcenter e)) / 3)) es)).
Definition fb_center (t : pt) (es : list sface) : pt :=
  let m := fb_moment t es in let v := fb_volume t es in (px m / v, py m / v).

(* flip decision of one cell entry for its face *)
Definition flip_entry (sigma : Q) (t : pt) (e : sface) : bool :=
  if Qlt_le_dec (f_sgn e * dot (psub (fcenter e) t) (fnormal sigma e)) 0 then true else false.

(* np.bincount(faceno, weights=flip).astype(bool): some entry of face f wants the flip *)
Definition face_flip (g : grid2) (sigma : Q) (f : nat) : bool :=
  existsb (fun x => Nat.eqb (fst (fst x)) f &&
                    (let es := cell_sfaces g (snd (fst x)) in
                     flip_entry sigma (temp_center es) (face_of g f (snd x))))
          (g_cf g).

Definition legacy (g : grid2) (sigma : Q) : geom2 :=
  let cells := seq 0 (g_nc g) in
  let faces := seq 0 (length (g_faces g)) in
  let fs := map (fun f => face_of g f 1%Z) faces in
  {| o_area2 := map farea2 fs; o_fc := map fcenter fs;
     o_fn := map (fun f => let n := fnormal sigma (face_of g f 1%Z) in
                           if face_flip g sigma f then (- px n, - py n) else n) faces;
     o_vol := map (fun c => let es := cell_sfaces g c in fb_volume (temp_center es) es) cells;
     o_cc := map (fun c => let es := cell_sfaces g c in fb_center (temp_center es) es) cells |}.

Inductive branch := BOriented | BLegacySameNormal | BLegacyGeneralNormal.

Definition geometry2f (g : grid2) : branch * geom2 :=
  let S := plane_sum g in
  if oriented1 g && negb (Qeq_bool S 0) then
    let sigma := qsign S in
    match geometry2 g with
    | GOk r => (BOriented, r)
    | GFallback => (BLegacySameNormal, legacy g sigma)      (* check 3/3 failed *)
    end
  else (BLegacyGeneralNormal, legacy g (general_normal (g_nodes g))).

Definition agree2f (g : grid2) (fallback : bool) (i : geom2) : bool :=
  let (b, r) := geometry2f g in
  Bool.eqb fallback (match b with BOriented => false | _ => true end) &&
  let nx := maxabs (map px (g_nodes g)) in
  let ny := maxabs (map py (g_nodes g)) in
  all2 (closeS 0) (map Qred (o_area2 r)) (o_area2 i)
  && all2 (closepS nx ny) (o_fc r) (o_fc i)
  && all2 (closepS (maxabs (map px (o_fn r))) (maxabs (map py (o_fn r)))) (o_fn r) (o_fn i)
  && all2 (closeS 0) (map Qred (o_vol r)) (o_vol i)
  && all2 (closepS nx ny) (o_cc r) (o_cc i).
