(* C19 — computed grid geometry (1-D and 2-D, non-embedded grids), exact over Q.
   Transcribes porepy/grids/grid.py: _compute_geometry_1d (grids on the x-axis) and
   _compute_geometry_2d (grids in the plane z = 0; the consistently-oriented branch; the
   legacy convex fallback is an explicit result value [GFallback], not computed here).
   Executable definitions only. *)
From Coq Require Import List ZArith QArith Qabs Bool Arith.
Import ListNotations.
Open Scope Q_scope.

Definition pt := (Q * Q)%type.
Definition px (p : pt) : Q := fst p.
Definition py (p : pt) : Q := snd p.

Definition sumQ (l : list Q) : Q := fold_right Qplus 0 l.

(* z-component of the 3-D cross product of two vectors in the plane *)
Definition cross (a b : pt) : Q := px a * py b - py a * px b.
Definition dot (a b : pt) : Q := px a * px b + py a * py b.
Definition psub (a b : pt) : pt := (px a - px b, py a - py b).
Definition padd (a b : pt) : pt := (px a + px b, py a + py b).
Definition pscale (k : Q) (a : pt) : pt := (k * px a, k * py a).

(* ------------------------------------------------------------------------------------ *)
(* A face as seen from a cell: start node, end node (order of face_nodes.indices) and the
   sign of the cell_faces entry. *)
Definition sface := (pt * pt * Z)%type.
Definition f_start (e : sface) : pt := fst (fst e).
Definition f_end (e : sface) : pt := snd (fst e).
Definition f_sgn (e : sface) : Q := inject_Z (snd e).

(* tangent = nodes @ fn_orient : end - start *)
Definition tangent (e : sface) : pt := psub (f_end e) (f_start e).
(* face_centers = 0.5 * nodes * |fn_orient| *)
Definition fcenter (e : sface) : pt := pscale (1 # 2) (padd (f_start e) (f_end e)).
(* face_areas ** 2 *)
Definition farea2 (e : sface) : Q := dot (tangent e) (tangent e).
(* face_normals = cross(tangent, plane_normal), plane_normal = (0, 0, sigma) *)
Definition fnormal (sigma : Q) (e : sface) : pt :=
  (py (tangent e) * sigma, - (px (tangent e) * sigma)).

(* temporary cell centre: mean of the face centres of the cell *)
Definition temp_center (es : list sface) : pt :=
  let k := inject_Z (Z.of_nat (length es)) in
  (sumQ (map (fun e => px (fcenter e)) es) / k, sumQ (map (fun e => py (fcenter e)) es) / k).

(* subsimplex_normals (z-component) = 0.5 * cross(face_center - temp_center, sign * tangent) *)
Definition subnormal (t : pt) (e : sface) : Q :=
  (1 # 2) * cross (psub (fcenter e) t) (pscale (f_sgn e) (tangent e)).

(* subsimplex_volumes = dot(plane_normal, subsimplex_normals) *)
Definition subvol (sigma : Q) (t : pt) (e : sface) : Q := sigma * subnormal t e.

(* cell_volumes = bincount(cellno, subsimplex_volumes) *)
Definition cell_volume (sigma : Q) (t : pt) (es : list sface) : Q :=
  sumQ (map (subvol sigma t) es).

(* cell_centers = bincount(cellno, subvol * (temp + 2 * face_center) / 3) / cell_volumes *)
Definition cell_moment (sigma : Q) (t : pt) (es : list sface) : pt :=
  (sumQ (map (fun e => subvol sigma t e * ((px t + 2 * px (fcenter e)) / 3)) es),
   sumQ (map (fun e => subvol sigma t e * ((py t + 2 * py (fcenter e)) / 3)) es)).
Definition cell_center (sigma : Q) (t : pt) (es : list sface) : pt :=
  let m := cell_moment sigma t es in
  let v := cell_volume sigma t es in (px m / v, py m / v).

(* ------------------------------------------------------------------------------------ *)
(* The grid: node coordinates, faces as (start node, end node), cell_faces entries
   (face, cell, sign) in storage order. *)
Record grid2 := { g_nodes : list pt; g_faces : list (nat * nat);
                  g_cf : list (nat * nat * Z); g_nc : nat }.

Definition node (g : grid2) (i : nat) : pt := nth i (g_nodes g) (0, 0).
Definition face_of (g : grid2) (f : nat) (s : Z) : sface :=
  let se := nth f (g_faces g) (O, O) in (node g (fst se), node g (snd se), s).

Definition cell_entries (g : grid2) (c : nat) : list (nat * Z) :=
  map (fun x => (fst (fst x), snd x)) (filter (fun x => Nat.eqb (snd (fst x)) c) (g_cf g)).
Definition cell_sfaces (g : grid2) (c : nat) : list sface :=
  map (fun x => face_of g (fst x) (snd x)) (cell_entries g c).

(* oriented traversal of a face by a cell: (from, to) node numbers *)
Definition oedge_idx (g : grid2) (x : nat * Z) : nat * nat :=
  let se := nth (fst x) (g_faces g) (O, O) in
  if (0 <? snd x)%Z then se else (snd se, fst se).

Definition count (l : list nat) (n : nat) : nat := count_occ Nat.eq_dec l n.

(* orientation check (1/3): (fn_orient @ cell_faces).nnz == 0 — in every cell every node
   is as often the end as the start of a traversed face *)
Definition balanced (g : grid2) (c : nat) : bool :=
  let es := map (oedge_idx g) (cell_entries g c) in
  forallb (fun n => Nat.eqb (count (map fst es) n) (count (map snd es) n))
          (map fst es ++ map snd es).
Definition oriented1 (g : grid2) : bool :=
  forallb (fun x => ((snd x =? 1) || (snd x =? -1))%Z) (g_cf g)
  && forallb (balanced g) (seq 0 (g_nc g)).

Definition qsign (x : Q) : Q := if Qlt_le_dec 0 x then 1 else if Qlt_le_dec x 0 then -1 else 0.

(* sum of all sub-simplex normals (z) = unnormalised plane normal *)
Definition plane_sum (g : grid2) : Q :=
  sumQ (map (fun c => let es := cell_sfaces g c in
                      sumQ (map (subnormal (temp_center es)) es)) (seq 0 (g_nc g))).

Record geom2 := { o_area2 : list Q; o_fc : list pt; o_fn : list pt;
                  o_vol : list Q; o_cc : list pt }.
Inductive gres := GOk (r : geom2) | GFallback.

Definition geometry2 (g : grid2) : gres :=
  if negb (oriented1 g) then GFallback
  else
    let S := plane_sum g in
    (* orientation check (2/3): |S| < 1e-5 * mean(face_areas)^2; modelled as S = 0 *)
    if Qeq_bool S 0 then GFallback
    else
      let sigma := qsign S in
      let cells := seq 0 (g_nc g) in
      let vols := map (fun c => let es := cell_sfaces g c in
                                cell_volume sigma (temp_center es) es) cells in
      (* orientation check (3/3): a negative cell volume *)
      if existsb (fun v => if Qlt_le_dec v 0 then true else false) vols then GFallback
      else
        let fs := map (fun f => face_of g f 1%Z) (seq 0 (length (g_faces g))) in
        GOk {| o_area2 := map farea2 fs; o_fc := map fcenter fs;
               o_fn := map (fnormal sigma) fs; o_vol := vols;
               o_cc := map (fun c => let es := cell_sfaces g c in
                                     cell_center sigma (temp_center es) es) cells |}.

(* ------------------------------------------------------------------------------------ *)
(* 1-D grids on the x-axis.  nodes: x-coordinates; face i sits at node fn[i]; cell c has
   the faces cf.indices[2c], cf.indices[2c+1]; entries (face, cell, sign) in storage order. *)
Record grid1 := { h_nodes : list Q; h_fn : list nat; h_cf : list (nat * nat * Z); h_nc : nat }.

Definition xface (h : grid1) (f : nat) : Q := nth (nth f (h_fn h) O) (h_nodes h) 0.

(* compute_tangent: direction from the mean to the point furthest from it (first maximum) *)
Fixpoint argmax_first (best : Q) (bi i : nat) (l : list Q) : nat :=
  match l with
  | [] => bi
  | x :: r => if Qlt_le_dec best x then argmax_first x i (S i) r else argmax_first best bi (S i) r
  end.
Definition tangent1 (h : grid1) : Q :=
  let xs := h_nodes h in
  let mean := sumQ xs / inject_Z (Z.of_nat (length xs)) in
  let d := map (fun x => x - mean) xs in
  match d with
  | [] => 0
  | d0 :: r => qsign (nth (argmax_first (d0 * d0) O 1 (map (fun x => x * x) r)) d 0)
  end.

Definition cell_faces1 (h : grid1) (c : nat) : list (nat * Z) :=
  map (fun x => (fst (fst x), snd x)) (filter (fun x => Nat.eqb (snd (fst x)) c) (h_cf h)).

Definition vol1 (h : grid1) (c : nat) : Q :=
  match cell_faces1 h c with
  | [(f1, _); (f2, _)] => Qabs (xface h f1 - xface h f2)
  | _ => 0
  end.
Definition cc1 (h : grid1) (c : nat) : Q :=
  match cell_faces1 h c with
  | [(f1, _); (f2, _)] => (1 # 2) * (xface h f1 + xface h f2)
  | _ => 0
  end.

(* first stored entry of face f : np.unique(fi, return_index=True) *)
Definition first_entry (h : grid1) (f : nat) : option (nat * nat * Z) :=
  find (fun x => Nat.eqb (fst (fst x)) f) (h_cf h).

(* the flip rule on the x-axis:  v = fc - cc,  vn = v + |v| * n * 0.001,
   flip iff (|v| > |vn| and sgn > 0) or (|v| < |vn| and sgn < 0) *)
Definition flip_rule (v n : Q) (s : Z) : bool :=
  let vn := v + Qabs v * n * (1 # 1000) in
  ((if Qlt_le_dec (Qabs vn) (Qabs v) then true else false) && (0 <? s)%Z)
  || ((if Qlt_le_dec (Qabs v) (Qabs vn) then true else false) && (s <? 0)%Z).

Definition normal1 (h : grid1) (f : nat) : Q :=
  let n := tangent1 h in
  match first_entry h f with
  | Some (_, c, s) => if flip_rule (xface h f - cc1 h c) n s then - n else n
  | None => n
  end.

Record geom1 := { p_fc : list Q; p_fn : list Q; p_vol : list Q; p_cc : list Q }.
Definition geometry1 (h : grid1) : geom1 :=
  let fs := seq 0 (length (h_fn h)) in
  let cs := seq 0 (h_nc h) in
  {| p_fc := map (xface h) fs; p_fn := map (normal1 h) fs;
     p_vol := map (vol1 h) cs; p_cc := map (cc1 h) cs |}.

(* ------------------------------------------------------------------------------------ *)
(* comparison with the implementation's floats (exact rationals), relative band 1e-9 *)
Definition close (a b : Q) : bool :=
  Qle_bool (Qabs (a - b)) ((1 # 1000000000) * (1 + Qabs b)).
Definition closep (a b : pt) : bool := close (px a) (px b) && close (py a) (py b).

Fixpoint all2 {A} (f : A -> A -> bool) (a b : list A) : bool :=
  match a, b with
  | [], [] => true
  | x :: r, y :: s => f x y && all2 f r s
  | _, _ => false
  end.

(* scale-aware comparison: |a - b| <= 1e-9 * (|b| + s), where s is the magnitude of the
   quantity's component in this grid (largest |node coordinate| of that axis for positions,
   largest |model value| of that component for normals, 0 = purely relative for areas and
   volumes), so that grids of any size and anisotropy are compared at their own scale *)
Definition maxabs (l : list Q) : Q :=
  fold_right (fun x m => if Qlt_le_dec m (Qabs x) then Qred (Qabs x) else m) 0 l.
Definition closeS (s a b : Q) : bool :=
  Qle_bool (Qabs (a - b)) ((1 # 1000000000) * (Qabs b + s)).
Definition closepS (sx sy : Q) (a b : pt) : bool :=
  closeS sx (px a) (px b) && closeS sy (py a) (py b).

(* impl: None = the implementation fell back to the convex legacy branch *)
Definition agree2 (g : grid2) (impl : option geom2) : bool :=
  match geometry2 g, impl with
  | GFallback, None => true
  | GOk r, Some i =>
      let nx := maxabs (map px (g_nodes g)) in
      let ny := maxabs (map py (g_nodes g)) in
      all2 (closeS 0) (map Qred (o_area2 r)) (o_area2 i)
      && all2 (closepS nx ny) (o_fc r) (o_fc i)
      && all2 (closepS (maxabs (map px (o_fn r))) (maxabs (map py (o_fn r)))) (o_fn r) (o_fn i)
      && all2 (closeS 0) (map Qred (o_vol r)) (o_vol i)
      && all2 (closepS nx ny) (o_cc r) (o_cc i)
  | _, _ => false
  end.

Definition agree1 (h : grid1) (i : geom1) : bool :=
  let r := geometry1 h in
  let nx := maxabs (h_nodes h) in
  all2 (closeS nx) (p_fc r) (p_fc i) && all2 (closeS 0) (p_fn r) (p_fn i)
  && all2 (closeS 0) (p_vol r) (p_vol i) && all2 (closeS nx) (p_cc r) (p_cc i).
