(* C15 — Biot coupling terms are consistent.
   porepy/numerics/fv/biot.py builds displacement_divergence, boundary_displacement_divergence
   and scalar_gradient from the MPSA local systems (igrad); that construction is NOT
   re-implemented here.  The model is the characterising conditions (certificate tie,
   DESIGN.md §1 (K)):

     * a linear displacement field  u(x) = A x + b  sampled where the matrices take their
       input: cell centres (columns nd*c + k) and boundary face centres (columns
       nd*nc + nd*f + k, zero on interior faces) — written as the linear combination
       lin_state basis theta  of the nd*nd + nd basis fields  e_k x_l  and  e_k;
     * rows of the real matrices [displacement_divergence | boundary_displacement_divergence]
       (one per cell) and scalar_gradient (one per face component);
     * checkers: every cell row applied to the basis field  e_k x_l  gives
       alpha_kl * |K| (alpha the symmetric coupling tensor; alpha * delta_kl for a scalar
       coefficient), applied to  e_k  gives 0; every scalar-gradient row sums to -(alpha n_f)_k; the geometric identities  sum_f s n_f = 0  and
       sum_f s x_f n_f^T = |K| I  hold per cell on the real geometry arrays (checked only when
       i_planar: they are NOT expected of grids with non-planar faces).
   Executable definitions only. *)
From Coq Require Import List ZArith QArith Qabs Bool Arith.
Import ListNotations.
From PP Require Import Lib.RowLin.
Local Open Scope Q_scope.

Record inst := mk_inst {
  i_nd : nat;  i_nc : nat;  i_nf : nat;
  i_alpha : list (list Q);             (* coupling tensor alpha.values[:, :, 0], 3 x 3 symmetric
                                          (a scalar coupling coefficient a is a * I) *)
  i_cc : list (list Q);                (* sd.cell_centers[:nd, c] *)
  i_fc : list (list Q);                (* sd.face_centers[:nd, f] *)
  i_normals : list (list Q);           (* sd.face_normals[:nd, f] *)
  i_vols : list Q;                     (* sd.cell_volumes *)
  i_inc : list (list (nat * Q));       (* per cell: (face, sign) *)
  i_bnd : list bool;                   (* face is on the boundary *)
  i_planar : bool;                     (* all faces planar: the first-moment identity is expected *)
  i_drows : list row;                  (* [displacement_divergence | boundary_displacement_divergence] *)
  i_grows : list row                   (* scalar_gradient, nd*nf rows *)
}.

Definition coord (pts : list (list Q)) (p l : nat) : Q := nth l (nth p pts []) 0.

(* is column j fed by the field (cell column, or boundary-face column)? and where *)
Definition col_active (I : inst) (j : nat) : bool :=
  if j <? i_nd I * i_nc I then true else nth ((j - i_nd I * i_nc I) / i_nd I) (i_bnd I) false.
Definition col_comp (I : inst) (j : nat) : nat :=
  if j <? i_nd I * i_nc I then j mod i_nd I else (j - i_nd I * i_nc I) mod i_nd I.
Definition col_x (I : inst) (j l : nat) : Q :=
  if j <? i_nd I * i_nc I then coord (i_cc I) (j / i_nd I) l
  else coord (i_fc I) ((j - i_nd I * i_nc I) / i_nd I) l.

(* basis field m:  m = k*nd + l < nd*nd  is  e_k x_l ;  m = nd*nd + k  is  e_k *)
Definition basis (I : inst) (m : nat) : vec := fun j =>
  if col_active I j then
    if m <? i_nd I * i_nd I then
      (if col_comp I j =? m / i_nd I then col_x I j (m mod i_nd I) else 0)
    else (if col_comp I j =? m - i_nd I * i_nd I then 1 else 0)
  else 0.

Definition nparam (I : inst) : nat := i_nd I * i_nd I + i_nd I.

(* u = A x + b with theta = [A row-major; b] *)
Definition ustate (I : inst) (theta : list Q) : vec := lin_state (basis I) theta.

Definition al (I : inst) (k l : nat) : Q := nth l (nth k (i_alpha I) []) 0.

(* alpha : grad(e_k x_l) * |K| = alpha_kl |K| *)
Definition div_target (I : inst) (c m : nat) : Q :=
  if m <? i_nd I * i_nd I then al I (m / i_nd I) (m mod i_nd I) * nth c (i_vols I) 0
  else 0.

Definition ones : vec := fun _ => 1.

(* component k of alpha n_f (normals of 2-D grids have no third component) *)
Definition alpha_n (I : inst) (f k : nat) : Q :=
  al I k 0 * coord (i_normals I) f 0 + al I k 1 * coord (i_normals I) f 1
  + al I k 2 * coord (i_normals I) f 2.

Definition grad_target (I : inst) (q : nat) : Q := - alpha_n I (q / i_nd I) (q mod i_nd I).

(* signed sums over the faces of a cell *)
Fixpoint isum (ic : list (nat * Q)) (g : nat -> Q) : Q :=
  match ic with [] => 0 | fs :: ic' => snd fs * g (fst fs) + isum ic' g end.
Fixpoint iabs (ic : list (nat * Q)) (g : nat -> Q) : Q :=
  match ic with [] => 0 | fs :: ic' => Qabs (snd fs * g (fst fs)) + iabs ic' g end.

(* ------------------------------------------------------------------ checkers *)
Definition div_ok (tol : Q) (I : inst) : bool :=
  forallb (fun c =>
    forallb (fun m => near tol (rabs (nth c (i_drows I) []) (basis I m))
                           (rdot (nth c (i_drows I) []) (basis I m)) (div_target I c m))
            (seq 0 (nparam I)))
    (seq 0 (i_nc I)).

Definition grad_ok (tol : Q) (I : inst) : bool :=
  forallb (fun q => near tol (rabs (nth q (i_grows I) []) ones)
                         (rdot (nth q (i_grows I) []) ones) (grad_target I q))
          (seq 0 (i_nd I * i_nf I)).

Definition geo_ok (tol : Q) (I : inst) : bool :=
  forallb (fun c =>
    let ic := nth c (i_inc I) [] in
    forallb (fun i =>
      near tol (iabs ic (fun f => coord (i_normals I) f i))
           (isum ic (fun f => coord (i_normals I) f i)) 0
      && forallb (fun j =>
           near tol (iabs ic (fun f => coord (i_fc I) f j * coord (i_normals I) f i))
                (isum ic (fun f => coord (i_fc I) f j * coord (i_normals I) f i))
                (if i =? j then nth c (i_vols I) 0 else 0))
         (seq 0 (i_nd I)))
      (seq 0 (i_nd I)))
    (seq 0 (i_nc I)).

Definition shape_ok (I : inst) : bool :=
  ((i_nd I =? 2) || (i_nd I =? 3))
  && (length (i_cc I) =? i_nc I) && (length (i_fc I) =? i_nf I)
  && (length (i_normals I) =? i_nf I) && (length (i_vols I) =? i_nc I)
  && (length (i_inc I) =? i_nc I) && (length (i_bnd I) =? i_nf I)
  && (length (i_drows I) =? i_nc I) && (length (i_grows I) =? i_nd I * i_nf I).

(* the same two matrix certificates with a PURELY RELATIVE tolerance (no absolute floor):
   |value - target| <= tol * (sum |terms| + |target|); entries of any magnitude (micrometre
   cells, tiny coupling coefficients) are held to the same relative accuracy *)
Definition nearr (tol scale x y : Q) : bool := Qle_bool (Qabs (x - y)) (tol * scale).

(* magnitude of the expected force vector -p*(alpha n_f) of the face that row q belongs to
   (rows are face-major: q = f * nd + component) *)
Definition face_mag (I : inst) (q : nat) : Q :=
  fold_right Qplus 0
    (map (fun l => Qabs (grad_target I ((q / i_nd I) * i_nd I + l))) (seq 0 (i_nd I))).

Definition rel_ok (tol : Q) (I : inst) : bool :=
  forallb (fun c =>
    forallb (fun m => nearr tol (rabs (nth c (i_drows I) []) (basis I m) + Qabs (div_target I c m))
                            (rdot (nth c (i_drows I) []) (basis I m)) (div_target I c m))
            (seq 0 (nparam I)))
    (seq 0 (i_nc I))
  && forallb (fun q => nearr tol (rabs (nth q (i_grows I) []) ones + Qabs (grad_target I q)
                                  + face_mag I q)
                             (rdot (nth q (i_grows I) []) ones) (grad_target I q))
             (seq 0 (i_nd I * i_nf I)).

Definition check (tol : Q) (I : inst) : bool :=
  shape_ok I && div_ok tol I && grad_ok tol I && (if i_planar I then geo_ok tol I else true)
  && rel_ok tol I.

Definition check_diag (tol : Q) (I : inst) :=
  (shape_ok I, div_ok tol I, grad_ok tol I, geo_ok tol I, rel_ok tol I).

(* ------------------------------------------------------------------ the face-sum form of
   the divergence (method level): one cell, faces given as (sign, normal, face centre) *)
Definition v3 := (Q * Q * Q)%type.
Definition x0 (v : v3) := fst (fst v).
Definition x1 (v : v3) := snd (fst v).
Definition x2 (v : v3) := snd v.
Definition face := (Q * v3 * v3)%type.       (* (sign, normal, centre) *)
Definition f_s (f : face) := fst (fst f).
Definition f_n (f : face) := snd (fst f).
Definition f_x (f : face) := snd f.

Fixpoint fsum (fs : list face) (g : face -> Q) : Q :=
  match fs with [] => 0 | f :: fs' => f_s f * g f + fsum fs' g end.

Definition m3 := (v3 * v3 * v3)%type.        (* rows of A *)
Definition mulmv (A : m3) (x : v3) : v3 :=
  let r0 := fst (fst A) in let r1 := snd (fst A) in let r2 := snd A in
  (x0 r0 * x0 x + x1 r0 * x1 x + x2 r0 * x2 x,
   x0 r1 * x0 x + x1 r1 * x1 x + x2 r1 * x2 x,
   x0 r2 * x0 x + x1 r2 * x1 x + x2 r2 * x2 x).
Definition vadd (a b : v3) : v3 := (x0 a + x0 b, x1 a + x1 b, x2 a + x2 b).
Definition vdot (a b : v3) : Q := x0 a * x0 b + x1 a * x1 b + x2 a * x2 b.
Definition trace (A : m3) : Q := x0 (fst (fst A)) + x1 (snd (fst A)) + x2 (snd A).

(* sum_f s_f u(x_f) . n_f  for  u = A x + b *)
Definition face_div (fs : list face) (A : m3) (b : v3) : Q :=
  fsum fs (fun f => vdot (vadd (mulmv A (f_x f)) b) (f_n f)).

(* component access and the geometric moments of one cell *)
Definition cmp (i : nat) (v : v3) : Q :=
  match i with 0%nat => x0 v | 1%nat => x1 v | _ => x2 v end.
Definition mrow (i : nat) (A : m3) : v3 :=
  match i with 0%nat => fst (fst A) | 1%nat => snd (fst A) | _ => snd A end.
(* N_i = sum_f s n_{f,i} ;  M_ij = sum_f s x_{f,j} n_{f,i} *)
Definition Nrm (fs : list face) (i : nat) : Q := fsum fs (fun f => cmp i (f_n f)).
Definition Mom (fs : list face) (i j : nat) : Q := fsum fs (fun f => cmp j (f_x f) * cmp i (f_n f)).

(* the signed faces of cell c of an instance, as consumed by face_div *)
Definition v3_of (l : list Q) : v3 := (nth 0 l 0, nth 1 l 0, nth 2 l 0).
Definition cell_faces_of (I : inst) (c : nat) : list face :=
  map (fun fs => (snd fs, v3_of (nth (fst fs) (i_normals I) []), v3_of (nth (fst fs) (i_fc I) [])))
      (nth c (i_inc I) []).

(* tolerances of the geometric identities of cell c as checked by geo_ok *)
Definition eps_mom (tol : Q) (I : inst) (c i j : nat) : Q :=
  tol * (1 + iabs (nth c (i_inc I) []) (fun f => coord (i_fc I) f j * coord (i_normals I) f i)).
Definition eps_nrm (tol : Q) (I : inst) (c i : nat) : Q :=
  tol * (1 + iabs (nth c (i_inc I) []) (fun f => coord (i_normals I) f i)).

(* indexed like theta = [a00 a01 a02 a10 a11 a12 a20 a21 a22 b0 b1 b2] (3-D) *)
Definition geo_eps3 (tol : Q) (I : inst) (c m : nat) : Q :=
  match m with
  | 0%nat => eps_mom tol I c 0 0 | 1%nat => eps_mom tol I c 0 1 | 2%nat => eps_mom tol I c 0 2
  | 3%nat => eps_mom tol I c 1 0 | 4%nat => eps_mom tol I c 1 1 | 5%nat => eps_mom tol I c 1 2
  | 6%nat => eps_mom tol I c 2 0 | 7%nat => eps_mom tol I c 2 1 | 8%nat => eps_mom tol I c 2 2
  | 9%nat => eps_nrm tol I c 0 | 10%nat => eps_nrm tol I c 1 | 11%nat => eps_nrm tol I c 2
  | _ => 0
  end.

(* indexed like theta = [a00 a01 a10 a11 b0 b1] (2-D) *)
Definition geo_eps2 (tol : Q) (I : inst) (c m : nat) : Q :=
  match m with
  | 0%nat => eps_mom tol I c 0 0 | 1%nat => eps_mom tol I c 0 1
  | 2%nat => eps_mom tol I c 1 0 | 3%nat => eps_mom tol I c 1 1
  | 4%nat => eps_nrm tol I c 0 | 5%nat => eps_nrm tol I c 1
  | _ => 0
  end.
