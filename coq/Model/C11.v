(* C11 — MPFA (O-method) linear exactness: method-level model + per-instance certificate.

   Two layers, both written once over an abstract field F (operations as section variables)
   and instantiated with the reals (theorems, Proofs/C11.v) and with exact rationals
   (certificate checks executed by vm_compute on the matrices of the real code).

   Part A — interaction region (any dimension, any number of sub-cells): the unknowns of
   the local problem of porepy/numerics/fv/mpfa.py:_flux_discretization are one gradient
   per sub-cell; the local equations are flux continuity and pressure continuity over
   interior sub-faces, a pressure condition on Dirichlet sub-faces and a flux condition on
   Neumann sub-faces.  Equations are sparse linear rows over the vector of gradients.

   Part B — matrix level: the four matrices flux, bound_flux, bound_pressure_cell,
   bound_pressure_face as coordinate lists, the geometry arrays of the grid, and the
   residual of "matrices applied to a linear field = exact Darcy flux / exact face
   pressure" as a function of the coefficients (b, a) of the field p(x) = b + a.x.

   Executable definitions only. *)
From Coq Require Import List ZArith Bool Arith QArith Qabs.
Import ListNotations.
Local Open Scope nat_scope.

(* the field operations, bundled so that every definition takes the same two parameters *)
Record ops (F : Type) := {
  o0 : F; o1 : F; oadd : F -> F -> F; osub : F -> F -> F; omul : F -> F -> F; oopp : F -> F
}.
Arguments o0 {F}. Arguments o1 {F}. Arguments oadd {F}. Arguments osub {F}.
Arguments omul {F}. Arguments oopp {F}.

Section Field.
  Variable F : Type.
  Variable O : ops F.
  Local Notation f0 := (o0 O).
  Local Notation f1 := (o1 O).
  Local Notation fadd := (oadd O).
  Local Notation fsub := (osub O).
  Local Notation fmul := (omul O).
  Local Notation fopp := (oopp O).

  (* ===================== Part A: interaction region ===================== *)
  Definition vecl := list F.
  Definition matl := list vecl.                     (* rows *)

  Fixpoint dotl (u v : vecl) : F :=
    match u, v with
    | a :: u', b :: v' => fadd (fmul a b) (dotl u' v')
    | _, _ => f0
    end.
  Fixpoint vsubl (u v : vecl) : vecl :=
    match u, v with
    | a :: u', b :: v' => fsub a b :: vsubl u' v'
    | _, _ => []
    end.
  Definition voppl (u : vecl) : vecl := map fopp u.
  Definition mvl (K : matl) (v : vecl) : vecl := map (fun r => dotl r v) K.

  (* n^T K as a coefficient vector on the sub-cell gradient; written K n (the property is
     about symmetric K, for which n^T K = (K n)^T). *)
  Definition nK (n : vecl) (K : matl) : vecl := mvl K n.

  (* a sub-cell: centre of its cell, cell-centre pressure, permeability of its cell *)
  Record subcell := { sc_x : vecl; sc_p : F; sc_K : matl }.

  (* a sub-face of the interaction region.  n = sub-face normal (area weighted, divided by
     the number of nodes of the face), xc = continuity point x_f + eta (x_v - x_f). *)
  Inductive subface :=
  | Interior (k1 k2 : nat) (n xc : vecl)            (* n points from k1 to k2 *)
  | DirichletF (k : nat) (n xc : vecl) (pD : F)     (* prescribed pressure at xc *)
  | NeumannF (k : nat) (n : vecl) (q : F).          (* prescribed flux along n *)

  (* one linear equation over the gradients: sum_(k,v) v . G_k = rhs *)
  Record leq := { terms : list (nat * vecl); rhs : F }.

  Definition grad_of (G : list vecl) (k : nat) : vecl := nth k G [].
  Definition lhs (e : leq) (G : list vecl) : F :=
    fold_right (fun t acc => fadd (dotl (snd t) (grad_of G (fst t))) acc) f0 (terms e).

  Definition nocell : subcell := {| sc_x := []; sc_p := f0; sc_K := [] |}.
  Definition cell_of (cells : list subcell) (k : nat) : subcell := nth k cells nocell.

  Definition face_eqs (cells : list subcell) (sf : subface) : list leq :=
    match sf with
    | Interior k1 k2 n xc =>
        let c1 := cell_of cells k1 in
        let c2 := cell_of cells k2 in
        [ (* flux continuity: -n.K1 g1 = -n.K2 g2 *)
          {| terms := [(k1, nK n (sc_K c1)); (k2, voppl (nK n (sc_K c2)))]; rhs := f0 |};
          (* pressure continuity at xc: p1 + g1.(xc-x1) = p2 + g2.(xc-x2) *)
          {| terms := [(k1, vsubl xc (sc_x c1)); (k2, voppl (vsubl xc (sc_x c2)))];
             rhs := fsub (sc_p c2) (sc_p c1) |} ]
    | DirichletF k n xc pD =>
        let c := cell_of cells k in
        [ {| terms := [(k, vsubl xc (sc_x c))]; rhs := fsub pD (sc_p c) |} ]
    | NeumannF k n q =>
        let c := cell_of cells k in
        [ {| terms := [(k, voppl (nK n (sc_K c)))]; rhs := q |} ]
    end.

  Definition local_system (cells : list subcell) (faces : list subface) : list leq :=
    flat_map (face_eqs cells) faces.

  Definition lhs_all (sys : list leq) (G : list vecl) : vecl := map (fun e => lhs e G) sys.
  Definition rhs_all (sys : list leq) : vecl := map rhs sys.

  (* the code inverts the local matrix and multiplies with the right-hand side:
     G_k[i] = Inv[k][i] . r *)
  Definition apply_inv (Inv : list (list vecl)) (r : vecl) : list vecl :=
    map (map (fun row => dotl row r)) Inv.

  (* discrete Darcy flux through a sub-face with normal n seen from sub-cell k, and the
     pressure reconstructed at x from sub-cell k *)
  Definition subflux (cells : list subcell) (G : list vecl) (k : nat) (n : vecl) : F :=
    fopp (dotl (nK n (sc_K (cell_of cells k))) (grad_of G k)).
  Definition subpressure (cells : list subcell) (G : list vecl) (k : nat) (x : vecl) : F :=
    fadd (sc_p (cell_of cells k)) (dotl (vsubl x (sc_x (cell_of cells k))) (grad_of G k)).

  (* the linear field p(x) = b + a.x *)
  Definition linl (b : F) (a x : vecl) : F := fadd b (dotl a x).

  (* well-formedness of an interaction region in dimension d with m sub-cells, and data
     consistent with the linear field (b, a) and the constant tensor K *)
  Definition face_wf (d m : nat) (sf : subface) : Prop :=
    match sf with
    | Interior k1 k2 n xc => k1 < m /\ k2 < m /\ length n = d /\ length xc = d
    | DirichletF k n xc _ => k < m /\ length n = d /\ length xc = d
    | NeumannF k n _ => k < m /\ length n = d
    end.
  Definition face_data_ok (K : matl) (b : F) (a : vecl) (sf : subface) : Prop :=
    match sf with
    | Interior _ _ _ _ => True
    | DirichletF _ _ xc pD => pD = linl b a xc
    | NeumannF _ n q => q = fopp (dotl (nK n K) a)
    end.
  Definition cell_ok (d : nat) (K : matl) (b : F) (a : vecl) (c : subcell) : Prop :=
    length (sc_x c) = d /\ sc_K c = K /\ sc_p c = linl b a (sc_x c).

  (* ===================== Part B: matrix level ===================== *)
  Definition vec3 := (F * F * F)%type.
  Definition mat3 := (vec3 * vec3 * vec3)%type.     (* rows *)
  Definition dot3 (u v : vec3) : F :=
    let '(a, b, c) := u in let '(x, y, z) := v in fadd (fadd (fmul a x) (fmul b y)) (fmul c z).
  Definition mulmv3 (K : mat3) (v : vec3) : vec3 :=
    let '(r1, r2, r3) := K in (dot3 r1 v, dot3 r2 v, dot3 r3 v).

  Definition coo := list (nat * nat * F).
  (* (M x)_r *)
  Definition row_apply (M : coo) (r : nat) (x : nat -> F) : F :=
    fold_right (fun (t : nat * nat * F) acc =>
                  if fst (fst t) =? r then fadd (fmul (snd t) (x (snd (fst t)))) acc else acc)
               f0 M.

  Inductive bkind := BInt | BDir | BNeu.

  Record inst := {
    nf : nat;
    ccen : nat -> vec3;          (* sd.cell_centers[:, c] *)
    fcen : nat -> vec3;          (* sd.face_centers[:, f] *)
    normal : nat -> vec3;        (* sd.face_normals[:, f] *)
    perm : mat3;                 (* the constant tensor *)
    btype : nat -> bkind;        (* interior / Dirichlet / Neumann boundary face *)
    bsgn : nat -> F;             (* sd.cell_faces entry of a boundary face (+1/-1) *)
    FL : coo; BF : coo; BPC : coo; BPF : coo
  }.

  Definition coef := (F * vec3)%type.                (* (b, a): p(x) = b + a.x *)
  Definition lin (c : coef) (x : vec3) : F := fadd (fst c) (dot3 (snd c) x).

  Section Inst.
    Variable I : inst.
    (* exact Darcy flux through face f along its normal: -n_f . K a *)
    Definition exact (c : coef) (f : nat) : F :=
      fopp (dot3 (normal I f) (mulmv3 (perm I) (snd c))).
    (* boundary data of the field: pressure on Dirichlet faces; on Neumann faces the flux
       counted positive out of the domain (mpfa.py:_create_bound_rhs) *)
    Definition bdata (c : coef) (f : nat) : F :=
      match btype I f with
      | BDir => lin c (fcen I f)
      | BNeu => fmul (bsgn I f) (exact c f)
      | BInt => f0
      end.
    Definition pcell (c : coef) (k : nat) : F := lin c (ccen I k).
    Definition flux_of (c : coef) (f : nat) : F :=
      fadd (row_apply (FL I) f (pcell c)) (row_apply (BF I) f (bdata c)).
    Definition facep_of (c : coef) (f : nat) : F :=
      fadd (row_apply (BPC I) f (pcell c)) (row_apply (BPF I) f (bdata c)).
    Definition res_flux (c : coef) (f : nat) : F := fsub (flux_of c f) (exact c f).
    Definition res_bp (c : coef) (f : nat) : F := fsub (facep_of c f) (lin c (fcen I f)).
  End Inst.

  (* ---- the local systems as the code assembled them (certificate (ii)) ----
     LA = the matrix of all local equations before row scaling (grad_eqs of
     _flux_discretization: flux rows, then pressure rows; one column per component of a
     sub-cell gradient, nd consecutive columns per sub-cell); the right-hand side of row r
     for cell pressures p and face data bdata is (RC p + RB bdata)_r, with RC = rhs_cells
     and RB = rhs_bound folded to faces; they are stored in the FL / BF slots of an inst
     (whose geometry is the grid the code works on, i.e. after map_grid in 2-D). *)
  Definition comp3 (v : vec3) (i : nat) : F :=
    let '(x, y, z) := v in match i with 0 => x | 1 => y | _ => z end.
  Definition gstar (c : coef) (nd col : nat) : F := comp3 (snd c) (col mod nd).
  Definition res_local (I : inst) (LA : coo) (nd : nat) (c : coef) (r : nat) : F :=
    fsub (row_apply LA r (gstar c nd)) (flux_of I c r).

  (* the basis fields 1, x, y, z *)
  Definition e0 : coef := (f1, (f0, f0, f0)).
  Definition e1 : coef := (f0, (f1, f0, f0)).
  Definition e2 : coef := (f0, (f0, f1, f0)).
  Definition e3 : coef := (f0, (f0, f0, f1)).
End Field.

Arguments nf {F}. Arguments ccen {F}. Arguments fcen {F}. Arguments normal {F}.
Arguments perm {F}. Arguments btype {F}. Arguments bsgn {F}.
Arguments FL {F}. Arguments BF {F}. Arguments BPC {F}. Arguments BPF {F}.
Arguments sc_x {F}. Arguments sc_p {F}. Arguments sc_K {F}.
Arguments terms {F}. Arguments rhs {F}.
Arguments Interior {F}. Arguments DirichletF {F}. Arguments NeumannF {F}.

(* ================================================================================ *)
(* Executed instances.                                                               *)
Local Open Scope Q_scope.

(* (1) exact rationals, normalised after every operation (reference instance) *)
Definition qadd (a b : Q) : Q := Qred (a + b).
Definition qsub (a b : Q) : Q := Qred (a - b).
Definition qmul (a b : Q) : Q := Qred (a * b).
Definition qopp (a : Q) : Q := Qred (- a).
Definition QO : ops Q :=
  {| o0 := 0; o1 := 1; oadd := qadd; osub := qsub; omul := qmul; oopp := qopp |}.

(* (2) dyadic rationals m * 2^e as pairs (m, e): every binary64 value is one, and sums and
   products of dyadics are dyadic, so the residuals (which need no division) are computed
   without any gcd.  This is the instance the certificates are evaluated with; it is
   cross-checked against instance (1) on a sample of faces in every case. *)
Definition dyad := (Z * Z)%type.
Definition dadd (a b : dyad) : dyad :=
  let '(m1, x1) := a in let '(m2, x2) := b in
  if (x1 <=? x2)%Z then ((m1 + Z.shiftl m2 (x2 - x1))%Z, x1)
  else ((Z.shiftl m1 (x1 - x2) + m2)%Z, x2).
Definition dopp (a : dyad) : dyad := let '(m, x) := a in ((- m)%Z, x).
Definition dsub (a b : dyad) : dyad := dadd a (dopp b).
Definition dmul (a b : dyad) : dyad :=
  let '(m1, x1) := a in let '(m2, x2) := b in ((m1 * m2)%Z, (x1 + x2)%Z).
Definition DO : ops dyad :=
  {| o0 := (0, 0)%Z; o1 := (1, 0)%Z; oadd := dadd; osub := dsub; omul := dmul; oopp := dopp |}.

(* value of a dyadic *)
Definition dy (t : dyad) : Q :=
  let '(m, e) := t in
  if (0 <=? e)%Z then inject_Z (m * 2 ^ e) else Qred (m # Z.to_pos (2 ^ (- e))).

(* |r| <= 1e-9 * (1 + |ref|) *)
Definition within (r ref : Q) : bool :=
  Qle_bool (Qabs r) ((1 # 1000000000) * (1 + Qabs ref)).
Definition dwithin (r ref : dyad) : bool := within (dy r) (dy ref).

Definition de (i : nat) : coef dyad :=
  match i with
  | O => e0 dyad DO | S O => e1 dyad DO | S (S O) => e2 dyad DO | _ => e3 dyad DO
  end.
Definition qe (i : nat) : coef Q :=
  match i with
  | O => e0 Q QO | S O => e1 Q QO | S (S O) => e2 Q QO | _ => e3 Q QO
  end.

(* certificate (i): for each basis field and each face the flux residual is within the
   band; for each basis field and each boundary face the pressure reconstruction is *)
Definition flux_cert (I : inst dyad) : bool :=
  forallb (fun i => forallb (fun f => dwithin (res_flux dyad DO I (de i) f) (exact dyad DO I (de i) f))
                            (seq 0 (nf I)))
          [0; 1; 2; 3]%nat.
Definition is_bnd {F} (I : inst F) (f : nat) : bool :=
  match btype I f with BInt => false | _ => true end.
Definition bp_cert (I : inst dyad) : bool :=
  forallb (fun i => forallb (fun f => negb (is_bnd I f)
                                      || dwithin (res_bp dyad DO I (de i) f)
                                                 (lin dyad DO (de i) (fcen I f)))
                            (seq 0 (nf I)))
          [0; 1; 2; 3]%nat.

(* certificate (ii): on every row of the captured local systems the constant gradient of
   each basis field reproduces the right-hand side the code builds from that field *)
Definition local_cert (I : inst dyad) (LA : coo dyad) (nd nrows : nat) : bool :=
  forallb (fun i => forallb (fun r => dwithin (res_local dyad DO I LA nd (de i) r)
                                              (flux_of dyad DO I (de i) r))
                            (seq 0 nrows))
          [0; 1; 2; 3]%nat.

(* hypotheses of the property on the instance: K symmetric positive definite (Sylvester) *)
Definition spd_b (K : mat3 Q) : bool :=
  let '((a, b, c), (d, e, f), (g, h, i)) := K in
  Qeq_bool b d && Qeq_bool c g && Qeq_bool f h
  && negb (Qle_bool a 0)
  && negb (Qle_bool (a * e - b * d) 0)
  && negb (Qle_bool (a * (e * i - f * h) - b * (d * i - f * g) + c * (d * h - e * g)) 0).

(* the same instance over Q *)
Definition dy3 (v : vec3 dyad) : vec3 Q := let '(a, b, c) := v in (dy a, dy b, dy c).
Definition dym (K : mat3 dyad) : mat3 Q := let '(a, b, c) := K in (dy3 a, dy3 b, dy3 c).
Definition dycoo (M : coo dyad) : coo Q :=
  map (fun t : nat * nat * dyad => (fst (fst t), snd (fst t), dy (snd t))) M.
Definition to_Q (I : inst dyad) : inst Q :=
  {| nf := nf I; ccen := fun k => dy3 (ccen I k); fcen := fun f => dy3 (fcen I f);
     normal := fun f => dy3 (normal I f); perm := dym (perm I); btype := btype I;
     bsgn := fun f => dy (bsgn I f);
     FL := dycoo (FL I); BF := dycoo (BF I); BPC := dycoo (BPC I); BPF := dycoo (BPF I) |}.

(* cross-check of the two executed instances on the first faces of the case *)
Definition cross_check (I : inst dyad) : bool :=
  let J := to_Q I in
  forallb (fun i => forallb (fun f =>
              Qeq_bool (dy (res_flux dyad DO I (de i) f)) (res_flux Q QO J (qe i) f)
              && Qeq_bool (dy (res_bp dyad DO I (de i) f)) (res_bp Q QO J (qe i) f))
            (seq 0 (Nat.min 2 (nf I))))
          [0; 1; 2; 3]%nat.

(* ---------------- literals ---------------- *)
(* To keep the generated case files small every binary64 value x = m * 2^e (|m| < 2^53,
   -2048 <= e < 2048) is sent as ONE integer pk = (e + 2048) * 2^54 + (m + 2^53), and a
   matrix entry (r, c, x) as (r * 4096 + c) * 2^66 + pk. *)
Definition unpk (z : Z) : dyad :=
  ((Z.land z (2 ^ 54 - 1) - 2 ^ 53)%Z, (Z.shiftr z 54 - 2048)%Z).
Definition unent (z : Z) : nat * nat * dyad :=
  let k := Z.shiftr z 66 in
  (Z.to_nat (Z.shiftr k 12), Z.to_nat (Z.land k 4095), unpk (Z.land z (2 ^ 66 - 1))).
Definition of_dcoo (l : list Z) : coo dyad := map unent l.

(* geometry arrays: d components per point (d = 2: z = 0), flattened point after point *)
Definition d0 : dyad := (0, 0)%Z.
Definition nth3 (d : nat) (l : list Z) (i : nat) : vec3 dyad :=
  let g := fun j => unpk (nth (i * d + j) l (2 ^ 53 + 2048 * 2 ^ 54)%Z) in
  (g 0%nat, g 1%nat, if (d =? 3)%nat then g 2%nat else d0).
Definition rows3 (l : list Z) : mat3 dyad := (nth3 3 l 0, nth3 3 l 1, nth3 3 l 2).

(* face kinds: 0 interior, 1 Dirichlet (sign +1), -1 Dirichlet (sign -1),
               2 Neumann (sign +1), -2 Neumann (sign -1) *)
Definition kind_of (l : list Z) (f : nat) : bkind :=
  match nth f l 0%Z with
  | 1%Z | (-1)%Z => BDir | 2%Z | (-2)%Z => BNeu | _ => BInt
  end.
Definition sgn_of (l : list Z) (f : nat) : dyad :=
  match nth f l 0%Z with
  | 1%Z | 2%Z => (1, 0)%Z | (-1)%Z | (-2)%Z => (-1, 0)%Z | _ => (0, 0)%Z
  end.

Definition mk_inst (d : Z) (ccs fcs nrm K kinds fl bf bpc bpf : list Z) : inst dyad :=
  let d := Z.to_nat d in
  {| nf := length kinds; ccen := nth3 d ccs; fcen := nth3 d fcs; normal := nth3 d nrm;
     perm := rows3 K; btype := kind_of kinds; bsgn := sgn_of kinds;
     FL := of_dcoo fl; BF := of_dcoo bf; BPC := of_dcoo bpc; BPF := of_dcoo bpf |}.

(* what a generated case asserts: the instance has the announced number of faces and
   boundary faces, satisfies the hypotheses of the property (K symmetric positive
   definite), and both certificates hold *)
Definition check_case (nfaces nbnd : Z) (I : inst dyad) : bool :=
  (Z.of_nat (nf I) =? nfaces)%Z
  && (Z.of_nat (length (filter (is_bnd I) (seq 0 (nf I)))) =? nbnd)%Z
  && spd_b (dym (perm I)) && flux_cert I && bp_cert I && cross_check I.

(* second kind of case: the captured local systems of the same run.  I carries the mapped
   geometry, RC and RB (in the FL / BF slots); LA the local equations; at least one row. *)
Definition check_local (nd nrows nnzA : Z) (I : inst dyad) (la : list Z) : bool :=
  let LA := of_dcoo la in
  (0 <? nrows)%Z && (Z.of_nat (length la) =? nnzA)%Z
  && forallb (fun t : nat * nat * dyad => (fst (fst t) <? Z.to_nat nrows)%nat
                                          && (snd (fst t) <? Z.to_nat nrows)%nat) LA
  && spd_b (dym (perm I))
  && local_cert I LA (Z.to_nat nd) (Z.to_nat nrows).

(* diagnostics: the largest residuals *)
Definition qmax (l : list Q) : Q :=
  fold_right (fun a m => if Qle_bool m (Qabs a) then Qabs a else m) 0 l.
Definition diag_case (I : inst dyad) : Q * Q * bool :=
  (qmax (flat_map (fun i => map (fun f => dy (res_flux dyad DO I (de i) f)) (seq 0 (nf I)))
                  [0; 1; 2; 3]%nat),
   qmax (flat_map (fun i => map (fun f => if is_bnd I f then dy (res_bp dyad DO I (de i) f) else 0)
                                (seq 0 (nf I))) [0; 1; 2; 3]%nat),
   cross_check I).

(* ================================================================================ *)
(* Scale-robust certificates (second generation; the definitions above are kept).
   The band is purely relative: |residual| <= 1e-9 * mag, where mag is the norm-wise scale
   of the residual (for every matrix-vector term the 1-norm of the row times the max-norm of
   the vector, plus |exact value|: the usual backward-error scale), so that
   grids and tensors scaled by any power of two are checked with the same sharpness. *)
Definition dabs (a : dyad) : dyad := let '(m, x) := a in (Z.abs m, x).
Definition drow_abs (M : coo dyad) (r : nat) (x : nat -> dyad) : dyad :=
  fold_right (fun (t : nat * nat * dyad) acc =>
                if (fst (fst t) =? r)%nat then dadd (dmul (dabs (snd t)) (dabs (x (snd (fst t))))) acc
                else acc) (0, 0)%Z M.
Definition within2 (r mag : dyad) : bool :=
  Qle_bool (Qabs (dy r)) ((1 # 1000000000) * dy mag).

(* norm-wise scale of one matrix-vector term: (sum of |entries| of row r) * max |x| over the
   columns the matrix uses *)
Definition dleb (a b : dyad) : bool :=
  let '(m1, x1) := a in let '(m2, x2) := b in
  if (x1 <=? x2)%Z then (m1 <=? Z.shiftl m2 (x2 - x1))%Z else (Z.shiftl m1 (x1 - x2) <=? m2)%Z.
Definition dmax (a b : dyad) : dyad := if dleb a b then b else a.
Definition drow_sum (M : coo dyad) (r : nat) : dyad :=
  fold_right (fun (t : nat * nat * dyad) acc =>
                if (fst (fst t) =? r)%nat then dadd (dabs (snd t)) acc else acc) (0, 0)%Z M.
Definition dmaxabs (M : coo dyad) (x : nat -> dyad) : dyad :=
  fold_right (fun (t : nat * nat * dyad) acc => dmax (dabs (x (snd (fst t)))) acc) (0, 0)%Z M.
Definition dterm (M : coo dyad) (r : nat) (x : nat -> dyad) : dyad :=
  dmul (drow_sum M r) (dmaxabs M x).

Definition mag_flux (I : inst dyad) (c : coef dyad) (f : nat) : dyad :=
  dadd (dadd (dterm (FL I) f (pcell dyad DO I c)) (dterm (BF I) f (bdata dyad DO I c)))
       (dabs (exact dyad DO I c f)).
Definition mag_bp (I : inst dyad) (c : coef dyad) (f : nat) : dyad :=
  dadd (dadd (dterm (BPC I) f (pcell dyad DO I c)) (dterm (BPF I) f (bdata dyad DO I c)))
       (dabs (lin dyad DO c (fcen I f))).
(* (the maxima are computed once per basis field, not once per face) *)
Definition flux_cert2 (I : inst dyad) : bool :=
  forallb (fun i =>
             let c := de i in
             let mp := dmaxabs (FL I) (pcell dyad DO I c) in
             let mb := dmaxabs (BF I) (bdata dyad DO I c) in
             forallb (fun f => within2 (res_flux dyad DO I c f)
                                       (dadd (dadd (dmul (drow_sum (FL I) f) mp)
                                                   (dmul (drow_sum (BF I) f) mb))
                                             (dabs (exact dyad DO I c f))))
                     (seq 0 (nf I)))
          [0; 1; 2; 3]%nat.
Definition bp_cert2 (I : inst dyad) : bool :=
  forallb (fun i =>
             let c := de i in
             let mp := dmaxabs (BPC I) (pcell dyad DO I c) in
             let mb := dmaxabs (BPF I) (bdata dyad DO I c) in
             forallb (fun f => negb (is_bnd I f)
                               || within2 (res_bp dyad DO I c f)
                                          (dadd (dadd (dmul (drow_sum (BPC I) f) mp)
                                                      (dmul (drow_sum (BPF I) f) mb))
                                                (dabs (lin dyad DO c (fcen I f)))))
                     (seq 0 (nf I)))
          [0; 1; 2; 3]%nat.
Definition check_case2 (nfaces nbnd : Z) (I : inst dyad) : bool :=
  (Z.of_nat (nf I) =? nfaces)%Z
  && (Z.of_nat (length (filter (is_bnd I) (seq 0 (nf I)))) =? nbnd)%Z
  && spd_b (dym (perm I)) && flux_cert2 I && bp_cert2 I && cross_check I.

Definition mag_local (I : inst dyad) (LA : coo dyad) (nd : nat) (c : coef dyad) (r : nat) : dyad :=
  dadd (dterm LA r (gstar dyad c nd))
       (dadd (dterm (FL I) r (pcell dyad DO I c)) (dterm (BF I) r (bdata dyad DO I c))).
Definition local_cert2 (I : inst dyad) (LA : coo dyad) (nd nrows : nat) : bool :=
  forallb (fun i =>
             let c := de i in
             let mg := dmaxabs LA (gstar dyad c nd) in
             let mp := dmaxabs (FL I) (pcell dyad DO I c) in
             let mb := dmaxabs (BF I) (bdata dyad DO I c) in
             forallb (fun r => within2 (res_local dyad DO I LA nd c r)
                                       (dadd (dmul (drow_sum LA r) mg)
                                             (dadd (dmul (drow_sum (FL I) r) mp)
                                                   (dmul (drow_sum (BF I) r) mb))))
                     (seq 0 nrows))
          [0; 1; 2; 3]%nat.
Definition check_local2 (nd nrows nnzA : Z) (I : inst dyad) (la : list Z) : bool :=
  let LA := of_dcoo la in
  (0 <? nrows)%Z && (Z.of_nat (length la) =? nnzA)%Z
  && forallb (fun t : nat * nat * dyad => (fst (fst t) <? Z.to_nat nrows)%nat
                                          && (snd (fst t) <? Z.to_nat nrows)%nat) LA
  && spd_b (dym (perm I))
  && local_cert2 I LA (Z.to_nat nd) (Z.to_nat nrows).
