(* C03 — the assembled system: equations are expression trees of the C01 language (leaves:
   variables; constants and fixed discretisation matrices enter as operands of the
   constant-operand nodes and of MatMul); the global residual / Jacobian stack the
   equations' rows in order (EquationSystem.assemble).  Executable definitions only. *)
From Coq Require Import List Arith.
Import ListNotations.
From PP Require Import Model.C01.

Section Stack.
  Context {A : Type}.
  (* row r of the vertical stack of blocks (number of rows, entries) *)
  Fixpoint stack_get (blocks : list (nat * (nat -> A))) (r : nat) (d : A) : A :=
    match blocks with
    | [] => d
    | (n, f) :: rest => if Nat.ltb r n then f r else stack_get rest (r - n) d
    end.
End Stack.

Section System.
  Context {T : Type} (O : Ops T).

  (* an equation: number of rows and its tree *)
  Definition system := list (nat * expr T).

  (* the residual vector: plain evaluation of every equation, stacked *)
  Definition residual (eqs : system) (x : env (T:=T)) (r : nat) : T :=
    stack_get (map (fun ne => (fst ne, eval_plain O (snd ne) x)) eqs) r (@o0 T O).

  (* what assemble() computes by forward-mode AD: (residual row, Jacobian row @ v) *)
  Definition assembled (eqs : system) (x v : env (T:=T)) (r : nat) : dual (T:=T) :=
    stack_get (map (fun ne => (fst ne, eval_ad O (snd ne) x v)) eqs) r (@o0 T O, @o0 T O).

  (* the equation and local row a global row belongs to *)
  Fixpoint locate (eqs : system) (r : nat) : option (expr T * nat) :=
    match eqs with
    | [] => None
    | (n, e) :: rest => if Nat.ltb r n then Some (e, r) else locate rest (r - n)
    end.
End System.
