(* C12 — two-point flux approximation.
   Transcribes porepy/numerics/fv/tpfa.py : Tpfa.discretize (no periodic face map, default
   half transmissibilities, i.e. Aavatsmark_transmissibilities = False), for the matrices
   flux, bound_flux, bound_pressure_cell, bound_pressure_face.
   Executable definitions only, written once over an abstract field and instantiated with
   exact rationals (execution) and with the reals (theorems, in Proofs/C12.v). *)
From Coq Require Import List ZArith Bool Arith QArith Qabs.
Import ListNotations.

(* One half-face entry as the code handles it after the periodic extension:
     (fi_periodic, ci_periodic, sgn_periodic, fi, sgn)
   = (face the entry is accumulated on / row of the flux matrix, cell, sign in the flux
      matrix, face whose geometry is used, sign applied to that face's normal).
   A stored entry (f, c, s) of sd.cell_faces is [geo f c s] = (f, c, s, f, s); a periodic pair
   (l, r) adds (l, cell r, -sgn l, r, sgn r) and (r, cell l, -sgn r, l, sgn l): the pair is
   one face with two cells. *)
Definition inc := (nat * nat * Z * nat * Z)%type.
Definition tf (t : inc) : nat := fst (fst (fst (fst t))).
Definition tc (t : inc) : nat := snd (fst (fst (fst t))).
Definition ts (t : inc) : Z := snd (fst (fst t)).
Definition tg (t : inc) : nat := snd (fst t).
Definition tgs (t : inc) : Z := snd t.
Definition geo (f c : nat) (s : Z) : inc := (f, c, s, f, s).

(* sparse_array_to_row_col_data(sd.cell_faces) as triples, and the periodic extension
   fi_periodic/ci_periodic/sgn_periodic, fi/ci/sgn of Tpfa.discretize.  ci_left[i] and
   left_sgn[i] are the cell and the sign of the single stored entry of face fi_left[i];
   a mapped face without exactly one stored entry makes the code raise RuntimeError (None). *)
Definition triple := (nat * nat * Z)%type.
Definition entries_of (gcf : list triple) (f : nat) : list triple :=
  filter (fun t : triple => fst (fst t) =? f) gcf.
Definition single (gcf : list triple) (f : nat) : option (nat * Z) :=
  match entries_of gcf f with
  | [t] => Some (snd (fst t), snd t)
  | _ => None
  end.
Fixpoint periodic_extra (gcf : list triple) (pm : list (nat * nat))
  : option (list inc * list inc) :=
  match pm with
  | [] => Some ([], [])
  | (l, r) :: pm' =>
      match single gcf l, single gcf r, periodic_extra gcf pm' with
      | Some (cl, sl), Some (cr, sr), Some (a, b) =>
          Some ((l, cr, (- sl)%Z, r, sr) :: a, (r, cl, (- sr)%Z, l, sl) :: b)
      | _, _, _ => None
      end
  end.
Definition extend (gcf : list triple) (pm : list (nat * nat)) : option (list inc) :=
  match periodic_extra gcf pm with
  | Some (a, b) => Some (map (fun t : triple => geo (fst (fst t)) (snd (fst t)) (snd t)) gcf ++ a ++ b)
  | None => None
  end.

Section Tpfa.
  Variable F : Type.
  Variables (f0 f1 : F) (fadd fsub fmul fdiv : F -> F -> F) (fopp : F -> F) (of_Z : Z -> F).

  Definition vec := (F * F * F)%type.
  Definition mat := (vec * vec * vec)%type.       (* rows of k.values[:, :, c] *)
  Definition coo := list (nat * nat * F).

  Definition vx (v : vec) := fst (fst v).
  Definition vy (v : vec) := snd (fst v).
  Definition vz (v : vec) := snd v.

  Definition dot (a b : vec) : F :=
    fadd (fadd (fmul (vx a) (vx b)) (fmul (vy a) (vy b))) (fmul (vz a) (vz b)).
  Definition vsub (a b : vec) : vec :=
    (fsub (vx a) (vx b), fsub (vy a) (vy b), fsub (vz a) (vz b)).
  Definition vscale (s : F) (a : vec) : vec := (fmul s (vx a), fmul s (vy a), fmul s (vz a)).
  Definition mulmv (K : mat) (v : vec) : vec :=
    (dot (fst (fst K)) v, dot (snd (fst K)) v, dot (snd K) v).
  Definition cross (a b : vec) : vec :=
    (fsub (fmul (vy a) (vz b)) (fmul (vz a) (vy b)),
     fsub (fmul (vz a) (vx b)) (fmul (vx a) (vz b)),
     fsub (fmul (vx a) (vy b)) (fmul (vy a) (vx b))).

  Record input := {
    dim : nat;                          (* sd.dim *)
    nf : nat;  nc : nat;
    cf : list inc;                      (* the extended entry list, see [extend] *)
    normal : nat -> vec;                (* sd.face_normals[:, f] *)
    fcen : nat -> vec;                  (* sd.face_centers[:, f] *)
    ccen : nat -> vec;                  (* sd.cell_centers[:, c] *)
    perm : nat -> mat;                  (* k.values[:, :, c] *)
    is_dir : nat -> bool;               (* bnd.is_dir *)
    is_neu : nat -> bool;               (* bnd.is_neu *)
    is_int : nat -> bool;               (* bnd.is_internal *)
    bnd : list nat                      (* sd.get_all_boundary_faces() *)
  }.

  Variable I : input.

  (* n = face_normals[:, fi] * sgn ; nk = (perm * n).sum(axis=1) = K n *)
  Definition nvec (e : inc) : vec := vscale (of_Z (tgs e)) (normal I (tg e)).
  Definition knvec (e : inc) : vec := mulmv (perm I (tc e)) (nvec e).
  (* fc_cc = face_centers[:, fi] - cell_centers[:, ci] *)
  Definition dvec (e : inc) : vec := vsub (fcen I (tg e)) (ccen I (tc e)).
  (* t_face = (nk * fc_cc).sum(axis=0) / power(fc_cc, 2).sum(axis=0) *)
  Definition half_trans (e : inc) : F := fdiv (dot (knvec e) (dvec e)) (dot (dvec e) (dvec e)).

  (* np.bincount(fi, weights=1 / t_face)[f] *)
  Definition inv_sum (f : nat) : F :=
    fold_right (fun e acc => if tf e =? f then fadd (fdiv f1 (half_trans e)) acc else acc) f0 (cf I).
  (* t = 1 / bincount ; t_full = t.copy() *)
  Definition t_full (f : nat) : F := fdiv f1 (inv_sum f).

  Definition dir' (f : nat) : bool := is_dir I f && negb (is_int I f).
  Definition neu' (f : nat) : bool := is_neu I f || is_int I f.

  (* t[is_neu] = 0 *)
  Definition t_flux (f : nat) : F := if neu' f then f0 else t_full f.
  (* t_b = zeros; t_b[is_dir] = -t[is_dir]; t_b[is_neu] = 1 *)
  Definition t_b (f : nat) : F := if neu' f then f1 else if dir' f then fopp (t_full f) else f0.

  (* coo_matrix((t[fi] * sgn, (fi, ci))) *)
  Definition flux : coo := map (fun e => (tf e, tc e, fmul (t_flux (tf e)) (of_Z (ts e)))) (cf I).

  (* bndr_sgn: the stored sign of the (single) cell of each boundary face; stored entries
     are those whose geometry face is the face itself *)
  Definition bsgn (f : nat) : F :=
    match filter (fun e => (tf e =? f) && (tg e =? f)) (cf I) with
    | e :: _ => of_Z (ts e)
    | [] => f0
    end.
  (* coo_matrix((t_b[bndr_ind] * bndr_sgn, (bndr_ind, bndr_ind))) *)
  Definition bound_flux : coo := map (fun f => (f, f, fmul (t_b f) (bsgn f))) (bnd I).

  (* v_cell[bnd.is_neu[fi]] = 1 ; coo_matrix((v_cell, (fi, ci))) — rows are the geometry faces *)
  Definition bound_pressure_cell : coo :=
    map (fun e => (tg e, tc e, if is_neu I (tg e) then f1 else f0)) (cf I).
  (* v_face[bnd.is_dir] = 1 ; v_face[bnd.is_neu] = -1 / t_full[bnd.is_neu] *)
  Definition v_face (f : nat) : F :=
    if is_neu I f then fopp (fdiv f1 (t_full f)) else if is_dir I f then f1 else f0.
  Definition bound_pressure_face : coo := map (fun f => (f, f, v_face f)) (seq 0 (nf I)).

  (* sd.dim == 0: all four matrices empty *)
  Definition discretize : coo * coo * coo * coo :=
    if dim I =? 0 then ([], [], [], [])
    else (flux, bound_flux, bound_pressure_cell, bound_pressure_face).
End Tpfa.

Arguments dim {F}. Arguments nf {F}. Arguments nc {F}. Arguments cf {F}. Arguments normal {F}.
Arguments fcen {F}. Arguments ccen {F}. Arguments perm {F}. Arguments is_dir {F}.
Arguments is_neu {F}. Arguments is_int {F}. Arguments bnd {F}.

(* ------------------------------------------------------------------------------ *)
(* Executed instance: exact rationals, normalised after every operation.          *)
Definition qadd (a b : Q) : Q := Qred (a + b).
Definition qsub (a b : Q) : Q := Qred (a - b).
Definition qmul (a b : Q) : Q := Qred (a * b).
Definition qdiv (a b : Q) : Q := Qred (a / b).
Definition qopp (a : Q) : Q := Qred (- a).

Definition qdiscretize (I : input Q) :=
  discretize Q 0%Q 1%Q qadd qsub qmul qdiv qopp inject_Z I.

(* K-orthogonality of the generated grid, checked per incidence entry:
   K (s n_f) is parallel to x_f - x_c and points the same way. *)
Definition qzero (a : Q) : bool := Qeq_bool a 0.
Definition korth_entry_b (I : input Q) (e : inc) : bool :=
  let kn := knvec Q qadd qmul inject_Z I e in
  let d := dvec Q qsub I e in
  let x := cross Q qsub qmul kn d in
  qzero (fst (fst x)) && qzero (snd (fst x)) && qzero (snd x)
  && negb (Qle_bool (dot Q qadd qmul kn d) 0).
Definition korth_b (I : input Q) : bool := forallb (korth_entry_b I) (cf I).

(* ---- comparison with the implementation's float matrices (converted exactly) ---- *)
Definition qcoo := list (nat * nat * Q).

Definition entry (M : qcoo) (r c : nat) : Q :=
  fold_right (fun (t : nat * nat * Q) acc =>
     if (fst (fst t) =? r) && (snd (fst t) =? c) then qadd (snd t) acc else acc) 0%Q M.

(* |a - b| <= 1e-9 * (1 + |b|) *)
Definition close (a b : Q) : bool :=
  Qle_bool (Qabs (a - b)) ((1 # 1000000000) * (1 + Qabs b)).

Definition covers (A B : qcoo) : bool :=
  forallb (fun t : nat * nat * Q =>
             let r := fst (fst t) in let c := snd (fst t) in close (entry A r c) (entry B r c)) A.

Definition same_matrix (A B : qcoo) : bool := covers A B && covers B A.

(* the harness writes row/column indices as integer-valued Q literals (one scope for the
   whole list keeps the case files fast to parse) *)
Definition zq := (Q * Q * Q)%type.
Definition of_zq (t : zq) : nat * nat * Q :=
  let '(a, b, v) := t in (Z.to_nat (Qnum a), Z.to_nat (Qnum b), v).
Definition of_zz (t : Z * Z * Z) : triple := let '(a, b, v) := t in (Z.to_nat a, Z.to_nat b, v).
Definition of_zp (t : Z * Z) : nat * nat := (Z.to_nat (fst t), Z.to_nat (snd t)).

Definition qvec := (Q * Q * Q)%type.
Definition nthv (l : list qvec) (i : nat) : qvec := nth i l (0, 0, 0)%Q.
Definition nthm (l : list (qvec * qvec * qvec)) (i : nat) :=
  nth i l ((0, 0, 0), (0, 0, 0), (0, 0, 0))%Q.
Definition nthb (l : list bool) (i : nat) : bool := nth i l false.

(* [pm] = sd.periodic_face_map as pairs ([] without one).  None = RuntimeError. *)
Definition mk_input (dim nf nc : Z) (cf : list (Z * Z * Z)) (pm : list (Z * Z))
           (normals fcs ccs : list qvec)
           (perms : list (qvec * qvec * qvec)) (isdir isneu isint : list bool) (bnd : list Z)
  : option (input Q) :=
  match extend (map of_zz cf) (map of_zp pm) with
  | None => None
  | Some xcf => Some
  {| dim := Z.to_nat dim; nf := Z.to_nat nf; nc := Z.to_nat nc; cf := xcf;
     normal := nthv normals; fcen := nthv fcs; ccen := nthv ccs; perm := nthm perms;
     is_dir := nthb isdir; is_neu := nthb isneu; is_int := nthb isint;
     bnd := map Z.to_nat bnd |}
  end.

(* (Div * flux)[i, j] with Div = sd.cell_faces^T (stored entries only), over exact rationals:
   evaluated on periodic instances, where the general symmetry theorem speaks about the
   identified incidence and not about the stored one. *)
Definition qdivflux (I : input Q) (fl : qcoo) (i j : nat) : Q :=
  fold_right (fun e acc =>
     if (tc e =? i) && (tf e =? tg e) then qadd (qmul (inject_Z (ts e)) (entry fl (tf e) j)) acc else acc)
     0%Q (cf I).
Definition qsymmetric (I : input Q) : bool :=
  let fl := flux Q 0%Q 1%Q qadd qsub qmul qdiv inject_Z I in
  forallb (fun i => forallb (fun j => Qeq_bool (qdivflux I fl i j) (qdivflux I fl j i))
                            (seq 0 (nc I))) (seq 0 (nc I)).

(* korth: exact K-orthogonality of the instance as computed by the harness; the model's
   checker must agree, so that the hypotheses of the exactness theorems are validated on
   exactly those instances.  expected = None: the implementation raised RuntimeError. *)
Definition agree (oi : option (input Q)) (korth : bool)
           (expected : option (list zq * list zq * list zq * list zq)) : bool :=
  match oi, expected with
  | None, None => true
  | Some inp, Some (fl, bf, bpc, bpf) =>
      let '(a, b, c, d) := qdiscretize inp in
      same_matrix a (map of_zq fl) && same_matrix b (map of_zq bf)
      && same_matrix c (map of_zq bpc) && same_matrix d (map of_zq bpf)
      && Bool.eqb (korth_b inp) korth && qsymmetric inp
  | _, _ => false
  end.

(* ------------------------------------------------------------------------------ *)
(* Vector-source matrices of Tpfa.discretize (added later; separate section so that the
   definitions above stay as they are).  vsd = parameter ambient_dimension (default sd.dim). *)
Section TpfaVectorSource.
  Variable F : Type.
  Variables (f0 f1 : F) (fadd fsub fmul fdiv : F -> F -> F) (of_Z : Z -> F).
  Variable I : input F.
  Variable vsd : nat.

  Definition vnth (v : vec F) (k : nat) : F :=
    match k with O => vx F v | S O => vy F v | _ => vz F v end.

  (* vals = (t[fi_periodic] * fc_cc * sgn_periodic)[:vsd].ravel("F");
     rows = tile(fi_periodic, (vsd, 1)).ravel("F"); cols = expand_indices_nd(ci_periodic, vsd) *)
  Definition vector_source : coo F :=
    flat_map (fun e => map (fun k =>
        (tf e, (tc e * vsd + k)%nat,
         fmul (fmul (t_flux F f0 f1 fadd fsub fmul fdiv of_Z I (tf e)) (vnth (dvec F fsub I e) k))
              (of_Z (ts e)))) (seq 0 vsd)) (cf I).

  (* vals[:, bnd.is_neu[fi]] = fc_cc[:vsd, bnd.is_neu[fi]] *)
  Definition bound_pressure_vector_source : coo F :=
    flat_map (fun e => map (fun k =>
        (tf e, (tc e * vsd + k)%nat, if is_neu I (tg e) then vnth (dvec F fsub I e) k else f0))
        (seq 0 vsd)) (cf I).
End TpfaVectorSource.

(* tie, second part: vector-source matrices, and (on K-orthogonal non-periodic instances)
   the flux and bound_flux matrices computed by pp.Mpfa, which must equal the verified TPFA
   model as well.  mp = None: not compared. *)
Definition agree_more (oi : option (input Q)) (vsd : Z) (vs bpvs : list zq)
           (mp : option (list zq * list zq)) : bool :=
  match oi with
  | None => true
  | Some inp =>
      (if dim inp =? 0 then true else
       same_matrix (vector_source Q 0%Q 1%Q qadd qsub qmul qdiv inject_Z inp (Z.to_nat vsd)) (map of_zq vs)
       && same_matrix (bound_pressure_vector_source Q 0%Q qsub inp (Z.to_nat vsd)) (map of_zq bpvs))
      && match mp with
         | None => true
         | Some (mf, mb) =>
             let '(a, b, _, _) := qdiscretize inp in
             same_matrix a (map of_zq mf) && same_matrix b (map of_zq mb)
         end
  end.

(* ------------------------------------------------------------------------------ *)
(* Scale-free comparison (added for inputs scaled over many orders of magnitude): purely
   relative, |a - b| <= 1e-9 * |b|; a zero must be matched exactly. *)
Definition close_rel (a b : Q) : bool :=
  Qle_bool (Qabs (a - b)) ((1 # 1000000000) * Qabs b).
(* ... or, for entries that come out of a cancellation in floating point (full tensors on
   non-orthogonal grids), within 1e-12 of the largest entry of the implementation's matrix *)
Definition maxabs0 (M : qcoo) : Q :=
  fold_right (fun t acc => let a := Qabs (snd t) in if Qle_bool a acc then acc else a) 0%Q M.
Definition covers_rel_tol (tol : Q) (A B : qcoo) : bool :=
  forallb (fun t : nat * nat * Q =>
             let r := fst (fst t) in let c := snd (fst t) in
             close_rel (entry A r c) (entry B r c)
             || Qle_bool (Qabs (entry A r c - entry B r c)) tol) A.
Definition covers_rel (A B : qcoo) : bool := covers_rel_tol 0 A B.
Definition same_matrix_rel (A B : qcoo) : bool :=
  let tol := (1 # 1000000000000) * maxabs0 B in
  covers_rel_tol tol A B && covers_rel_tol tol B A.

(* for MPFA (whose matrices carry rounding noise where TPFA has exact zeros): tolerance
   relative to the largest entry of the matrix *)
Definition maxabs (M : qcoo) : Q :=
  fold_right (fun t acc => let a := Qabs (snd t) in if Qle_bool a acc then acc else a) 0%Q M.
Definition covers_scaled (tol : Q) (A B : qcoo) : bool :=
  forallb (fun t : nat * nat * Q =>
             let r := fst (fst t) in let c := snd (fst t) in
             Qle_bool (Qabs (entry A r c - entry B r c)) tol) A.
Definition same_matrix_scaled (A B : qcoo) : bool :=
  let tol := (1 # 1000000000) * maxabs A in covers_scaled tol A B && covers_scaled tol B A.

Definition agree_rel (oi : option (input Q)) (korth : bool)
           (expected : option (list zq * list zq * list zq * list zq))
           (vsd : Z) (vs bpvs : list zq) (mp : option (list zq * list zq)) : bool :=
  match oi, expected with
  | None, None => true
  | Some inp, Some (fl, bf, bpc, bpf) =>
      let '(a, b, c, d) := qdiscretize inp in
      same_matrix_rel a (map of_zq fl) && same_matrix_rel b (map of_zq bf)
      && same_matrix_rel c (map of_zq bpc) && same_matrix_rel d (map of_zq bpf)
      && Bool.eqb (korth_b inp) korth && qsymmetric inp
      && (if dim inp =? 0 then true else
          same_matrix_rel (vector_source Q 0%Q 1%Q qadd qsub qmul qdiv inject_Z inp (Z.to_nat vsd)) (map of_zq vs)
          && same_matrix_rel (bound_pressure_vector_source Q 0%Q qsub inp (Z.to_nat vsd)) (map of_zq bpvs))
      && match mp with
         | None => true
         | Some (mf, mb) => same_matrix_scaled a (map of_zq mf) && same_matrix_scaled b (map of_zq mb)
         end
  | _, _ => false
  end.
