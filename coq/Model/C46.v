(* C46 — SparseNdArray (porepy/utils/array_operations.py): add / get.
   Transcription of the code AFTER the repair commit "fix: SparseNdArray.add pairs values
   with the right coordinates" (values[:, unique_2_all]; stored indices taken from the
   per-column match list of intersect_sets).
   Coordinates are integer tuples (list Z); membership (KD-tree ball query, tol 1e-10) is
   exact equality on integer coordinates.  Values are elements of a type V with a zero and
   an addition (one row of the value array).  Executable definitions only. *)
From Coq Require Import List ZArith Bool Arith.
Import ListNotations.

Definition coord := list Z.

Fixpoint ceqb (a b : coord) : bool :=
  match a, b with
  | [], [] => true
  | x :: r, y :: s => (x =? y)%Z && ceqb r s
  | _, _ => false
  end.

(* column order of np.unique(axis=1): lexicographic, row 0 most significant *)
Fixpoint cltb (a b : coord) : bool :=
  match a, b with
  | x :: r, y :: s => if (x <? y)%Z then true else if (y <? x)%Z then false else cltb r s
  | [], _ :: _ => true
  | _, _ => false
  end.

Fixpoint insert (x : coord) (l : list coord) : list coord :=
  match l with
  | [] => [x]
  | y :: r => if cltb y x then y :: insert x r else x :: y :: r
  end.

Fixpoint isort (l : list coord) : list coord :=
  match l with [] => [] | x :: r => insert x (isort r) end.

Fixpoint dedup (l : list coord) : list coord :=
  match l with
  | [] => []
  | x :: r => x :: filter (fun y => negb (ceqb x y)) (dedup r)
  end.

(* np.unique(coord_array, axis=1, return_index, return_inverse, return_counts) *)
Definition uniq (batch : list coord) : list coord := isort (dedup batch).

(* index of the first occurrence (length of the list if absent) *)
Fixpoint index_of (c : coord) (l : list coord) : nat :=
  match l with [] => 0 | x :: r => if ceqb c x then 0 else S (index_of c r) end.

Definition count (c : coord) (l : list coord) : nat := length (filter (ceqb c) l).

Definition u2a (batch : list coord) : list nat :=       (* unique_2_all *)
  map (fun c => index_of c batch) (uniq batch).
Definition a2u (batch : list coord) : list nat :=       (* all_2_unique *)
  map (fun c => index_of c (uniq batch)) batch.
Definition counts (batch : list coord) : list nat :=
  map (fun c => count c batch) (uniq batch).

(* all positions of c in l (query_ball_tree of one point against the stored points) *)
Fixpoint find_all (c : coord) (l : list coord) : list nat :=
  match l with
  | [] => []
  | x :: r => (if ceqb c x then [0] else []) ++ map S (find_all c r)
  end.

(* np.where(inv == i)[0][-1] *)
Fixpoint last_where (inv : list nat) (i : nat) : option nat :=
  match inv with
  | [] => None
  | k :: r => match last_where r i with
              | Some j => Some (S j)
              | None => if k =? i then Some 0 else None
              end
  end.

(* boolean-mask indexing  l[m] *)
Fixpoint mask {A : Type} (l : list A) (m : list bool) : list A :=
  match l, m with
  | x :: r, b :: mr => if b then x :: mask r mr else mask r mr
  | _, _ => []
  end.

Inductive err := ValueErr.

Section Model.
  Variable V : Type.
  Variable vzero : V.
  Variable vadd : V -> V -> V.

  (* np.bincount(inv, weights=w) with n bins *)
  Definition bincount (inv : list nat) (w : list V) (n : nat) : list V :=
    map (fun i => fold_left (fun acc kv => if fst kv =? i then vadd acc (snd kv) else acc)
                            (combine inv w) vzero)
        (seq 0 n).

  (* consolidated values of the batch, one per unique coordinate *)
  Definition uvals (additive : bool) (batch : list coord) (vals : list V) : list V :=
    let n := length (uniq batch) in
    if additive then bincount (a2u batch) vals n
    else if forallb (fun k => k =? 1) (counts batch)
         then map (fun j => nth j vals vzero) (u2a batch)           (* values[:, unique_2_all] *)
         else map (fun i => match last_where (a2u batch) i with
                            | Some j => nth j vals vzero | None => vzero end)
                  (seq 0 n).

  Fixpoint set_nth (l : list V) (k : nat) (v : V) : list V :=
    match l, k with
    | [], _ => []
    | _ :: r, O => v :: r
    | x :: r, S k' => x :: set_nth r k' v
    end.

  (* l[ind] = rhs  (sequential assignment) *)
  Definition assign (l : list V) (ind : list nat) (rhs : list V) : list V :=
    fold_left (fun acc kv => set_nth acc (fst kv) (snd kv)) (combine ind rhs) l.

  Definition gather (l : list V) (ind : list nat) : list V := map (fun k => nth k l vzero) ind.

  Fixpoint map2 (a b : list V) : list V :=
    match a, b with x :: r, y :: s => vadd x y :: map2 r s | _, _ => [] end.

  Record st := mk { coords : list coord; values : list V }.

  Definition empty : st := mk [] [].

  Definition nonempty (l : list nat) : bool := match l with [] => false | _ => true end.
  Definition hdl (l : list nat) : list nat := match l with [] => [] | k :: _ => [k] end.

  (* SparseNdArray.add; returns the new state and the returned permutation vector *)
  Definition add (s : st) (additive : bool) (batch : list coord) (vals : list V)
    : st * list nat :=
    match batch with
    | [] => (s, [])
    | _ =>
        let u := uniq batch in
        let uv := uvals additive batch vals in
        let ind_list := map (fun c => find_all c (coords s)) u in     (* intersection *)
        let is_mem := map nonempty ind_list in
        let ind := flat_map hdl ind_list in     (* [i[0] for i in ind_list if len(i) > 0] *)
        let rhs := mask uv is_mem in
        let vals' := if additive
                     then assign (values s) ind (map2 (gather (values s) ind) rhs)
                     else assign (values s) ind rhs in
        let nm := map negb is_mem in
        (mk (coords s ++ mask u nm) (vals' ++ mask uv nm), mask (u2a batch) nm)
    end.

  Inductive out :=
  | OPerm (p : list nat)
  | OVals (v : list V)
  | OErr (e : err).

  (* SparseNdArray.get *)
  Definition get (s : st) (cs : list coord) : out :=
    let ind_list := map (fun c => find_all c (coords s)) cs in
    let is_mem := map nonempty ind_list in
    if forallb (fun b => b) is_mem
    then OVals (gather (values s) (concat ind_list))
    else OErr ValueErr.

  Inductive op :=
  | OpAdd (additive : bool) (cs : list coord) (vs : list V)
  | OpGet (cs : list coord).

  Definition step (s : st) (o : op) : st * out :=
    match o with
    | OpAdd a cs vs => let (s', p) := add s a cs vs in (s', OPerm p)
    | OpGet cs => (s, get s cs)
    end.

  Fixpoint run (s : st) (ops : list op) : st * list out :=
    match ops with
    | [] => (s, [])
    | o :: r => let (s', x) := step s o in
                let (s'', xs) := run s' r in (s'', x :: xs)
    end.

  (* the value the array holds for a coordinate: first stored match *)
  Definition abs (s : st) (c : coord) : option V :=
    match find_all c (coords s) with
    | [] => None
    | k :: _ => nth_error (values s) k
    end.

  (* ---------------- reference: a plain dictionary ---------------- *)
  Definition dict := list (coord * V).       (* most recent binding first *)

  Fixpoint dget (d : dict) (c : coord) : option V :=
    match d with
    | [] => None
    | (k, v) :: r => if ceqb c k then Some v else dget r c
    end.

  (* d[c] = d[c] + v if additive and c in d else v *)
  Definition dins (additive : bool) (d : dict) (c : coord) (v : V) : dict :=
    match additive, dget d c with
    | true, Some w => (c, vadd w v) :: d
    | _, _ => (c, v) :: d
    end.

  (* for c, v in zip(coords, values): ... *)
  Definition dadd (additive : bool) (d : dict) (cs : list coord) (vs : list V) : dict :=
    fold_left (fun d cv => dins additive d (fst cv) (snd cv)) (combine cs vs) d.

  Inductive dout := DDone | DVals (v : list V) | DErr.

  Definition dread (d : dict) (cs : list coord) : dout :=
    if forallb (fun c => match dget d c with Some _ => true | None => false end) cs
    then DVals (map (fun c => match dget d c with Some v => v | None => vzero end) cs)
    else DErr.

  Definition dstep (d : dict) (o : op) : dict * dout :=
    match o with
    | OpAdd a cs vs => (dadd a d cs vs, DDone)
    | OpGet cs => (d, dread d cs)
    end.

  Fixpoint drun (d : dict) (ops : list op) : dict * list dout :=
    match ops with
    | [] => (d, [])
    | o :: r => let (d', x) := dstep d o in
                let (d'', xs) := drun d' r in (d'', x :: xs)
    end.

  Definition proj (o : out) : dout :=
    match o with OPerm _ => DDone | OVals v => DVals v | OErr _ => DErr end.

  (* coordinates inserted by a history *)
  Fixpoint inserted (ops : list op) : list coord :=
    match ops with
    | [] => []
    | OpAdd _ cs _ :: r => cs ++ inserted r
    | OpGet _ :: r => inserted r
    end.

  (* shape discipline of the calls (numpy raises otherwise; not modelled) *)
  Definition wf (o : op) : Prop :=
    match o with
    | OpAdd _ cs vs => length cs = length vs
    | OpGet cs => cs <> []
    end.
End Model.

Arguments mk {V}. Arguments coords {V}. Arguments values {V}. Arguments empty {V}.
Arguments add {V}. Arguments get {V}. Arguments step {V}. Arguments run {V}.
Arguments OpAdd {V}. Arguments OpGet {V}. Arguments OPerm {V}. Arguments OVals {V}.
Arguments OErr {V}. Arguments abs {V}. Arguments dget {V}. Arguments dins {V}.
Arguments dadd {V}. Arguments dread {V}. Arguments dstep {V}. Arguments drun {V}.
Arguments DDone {V}. Arguments DVals {V}. Arguments DErr {V}. Arguments proj {V}.
Arguments inserted {V}. Arguments wf {V}. Arguments uvals {V}. Arguments set_nth {V}.
Arguments assign {V}. Arguments gather {V}. Arguments map2 {V}. Arguments bincount {V}.

(* ---------------- executable instance for the tie: V = Z ---------------- *)
Definition eqb_listZ (a b : list Z) : bool :=
  (length a =? length b) && forallb (fun p => (fst p =? snd p)%Z) (combine a b).
Definition eqb_listnat (a b : list nat) : bool :=
  (length a =? length b) && forallb (fun p => fst p =? snd p) (combine a b).

Definition eqb_out (a b : @out Z) : bool :=
  match a, b with
  | OPerm p, OPerm q => eqb_listnat p q
  | OVals v, OVals w => eqb_listZ v w
  | OErr ValueErr, OErr ValueErr => true
  | _, _ => false
  end.

Fixpoint eqb_outs (a b : list (@out Z)) : bool :=
  match a, b with
  | [], [] => true
  | x :: r, y :: s => eqb_out x y && eqb_outs r s
  | _, _ => false
  end.

Fixpoint eqb_coords (a b : list coord) : bool :=
  match a, b with
  | [], [] => true
  | x :: r, y :: s => ceqb x y && eqb_coords r s
  | _, _ => false
  end.

(* the model reproduces every output of the history and the final storage arrays
   (_coords columns in stored order, one row of _values) *)
Definition agree (ops : list (@op Z)) (outs : list (@out Z))
           (dcoords : list coord) (dvals : list Z) : bool :=
  let (s, xs) := run 0%Z Z.add empty ops in
  eqb_outs xs outs && eqb_coords (coords s) dcoords && eqb_listZ (values s) dvals.
