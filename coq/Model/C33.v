(* C33 — tessellation overlaps.
   Transcribes, over exact rationals,
     porepy/geometry/intersections.py : line_tessellation (with the collinear branch of
                                        segments_3d that it reaches for segments on one line),
                                        the filtering loop of triangulations,
     porepy/grids/match_grids.py      : match_1d / match_2d (weights and scalings).
   Executable definitions only.

   Representation.  All points of a 1-D tessellation pair lie on one line
   x = x0 + t*d.  [segments_3d] picks the FIRST coordinate k in which the segment moves
   (start_1[mask_1][0]) and does all comparisons in that coordinate; the length of the
   returned piece is sqrt(sum((X0-X1)^2)) = |delta_k| * (|d| / |d_k|).  The model works with
   the coordinate k of every point (a rational) and the rational factor [nrm] = |d|/|d_k|
   (1 for axis-aligned lines; 5/3 for direction (3,4,0), ...).  The tolerance tests of
   segments_3d (|delta| > 1e-8, |cross products| <= 1e-8, allclose) are modelled by exact
   tests; the generators keep every non-zero quantity far above the tolerance. *)
From Coq Require Import List QArith Bool Arith.
Import ListNotations.
Open Scope Q_scope.

Inductive err := IndexErr.

Definition qltb (a b : Q) : bool := negb (Qle_bool b a).          (* a < b *)
Definition qmax (a b : Q) : Q := if Qle_bool a b then b else a.
Definition qmin (a b : Q) : Q := if Qle_bool a b then a else b.
Definition qabs (a : Q) : Q := if Qle_bool 0 a then a else - a.   (* sqrt(a**2) *)

(* a cell of a 1-D tessellation: (coordinate of its first node, coordinate of its second node) *)
Definition cell := (Q * Q)%type.
Definition cmin (c : cell) : Q := qmin (fst c) (snd c).
Definition cmax (c : cell) : Q := qmax (fst c) (snd c).

(* np.argsort of four values (insertion sort; only the sorted VALUES are used) *)
Fixpoint insert (x : Q) (l : list Q) : list Q :=
  match l with
  | [] => [x]
  | y :: r => if Qle_bool x y then x :: y :: r else y :: insert x r
  end.
Definition isort (l : list Q) : list Q := fold_right insert [] l.

(* result of segments_3d on two segments of one line *)
Inductive ovl :=
| ONone                    (* return None *)
| OSeg (x y : Q)           (* 3 x 2 array: the two middle points of the sorted end points *)
| OErr (e : err).          (* start_1[mask_1][0] on an empty selection *)

Definition seg_overlap (c1 c2 : cell) : ovl :=
  let '(s1, e1) := c1 in
  let '(s2, e2) := c2 in
  let m1 := negb (Qeq_bool s1 e1) in        (* mask_1 = |deltas_1| > tol (coordinate k) *)
  let m2 := negb (Qeq_bool s2 e2) in
  (* discr = 0 for parallel segments: the "parallel" branch is always taken *)
  if negb (eqb m1 m2) then ONone            (* np.any(mask_1 != mask_2) *)
  else if negb m1 then
    (* both segments are single points; t is empty, all cross products vanish;
       np.allclose(start_1, start_2) decides; then start_1[mask_1][0] raises IndexError *)
    if Qeq_bool s1 s2 then OErr IndexErr else ONone
  else
    let max1 := qmax s1 e1 in let min1 := qmin s1 e1 in
    let max2 := qmax s2 e2 in let min2 := qmin s2 e2 in
    if qltb max1 min2 then ONone
    else if qltb max2 min1 then ONone
    else let srt := isort [s1; e1; s2; e2] in
         OSeg (nth 1 srt 0) (nth 2 srt 0).

Definition entry := (nat * nat * Q)%type.
Definition erow (e : entry) : nat := fst (fst e).
Definition ecol (e : entry) : nat := snd (fst e).
Definition ewt (e : entry) : Q := snd e.

Section LineTess.
  Variable nrm : Q.   (* |d| / |d_k| *)

  (* np.sqrt(np.sum((X[:,0]-X[:,1])**2)) *)
  Definition seg_len (x y : Q) : Q := qabs (x - y) * nrm.

  (* for j in range(l2.shape[1]) : ... *)
  Fixpoint lt_inner (i : nat) (a : cell) (j : nat) (bs : list cell) : err + list entry :=
    match bs with
    | [] => inr []
    | b :: r =>
        match seg_overlap a b with
        | OErr e => inl e
        | ONone => lt_inner i a (S j) r
        | OSeg x y =>
            match lt_inner i a (S j) r with
            | inl e => inl e
            | inr l => inr ((i, j, seg_len x y) :: l)
            end
        end
    end.

  (* for i in range(l1.shape[1]) : ... *)
  Fixpoint lt_outer (i : nat) (cs : list cell) (bs : list cell) : err + list entry :=
    match cs with
    | [] => inr []
    | a :: r =>
        match lt_inner i a 0 bs with
        | inl e => inl e
        | inr l1 =>
            match lt_outer (S i) r bs with
            | inl e => inl e
            | inr l2 => inr (l1 ++ l2)
            end
        end
    end.

  (* p[:, l[0, i]], p[:, l[1, i]] *)
  Definition cells_of (p : list Q) (l : list (nat * nat)) : list cell :=
    map (fun ab => (nth (fst ab) p 0, nth (snd ab) p 0)) l.

  Definition line_tessellation (p1 p2 : list Q) (l1 l2 : list (nat * nat))
    : err + list entry :=
    lt_outer 0 (cells_of p1 l1) (cells_of p2 l2).

  (* Grid._compute_geometry_1d : cell_volumes = norm(xf1 - xf2) *)
  Definition cell_vol (c : cell) : Q := qabs (fst c - snd c) * nrm.
End LineTess.

(* ---------------- match_1d / match_2d : weights ---------------- *)
Inductive scaling := Averaged | Integrated | Unscaled.

(* the three branches after the intersection list has been copied to
   new_g_ind / old_g_ind / weights; the result is the coo triple list handed to
   sps.coo_matrix(...).tocsr() (tocsr only sums duplicates, there are none) *)
Definition scale_entries (vol_new vol_old : nat -> Q) (tol : Q) (sc : scaling)
           (isect : list entry) : list entry :=
  match sc with
  | Averaged => map (fun e => (erow e, ecol e, ewt e / vol_new (erow e))) isect
  | Integrated => map (fun e => (erow e, ecol e, ewt e / vol_old (ecol e))) isect
  | Unscaled => map (fun e => (erow e, ecol e, 1))
                    (filter (fun e => qltb tol (ewt e)) isect)
  end.

Definition match_1d (nrm tol : Q) (sc : scaling)
           (p_new p_old : list Q) (l_new l_old : list (nat * nat)) : err + list entry :=
  match line_tessellation nrm p_new p_old l_new l_old with
  | inl e => inl e
  | inr isect =>
      inr (scale_entries (fun i => cell_vol nrm (nth i (cells_of p_new l_new) (0, 0)))
                         (fun j => cell_vol nrm (nth j (cells_of p_old l_old) (0, 0)))
                         tol sc isect)
  end.

(* ---------------- triangulations (2-D): the loop around shapely ---------------- *)
Section Triangulations.
  (* shapely: poly_1.intersection(poly_2[j]) *)
  Variable is_polygon : nat -> nat -> bool.   (* isinstance(isect, Polygon) or isect.area > 0 *)
  Variable isect_area : nat -> nat -> Q.      (* isect.area *)
  Variable candidate : nat -> nat -> bool.    (* j not outside the bounding box of i *)

  Fixpoint tri_inner (i : nat) (js : list nat) : list entry :=
    match js with
    | [] => []
    | j :: r => if candidate i j && is_polygon i j
                then (i, j, isect_area i j) :: tri_inner i r
                else tri_inner i r
    end.

  Definition triangulations (n1 n2 : nat) : list entry :=
    flat_map (fun i => tri_inner i (seq 0 n2)) (seq 0 n1).
End Triangulations.

(* ---------------- sums ---------------- *)
(* partial sums are kept in lowest terms (Qred x == x) so that the denominators of
   binary64 data do not multiply up during execution *)
Definition qsum (l : list Q) : Q := fold_right (fun x acc => Qred (x + acc)) 0 l.
Definition row_sum (m : list entry) (i : nat) : Q :=
  qsum (map ewt (filter (fun e => Nat.eqb (erow e) i) m)).
Definition col_sum (m : list entry) (j : nat) : Q :=
  qsum (map ewt (filter (fun e => Nat.eqb (ecol e) j) m)).

(* ---------------- comparison with the implementation (tie) ---------------- *)
Definition entry_eqb (a b : entry) : bool :=
  Nat.eqb (erow a) (erow b) && Nat.eqb (ecol a) (ecol b) && Qeq_bool (ewt a) (ewt b).

(* |a - b| <= 1e-9 * (1 + |b|) *)
Definition qclose (a b : Q) : bool :=
  Qle_bool (qabs (a - b)) ((1 # 1000000000) * (1 + qabs b)).

Definition entry_close (a b : entry) : bool :=
  Nat.eqb (erow a) (erow b) && Nat.eqb (ecol a) (ecol b) && qclose (ewt a) (ewt b).

Fixpoint list_eqb {A} (f : A -> A -> bool) (a b : list A) : bool :=
  match a, b with
  | [], [] => true
  | x :: r, y :: s => f x y && list_eqb f r s
  | _, _ => false
  end.

Definition nonzero (e : entry) : bool := negb (Qeq_bool (ewt e) 0).

(* the implementation's answer: error or list of triples *)
Definition agree_lt (nrm : Q) (p1 p2 : list Q) (l1 l2 : list (nat * nat))
           (impl : err + list entry) : bool :=
  match line_tessellation nrm p1 p2 l1 l2, impl with
  | inl IndexErr, inl IndexErr => true
  | inr a, inr b => list_eqb entry_eqb a b
  | _, _ => false
  end.

(* match_1d: matrices compared as row-major coordinate lists, explicit zeros removed *)
Definition agree_m1 (nrm tol : Q) (sc : scaling) (p1 p2 : list Q) (l1 l2 : list (nat * nat))
           (impl : err + list entry) : bool :=
  match match_1d nrm tol sc p1 p2 l1 l2, impl with
  | inl IndexErr, inl IndexErr => true
  | inr a, inr b => list_eqb entry_close (filter nonzero a) b
  | _, _ => false
  end.

(* 2-D certificate tie: [isect] is the real output of triangulations, [v1], [v2] the real
   cell volumes; check the contract (non-negative, sums = cell areas within 1e-9) and that
   scale_entries reproduces the real matrices *)
Definition sums_ok (isect : list entry) (v1 v2 : list Q) : bool :=
  forallb (fun e => Qle_bool 0 (ewt e) && Nat.ltb (erow e) (length v1)
                    && Nat.ltb (ecol e) (length v2)) isect &&
  forallb (fun i => qclose (row_sum isect i) (nth i v1 0)) (seq 0 (length v1)) &&
  forallb (fun j => qclose (col_sum isect j) (nth j v2 0)) (seq 0 (length v2)).

Definition unit_sums (m : list entry) (rows : bool) (n : nat) : bool :=
  forallb (fun i => qclose (if rows then row_sum m i else col_sum m i) 1) (seq 0 n).

Definition agree_m2 (tol : Q) (isect : list entry) (v1 v2 : list Q)
           (avg int unsc : list entry) : bool :=
  let vn := fun i => nth i v1 0 in
  let vo := fun j => nth j v2 0 in
  sums_ok isect v1 v2 &&
  list_eqb entry_close (scale_entries vn vo tol Averaged isect) avg &&
  list_eqb entry_close (scale_entries vn vo tol Integrated isect) int &&
  list_eqb entry_close (scale_entries vn vo tol Unscaled isect) unsc &&
  unit_sums avg true (length v1) && unit_sums int false (length v2).
