(* C38 — export to vtu/pvd and import back.
   Transcribes the cell bookkeeping of porepy/viz/exporter.py
     _export_grid_2d / _export_polyhedron_3d   cell_id per cell type (first-seen order)
     _export_data_vtu._build_field             np.hstack of the per-entity arrays
     _write                                    one data block per cell type: values[ids]
     import_state_from_vtu                     concatenate the blocks, scatter them back
                                               through the cell ids (as repaired), chop by
                                               the entities' cell counts
     import_from_pvd                           choice of the latest time step (as repaired:
                                               numeric maximum)
   and porepy/numerics/time_step_control.py
     write_time_information / load_time_information / set_time_and_dt_from_exported_steps.
   A grid is the list of its cells' types (number of nodes per cell); a cell value is any
   type A (scalar, or the tuple of a vector's components).
   Executable definitions only. *)
From Coq Require Import List ZArith Bool Arith.
Import ListNotations.

(* ---- cell ids ---------------------------------------------------------------- *)
(* np.unique(num_nodes_per_cell): sorted, without repetition *)
Fixpoint ins (t : Z) (l : list Z) : list Z :=
  match l with
  | [] => [t]
  | x :: r => if (t <? x)%Z then t :: l else if (t =? x)%Z then l else x :: ins t r
  end.
Definition types_of (g : list Z) : list Z := fold_right ins [] g.

(* np.nonzero(num_nodes_per_cell == n)[0] + cell_offset *)
Definition cells_of_type (g : list Z) (t : Z) (off : nat) : list nat :=
  map (fun i => i + off) (filter (fun i => Z.eqb (nth i g 0%Z) t) (seq 0 (length g))).

(* cell_id: dict type -> list of global cell numbers, in insertion order *)
Fixpoint add_block (bl : list (Z * list nat)) (t : Z) (cs : list nat) : list (Z * list nat) :=
  match bl with
  | [] => [(t, cs)]
  | (t', l) :: r => if Z.eqb t t' then (t', l ++ cs) :: r else (t', l) :: add_block r t cs
  end.

Definition add_grid (bl : list (Z * list nat)) (g : list Z) (off : nat) : list (Z * list nat) :=
  fold_left (fun b t => add_block b t (cells_of_type g t off)) (types_of g) bl.

Fixpoint cell_blocks (bl : list (Z * list nat)) (grids : list (list Z)) (off : nat)
  : list (Z * list nat) :=
  match grids with
  | [] => bl
  | g :: r => cell_blocks (add_grid bl g off) r (off + length g)
  end.

(* Meshio_Geom.cell_ids *)
Definition cell_ids (grids : list (list Z)) : list (list nat) :=
  map snd (cell_blocks [] grids 0).

(* _export_polyhedron_3d (3-D grids that are not all tetrahedral / all Cartesian): the
   blocks are written in increasing order of the type (nodes per cell), the order in which
   meshio groups the cell data when it reads the file back.  For a single type this is
   cell_ids. *)
Fixpoint ins_block (b : Z * list nat) (l : list (Z * list nat)) : list (Z * list nat) :=
  match l with
  | [] => [b]
  | x :: r => if (fst b <=? fst x)%Z then b :: l else x :: ins_block b r
  end.
Definition sort_blocks (l : list (Z * list nat)) : list (Z * list nat) :=
  fold_right ins_block [] l.
Definition cell_ids_3d (grids : list (list Z)) : list (list nat) :=
  map snd (sort_blocks (cell_blocks [] grids 0)).

(* ---- export / import of one field on one dimension --------------------------- *)
Section Field.
  Variable A : Type.
  Variable d : A.

  (* _write: cell_data[name] = [values[ids] for ids in cell_ids] *)
  Definition export_blocks (ids : list (list nat)) (values : list A) : list (list A) :=
    map (fun b => map (fun i => nth i values d) b) ids.

  Fixpoint upd (l : list A) (i : nat) (v : A) : list A :=
    match l, i with
    | [], _ => []
    | _ :: r, O => v :: r
    | x :: r, S i' => x :: upd r i' v
    end.

  (* value = np.empty_like(blocks); value[ids] = blocks   (garbage = the uninitialised
     content) *)
  Definition scatter (garbage : list A) (ids : list nat) (blocks : list A) : list A :=
    fold_left (fun acc iv => upd acc (fst iv) (snd iv)) (combine ids blocks) garbage.

  (* _save_to_mdg: value[offset : offset + num_cells] per entity *)
  Fixpoint chop (sizes : list nat) (value : list A) : list (list A) :=
    match sizes with
    | [] => []
    | n :: r => firstn n value :: chop r (skipn n value)
    end.

  Definition import_blocks (garbage : list A) (ids : list (list nat)) (sizes : list nat)
             (file_blocks : list (list A)) : list (list A) :=
    chop sizes (scatter garbage (concat ids) (concat file_blocks)).

  (* the import before the repair (kept for the regression example only) *)
  Definition import_blocks_unrepaired (sizes : list nat) (file_blocks : list (list A)) :=
    chop sizes (concat file_blocks).

  (* export then import of the arrays  per_entity  (np.hstack in _build_field) *)
  Definition roundtrip_ids (garbage : list A) (ids : list (list nat))
             (per_entity : list (list A)) : list (list A) :=
    import_blocks garbage ids (map (@length A) per_entity)
                  (export_blocks ids (concat per_entity)).
  Definition roundtrip (garbage : list A) (grids : list (list Z)) (per_entity : list (list A))
    : list (list A) := roundtrip_ids garbage (cell_ids grids) per_entity.
  Definition roundtrip_3d (garbage : list A) (grids : list (list Z))
             (per_entity : list (list A)) : list (list A) :=
    roundtrip_ids garbage (cell_ids_3d grids) per_entity.
End Field.

(* ---- pvd: the time step to restart from --------------------------------------- *)
(* max(timesteps, key=float): the first maximal entry; None for an empty file *)
Fixpoint latest (l : list Z) : option Z :=
  match l with
  | [] => None
  | x :: r => match latest r with
              | None => Some x
              | Some m => if (m <=? x)%Z then Some x else Some m
              end
  end.
(* entries = the DataSet lines of the pvd file: (timestep attribute, file).  The timestep
   attribute is whatever was passed as write_pvd(times=...) (physical times; by default the
   time-step indices), held as an integer in some fixed unit.  The files imported are those
   LISTED with the latest timestep; the returned time index is the largest numeric
   suffix among them (as repaired; several steps may have been written at the latest time,
   e.g. by a stationary model). *)
Definition restart_files {F} (suffix : F -> Z) (entries : list (Z * F)) : option (Z * list F) :=
  match latest (map fst entries) with
  | None => None
  | Some m =>
      let fs := map snd (filter (fun e => Z.eqb (fst e) m) entries) in
      Some (match fs with
            | f :: r => fold_right (fun g m => Z.max (suffix g) m) (suffix f) r
            | [] => 0%Z
            end, fs)
  end.

(* ---- time information ---------------------------------------------------------- *)
Section Time.
  Variable V : Type.        (* python float / int *)
  Variable T : Type.        (* json token *)
  Variable print : V -> T.  (* json.dump *)
  Variable parse : T -> V.  (* json.load *)
  Variable v0 : V.

  Record tm := { time : V; dt : V; exported_times : list V; exported_dt : list V }.

  (* write_time_information: append, then dump both lists *)
  Definition write_time (s : tm) : tm * (list T * list T) :=
    let ts := exported_times s ++ [time s] in
    let ds := exported_dt s ++ [dt s] in
    ({| time := time s; dt := dt s; exported_times := ts; exported_dt := ds |},
     (map print ts, map print ds)).

  Definition load_time (s : tm) (file : list T * list T) : tm :=
    {| time := time s; dt := dt s;
       exported_times := map parse (fst file); exported_dt := map parse (snd file) |}.

  (* python indexing l[i] / slicing l[:i] with a possibly negative i *)
  Definition py_index (n : nat) (i : Z) : option nat :=
    if (0 <=? i)%Z then (if (i <? Z.of_nat n)%Z then Some (Z.to_nat i) else None)
    else if (0 <=? Z.of_nat n + i)%Z then Some (Z.to_nat (Z.of_nat n + i)) else None.
  Definition py_upto {X} (l : list X) (i : Z) : list X :=
    if (0 <=? i)%Z then firstn (Z.to_nat i) l
    else firstn (Z.to_nat (Z.of_nat (length l) + i)) l.

  (* set_time_and_dt_from_exported_steps(time_index); None = IndexError *)
  Definition set_from_exported (s : tm) (i : Z) : option tm :=
    match py_index (length (exported_times s)) i, py_index (length (exported_dt s)) i with
    | Some a, Some b =>
        Some {| time := nth a (exported_times s) v0; dt := nth b (exported_dt s) v0;
                exported_times := py_upto (exported_times s) i;
                exported_dt := py_upto (exported_dt s) i |}
    | _, _ => None
    end.

  (* a run: the model advances (time, dt) and calls write_time_information, repeatedly;
     every call rewrites the whole file, so the file on disk is the last dump *)
  Definition set_td (s : tm) (th : V * V) : tm :=
    {| time := fst th; dt := snd th; exported_times := exported_times s;
       exported_dt := exported_dt s |}.
  Definition run_writes (s : tm) (steps : list (V * V)) : tm * option (list T * list T) :=
    fold_left (fun sf th => (fst (write_time (set_td (fst sf) th)),
                             Some (snd (write_time (set_td (fst sf) th)))))
              steps (s, None).
End Time.

Arguments time {V} t.
Arguments dt {V} t.
Arguments exported_times {V} t.
Arguments exported_dt {V} t.

(* ---- comparison helpers for the execution correspondence ----------------------- *)
Definition lnat_eqb (a b : list nat) : bool :=
  (length a =? length b) && forallb (fun p => fst p =? snd p) (combine a b).
Definition llnat_eqb (a b : list (list nat)) : bool :=
  (length a =? length b) && forallb (fun p => lnat_eqb (fst p) (snd p)) (combine a b).
Definition lz_eqb (a b : list Z) : bool :=
  (length a =? length b) && forallb (fun p => Z.eqb (fst p) (snd p)) (combine a b).
Definition llz_eqb (a b : list (list Z)) : bool :=
  (length a =? length b) && forallb (fun p => lz_eqb (fst p) (snd p)) (combine a b).

(* one dimension of one export/import: the real cell ids, the real file blocks and the
   values found on the entities after the import against the model *)
Definition dim_agree (three_d : bool) (grids : list (list Z)) (ids : list (list nat))
           (per_entity : list (list Z)) (file_blocks : list (list Z))
           (restored : list (list Z)) : bool :=
  llnat_eqb (if three_d then cell_ids_3d grids else cell_ids grids) ids
  && llz_eqb (export_blocks Z 0%Z ids (concat per_entity)) file_blocks
  && llz_eqb (import_blocks Z (repeat (-77)%Z (length (concat per_entity))) ids
                            (map (@length Z) per_entity) file_blocks) restored.

Definition pvd_agree (suffixes : list Z) (entries : list (Z * nat))
           (picked : option (Z * list nat)) : bool :=
  match restart_files (fun i => nth i suffixes (-1)%Z) entries, picked with
  | None, None => true
  | Some (m, fs), Some (m', fs') => Z.eqb m m' && lnat_eqb fs fs'
  | _, _ => false
  end.

Definition time_agree (steps : list (Z * Z)) (file : list Z * list Z) (idx : Z)
           (restored : option (Z * Z * list Z * list Z)) : bool :=
  let s0 := {| time := 0%Z; dt := 0%Z; exported_times := []; exported_dt := [] |} in
  match snd (run_writes Z Z (fun v => v) s0 steps) with
  | None => false
  | Some f => lz_eqb (fst f) (fst file) && lz_eqb (snd f) (snd file)
  end
  && match set_from_exported Z 0%Z (load_time Z Z (fun t => t) s0 file) idx, restored with
     | None, None => true
     | Some s, Some (t, h, ts, ds) =>
         Z.eqb (time s) t && Z.eqb (dt s) h && lz_eqb (exported_times s) ts
         && lz_eqb (exported_dt s) ds
     | _, _ => false
     end.
