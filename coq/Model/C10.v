(* C10 — the simulation driver keeps the solution state consistent across failed solves.

   Product of three transcriptions:
     * storage  : ONE iterate slot and ONE time-step slot of the global solution vector, each
                  a PP.Model.C08 slot driven through C08's [step] (set / additive set / get /
                  shift of ad_utils, as called by EquationSystem.set/get_variable_values,
                  shift_iterate_values, shift_time_step_values);
     * clock    : PP.Model.C09 (TimeManager + the loop of run_time_dependent_model);
     * Newton   : porepy/numerics/nonlinear/nonlinear_solvers.py:NewtonSolver.solve and the
                  hooks of porepy/models/solution_strategy.py
                  (before_nonlinear_loop, after_nonlinear_iteration,
                   after_nonlinear_convergence + update_solution, after_nonlinear_failure,
                   initialize_previous_iterate_and_time_step_values).
   The linear algebra inside an iteration is NOT modelled: the increment of every iteration
   and the (converged, diverged) answer of check_convergence are inputs.
   Transcribes the repaired solver (commit "fix: NewtonSolver treats an iteration flagged
   both converged and diverged as a failed solve").
   Executable definitions only. *)
From Coq Require Import List ZArith Bool PrimFloat.
Import ListNotations.
From PP Require Model.C08 Model.C09.

(* how one call of NewtonSolver.solve ended *)
Inductive nres :=
| NConv (k : Z)          (* converged; k = nonlinear_solver_statistics.num_iteration *)
| NFail                  (* diverged, or the iteration budget ran out *)
| NOut                   (* the scripted inputs ran out inside the loop (model artefact) *)
| NErr (e : C08.err).    (* a storage call raised *)

(* how the time loop ended *)
Inductive stop :=
| Finished | OutOfEvents
| RaisedClock (e : C09.err)      (* TimeManager / after_nonlinear_failure raised *)
| RaisedStore (e : C08.err).     (* a storage call raised *)

Section Model.
  Variable V : Type.                 (* the global solution vector *)
  Variable vadd : V -> V -> V.       (* numpy in-place += *)
  Variable T : Type.
  Variable O : C09.numops T.

  Record store := { its : C08.st V;      (* data[ITERATE_SOLUTIONS][name]   *)
                    tss : C08.st V }.    (* data[TIME_STEP_SOLUTIONS][name] *)

  (* dict.get(i) of a slot ([None] also when the slot does not exist) *)
  Definition slot_get (s : C08.st V) (i : nat) : option V :=
    match s with Some d => C08.lookup d i | None => None end.

  Definition oerr (o : @C08.out V) : option C08.err :=
    match o with C08.OErr e => Some e | _ => None end.

  (* ---------------- prepare_simulation: initial values ---------------- *)
  (* for i in indices: set_variable_values(val, <loc>_index=i); stops at the first exception *)
  Fixpoint set_all (s : C08.st V) (idx : list Z) (v : V) : C08.st V * option C08.err :=
    match idx with
    | [] => (s, None)
    | i :: r => let (s1, o) := C08.step vadd s (C08.OpSet i v) in
                match oerr o with
                | Some e => (s1, Some e)
                | None => set_all s1 r v
                end
    end.

  (* initial_condition (writes the initial values v0 at iterate index 0) followed by
     initialize_previous_iterate_and_time_step_values *)
  Definition init (iti tsi : list Z) (v0 : V) : store * option C08.err :=
    let (i0, _) := C08.step vadd None (C08.OpSet 0 v0) in
    match C08.step vadd i0 (C08.OpGet 0) with
    | (_, C08.OVal val) =>
        let (i1, e1) := set_all i0 iti val in
        match e1 with
        | Some e => ({| its := i1; tss := None |}, Some e)
        | None => let (t1, e2) := set_all None tsi val in ({| its := i1; tss := t1 |}, e2)
        end
    | (_, C08.OErr e) => ({| its := i0; tss := None |}, Some e)
    | (_, C08.ODone) => ({| its := i0; tss := None |}, None)          (* unreachable *)
    end.

  (* ---------------- after_nonlinear_iteration ---------------- *)
  (* shift_iterate_values(max_index=len(iterate_indices));
     set_variable_values(increment, additive=True, iterate_index=0) *)
  Definition after_iteration (dI : Z) (st : store) (inc : V) : store * option C08.err :=
    let (i1, o1) := C08.step vadd (its st) (C08.OpShift (Some dI)) in
    match oerr o1 with
    | Some e => ({| its := i1; tss := tss st |}, Some e)
    | None => let (i2, o2) := C08.step vadd i1 (C08.OpAdd 0 inc) in
              ({| its := i2; tss := tss st |}, oerr o2)
    end.

  (* ---------------- NewtonSolver.solve, the loop ---------------- *)
  Record nout := { n_snaps : list store;   (* the store after every after_nonlinear_iteration *)
                   n_used : list V;        (* the increments that were applied, in order *)
                   n_store : store;
                   n_res : nres }.

  (* while num_iteration <= max_iterations and not is_converged:
         increment = iteration(model); after_nonlinear_iteration(increment)   [num_iteration += 1]
         is_converged, is_diverged = check_convergence(...)
         if is_diverged: is_converged = False; break
         elif is_converged: after_nonlinear_convergence(); break
     [k] = num_iteration; an input = (increment, converged flag, diverged flag). *)
  Fixpoint newton (maxit dI : Z) (st : store) (k : Z) (inp : list (V * bool * bool)) : nout :=
    if (k <=? maxit)%Z then
      match inp with
      | [] => {| n_snaps := []; n_used := []; n_store := st; n_res := NOut |}
      | (inc, cv, dv) :: r =>
          let (st1, e) := after_iteration dI st inc in
          match e with
          | Some e => {| n_snaps := [st1]; n_used := [inc]; n_store := st1; n_res := NErr e |}
          | None =>
              let k1 := (k + 1)%Z in
              if dv then {| n_snaps := [st1]; n_used := [inc]; n_store := st1; n_res := NFail |}
              else if cv then
                {| n_snaps := [st1]; n_used := [inc]; n_store := st1; n_res := NConv k1 |}
              else
                let n := newton maxit dI st1 k1 r in
                {| n_snaps := st1 :: n_snaps n; n_used := inc :: n_used n;
                   n_store := n_store n; n_res := n_res n |}
          end
      end
    else {| n_snaps := []; n_used := []; n_store := st; n_res := NFail |}.

  (* what a hook did: clock after, answer of compute_time_step, store after, exception *)
  Record hout := { h_clock : C09.state T; h_out : C09.out T; h_store : store;
                   h_exc : option (C09.err + C08.err) }.

  (* ---------------- after_nonlinear_convergence ---------------- *)
  (* solution = get_variable_values(iterate_index=0)
     if not time_manager.is_constant: compute_time_step(iterations=num_iteration)
     update_solution(solution): shift_time_step_values(max_index=len(time_step_indices));
                                set_variable_values(solution, time_step_index=0) *)
  Definition after_convergence (c : C09.cfg T) (sched : list T) (dT : Z)
             (s1 : C09.state T) (st : store) (k : Z) : hout :=
    match C08.step vadd (its st) (C08.OpGet 0) with
    | (_, C08.OVal sol) =>
        let (s2, o) := if C09.constant c then (s1, C09.OUnit)
                       else C09.compute_time_step T O c sched s1 (Some k) false in
        match o with
        | C09.OErr e => {| h_clock := s2; h_out := o; h_store := st; h_exc := Some (inl e) |}
        | _ =>
            let (t1, o1) := C08.step vadd (tss st) (C08.OpShift (Some dT)) in
            match oerr o1 with
            | Some e => {| h_clock := s2; h_out := o; h_store := {| its := its st; tss := t1 |};
                           h_exc := Some (inr e) |}
            | None =>
                let (t2, o2) := C08.step vadd t1 (C08.OpSet 0 sol) in
                {| h_clock := s2; h_out := o; h_store := {| its := its st; tss := t2 |};
                   h_exc := match oerr o2 with Some e => Some (inr e) | None => None end |}
            end
        end
    | (_, C08.OErr e) =>
        {| h_clock := s1; h_out := C09.OUnit; h_store := st; h_exc := Some (inr e) |}
    | (_, C08.ODone) =>                                                   (* unreachable *)
        {| h_clock := s1; h_out := C09.OUnit; h_store := st; h_exc := None |}
    end.

  (* ---------------- after_nonlinear_failure (nonlinear problem) ---------------- *)
  (* if time_manager.is_constant: raise ValueError
     compute_time_step(recompute_solution=True)
     prev = get_variable_values(time_step_index=0); set_variable_values(prev, iterate_index=0) *)
  Definition after_failure (c : C09.cfg T) (sched : list T)
             (s1 : C09.state T) (st : store) : hout :=
    if C09.constant c then
      {| h_clock := s1; h_out := C09.OErr C09.E_not_converged; h_store := st;
         h_exc := Some (inl C09.E_not_converged) |}
    else
      let (s2, o) := C09.compute_time_step T O c sched s1 None true in
      match o with
      | C09.OErr e => {| h_clock := s2; h_out := o; h_store := st; h_exc := Some (inl e) |}
      | _ =>
          match C08.step vadd (tss st) (C08.OpGet 0) with
          | (_, C08.OVal prev) =>
              let (i1, o1) := C08.step vadd (its st) (C08.OpSet 0 prev) in
              {| h_clock := s2; h_out := o; h_store := {| its := i1; tss := tss st |};
                 h_exc := match oerr o1 with Some e => Some (inr e) | None => None end |}
          | (_, C08.OErr e) =>
              {| h_clock := s2; h_out := o; h_store := st; h_exc := Some (inr e) |}
          | (_, C08.ODone) =>                                             (* unreachable *)
              {| h_clock := s2; h_out := o; h_store := st; h_exc := None |}
          end
      end.

  (* ---------------- the time loop ---------------- *)
  (* one attempted time step *)
  Record entry := {
    e_res : nres;                 (* NConv k | NFail | NErr e *)
    e_used : list V;              (* the increments of this solve *)
    e_iters : list store;         (* store after each after_nonlinear_iteration *)
    e_clock : C09.state T;        (* TimeManager after the convergence / failure hook *)
    e_out : C09.out T;            (* what compute_time_step answered (OUnit: not called) *)
    e_store : store }.            (* store after the hook *)

  (* run_time_dependent_model:
       while not final_time_reached():
           increase_time(); increase_time_index(); solver.solve(model)
     solve: before_nonlinear_loop (num_iteration := 0), the Newton loop, then
     after_nonlinear_failure unless converged. *)
  Fixpoint drive (maxit dI dT : Z) (c : C09.cfg T) (sched : list T) (s : C09.state T)
           (st : store) (solves : list (list (V * bool * bool))) : list entry * stop :=
    if C09.final_time_reached T O c sched s then ([], Finished)
    else
      match solves with
      | [] => ([], OutOfEvents)
      | inp :: r =>
          let s1 := C09.increase_time_index T (C09.increase_time T O s) in
          (* solve(): nonlinear_increment = get_variable_values(time_step_index=0) *)
          match oerr (snd (C08.step vadd (tss st) (C08.OpGet 0))) with
          | Some e => ([], RaisedStore e)
          | None =>
          let n := newton maxit dI st 0 inp in
          match n_res n with
          | NOut => ([], OutOfEvents)
          | NErr e =>
              ([{| e_res := NErr e; e_used := n_used n; e_iters := n_snaps n; e_clock := s1;
                   e_out := C09.OUnit; e_store := n_store n |}], RaisedStore e)
          | res =>
              let h := match res with
                       | NConv k => after_convergence c sched dT s1 (n_store n) k
                       | _ => after_failure c sched s1 (n_store n)
                       end in
              let en := {| e_res := res; e_used := n_used n; e_iters := n_snaps n;
                           e_clock := h_clock h; e_out := h_out h; e_store := h_store h |} in
              match h_exc h with
              | Some (inl e) => ([en], RaisedClock e)
              | Some (inr e) => ([en], RaisedStore e)
              | None => let (tr, sp) := drive maxit dI dT c sched (h_clock h) (h_store h) r in
                        (en :: tr, sp)
              end
          end
          end
      end.

  (* the whole simulation: TimeManager(...), prepare_simulation, the loop.
     iti / tsi = the model's iterate_indices / time_step_indices. *)
  Inductive failure := CtorErr (e : C09.err) | InitErr (e : C08.err).

  Definition simulate (maxit : Z) (a : C09.args T) (sched : list T) (iti tsi : list Z)
             (v0 : V) (solves : list (list (V * bool * bool)))
    : (C09.cfg T * store * (list entry * stop)) + failure :=
    match C09.construct T O a sched with
    | inr e => inr (CtorErr e)
    | inl c =>
        match init iti tsi v0 with
        | (_, Some e) => inr (InitErr e)
        | (st0, None) =>
            inl (c, st0, drive maxit (Z.of_nat (length iti)) (Z.of_nat (length tsi)) c sched
                               (C09.init_state T O c sched) st0 solves)
        end
    end.

  (* ---------------- views of a trace used by the theorems ---------------- *)
  (* the solver's verdict as an event of the C09 time loop *)
  Definition ev_of (e : entry) : C09.event :=
    match e_res e with NConv k => C09.Converged k | _ => C09.Failed end.

  Definition clock_of (e : entry) : C09.event * C09.state T * C09.out T :=
    (ev_of e, e_clock e, e_out e).

  Definition stop_of (s : stop) : C09.stop :=
    match s with
    | Finished => C09.Finished
    | RaisedClock e => C09.Raised e
    | _ => C09.OutOfEvents
    end.

  Definition no_exc (e : entry) : bool :=
    match e_res e, e_out e with
    | NErr _, _ | NOut, _ => false
    | _, C09.OErr _ => false
    | _, _ => true
    end.

  (* accepted solutions, most recent first, the initial values last: a converged solve that
     did not raise accepts  (previous accepted solution) + increments, summed in order *)
  Definition accept1 (acc : list V) (e : entry) : list V :=
    match e_res e, e_out e with
    | NConv _, C09.OErr _ => acc
    | NConv _, _ => match acc with
                    | [] => []
                    | a :: _ => fold_left vadd (e_used e) a :: acc
                    end
    | _, _ => acc
    end.

  Definition accepted (v0 : V) (tr : list entry) : list V := fold_left accept1 tr [v0].

  (* the clock / store the run ended with *)
  Definition final_clock (s0 : C09.state T) (tr : list entry) : C09.state T :=
    last (map e_clock tr) s0.
  Definition final_store (st0 : store) (tr : list entry) : store :=
    last (map e_store tr) st0.
End Model.

Arguments its {V}. Arguments tss {V}. Arguments slot_get {V}.
Arguments n_snaps {V}. Arguments n_used {V}. Arguments n_store {V}. Arguments n_res {V}.
Arguments h_clock {V T}. Arguments h_out {V T}. Arguments h_store {V T}. Arguments h_exc {V T}.
Arguments ev_of {V T}. Arguments clock_of {V T}. Arguments no_exc {V T}.
Arguments accept1 {V} vadd {T}. Arguments accepted {V} vadd {T}.
Arguments final_clock {V T}. Arguments final_store {V T}.
Arguments e_res {V T}. Arguments e_used {V T}. Arguments e_iters {V T}.
Arguments e_clock {V T}. Arguments e_out {V T}. Arguments e_store {V T}.

(* =================== binary64 instance (execution correspondence only) =================== *)
Definition fvec := list float.

Fixpoint fvadd (a b : fvec) : fvec :=
  match a, b with
  | x :: r, y :: s => PrimFloat.add x y :: fvadd r s
  | _, _ => []
  end.

Fixpoint fvsame (a b : fvec) : bool :=
  match a, b with
  | [], [] => true
  | x :: r, y :: s => C09.fsame x y && fvsame r s
  | _, _ => false
  end.

(* a slot against the dump of the python dict: sorted (key, array) pairs *)
Definition slot_same (s : C08.st fvec) (dump : option (list (nat * fvec))) : bool :=
  match s, dump with
  | None, None => true
  | Some d, Some l =>
      Nat.eqb (C08.num_stored d) (length l) &&
      forallb (fun kv => match C08.lookup d (fst kv) with
                         | Some v => fvsame v (snd kv) | None => false end) l
  | _, _ => false
  end.

Definition dump := (option (list (nat * fvec)) * option (list (nat * fvec)))%type.

Definition store_same (st : store fvec) (d : dump) : bool :=
  slot_same (its st) (fst d) && slot_same (tss st) (snd d).

Fixpoint stores_same (a : list (store fvec)) (b : list dump) : bool :=
  match a, b with
  | [], [] => true
  | x :: r, y :: s => store_same x y && stores_same r s
  | _, _ => false
  end.

Definition err08_eqb (a b : C08.err) : bool :=
  match a, b with
  | C08.KeyErr, C08.KeyErr | C08.ValueErr, C08.ValueErr => true
  | _, _ => false
  end.

Definition stop_same (a b : stop) : bool :=
  match a, b with
  | Finished, Finished | OutOfEvents, OutOfEvents => true
  | RaisedClock x, RaisedClock y => C09.err_eqb x y
  | RaisedStore x, RaisedStore y => err08_eqb x y
  | _, _ => false
  end.

(* what the harness logged for one attempted time step *)
Definition sdump := option (list (nat * fvec)).
Record logged := {
  l_conv : bool;                      (* solve() went through after_nonlinear_convergence *)
  l_iters : list (sdump * option sdump);
      (* after every after_nonlinear_iteration: the iterate slot, and the time-step slot when
         the harness saw it differ from the one it sent last (None: bitwise identical to it) *)
  l_clock : C09.state float;
  l_out : C09.out float;
  l_store : dump }.

(* [ts] = the time-step slot dump sent last *)
Fixpoint iters_same (ts : sdump) (a : list (store fvec)) (b : list (sdump * option sdump))
  : bool :=
  match a, b with
  | [], [] => true
  | x :: r, (di, dt) :: s =>
      let ts' := match dt with Some d => d | None => ts end in
      slot_same (its x) di && slot_same (tss x) ts' && iters_same ts' r s
  | _, _ => false
  end.

Definition entry_same (ts : sdump) (e : entry fvec float) (l : logged) : bool :=
  (match e_res e with NConv _ => l_conv l | NFail => negb (l_conv l) | _ => false end)
  && iters_same ts (e_iters e) (l_iters l)
  && C09.state_same (e_clock e) (l_clock l) && C09.out_same (e_out e) (l_out l)
  && store_same (e_store e) (l_store l).

Fixpoint entries_same (ts : sdump) (a : list (entry fvec float)) (b : list logged) : bool :=
  match a, b with
  | [], [] => true
  | x :: r, y :: s => entry_same ts x y && entries_same (snd (l_store y)) r s
  | _, _ => false
  end.

Definition agree (maxit : Z) (a : C09.args float) (sched : list float) (iti tsi : list Z)
           (v0 : fvec) (solves : list (list (fvec * bool * bool)))
           (expect : (C09.cfg float * dump * list logged * stop) + C09.err) : bool :=
  match simulate fvec fvadd float C09.FOps maxit a sched iti tsi v0 solves, expect with
  | inr (CtorErr e), inr e' => C09.err_eqb e e'
  | inl (c, st0, (tr, sp)), inl (c', d0, ls, sp') =>
      C09.cfg_same c c' && store_same st0 d0 && entries_same (snd d0) tr ls && stop_same sp sp'
  | _, _ => false
  end.
