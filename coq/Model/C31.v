(* C31 — geometric predicates and point orderings.
   Transcribes (over exact rationals Q; integers Z for the index-valued point pairs)
     geometry_property_checks.py : is_ccw_polygon, is_ccw_polyline, point_in_polygon
                                   (after the `fix:` that restricts the on-edge test to
                                   active edges), points_are_collinear (after the `fix:`
                                   pts[:, 2:]), points_are_planar (normal given)
     half_space.py               : point_inside_half_space_intersection
     sort_points.py              : sort_point_pairs, sort_points_on_line
   Tests with a norm are in squared form (|v| / dist <= tol  as  v.v <= tol^2 dist^2).
   Executable definitions only. *)
From Coq Require Import List QArith Qabs Bool ZArith Arith.
Import ListNotations.
From PP Require Import Model.C28.
Open Scope Q_scope.

Definition v2 := (Q * Q)%type.
Definition v3 := (Q * Q * Q)%type.

Definition qsgn (x : Q) : Z := if qltb 0 x then 1%Z else if qltb x 0 then (-1)%Z else 0%Z.

(* ------------------------------------------------------------------ is_ccw_polygon *)
(* value = sum_i (p_1[i+1] + p_1[i]) * (p_0[i+1] - p_0[i]), indices cyclic *)
Fixpoint ccw_sum (first : v2) (l : list v2) : Q :=
  match l with
  | [] => 0
  | p :: r =>
      let q := match r with [] => first | q :: _ => q end in
      (snd q + snd p) * (fst q - fst p) + ccw_sum first r
  end.

Definition ccw_value (poly : list v2) : Q :=
  match poly with [] => 0 | p :: _ => ccw_sum p poly end.

Definition is_ccw_polygon (poly : list v2) : bool := qltb (ccw_value poly) 0.

(* ------------------------------------------------------------------ is_ccw_polyline *)
Definition cross3 (p1 p2 p3 : v2) : Q :=
  (fst p2 - fst p1) * (snd p3 - snd p1) - (snd p2 - snd p1) * (fst p3 - fst p1).

(* the four masked assignments, in the order of the code *)
Definition is_ccw_polyline (tol : Q) (default : bool) (p1 p2 p3 : v2) : bool :=
  let cp := cross3 p1 p2 p3 in
  let r0 := true in
  let r1 := if Qle_bool (Qabs cp) tol then default else r0 in
  let r2 := if qltb cp (- tol) then false else r1 in
  if qltb tol cp then true else r2.

(* ------------------------------------------------------------------ point_in_polygon *)
Definition roll1 {A} (l : list A) : list A :=             (* np.roll(., -1) *)
  match l with [] => [] | x :: r => r ++ [x] end.

Definition is_zero2 (v : v2) : bool := Qeq_bool (fst v) 0 && Qeq_bool (snd v) 0.

Definition vertex_sgn (v : v2) : Z :=
  let s := qsgn (fst v) in if Z.eqb s 0 then qsgn (snd v) else s.

Definition edge_cross (v w : v2) : Q := fst v * snd w - snd v * fst w.

(* twice the winding number, summed over the active edges *)
Fixpoint wind2 (vs ws : list v2) : Z :=
  match vs, ws with
  | v :: vs', w :: ws' =>
      (if Z.eqb (vertex_sgn w - vertex_sgn v) 0 then 0 else qsgn (edge_cross v w))
      + wind2 vs' ws'
  | _, _ => 0
  end%Z.

Fixpoint on_active_edge (vs ws : list v2) : bool :=
  match vs, ws with
  | v :: vs', w :: ws' =>
      (Z.eqb (qsgn (edge_cross v w)) 0 && negb (Z.eqb (vertex_sgn w - vertex_sgn v) 0))
      || on_active_edge vs' ws'
  | _, _ => false
  end.

Definition point_in_polygon (default : bool) (poly : list v2) (p : v2) : bool :=
  let rel := map (fun v => (fst v - fst p, snd v - snd p)) poly in
  let nxt := roll1 rel in
  if existsb is_zero2 rel || existsb is_zero2 nxt then default
  else if on_active_edge rel nxt then default
  else negb (Z.eqb (wind2 rel nxt) 0).

(* ------------------------------------------------------------------ collinear / planar *)
Definition sub3 (a b : v3) : v3 :=
  let '(a0, a1, a2) := a in let '(b0, b1, b2) := b in (a0 - b0, a1 - b1, a2 - b2).
Definition dot3 (a b : v3) : Q :=
  let '(a0, a1, a2) := a in let '(b0, b1, b2) := b in a0 * b0 + a1 * b1 + a2 * b2.
Definition crs3 (a b : v3) : v3 :=
  let '(a0, a1, a2) := a in let '(b0, b1, b2) := b in
  (a1 * b2 - a2 * b1, a2 * b0 - a0 * b2, a0 * b1 - a1 * b0).

(* max(1, max_{i<j} |p_i - p_j|)^2 *)
Fixpoint max_sqdist_from (p : v3) (l : list v3) (acc : Q) : Q :=
  match l with
  | [] => acc
  | q :: r => max_sqdist_from p r (qmax acc (dot3 (sub3 p q) (sub3 p q)))
  end.
Fixpoint max_sqdist (l : list v3) (acc : Q) : Q :=
  match l with
  | [] => acc
  | p :: r => max_sqdist r (max_sqdist_from p r acc)
  end.

Definition points_are_collinear (tol : Q) (pts : list v3) : bool :=
  match pts with
  | p0 :: p1 :: (_ :: _) as rest =>
      let d2 := max_sqdist pts 1 in
      forallb (fun p => let c := crs3 (sub3 p p0) (sub3 p1 p0) in
                        Qle_bool (dot3 c c) (tol * tol * d2)) rest
  | _ => true
  end.

Definition sum3 (l : list v3) : v3 :=
  fold_right (fun p acc => let '(a, b, c) := p in let '(x, y, z) := acc in (a + x, b + y, c + z))
             (0, 0, 0) l.

Definition mean3 (l : list v3) : v3 :=
  let '(x, y, z) := sum3 l in
  let n := inject_Z (Z.of_nat (length l)) in (x / n, y / n, z / n).

(* points_are_planar with an explicit (non-zero) normal:
   || (n/|n|) . (p_i - cp) ||_2 <= tol   as   sum_i (n.(p_i - cp))^2 <= tol^2 (n.n) *)
Definition points_are_planar (tol : Q) (normal : v3) (pts : list v3) : bool :=
  let cp := mean3 pts in
  let s := fold_right (fun p acc => let d := dot3 normal (sub3 p cp) in d * d + acc) 0 pts in
  Qle_bool s (tol * tol * dot3 normal normal).

(* ------------------------------------------------------------------ half spaces *)
Inductive hres := HOk (b : list bool) | HErr (e : err).

Definition in_half (n x0 p : v3) : bool := Qle_bool (dot3 (sub3 p x0) n) 0.

(* in_hull += (...) <= 0 for every plane; result in_hull == number of planes *)
Definition half_space_int (ns x0s pts : list v3) : hres :=
  if negb (Nat.eqb (length ns) (length x0s)) then HErr ValueErr
  else
    HOk (map (fun p =>
                let cnt := fold_left (fun acc nx => if in_half (fst nx) (snd nx) p
                                                    then S acc else acc)
                                     (combine ns x0s) 0%nat in
                Nat.eqb cnt (length x0s)) pts).

(* ------------------------------------------------------------------ sort_point_pairs *)
Definition line := (Z * Z)%type.

Record sstate := { s_sorted : list line; s_found : list bool; s_prev : Z; s_ind : list nat }.

Fixpoint set_nth {A} (l : list A) (i : nat) (x : A) : list A :=
  match l, i with
  | [], _ => []
  | _ :: r, O => x :: r
  | y :: r, S i' => y :: set_nth r i' x
  end.

(* inner loop over j: first not-yet-found line with an entry equal to prev *)
Fixpoint scan (lines : list line) (found : list bool) (prev : Z) (j : nat)
  : option (nat * line * Z) :=
  match lines, found with
  | (a, b) :: lr, f :: fr =>
      if negb f && Z.eqb a prev then Some (j, (a, b), b)
      else if negb f && Z.eqb b prev then Some (j, (b, a), a)
      else scan lr fr prev (S j)
  | _, _ => None
  end.

Fixpoint sort_loop (lines : list line) (st : sstate) (i fuel : nat) : sstate :=
  match fuel with
  | O => st
  | S fuel' =>
      let st' :=
        match scan lines (s_found st) (s_prev st) 0%nat with
        | Some (j, l, nprev) =>
            {| s_sorted := set_nth (s_sorted st) i l;
               s_found := set_nth (s_found st) j true;
               s_prev := nprev;
               s_ind := set_nth (s_ind st) i j |}
        | None => st
        end in
      sort_loop lines st' (S i) fuel'
  end.

Inductive sres := SOk (sorted : list line) (ind : list nat) | SErr (e : err).

Definition count_val (lines : list line) (v : Z) : nat :=
  length (filter (fun l => Z.eqb (fst l) v) lines) + length (filter (fun l => Z.eqb (snd l) v) lines).

Fixpoint find_first {A} (f : A -> bool) (l : list A) (j : nat) : option (nat * A) :=
  match l with
  | [] => None
  | x :: r => if f x then Some (j, x) else find_first f r (S j)
  end.

Definition sort_point_pairs (lines : list line) (check_circular is_circular : bool) : sres :=
  let n := length lines in
  let blank := map (fun _ => ((-1)%Z, (-1)%Z)) lines in
  let nofound := map (fun _ => false) lines in
  let noind := map (fun _ => 0%nat) lines in
  let start :=
    if negb is_circular then
      match find_first (fun l => Nat.eqb (count_val lines (fst l)) 1
                                 || Nat.eqb (count_val lines (snd l)) 1) lines 0%nat with
      | None => None                                   (* np.where(...)[0][0] : IndexError *)
      | Some (hit, (a, b)) =>
          let first := if (1 <? count_val lines a)%nat then (b, a) else (a, b) in
          Some (first, hit, false)
      end
    else
      match lines with
      | [] => None                                     (* lines[:, 0] on an empty array *)
      | l :: _ => Some (l, 0%nat, check_circular)
      end in
  match start with
  | None => SErr IndexErr
  | Some (first, hit, chk) =>
      let st0 := {| s_sorted := set_nth blank 0 first;
                    s_found := set_nth nofound hit true;
                    s_prev := snd first;
                    s_ind := set_nth noind 0 hit |} in
      let st := sort_loop lines st0 1 (n - 1) in
      if negb (forallb (fun b => b) (s_found st)) then SErr AssertErr
      else if chk && negb (Z.eqb (fst first) (snd (last (s_sorted st) (0, 0)%Z)))
      then SErr AssertErr
      else SOk (s_sorted st) (s_ind st)
  end.

(* ------------------------------------------------------------------ sort_points_on_line *)
(* key of the argsort: the rotation maps the tangent (mean -> farthest point, first
   maximiser) onto e_z, so the active coordinate is tangent.(p - mean); when the tangent
   is +-e_z the rotation axis vanishes and rotation_matrix returns the identity, so the
   key is the z-coordinate itself. *)
Fixpoint argmax_first (l : list Q) (i : nat) (best : Q) (bi : nat) : nat :=
  match l with
  | [] => bi
  | x :: r => if qltb best x then argmax_first r (S i) x i else argmax_first r (S i) best bi
  end.

Definition line_keys (pts : list v3) : list Q :=
  let m := mean3 pts in
  let rel := map (fun p => sub3 p m) pts in
  let norms := map (fun v => dot3 v v) rel in
  let k := match norms with [] => 0%nat | x :: r => argmax_first r 1 x 0 end in
  let t := nth k rel (0, 0, 0) in
  let '(tx, ty, tz) := t in
  if Qeq_bool tx 0 && Qeq_bool ty 0 then map (fun p => snd p) rel
  else map (fun v => dot3 v t) rel.

(* the implementation's index list is a valid answer iff it is a permutation of 0..n-1
   and lists the keys in the same (ascending) order as the stable argsort of the model;
   np.argsort is not stable, equal keys only occur for coinciding points *)
Definition sorted_keys (keys : list Q) : list Q := map (fun i => nth i keys 0) (argsort keys).

Definition agree_line_sort (impl : list nat) (pts : list v3) : bool :=
  let keys := line_keys pts in
  let ks := map (fun i => nth i keys 0) impl in
  Nat.eqb (length impl) (length pts)
  && forallb (fun i => existsb (Nat.eqb i) impl) (seq 0 (length pts))
  && (fix eqs (a b : list Q) : bool :=
        match a, b with
        | [], [] => true
        | x :: a', y :: b' => Qeq_bool x y && eqs a' b'
        | _, _ => false
        end) ks (sorted_keys keys).

(* ------------------------------------------------------------------ comparisons *)
Definition line_eqb (a b : line) : bool := Z.eqb (fst a) (fst b) && Z.eqb (snd a) (snd b).

Fixpoint list_eqb {A} (f : A -> A -> bool) (a b : list A) : bool :=
  match a, b with
  | [], [] => true
  | x :: a', y :: b' => f x y && list_eqb f a' b'
  | _, _ => false
  end.

Definition agree_sres (impl model : sres) : bool :=
  match impl, model with
  | SOk s i, SOk s' i' => list_eqb line_eqb s s' && list_eqb Nat.eqb i i'
  | SErr a, SErr b => err_eqb a b
  | _, _ => false
  end.

Definition agree_hres (impl model : hres) : bool :=
  match impl, model with
  | HOk a, HOk b => bools_eqb a b
  | HErr a, HErr b => err_eqb a b
  | _, _ => false
  end.

(* ------------------------------------------------------------------ point_in_polyhedron *)
(* Only the decision logic around the degeneracy checks of PointInPolyhedron.solid_angle
   is transcribed (the solid-angle sum itself uses arctan2 and is not modelled): for each
   triangle, in order, ValueError if the point coincides with a vertex (|r| < tol), is
   collinear with two vertices (0.5 |r_i x r_j| < tol) or is coplanar with the triangle's
   supporting plane (|r_1 . ((r_0 - r_1) x (r_2 - r_1))| < tol); point_in_polyhedron maps
   each of these errors to "outside".  Norm tests in squared form. *)
Definition tri3 := (v3 * v3 * v3)%type.

Definition tol10 : Q := 1 # 10000000000.

Definition tri_raises (tol : Q) (p : v3) (T : tri3) : bool :=
  let '(A, B, C) := T in
  let r0 := sub3 A p in let r1 := sub3 B p in let r2 := sub3 C p in
  let sq v := dot3 v v in
  qltb (sq r0) (tol * tol) || qltb (sq r1) (tol * tol) || qltb (sq r2) (tol * tol)
  || qltb (sq (crs3 r0 r1)) (4 * tol * tol) || qltb (sq (crs3 r1 r2)) (4 * tol * tol)
  || qltb (sq (crs3 r2 r0)) (4 * tol * tol)
  || qltb (Qabs (dot3 r1 (crs3 (sub3 r0 r1) (sub3 r2 r1)))) tol.

(* Some false: decided "outside" by a raised degeneracy error; None: decided by the
   solid-angle sum (not modelled) *)
Definition pih_decision (tol : Q) (tris : list tri3) (p : v3) : option bool :=
  if existsb (tri_raises tol p) tris then Some false else None.

(* exact reference: parity of the crossings of the ray p + t d, t > 0, with the closed
   triangulated surface; None when the ray meets an edge/vertex or p lies on a triangle *)
Definition det3 (a b c : v3) : Q := dot3 a (crs3 b c).

Definition ray_dir : v3 := (1, 1 # 3, 1 # 7).

(* 0: no crossing, 1: one crossing, 2: degenerate *)
Definition ray_tri (p : v3) (T : tri3) : nat :=
  let '(A, B, C) := T in
  let a := sub3 A p in let b := sub3 B p in let c := sub3 C p in
  let s1 := det3 ray_dir a b in let s2 := det3 ray_dir b c in let s3 := det3 ray_dir c a in
  let V := det3 a b c in
  if (qltb 0 s1 && qltb s2 0) || (qltb 0 s2 && qltb s3 0) || (qltb 0 s3 && qltb s1 0)
     || (qltb s1 0 && qltb 0 s2) || (qltb s2 0 && qltb 0 s3) || (qltb s3 0 && qltb 0 s1)
  then 0%nat
  else if qltb 0 s1 && qltb 0 s2 && qltb 0 s3 then
         (if qltb 0 V then 1 else if qltb V 0 then 0 else 2)%nat
  else if qltb s1 0 && qltb s2 0 && qltb s3 0 then
         (if qltb V 0 then 1 else if qltb 0 V then 0 else 2)%nat
  else 2%nat.

Definition pih_ref (tris : list tri3) (p : v3) : option bool :=
  let ks := map (ray_tri p) tris in
  if existsb (Nat.eqb 2) ks then None
  else Some (Nat.odd (fold_right Nat.add 0%nat ks)).

(* impl: (raised a degeneracy error?, returned value) *)
Definition agree_pih (raised result : bool) (tol : Q) (tris : list tri3) (p : v3) : bool :=
  match pih_decision tol tris p with
  | Some b => raised && Bool.eqb result b
  | None => negb raised &&
            match pih_ref tris p with Some b => Bool.eqb result b | None => true end
  end.

(* ------------------------------------------------------------------ compute_normal /
   points_are_planar(normal=None) *)
(* map_geometry.compute_normal, returning the UN-normalised cross product (the caller only
   uses its direction); norms compared in squared form; np.argmax = first maximiser.
   ValueError for fewer than 3 points, RuntimeError when the longest cross product is
   within atol = tol * |v1| * |v_c| of zero in every component. *)
Inductive nres := NOk (n : v3) | NValueErr | NRuntimeErr.

Definition argmax_list (l : list Q) : nat :=
  match l with [] => 0%nat | x :: r => argmax_first r 1 x 0 end.

Definition compute_normal (tol : Q) (pts : list v3) : nres :=
  if (length pts <=? 2)%nat then NValueErr
  else
    let c := mean3 pts in
    let v := map (fun p => sub3 p c) pts in
    let nrm2 := map (fun w => dot3 w w) v in
    let i1 := argmax_list nrm2 in
    let v1 := nth i1 v (0, 0, 0) in
    let crosses := map (fun w => crs3 v1 w) v in
    let ic := argmax_list (map (fun w => dot3 w w) crosses) in
    let normal := nth ic crosses (0, 0, 0) in
    let scal2 := nth i1 nrm2 0 * nth ic nrm2 0 in
    let '(n0, n1, n2) := normal in
    if Qle_bool (n0 * n0) (tol * tol * scal2) && Qle_bool (n1 * n1) (tol * tol * scal2)
       && Qle_bool (n2 * n2) (tol * tol * scal2)
    then NRuntimeErr else NOk normal.

Inductive pres := POk (b : bool) | PValueErr | PRuntimeErr.

(* points_are_planar(pts, normal=None, tol): compute_normal(pts) with ITS default 1e-5 *)
Definition points_are_planar_auto (tol_normal tol : Q) (pts : list v3) : pres :=
  match compute_normal tol_normal pts with
  | NOk n => POk (points_are_planar tol n pts)
  | NValueErr => PValueErr
  | NRuntimeErr => PRuntimeErr
  end.

Definition agree_pres (impl model : pres) : bool :=
  match impl, model with
  | POk a, POk b => Bool.eqb a b
  | PValueErr, PValueErr | PRuntimeErr, PRuntimeErr => true
  | _, _ => false
  end.

(* ------------------------------------------------------------------ sort_point_plane *)
(* R = rotation_matrix(arccos(n.e_z), n x e_z) applied to p, for a UNIT normal n and
   s = sin(angle) = sqrt(nx^2 + ny^2) >= 0 (supplied by the caller; checked in the tie).
   s = 0 (n = +-e_z): the rotation axis vanishes and rotation_matrix returns the identity. *)
Definition rot_to_z (n : v3) (s : Q) (p : v3) : v3 :=
  let '(nx, ny, nz) := n in let '(px, py, pz) := p in
  if Qeq_bool s 0 then p
  else
    let kx := ny / s in let ky := - nx / s in
    let wx := ky * pz in let wy := - kx * pz in let wz := - ky * px + kx * py in
    let w2x := - ky * ky * px + kx * ky * py in
    let w2y := kx * ky * px - kx * kx * py in
    let w2z := - pz in
    (px + s * wx + (1 - nz) * w2x, py + s * wy + (1 - nz) * w2y, pz + s * wz + (1 - nz) * w2z).

(* position of arctan2(a, b) in (-pi, pi]: 0: (-pi,0), 1: angle 0 (also a = b = 0),
   2: (0,pi), 3: angle pi *)
Definition atan2_sector (ab : Q * Q) : nat :=
  let '(a, b) := ab in
  if qltb a 0 then 0%nat
  else if qltb 0 a then 2%nat
  else if qltb b 0 then 3%nat else 1%nat.

(* arctan2(a1,b1) < arctan2(a2,b2), decided by sectors and the sign of a cross product *)
Definition atan2_ltb (v1 v2 : Q * Q) : bool :=
  let s1 := atan2_sector v1 in let s2 := atan2_sector v2 in
  if (s1 <? s2)%nat then true
  else if (s2 <? s1)%nat then false
  else if (Nat.eqb s1 0 || Nat.eqb s1 2)
       then qltb 0 (snd v1 * fst v2 - fst v1 * snd v2) else false.

(* stable argsort with a comparison function *)
Fixpoint ins_by {A} (ltb : A -> A -> bool) (v : A) (i : nat) (l : list (A * nat)) : list (A * nat) :=
  match l with
  | [] => [(v, i)]
  | (w, j) :: r => if ltb v w then (v, i) :: (w, j) :: r else (w, j) :: ins_by ltb v i r
  end.
Fixpoint argsort_by_aux {A} (ltb : A -> A -> bool) (l : list A) (i : nat) (acc : list (A * nat)) : list nat :=
  match l with
  | [] => map snd acc
  | v :: r => argsort_by_aux ltb r (S i) (ins_by ltb v i acc)
  end.
Definition argsort_by {A} (ltb : A -> A -> bool) (l : list A) : list nat := argsort_by_aux ltb l 0%nat [].

(* np.argsort(np.arctan2(delta[0], delta[1])) with delta = R (pts - centre); the third
   rotated coordinate vanishes for points in the plane *)
Definition plane_keys (n : v3) (s : Q) (pts : list v3) (centre : v3) : list (Q * Q) :=
  map (fun p => let '(x, y, _) := rot_to_z n s (sub3 p centre) in (x, y)) pts.

Definition sort_point_plane (n : v3) (s : Q) (pts : list v3) (centre : v3) : list nat :=
  argsort_by atan2_ltb (plane_keys n s pts centre).

Fixpoint rotate_left {A} (k : nat) (l : list A) : list A :=
  match k with O => l | S k' => rotate_left k' (roll1 l) end.

(* impl vs model: exact equality in the identity frame (s = 0); in a rotated frame the
   floating-point rotation leaves ~1e-16 noise, so a point on the cut (angle pi) may wrap to
   -pi: equality up to a cyclic rotation.  The unit-normal data are checked here. *)
Definition agree_plane (impl : list nat) (n : v3) (s : Q) (pts : list v3) (centre : v3) : bool :=
  let '(nx, ny, nz) := n in
  let m := sort_point_plane n s pts centre in
  Qeq_bool (nx * nx + ny * ny + nz * nz) 1 && Qeq_bool (s * s) (nx * nx + ny * ny) && Qle_bool 0 s
  && if Qeq_bool s 0 then list_eqb Nat.eqb impl m
     else existsb (fun k => list_eqb Nat.eqb impl (rotate_left k m)) (seq 0 (length m)).
