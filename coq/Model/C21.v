(* C21 — grid connectivity queries computed from the signed cell-face incidence.
   Transcribes porepy/grids/grid.py:
     cell_faces_as_dense, cell_connection_map, update_boundary_face_tag,
     signs_and_cells_of_boundary_faces, cell_nodes, divergence(dim).
   A sparse matrix is the list of its stored entries (row, col, value):
     cell_faces : (face, cell, sign)      face_nodes : (node, face, value)
   listed in column-major order (column, then row) — the order scipy's COO conversion /
   sps.find produce for a canonical matrix.  Executable definitions only. *)
From Coq Require Import List ZArith Bool Arith.
Import ListNotations.
Open Scope Z_scope.

Definition ent := (Z * Z * Z)%type.
Definition e_r (e : ent) : Z := fst (fst e).   (* row    : face of cell_faces, node of face_nodes *)
Definition e_c (e : ent) : Z := snd (fst e).   (* column : cell of cell_faces, face of face_nodes *)
Definition e_v (e : ent) : Z := snd e.

Inductive err := ValueErr.
Inductive res (A : Type) := Ok (a : A) | Err (e : err).
Arguments Ok {A}. Arguments Err {A}.

Definition sumZ (l : list Z) : Z := fold_right Z.add 0 l.

(* ------------------------------------------------------------------------------------ *)
(* numpy item assignment  r[i] = x  (0 <= i < len r; other indices are excluded by the
   guards of the theorems: entries of a grid's incidence are in range) *)
Fixpoint upd (l : list Z) (i : nat) (x : Z) : list Z :=
  match l, i with
  | [], _ => []
  | _ :: r, O => x :: r
  | y :: r, S i' => y :: upd r i' x
  end.

(* cf_dense[row, fi[mask]] = ci[mask] : entries are written in order, last write wins *)
Definition fill (sel : Z -> bool) (cf : list ent) (init : list Z) : list Z :=
  fold_left (fun r e => if sel (e_v e) then upd r (Z.to_nat (e_r e)) (e_c e) else r) cf init.

(* cell_faces_as_dense : row 0 = cells with positive sign, row 1 = negative, -1 = none *)
Definition dense (nf : nat) (cf : list ent) : list Z * list Z :=
  if (nf =? 0)%nat then ([], [])                       (* np.zeros((2, 0)) *)
  else (fill (fun v => 0 <? v) cf (repeat (-1) nf),
        fill (fun v => v <? 0) cf (repeat (-1) nf)).

(* ------------------------------------------------------------------------------------ *)
(* number of stored entries in row f  = np.diff(cell_faces.tocsr().indptr)[f] *)
Definition cnt (cf : list ent) (f : Z) : nat :=
  length (filter (fun e => e_r e =? f) cf).

(* update_boundary_face_tag *)
Definition bnd_tag (dim : Z) (nf : nat) (cf : list ent) : list bool :=
  if 0 <? dim then map (fun f => (cnt cf (Z.of_nat f) =? 1)%nat) (seq 0 nf)
  else repeat false nf.

(* ------------------------------------------------------------------------------------ *)
(* cell_connection_map : c2c = |cf|^T * |cf| ; clip(.,0,1).astype(bool) *)
Definition conn_terms (cf : list ent) (i j : Z) : list Z :=
  flat_map (fun e1 =>
    if e_c e1 =? i then
      map (fun e2 => Z.abs (e_v e1) * Z.abs (e_v e2))
          (filter (fun e2 => (e_c e2 =? j) && (e_r e2 =? e_r e1)) cf)
    else []) cf.
Definition conn_val (cf : list ent) (i j : Z) : Z := sumZ (conn_terms cf i j).
Definition clip01 (x : Z) : Z := Z.min (Z.max x 0) 1.
Definition conn_true (cf : list ent) (i j : Z) : bool := negb (clip01 (conn_val cf i j) =? 0).
(* stored structure of the product *)
Definition conn_struct (cf : list ent) : list (Z * Z) :=
  flat_map (fun e1 => map (fun e2 => (e_c e1, e_c e2))
                          (filter (fun e2 => e_r e2 =? e_r e1) cf)) cf.

(* ------------------------------------------------------------------------------------ *)
(* cell_nodes : (face_nodes @ |cell_faces|) > 0 *)
Definition cn_terms (fn cf : list ent) (n c : Z) : list Z :=
  flat_map (fun a =>
    if e_r a =? n then
      map (fun e => e_v a * Z.abs (e_v e))
          (filter (fun e => (e_r e =? e_c a) && (e_c e =? c)) cf)
    else []) fn.
Definition cn_val (fn cf : list ent) (n c : Z) : Z := sumZ (cn_terms fn cf n c).
Definition cn_true (fn cf : list ent) (n c : Z) : bool := 0 <? cn_val fn cf n c.
Definition cn_struct (fn cf : list ent) : list (Z * Z) :=
  flat_map (fun a => map (fun e => (e_r a, e_c e))
                         (filter (fun e => e_r e =? e_c a) cf)) fn.

(* ------------------------------------------------------------------------------------ *)
(* np.argsort : stable insertion sort of (key, position) pairs by key.  (numpy's default
   sort is not stable; the outputs below do not depend on how ties are broken.) *)
Fixpoint ins (x : Z * nat) (l : list (Z * nat)) : list (Z * nat) :=
  match l with
  | [] => [x]
  | y :: r => if fst x <=? fst y then x :: l else y :: ins x r
  end.
Definition sortk (l : list (Z * nat)) : list (Z * nat) := fold_right ins [] l.
Definition argsort (l : list Z) : list nat :=
  map snd (sortk (combine l (seq 0 (length l)))).

(* x[p] *)
Definition take (x : list Z) (p : list nat) : list Z := map (fun i => nth i x 0) p.

(* row numbers k of the sliced matrix  cell_faces[sf, :]  that are copies of row f *)
Definition positions (f : Z) (sf : list Z) : list nat :=
  map snd (filter (fun p => fst p =? f) (combine sf (seq 0 (length sf)))).

(* stored entries (k, cell, sign) of  cell_faces[sf, :]  in COO (column-major) order *)
Definition slice_rows (cf : list ent) (sf : list Z) : list ent :=
  flat_map (fun e => map (fun k => (Z.of_nat k, e_c e, e_v e)) (positions (e_r e) sf)) cf.

(* signs_and_cells_of_boundary_faces *)
Definition signs_cells (cf : list ent) (faces : list Z) : res (list Z * list Z) :=
  let IA := argsort faces in
  let IC := argsort (map Z.of_nat IA) in
  let en := slice_rows cf (take faces IA) in
  if negb (length en =? length faces)%nat then Err ValueErr
  else
    let fs := argsort (map e_r en) in
    Ok (take (take (map e_v en) fs) IC, take (take (map e_c en) fs) IC).

(* ------------------------------------------------------------------------------------ *)
(* divergence(dim): dim = 1 -> cell_faces.T ; dim > 1 -> kron(cell_faces, eye(dim)).T ;
   kron(A, I)[f*dim + k, c*dim + k] = A[f, c] *)
Definition range (n : Z) : list Z := map Z.of_nat (seq 0 (Z.to_nat n)).
Definition divergence (cf : list ent) (dim : Z) : res (list ent) :=
  if dim =? 1 then Ok (map (fun e => (e_c e, e_r e, e_v e)) cf)
  else if 1 <? dim then
    Ok (flat_map (fun e => map (fun k => (e_c e * dim + k, e_r e * dim + k, e_v e * 1))
                               (range dim)) cf)
  else Err ValueErr.

(* dense semantics of a list of stored entries: duplicates add up *)
Definition entry (m : list ent) (r c : Z) : Z :=
  sumZ (map e_v (filter (fun e => (e_r e =? r) && (e_c e =? c)) m)).

(* ------------------------------------------------------------------------------------ *)
(* well-formed incidence, executable form (evaluated on every real grid in the tie) *)
Definition vals (cf : list ent) (f : Z) : list Z :=
  map e_v (filter (fun e => e_r e =? f) cf).

Definition eqb_lz (a b : list Z) : bool :=
  (length a =? length b)%nat && forallb (fun p => fst p =? snd p) (combine a b).

Fixpoint nodup_keys (l : list (Z * Z)) : bool :=
  match l with
  | [] => true
  | x :: r => negb (existsb (fun y => (fst x =? fst y) && (snd x =? snd y)) r) && nodup_keys r
  end.

Definition wf_b (nf nc : nat) (cf : list ent) : bool :=
  forallb (fun e => (0 <=? e_r e) && (e_r e <? Z.of_nat nf) &&
                    (0 <=? e_c e) && (e_c e <? Z.of_nat nc)) cf
  && forallb (fun f => let v := vals cf (Z.of_nat f) in
                       eqb_lz v [1] || eqb_lz v [-1] || eqb_lz v [1; -1] || eqb_lz v [-1; 1])
             (seq 0 nf)
  && nodup_keys (map (fun e => (e_r e, e_c e)) cf).

(* ------------------------------------------------------------------------------------ *)
(* comparison with the implementation's outputs (tie) *)
Definition eqb_lb (a b : list bool) : bool :=
  (length a =? length b)%nat && forallb (fun p => Bool.eqb (fst p) (snd p)) (combine a b).

Definition mem2 (p : Z * Z) (l : list (Z * Z)) : bool :=
  existsb (fun q => (fst p =? fst q) && (snd p =? snd q)) l.

Definition eqb_ent (a b : ent) : bool :=
  (e_r a =? e_r b) && (e_c a =? e_c b) && (e_v a =? e_v b).
Definition mem3 (p : ent) (l : list ent) : bool := existsb (eqb_ent p) l.

(* the set of coordinates where [tr] is true equals the list L; [st] over-approximates it *)
Definition set_agree (tr : Z -> Z -> bool) (st L : list (Z * Z)) : bool :=
  forallb (fun p => tr (fst p) (snd p)) L
  && forallb (fun p => implb (tr (fst p) (snd p)) (mem2 p L)) st.

Inductive sc_out := ScOk (sgn ci : list Z) | ScErr.
Inductive div_out := DivOk (m : list ent) | DivErr.

Definition agree (dimg : Z) (nf nc : nat) (cf fn : list ent) (faces : list Z) (ddim : Z)
           (o_dense : list Z * list Z) (o_conn : list (Z * Z)) (o_tag : list bool)
           (o_sc : sc_out) (o_cn : list (Z * Z)) (o_div : div_out) : bool :=
  let d := dense nf cf in
  eqb_lz (fst d) (fst o_dense) && eqb_lz (snd d) (snd o_dense)
  && set_agree (conn_true cf) (conn_struct cf) o_conn
  && eqb_lb (bnd_tag dimg nf cf) o_tag
  && match signs_cells cf faces, o_sc with
     | Ok (s, c), ScOk s' c' => eqb_lz s s' && eqb_lz c c'
     | Err ValueErr, ScErr => true
     | _, _ => false
     end
  && set_agree (cn_true fn cf) (cn_struct fn cf) o_cn
  && match divergence cf ddim, o_div with
     | Ok m, DivOk m' => (length m =? length m')%nat && forallb (fun e => mem3 e m') m
                         && forallb (fun e => mem3 e m) m'
     | Err ValueErr, DivErr => true
     | _, _ => false
     end.
