(* C11 / C13 — executable certificate for the hypothesis of Proofs/C11_inv.v: for the
   captured local matrix A (what the code hands to invert_diagonal_blocks: all interaction
   regions as diagonal blocks) and the matrix B the inverter returned, every row of
   B A - I has 1-norm <= 1/2, computed exactly with dyadic arithmetic.
   Executable definitions only. *)
From Coq Require Import List ZArith Bool Arith QArith.
Import ListNotations.
From PP Require Import Model.C11.
Local Open Scope nat_scope.

(* sparse rows: row r of a coordinate list as (column, value) pairs *)
Definition row_of (M : coo dyad) (r : nat) : list (nat * dyad) :=
  flat_map (fun t : nat * nat * dyad => if fst (fst t) =? r then [(snd (fst t), snd t)] else []) M.
Definition rows_of_mat (M : coo dyad) (n : nat) : list (list (nat * dyad)) :=
  map (row_of M) (seq 0 n).

(* acc[j] += v *)
Fixpoint acc_add (acc : list (nat * dyad)) (j : nat) (v : dyad) : list (nat * dyad) :=
  match acc with
  | [] => [(j, v)]
  | (k, w) :: rest => if k =? j then (k, dadd w v) :: rest else (k, w) :: acc_add rest j v
  end.

(* row i of B A: sum over the entries (k, b) of row i of B of b * (row k of A) *)
Definition prod_row (Arows : list (list (nat * dyad))) (Brow : list (nat * dyad)) : list (nat * dyad) :=
  fold_left (fun acc kb =>
               fold_left (fun acc' ja => acc_add acc' (fst ja) (dmul (snd kb) (snd ja)))
                         (nth (fst kb) Arows []) acc)
            Brow [].

(* 1-norm of row i of B A - I *)
Definition defect_row (i : nat) (p : list (nat * dyad)) : dyad :=
  let s := fold_right (fun jv acc => dadd (dabs (if fst jv =? i then dsub (snd jv) (1, 0)%Z
                                                     else snd jv)) acc) (0, 0)%Z p in
  if existsb (fun jv => fst jv =? i) p then s else dadd s (1, 0)%Z.

Definition half : dyad := (1, -1)%Z.

Definition inv_cert (n : nat) (A B : coo dyad) : bool :=
  let Arows := rows_of_mat A n in
  forallb (fun i => dleb (defect_row i (prod_row Arows (row_of B i))) half) (seq 0 n).

(* case term: sizes as announced, all indices in range, certificate *)
Definition in_range (n : nat) (M : coo dyad) : bool :=
  forallb (fun t : nat * nat * dyad => (fst (fst t) <? n) && (snd (fst t) <? n)) M.
Definition check_inv (n nnzA nnzB : Z) (la lb : list Z) : bool :=
  let A := of_dcoo la in let B := of_dcoo lb in let n' := Z.to_nat n in
  (0 <? n)%Z && (Z.of_nat (length la) =? nnzA)%Z && (Z.of_nat (length lb) =? nnzB)%Z
  && in_range n' A && in_range n' B && inv_cert n' A B.

(* diagnostics: the largest row defect *)
Definition diag_inv (n : Z) (la lb : list Z) : Q :=
  let A := of_dcoo la in let B := of_dcoo lb in let n' := Z.to_nat n in
  let Arows := rows_of_mat A n' in
  fold_right (fun i m => let d := dy (defect_row i (prod_row Arows (row_of B i))) in
                         if Qle_bool m d then d else m) 0%Q (seq 0 n').
