(* C01 — forward-mode AD: the RULE TABLE of porepy/numerics/ad/forward_mode.py (class
   AdArray) and porepy/numerics/ad/functions.py, transcribed branch by branch, as the code
   writes it (not as calculus would).

   Numbers are abstract (record [Ops T]); the same definitions are executed over Q in the
   per-run correspondence (instance [QOps], this file) and are the subject of the
   theorems over R (instance [ROps], Model/C01R.v).

   A dual number (val, der) stands for ONE entry of an AdArray: [val] is the entry of
   [.val]; [der] is the entry of [.jac @ v] for an arbitrary fixed direction v (row of the
   Jacobian applied to v).  With v a unit vector, der is one entry of the Jacobian row.
   Arrays are functions from the entry index to the entry (shape checks and the
   ValueError branches of the overloads are not modelled; lengths are predicted by
   [elen]).  Executable definitions only. *)
From Coq Require Import List ZArith QArith Qabs Bool Arith.
Import ListNotations.

(* numpy primitives that occur in the rule table *)
Inductive prim :=
| Pexp | Pln | Psin | Pcos | Ptan | Pasin | Pacos | Patan
| Psinh | Pcosh | Ptanh | Pasinh | Pacosh | Patanh | Psqrt.

Record Ops (T : Type) := mkOps {
  o0 : T; o1 : T;
  oadd : T -> T -> T; osub : T -> T -> T; omul : T -> T -> T; odiv : T -> T -> T;
  oopp : T -> T;
  opowz : T -> Z -> T;      (* numpy  x ** p  for an integer-valued float p *)
  orpow : T -> T -> T;      (* numpy  x ** y  for a positive base *)
  oofZ : Z -> T;
  oltb : T -> T -> bool;    (* a < b *)
  oprim : prim -> T -> T;   (* np.exp, np.log, np.sin, ... *)
  opi : T                   (* np.pi *)
}.

Arguments o0 {T}. Arguments o1 {T}. Arguments oadd {T}. Arguments osub {T}.
Arguments omul {T}. Arguments odiv {T}. Arguments oopp {T}. Arguments opowz {T}.
Arguments orpow {T}. Arguments oofZ {T}. Arguments oltb {T}. Arguments oprim {T}.
Arguments opi {T}.

(* exponent of a ** with a constant exponent: numpy's float power is modelled by the
   integer power when the exponent is integer-valued and by exp(p ln x) otherwise *)
Inductive pexp (T : Type) := PZ (n : Z) | PR (p : T).
Arguments PZ {T}. Arguments PR {T}.
(* constant operand: Python scalar or 1-d ndarray *)
Inductive cst (T : Type) := CS (s : T) | CA (a : list T).
Arguments CS {T}. Arguments CA {T}.
Inductive pcst (T : Type) := PS (p : pexp T) | PA (ps : list (pexp T)).
Arguments PS {T}. Arguments PA {T}.

(* functions.py (unary, elementwise) *)
Inductive fn (T : Type) :=
| Fexp | Flog | Fabs | Fsin | Fcos | Ftan | Farcsin | Farccos | Farctan
| Fsinh | Fcosh | Ftanh | Farcsinh | Farccosh | Farctanh
| Fheaviside (zerovalue : T)
| Fheaviside_smooth (eps : T)
| Fcharacteristic (tol : T).
Arguments Fexp {T}. Arguments Flog {T}. Arguments Fabs {T}. Arguments Fsin {T}.
Arguments Fcos {T}. Arguments Ftan {T}. Arguments Farcsin {T}. Arguments Farccos {T}.
Arguments Farctan {T}. Arguments Fsinh {T}. Arguments Fcosh {T}. Arguments Ftanh {T}.
Arguments Farcsinh {T}. Arguments Farccosh {T}. Arguments Farctanh {T}.
Arguments Fheaviside {T}. Arguments Fheaviside_smooth {T}. Arguments Fcharacteristic {T}.

(* expression trees, one constructor per overload / branch that can be reached *)
Inductive expr (T : Type) :=
| Var (k : nat)                          (* k-th array of initAdArrays *)
| Neg (e : expr T)                       (* __neg__ *)
| Add (e1 e2 : expr T)                   (* AdArray + AdArray *)
| Sub (e1 e2 : expr T)                   (* AdArray - AdArray = a.__add__(-b) *)
| Mul (e1 e2 : expr T)
| Div (e1 e2 : expr T)                   (* a.__mul__(b.__pow__(-1.0)) *)
| Pow (e1 e2 : expr T)                   (* AdArray ** AdArray *)
| RDiv (e1 e2 : expr T)                  (* e1.__rtruediv__(e2) = e2.__mul__(e1.__pow__(-1.0)) *)
| RPow (e1 e2 : expr T)                  (* e1.__rpow__(e2) = e2.__pow__(e1) *)
| AddK (e : expr T) (c : cst T)          (* a + c *)
| RAddK (e : expr T) (c : cst T)         (* c + a = a.__add__(c) *)
| SubK (e : expr T) (c : cst T)          (* a - c = a.__add__(-c) *)
| RSubK (e : expr T) (c : cst T)         (* c - a = -(a.__sub__(c)) *)
| MulK (e : expr T) (c : cst T)
| RMulK (e : expr T) (c : cst T)         (* c * a = a.__mul__(c) *)
| DivK (e : expr T) (c : cst T)
| RDivK (e : expr T) (c : cst T)         (* c / a = a.__pow__(-1.0) * c *)
| PowK (e : expr T) (p : pcst T)         (* a ** p *)
| RPowK (e : expr T) (c : cst T)         (* c ** a *)
| MatMul (A : list (list (nat * T))) (e : expr T)   (* sparse A @ a ; rows of (col, coeff) *)
| Slice (idx : list nat) (e : expr T)    (* a[key] : entry i of the result is entry idx[i] *)
| Fun (f : fn T) (e : expr T)
| L2 (dim : nat) (e : expr T)            (* l2_norm(dim, a) *)
| Max (e1 e2 : expr T)                   (* maximum(a, b) *)
| MaxKR (e : expr T) (c : cst T)         (* maximum(a, c) *)
| MaxKL (c : cst T) (e : expr T).        (* maximum(c, a) *)
Arguments Var {T}. Arguments Neg {T}. Arguments Add {T}. Arguments Sub {T}.
Arguments Mul {T}. Arguments Div {T}. Arguments Pow {T}. Arguments RDiv {T}.
Arguments RPow {T}. Arguments AddK {T}. Arguments RAddK {T}. Arguments SubK {T}.
Arguments RSubK {T}. Arguments MulK {T}. Arguments RMulK {T}. Arguments DivK {T}.
Arguments RDivK {T}. Arguments PowK {T}. Arguments RPowK {T}. Arguments MatMul {T}.
Arguments Slice {T}. Arguments Fun {T}. Arguments L2 {T}. Arguments Max {T}.
Arguments MaxKR {T}. Arguments MaxKL {T}.

Section Rules.
  Context {T : Type} (O : Ops T).

  Local Notation "a + b" := (oadd O a b).
  Local Notation "a - b" := (osub O a b).
  Local Notation "a * b" := (omul O a b).
  Local Notation "a / b" := (odiv O a b).
  Local Notation "- a" := (oopp O a).
  Local Notation "a <? b" := (oltb O a b).
  Local Notation zero := (@o0 T O).
  Local Notation one := (@o1 T O).
  Local Notation ofZ := (oofZ O).
  Local Notation powz := (opowz O).
  Local Notation rpow := (orpow O).
  Local Notation pr := (oprim O).

  Definition dual := (T * T)%type.

  (* ---------------------------------------------------------------- forward_mode.py *)
  (* __add__(AdArray):  AdArray(self.val + other.val, self.jac + other.jac) *)
  Definition d_add_ad (a b : dual) : dual := (fst a + fst b, snd a + snd b).
  (* __add__(float | ndarray):  AdArray(self.val + other, self.jac) *)
  Definition d_add_k (a : dual) (c : T) : dual := (fst a + c, snd a).
  (* __neg__:  val = -val ; jac = -jac *)
  Definition d_neg (a : dual) : dual := (- fst a, - snd a).
  (* __sub__:  self.__add__(-other) *)
  Definition d_sub_ad (a b : dual) : dual := d_add_ad a (d_neg b).
  Definition d_sub_k (a : dual) (c : T) : dual := d_add_k a (- c).
  (* __rsub__:  -self.__sub__(other) *)
  Definition d_rsub_k (a : dual) (c : T) : dual := d_neg (d_sub_k a c).
  (* __mul__(float):  AdArray(self.val * other, self.jac * other) *)
  Definition d_mul_s (a : dual) (c : T) : dual := (fst a * c, snd a * c).
  (* __mul__(ndarray):  AdArray(self.val * other, diags(other) * self.jac) *)
  Definition d_mul_a (a : dual) (c : T) : dual := (fst a * c, c * snd a).
  (* __mul__(AdArray):  val*val ; diags(other.val)*self.jac + diags(self.val)*other.jac *)
  Definition d_mul_ad (a b : dual) : dual :=
    (fst a * fst b, fst b * snd a + fst a * snd b).
  (* __pow__(float | ndarray), integer-valued exponent n:
       val ** n ;  diags(n * val ** (n - 1)) * jac *)
  Definition d_powz_k (a : dual) (n : Z) : dual :=
    (powz (fst a) n, (ofZ n * powz (fst a) (n - 1)) * snd a).
  (* same, non-integer exponent p *)
  Definition d_powr_k (a : dual) (p : T) : dual :=
    (rpow (fst a) p, (p * rpow (fst a) (p - one)) * snd a).
  Definition d_pow_k (a : dual) (p : pexp T) : dual :=
    match p with PZ n => d_powz_k a n | PR q => d_powr_k a q end.
  (* __pow__(AdArray):
       val = self.val ** other.val
       jac = diags(other.val * self.val ** (other.val - 1.0)) * self.jac
           + diags(self.val ** other.val * log(self.val)) * other.jac *)
  Definition d_pow_ad (a b : dual) : dual :=
    (rpow (fst a) (fst b),
     (fst b * rpow (fst a) (fst b - one)) * snd a
     + (rpow (fst a) (fst b) * pr Pln (fst a)) * snd b).
  (* __rpow__(float | ndarray):  other ** val ; diags(other ** val * log(other)) * jac *)
  Definition d_rpow_k (a : dual) (c : T) : dual :=
    (rpow c (fst a), (rpow c (fst a) * pr Pln c) * snd a).
  (* __truediv__(float):  val / other ; jac / other *)
  Definition d_div_s (a : dual) (c : T) : dual := (fst a / c, snd a / c).
  (* __truediv__(ndarray):  val * other ** (-1.0) ; diags(other ** (-1.0)) * jac *)
  Definition d_div_a (a : dual) (c : T) : dual :=
    (fst a * powz c (-1), powz c (-1) * snd a).
  (* __truediv__(AdArray):  self.__mul__(other.__pow__(-1.0)) *)
  Definition d_div_ad (a b : dual) : dual := d_mul_ad a (d_powz_k b (-1)).
  (* __rtruediv__(float | ndarray):  self.__pow__(-1.0) * other *)
  Definition d_rdiv_s (a : dual) (c : T) : dual := d_mul_s (d_powz_k a (-1)) c.
  Definition d_rdiv_a (a : dual) (c : T) : dual := d_mul_a (d_powz_k a (-1)) c.
  (* __rtruediv__(AdArray):  other.__mul__(self.__pow__(-1.0)) *)
  Definition d_rdiv_ad (a b : dual) : dual := d_mul_ad b (d_powz_k a (-1)).
  (* __rpow__(AdArray):  other.__pow__(self) *)
  Definition d_rpow_ad (a b : dual) : dual := d_pow_ad b a.

  (* __rmatmul__(sparse):  other @ val ; other @ jac   (one row) *)
  Definition lin_dual (row : list (nat * T)) (f : nat -> dual) : dual :=
    fold_right (fun ja acc => (snd ja * fst (f (fst ja)) + fst acc,
                               snd ja * snd (f (fst ja)) + snd acc)) (zero, zero) row.
  Definition lin_plain (row : list (nat * T)) (f : nat -> T) : T :=
    fold_right (fun ja acc => snd ja * f (fst ja) + acc) zero row.

  (* ---------------------------------------------------------------- functions.py *)
  Definition half : T := one / ofZ 2.
  Definition np_abs (x : T) : T := if x <? zero then - x else x.
  Definition np_sign (x : T) : T :=
    if zero <? x then one else if x <? zero then - one else zero.
  Definition np_heaviside (x z : T) : T :=
    if x <? zero then zero else if zero <? x then one else z.
  (* np.isclose(x, 0, atol=tol):  |x - 0| <= tol + rtol * |0| *)
  Definition np_isclose0 (x tol : T) : T :=
    if tol <? np_abs x then zero else one.

  (* value: what the code puts into .val (the same numpy call as the non-AD branch) *)
  Definition fval (f : fn T) (x : T) : T :=
    match f with
    | Fexp => pr Pexp x
    | Flog => pr Pln x
    | Fabs => np_abs x
    | Fsin => pr Psin x
    | Fcos => pr Pcos x
    | Ftan => pr Ptan x
    | Farcsin => pr Pasin x
    | Farccos => pr Pacos x
    | Farctan => pr Patan x
    | Fsinh => pr Psinh x
    | Fcosh => pr Pcosh x
    | Ftanh => pr Ptanh x
    | Farcsinh => pr Pasinh x
    | Farccosh => pr Pacosh x
    | Farctanh => pr Patanh x
    | Fheaviside z => np_heaviside x z
    | Fheaviside_smooth eps =>
        (* 0.5 * (1 + 2 * np.pi ** (-1) * np.arctan(var.val * eps ** (-1))) *)
        half * (one + ofZ 2 * powz (opi O) (-1) * pr Patan (x * powz eps (-1)))
    | Fcharacteristic tol => np_isclose0 x tol
    end.

  (* factor d such that the code computes  jac = diags(d) * var.jac *)
  Definition ffac (f : fn T) (x : T) : T :=
    match f with
    | Fexp => pr Pexp x                              (* np.exp(var.val) *)
    | Flog => one / x                                (* 1 / var.val *)
    | Fabs => np_sign x                              (* np.sign(var.val) *)
    | Fsin => pr Pcos x                              (* np.cos(var.val) *)
    | Fcos => - pr Psin x                            (* -np.sin(var.val) *)
    | Ftan => powz (powz (pr Pcos x) 2) (-1)         (* (np.cos(var.val) ** 2) ** (-1) *)
    | Farcsin => rpow (one - powz x 2) (- half)      (* (1 - var.val**2) ** (-0.5) *)
    | Farccos => - rpow (one - powz x 2) (- half)    (* -((1 - var.val**2) ** (-0.5)) *)
    | Farctan => powz (powz x 2 + one) (-1)          (* (var.val**2 + 1) ** (-1) *)
    | Fsinh => pr Pcosh x                            (* np.cosh(var.val) *)
    | Fcosh => pr Psinh x                            (* np.sinh(var.val) *)
    | Ftanh => powz (pr Pcosh x) (-2)                (* np.cosh(var.val) ** (-2) *)
    | Farcsinh => rpow (powz x 2 + one) (- half)     (* (var.val**2 + 1) ** (-0.5) *)
    | Farccosh =>                                    (* (val-1)**(-0.5) * (val+1)**(-0.5) *)
        rpow (x - one) (- half) * rpow (x + one) (- half)
    | Farctanh => powz (one - powz x 2) (-1)         (* (1 - var.val**2) ** (-1) *)
    | Fheaviside _ => zero                           (* zero Jacobian *)
    | Fheaviside_smooth eps =>
        (* np.pi ** (-1) * eps * (eps**2 + var.val**2) ** (-1) *)
        powz (opi O) (-1) * eps * powz (powz eps 2 + powz x 2) (-1)
    | Fcharacteristic _ => zero                      (* zero Jacobian *)
    end.

  Definition d_fun (f : fn T) (a : dual) : dual := (fval f (fst a), ffac f (fst a) * snd a).

  (* maximum(var_0, var_1): inds = var_1 > var_0 ; value and Jacobian row from var_1 on
     inds, from var_0 elsewhere (also at ties); constants carry a zero Jacobian *)
  Definition d_max (a b : dual) : dual := if fst a <? fst b then b else a.

  (* l2_norm(dim, var) for one block (dim > 1):
       vals = norm(block) ; jac row = sum_k (block_k / vals if vals > 1e-12 else 1) * jac_k *)
  Definition l2_tol : T := one / ofZ 1000000000000.
  Definition sumsq (blk : list T) : T := fold_right (fun a acc => a * a + acc) zero blk.
  Definition l2_val (blk : list T) : T := pr Psqrt (sumsq blk).
  Definition l2_dual (blk : list dual) : dual :=
    let nrm := l2_val (map fst blk) in
    (nrm,
     fold_right (fun a acc => (if l2_tol <? nrm then fst a / nrm else one) * snd a + acc)
                zero blk).

  (* ---------------------------------------------------------------- trees *)
  Definition env := nat -> nat -> T.            (* variable k, entry i *)

  Definition cget (c : cst T) (i : nat) : T :=
    match c with CS s => s | CA a => nth i a zero end.
  Definition pget (p : pcst T) (i : nat) : pexp T :=
    match p with PS q => q | PA qs => nth i qs (PZ 1) end.

  Definition block {A} (dim i : nat) (f : nat -> A) : list A :=
    map (fun k => f (Nat.add (Nat.mul i dim) k)) (seq 0 dim).

  (* the AdArray the implementation builds: entry i as (val_i, (jac @ v)_i) *)
  Fixpoint eval_ad (e : expr T) (x v : env) (i : nat) : dual :=
    match e with
    | Var k => (x k i, v k i)
    | Neg e => d_neg (eval_ad e x v i)
    | Add e1 e2 => d_add_ad (eval_ad e1 x v i) (eval_ad e2 x v i)
    | Sub e1 e2 => d_sub_ad (eval_ad e1 x v i) (eval_ad e2 x v i)
    | Mul e1 e2 => d_mul_ad (eval_ad e1 x v i) (eval_ad e2 x v i)
    | Div e1 e2 => d_div_ad (eval_ad e1 x v i) (eval_ad e2 x v i)
    | Pow e1 e2 => d_pow_ad (eval_ad e1 x v i) (eval_ad e2 x v i)
    | RDiv e1 e2 => d_rdiv_ad (eval_ad e1 x v i) (eval_ad e2 x v i)
    | RPow e1 e2 => d_rpow_ad (eval_ad e1 x v i) (eval_ad e2 x v i)
    | AddK e c => d_add_k (eval_ad e x v i) (cget c i)
    | RAddK e c => d_add_k (eval_ad e x v i) (cget c i)
    | SubK e c => d_sub_k (eval_ad e x v i) (cget c i)
    | RSubK e c => d_rsub_k (eval_ad e x v i) (cget c i)
    | MulK e c | RMulK e c =>
        match c with
        | CS s => d_mul_s (eval_ad e x v i) s
        | CA a => d_mul_a (eval_ad e x v i) (nth i a zero)
        end
    | DivK e c =>
        match c with
        | CS s => d_div_s (eval_ad e x v i) s
        | CA a => d_div_a (eval_ad e x v i) (nth i a zero)
        end
    | RDivK e c =>
        match c with
        | CS s => d_rdiv_s (eval_ad e x v i) s
        | CA a => d_rdiv_a (eval_ad e x v i) (nth i a zero)
        end
    | PowK e p => d_pow_k (eval_ad e x v i) (pget p i)
    | RPowK e c => d_rpow_k (eval_ad e x v i) (cget c i)
    | MatMul A e => lin_dual (nth i A []) (eval_ad e x v)
    | Slice idx e => eval_ad e x v (nth i idx 0%nat)
    | Fun f e => d_fun f (eval_ad e x v i)
    | L2 dim e =>
        if Nat.eqb dim 1 then d_fun Fabs (eval_ad e x v i)
        else l2_dual (block dim i (eval_ad e x v))
    | Max e1 e2 => d_max (eval_ad e1 x v i) (eval_ad e2 x v i)
    | MaxKR e c => d_max (eval_ad e x v i) (cget c i, zero)
    | MaxKL c e => d_max (cget c i, zero) (eval_ad e x v i)
    end.

  (* the plain numpy evaluation of the same expression (what the property compares with) *)
  Definition pow_plain (a : T) (p : pexp T) : T :=
    match p with PZ n => powz a n | PR q => rpow a q end.
  Definition max_plain (a b : T) : T := if a <? b then b else a.

  Fixpoint eval_plain (e : expr T) (x : env) (i : nat) : T :=
    match e with
    | Var k => x k i
    | Neg e => - eval_plain e x i
    | Add e1 e2 => eval_plain e1 x i + eval_plain e2 x i
    | Sub e1 e2 => eval_plain e1 x i - eval_plain e2 x i
    | Mul e1 e2 => eval_plain e1 x i * eval_plain e2 x i
    | Div e1 e2 => eval_plain e1 x i / eval_plain e2 x i
    | Pow e1 e2 => rpow (eval_plain e1 x i) (eval_plain e2 x i)
    | RDiv e1 e2 => eval_plain e2 x i / eval_plain e1 x i
    | RPow e1 e2 => rpow (eval_plain e2 x i) (eval_plain e1 x i)
    | AddK e c => eval_plain e x i + cget c i
    | RAddK e c => cget c i + eval_plain e x i
    | SubK e c => eval_plain e x i - cget c i
    | RSubK e c => cget c i - eval_plain e x i
    | MulK e c => eval_plain e x i * cget c i
    | RMulK e c => cget c i * eval_plain e x i
    | DivK e c => eval_plain e x i / cget c i
    | RDivK e c => cget c i / eval_plain e x i
    | PowK e p => pow_plain (eval_plain e x i) (pget p i)
    | RPowK e c => rpow (cget c i) (eval_plain e x i)
    | MatMul A e => lin_plain (nth i A []) (eval_plain e x)
    | Slice idx e => eval_plain e x (nth i idx 0%nat)
    | Fun f e => fval f (eval_plain e x i)
    | L2 dim e =>
        if Nat.eqb dim 1 then np_abs (eval_plain e x i)
        else l2_val (block dim i (eval_plain e x))
    | Max e1 e2 => max_plain (eval_plain e1 x i) (eval_plain e2 x i)
    | MaxKR e c => max_plain (eval_plain e x i) (cget c i)
    | MaxKL c e => max_plain (cget c i) (eval_plain e x i)
    end.

  (* length of the result array *)
  Fixpoint elen (e : expr T) (size : nat -> nat) : nat :=
    match e with
    | Var k => size k
    | Neg e | AddK e _ | RAddK e _ | SubK e _ | RSubK e _ | MulK e _ | RMulK e _
    | DivK e _ | RDivK e _ | PowK e _ | RPowK e _ | Fun _ e | MaxKR e _ | MaxKL _ e =>
        elen e size
    | Add e1 _ | Sub e1 _ | Mul e1 _ | Div e1 _ | Pow e1 _ | RDiv e1 _ | RPow e1 _
    | Max e1 _ => elen e1 size
    | MatMul A _ => length A
    | Slice idx _ => length idx
    | L2 dim e => Nat.div (elen e size) dim
    end.
End Rules.

(* -------------------------------------------------------------------- execution over Q *)
Definition Qltb (a b : Q) : bool := negb (Qle_bool b a).

Definition QOps : Ops Q :=
  mkOps Q 0%Q 1%Q
    (fun a b => Qred (a + b)) (fun a b => Qred (a - b)) (fun a b => Qred (a * b))
    (fun a b => Qred (a / b)) (fun a => Qred (- a))
    (fun a n => Qred (Qpower a n))
    (fun _ _ => 0%Q)              (* non-integer powers: not executed over Q *)
    inject_Z Qltb
    (fun _ _ => 0%Q)              (* transcendental primitives: not executed over Q *)
    0%Q.

Definition envQ (xs : list (list Q)) : env (T:=Q) := fun k i => nth i (nth k xs []) 0%Q.
Definition unit_env (k0 i0 : nat) : env (T:=Q) :=
  fun k i => if Nat.eqb k k0 && Nat.eqb i i0 then 1%Q else 0%Q.

(* Jacobian columns in the order of initAdArrays: variable 0 entries, variable 1, ... *)
Fixpoint cols_from (k : nat) (sizes : list nat) : list (nat * nat) :=
  match sizes with
  | [] => []
  | n :: r => map (pair k) (seq 0 n) ++ cols_from (S k) r
  end.

(* |impl - model| <= 1e-9 (1 + |model|) *)
Definition close (m b : Q) : bool :=
  Qle_bool (Qabs (b - m)) ((1 # 1000000000) * (1 + Qabs m)).

(* the model reproduces the implementation's  .val  and dense  .jac  on this tree *)
Definition agree (e : expr Q) (xs : list (list Q)) (val : list Q) (jac : list (list Q))
  : bool :=
  let x := envQ xs in
  let cs := cols_from 0 (map (@length Q) xs) in
  Nat.eqb (elen e (fun k => length (nth k xs []))) (length val)
  && Nat.eqb (length jac) (length val)
  && forallb
       (fun ivr =>
          let i := fst ivr in
          let vi := fst (snd ivr) in
          let row := snd (snd ivr) in
          Nat.eqb (length row) (length cs)
          && close (fst (eval_ad QOps e x (unit_env 0 0) i)) vi
          && forallb
               (fun cj =>
                  close (snd (eval_ad QOps e x (unit_env (fst (fst cj)) (snd (fst cj))) i))
                        (snd cj))
               (combine cs row))
       (combine (seq 0 (length val)) (combine val jac)).

(* diagnostics: model output *)
Definition model_out (e : expr Q) (xs : list (list Q)) (n : nat)
  : list (Q * list Q) :=
  let x := envQ xs in
  let cs := cols_from 0 (map (@length Q) xs) in
  map (fun i => (fst (eval_ad QOps e x (unit_env 0 0) i),
                 map (fun c => snd (eval_ad QOps e x (unit_env (fst c) (snd c)) i)) cs))
      (seq 0 n).
