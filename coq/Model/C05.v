(* C05 — degree-of-freedom layout of pp.ad.EquationSystem.
   Transcribes porepy/numerics/ad/equation_system.py: create_variables, remove_variables,
   _append_dofs, _cluster_dofs_gridwise, _parse_variable_type, num_dofs, dofs_of,
   identify_dof, projection_to, set_variable_values, get_variable_values (storage index 0
   of pp.ITERATE_SOLUTIONS / pp.TIME_STEP_SOLUTIONS through ad_utils.set/get_solution_values).
   Executable definitions only.

   Inputs from the md-grid: the numbers of cells/faces/nodes of the subdomains in the order
   of mdg.subdomains() and the numbers of cells of the interfaces in the order of
   mdg.interfaces().  A grid is referred to by its position in these lists. *)
From Coq Require Import List ZArith Bool Arith.
Import ListNotations.

Inductive err := KeyErr | ValueErr | AssertErr | IndexErr.

Record mdgrid := { sds : list (nat * nat * nat);    (* num_cells, num_faces, num_nodes *)
                   intfs : list nat }.               (* num_cells of the mortar grids *)

Inductive dom := Sd (i : nat) | Intf (i : nat).

Definition dom_eqb (a b : dom) : bool :=
  match a, b with
  | Sd i, Sd j => Nat.eqb i j
  | Intf i, Intf j => Nat.eqb i j
  | _, _ => false
  end.

(* a pp.ad.Variable: id (creation counter), name, domain; dof_info lives in
   _variable_dof_type[id] *)
Record var := { vid : nat; vname : nat; vdom : dom; vdof : nat * nat * nat }.

(* storage location of values: data[loc][name][0] in the data dictionary of a grid *)
Inductive loc := LIter | LTs.
Definition loc_eqb (a b : loc) : bool :=
  match a, b with LIter, LIter => true | LTs, LTs => true | _, _ => false end.

Definition skey := (loc * nat * dom)%type.      (* location, variable name, grid *)
Definition skey_eqb (a b : skey) : bool :=
  let '(la, na, da) := a in let '(lb, nb, db) := b in
  loc_eqb la lb && Nat.eqb na nb && dom_eqb da db.

Record st := {
  vars : list var;              (* _variables, in insertion (= creation) order *)
  numbers : list (nat * nat);   (* _variable_numbers: id -> block number, dict order *)
  sizes : list nat;             (* _variable_num_dofs, indexed by block number *)
  next_id : nat;                (* number of Variable objects created so far *)
  store : list (skey * list Z)  (* the values held in the grids' data dictionaries *)
}.

Definition init : st :=
  {| vars := []; numbers := []; sizes := []; next_id := 0; store := [] |}.

(* ---------------- small dictionaries ---------------- *)
Fixpoint lookup (d : list (nat * nat)) (k : nat) : option nat :=
  match d with
  | [] => None
  | (k', v) :: r => if Nat.eqb k' k then Some v else lookup r k
  end.

Definition dict_pop (d : list (nat * nat)) (k : nat) : list (nat * nat) :=
  filter (fun kv => negb (Nat.eqb (fst kv) k)) d.

Fixpoint slookup (d : list (skey * list Z)) (k : skey) : option (list Z) :=
  match d with
  | [] => None
  | (k', v) :: r => if skey_eqb k' k then Some v else slookup r k
  end.

Fixpoint supdate (d : list (skey * list Z)) (k : skey) (v : list Z) : list (skey * list Z) :=
  match d with
  | [] => [(k, v)]
  | (k', v') :: r => if skey_eqb k' k then (k', v) :: r else (k', v') :: supdate r k v
  end.

(* ---------------- _append_dofs ---------------- *)
Definition ndof (g : mdgrid) (d : dom) (dof : nat * nat * nat) : nat :=
  let '(c, f, n) := dof in
  match d with
  | Sd i => let '(nc, nf, nn) := nth i (sds g) (0, 0, 0) in nc * c + (nf * f + nn * n)
  | Intf i => nth i (intfs g) 0 * c
  end.

Definition append_dofs (g : mdgrid) (s : st) (v : var) : st :=
  {| vars := vars s;
     numbers := numbers s ++ [(vid v, length (numbers s))];
     sizes := sizes s ++ [ndof g (vdom v) (vdof v)];
     next_id := next_id s; store := store s |}.

(* ---------------- _cluster_dofs_gridwise ---------------- *)
(* accumulator: new_variable_counter, new_variable_numbers, new_block_dofs *)
Definition cacc := (nat * list (nat * nat) * list nat)%type.

(* the inner loop  for id_, variable in self._variables.items(): if variable.domain == grid *)
Fixpoint cluster_grid (d : dom) (vs : list var) (nums : list (nat * nat)) (szs : list nat)
         (acc : cacc) : cacc + err :=
  match vs with
  | [] => inl acc
  | v :: r =>
      if dom_eqb (vdom v) d then
        match lookup nums (vid v) with
        | None => inr KeyErr
        | Some k =>
            match nth_error szs k with
            | None => inr IndexErr
            | Some local_dofs =>
                let '(cnt, nn, bs) := acc in
                cluster_grid d r nums szs (S cnt, nn ++ [(vid v, cnt)], bs ++ [local_dofs])
            end
        end
      else cluster_grid d r nums szs acc
  end.

Fixpoint cluster_grids (ds : list dom) (vs : list var) (nums : list (nat * nat))
         (szs : list nat) (acc : cacc) : cacc + err :=
  match ds with
  | [] => inl acc
  | d :: r =>
      match cluster_grid d vs nums szs acc with
      | inr e => inr e
      | inl acc' => cluster_grids r vs nums szs acc'
      end
  end.

Definition grid_order (g : mdgrid) : list dom :=
  map Sd (seq 0 (length (sds g))) ++ map Intf (seq 0 (length (intfs g))).

Definition cluster (g : mdgrid) (s : st) : st + err :=
  match cluster_grids (grid_order g) (vars s) (numbers s) (sizes s) (0, [], []) with
  | inr e => inr e
  | inl (_, nn, bs) =>
      inl {| vars := vars s; numbers := nn; sizes := bs;
             next_id := next_id s; store := store s |}
  end.

(* ---------------- _parse_variable_type ---------------- *)
Inductive vref :=
| ById (id : nat)            (* a Variable object *)
| ByName (name : nat)        (* a string *)
| ByMd (ids : list nat).     (* a MixedDimensionalVariable: its sub_vars *)

(* None | list *)
Definition refs := option (list vref).

Definition parse1 (s : st) (r : vref) : list nat :=
  match r with
  | ById id => [id]
  | ByName n => map vid (filter (fun v => Nat.eqb (vname v) n) (vars s))
  | ByMd ids => ids
  end.

Definition parse (s : st) (r : refs) : list nat :=
  match r with
  | None => map vid (vars s)
  | Some l => flat_map (parse1 s) l
  end.

Definition memb (x : nat) (l : list nat) : bool := existsb (Nat.eqb x) l.

(* ---------------- create_variables ---------------- *)
Fixpoint create_loop (g : mdgrid) (s : st) (name : nat) (dof : nat * nat * nat)
         (grids : list dom) : st :=
  match grids with
  | [] => s
  | d :: r =>
      let v := {| vid := next_id s; vname := name; vdom := d; vdof := dof |} in
      let s1 := {| vars := vars s ++ [v]; numbers := numbers s; sizes := sizes s;
                   next_id := S (next_id s); store := store s |} in
      create_loop g (append_dofs g s1 v) name dof r
  end.

Inductive out :=
| ODone
| OCreated (ids : list nat)
| OIdx (l : list nat)
| OVarId (id : nat)
| OProjM (cols : list nat) (ncols : nat)  (* row i has its single entry 1 in column cols[i] *)
| OVals (l : list Z)
| ONumDofs (n : nat)
| OSnap (n : nat) (dofs : list (option (list nat))) (owners : list (option nat))
        (below above : bool)
| OErr (e : err).

(* len(set(grids)) == len(grids) *)
Fixpoint nodup_doms (l : list dom) : bool :=
  match l with
  | [] => true
  | d :: r => negb (existsb (dom_eqb d) r) && nodup_doms r
  end.

Definition create (g : mdgrid) (s : st) (name : nat) (dof : option (nat * nat * nat))
           (badkey : bool) (sub intf : option (list nat)) : st * out :=
  let dof := match dof with None => (1, 0, 0) | Some d => d end in
  if badkey then (s, OErr ValueErr) else
  match sub, intf with
  | None, None => (s, OErr ValueErr)
  | Some _, Some _ => (s, OErr ValueErr)
  | _, _ =>
      let grids := match sub, intf with
                   | Some l, _ => map Sd l
                   | _, Some l => map Intf l
                   | _, _ => [] end in
      if negb (nodup_doms grids) then (s, OErr ValueErr) else
      if existsb (fun v => Nat.eqb (vname v) name && existsb (dom_eqb (vdom v)) grids) (vars s)
      then (s, OErr KeyErr)
      else
        let s1 := create_loop g s name dof grids in
        let ids := seq (next_id s) (length grids) in
        match cluster g s1 with
        | inr e => (s1, OErr e)
        | inl s2 => (s2, OCreated ids)
        end
  end.

(* ---------------- remove_variables ---------------- *)
Definition remove1 (s : st) (id : nat) : st :=
  {| vars := filter (fun v => negb (Nat.eqb (vid v) id)) (vars s);
     numbers := dict_pop (numbers s) id;
     sizes := sizes s; next_id := next_id s; store := store s |}.

Fixpoint remove_loop (g : mdgrid) (s : st) (ids : list nat) : st * out :=
  match ids with
  | [] => (s, ODone)
  | id :: r =>
      if memb id (map vid (vars s)) then
        match lookup (numbers s) id with
        | None => (* _variable_numbers.pop raises after _variables was changed *)
            ({| vars := filter (fun v => negb (Nat.eqb (vid v) id)) (vars s);
                numbers := numbers s; sizes := sizes s; next_id := next_id s;
                store := store s |}, OErr KeyErr)
        | Some _ =>
            match cluster g (remove1 s id) with
            | inr e => (remove1 s id, OErr e)
            | inl s' => remove_loop g s' r
            end
        end
      else (s, OErr ValueErr)
  end.

(* ---------------- num_dofs, dofs_of, identify_dof, projection_to ---------------- *)
Definition num_dofs (s : st) : nat := fold_right Nat.add 0 (sizes s).

Fixpoint cumsum_from (a : nat) (l : list nat) : list nat :=
  match l with [] => [] | x :: r => (a + x) :: cumsum_from (a + x) r end.

(* np.hstack((0, np.cumsum(self._variable_num_dofs))) *)
Definition gvd (s : st) : list nat := 0 :: cumsum_from 0 (sizes s).

Definition arange (a b : nat) : list nat := seq a (b - a).

(* The ValueError message of dofs_of formats the system with __str__, which asserts that
   all variables of one name live on the same kind of grid (subdomains or interfaces). *)
Definition is_sd (d : dom) : bool := match d with Sd _ => true | Intf _ => false end.
Definition str_asserts (s : st) : bool :=
  existsb (fun v => existsb (fun w => Nat.eqb (vname v) (vname w) &&
                                      negb (Bool.eqb (is_sd (vdom v)) (is_sd (vdom w))))
                            (vars s)) (vars s).
Definition unknown_variable_error (s : st) : err :=
  if str_asserts s then AssertErr else ValueErr.

Fixpoint dofs_loop (s : st) (ids : list nat) : list nat + err :=
  match ids with
  | [] => inl []
  | id :: r =>
      match lookup (numbers s) id with
      | None => inr (unknown_variable_error s)
      | Some k =>
          match nth_error (gvd s) k, nth_error (gvd s) (S k) with
          | Some a, Some b =>
              match dofs_loop s r with
              | inr e => inr e
              | inl rest => inl (arange a b ++ rest)
              end
          | _, _ => inr IndexErr
          end
      end
  end.

Definition dofs_of (s : st) (r : refs) : list nat + err := dofs_loop s (parse s r).

(* np.argmax of a boolean array: first True, 0 if there is none *)
Fixpoint argmax_true (l : list bool) : nat :=
  match l with
  | [] => 0
  | true :: _ => 0
  | false :: r => if existsb (fun b => b) r then S (argmax_true r) else 0
  end.

Definition identify_dof (s : st) (dof : Z) : out :=
  if (0 <=? dof)%Z && (dof <? Z.of_nat (num_dofs s))%Z then
    let variable_number :=
      (Z.of_nat (argmax_true (map (fun x => (dof <? Z.of_nat x)%Z) (gvd s))) - 1)%Z in
    match filter (fun kv => (Z.of_nat (snd kv) =? variable_number)%Z) (numbers s) with
    | [(id, _)] =>
        match filter (fun v => Nat.eqb (vid v) id) (vars s) with
        | [v] => OVarId (vid v)
        | _ => OErr AssertErr
        end
    | _ => OErr AssertErr
    end
  else OErr KeyErr.

(* np.sort *)
Fixpoint insert (x : nat) (l : list nat) : list nat :=
  match l with
  | [] => [x]
  | y :: r => if x <=? y then x :: l else y :: insert x r
  end.
Fixpoint sort (l : list nat) : list nat :=
  match l with [] => [] | x :: r => insert x (sort r) end.

Definition truthy (r : refs) : bool :=
  match r with None => false | Some [] => false | Some _ => true end.

Definition projection_to (s : st) (r : refs) : out :=
  if truthy r then
    match dofs_of s r with
    | inr e => OErr e
    | inl idx => OProjM (sort idx) (num_dofs s)
    end
  else OProjM [] (num_dofs s).

(* the matrix-vector product with the projection (reference semantics of OProjM) *)
Definition proj_apply (cols : list nat) (x : list Z) : list Z := map (fun c => nth c x 0%Z) cols.

(* ---------------- set_variable_values / get_variable_values ---------------- *)
(* which indices are passed: iterate_index=0, time_step_index=0 or both *)
Inductive wloc := WIter | WTs | WBoth.
Definition wlocs (w : wloc) : list loc :=
  match w with WIter => [LIter] | WTs => [LTs] | WBoth => [LIter; LTs] end.

(* numpy  a += v  on 1-d arrays: equal shapes, or v of size 1 broadcast *)
Definition np_iadd (a v : list Z) : option (list Z) :=
  if Nat.eqb (length v) (length a) then
    Some (map (fun p => (fst p + snd p)%Z) (combine a v))
  else match v with
       | [c] => Some (map (fun x => (x + c)%Z) a)
       | _ => None
       end.

(* ad_utils.set_solution_values for index 0 *)
Fixpoint set_solution (sto : list (skey * list Z)) (ls : list loc) (name : nat) (d : dom)
         (v : list Z) (additive : bool) : list (skey * list Z) * option err :=
  match ls with
  | [] => (sto, None)
  | l :: r =>
      if additive then
        match slookup sto (l, name, d) with
        | None => (sto, Some ValueErr)
        | Some a =>
            match np_iadd a v with
            | None => (sto, Some ValueErr)
            | Some a' => set_solution (supdate sto (l, name, d) a') r name d v additive
            end
        end
      else set_solution (supdate sto (l, name, d) v) r name d v additive
  end.

Definition find_var (s : st) (id : nat) : option var :=
  find (fun v => Nat.eqb (vid v) id) (vars s).

(* values[a:b] *)
Definition slice (x : list Z) (a b : nat) : list Z := firstn (b - a) (skipn a x).

(* the loop over self._variable_numbers.items(); returns store, dof_end, error *)
Fixpoint set_loop (s : st) (items : list (nat * nat)) (var_ids : list nat) (values : list Z)
         (w : wloc) (additive : bool) (dof_start dof_end : nat) (sto : list (skey * list Z))
  : list (skey * list Z) * nat * option err :=
  match items with
  | [] => (sto, dof_end, None)
  | (id, number) :: r =>
      if memb id var_ids then
        match nth_error (sizes s) number with
        | None => (sto, dof_end, Some IndexErr)
        | Some n =>
            let dof_end := dof_start + n in
            let local_vec := slice values dof_start dof_end in
            match find_var s id with
            | None => (sto, dof_end, Some KeyErr)
            | Some v =>
                match set_solution sto (wlocs w) (vname v) (vdom v) local_vec additive with
                | (sto', Some e) => (sto', dof_end, Some e)
                | (sto', None) =>
                    set_loop s r var_ids values w additive dof_end dof_end sto'
                end
            end
        end
      else set_loop s r var_ids values w additive dof_start dof_end sto
  end.

Definition with_store (s : st) (sto : list (skey * list Z)) : st :=
  {| vars := vars s; numbers := numbers s; sizes := sizes s; next_id := next_id s;
     store := sto |}.

Definition set_values (s : st) (r : refs) (values : list Z) (w : wloc) (additive : bool)
  : st * out :=
  match set_loop s (numbers s) (parse s r) values w additive 0 0 (store s) with
  | (sto, _, Some e) => (with_store s sto, OErr e)
  | (sto, dof_end, None) =>
      (with_store s sto, if Nat.eqb dof_end (length values) then ODone else OErr AssertErr)
  end.

Fixpoint get_loop (s : st) (items : list (nat * nat)) (var_ids : list nat) (l : loc)
  : list Z + err :=
  match items with
  | [] => inl []
  | (id, _) :: r =>
      if memb id var_ids then
        match find_var s id with
        | None => inr KeyErr
        | Some v =>
            match slookup (store s) (l, vname v, vdom v) with
            | None => inr KeyErr
            | Some a =>
                match get_loop s r var_ids l with
                | inr e => inr e
                | inl rest => inl (a ++ rest)
                end
            end
        end
      else get_loop s r var_ids l
  end.

Definition get_values (s : st) (r : refs) (l : loc) : out :=
  match get_loop s (numbers s) (parse s r) l with
  | inl v => OVals v
  | inr e => OErr e
  end.

(* ---------------- operations ---------------- *)
Inductive op :=
| OpCreate (name : nat) (dof : option (nat * nat * nat)) (badkey : bool)
           (sub intf : option (list nat))
| OpRemove (r : refs)
| OpSet (r : refs) (values : list Z) (w : wloc) (additive : bool)
| OpGet (r : refs) (l : loc)
| OpDofs (r : refs)
| OpIdent (dof : Z)
| OpProj (r : refs)
| OpNum
| OpSnap.     (* num_dofs, dofs_of([v]) for every Variable object created so far,
                 identify_dof(i) for every i in 0..num_dofs-1, and whether -1 / num_dofs
                 are rejected with KeyError *)

Definition dofs_out (s : st) (r : refs) : out :=
  match dofs_of s r with inl l => OIdx l | inr e => OErr e end.

Definition is_keyerr (o : out) : bool := match o with OErr KeyErr => true | _ => false end.

Definition snapshot (s : st) : out :=
  let n := num_dofs s in
  OSnap n
        (map (fun id => match dofs_of s (Some [ById id]) with
                        | inl l => Some l | inr _ => None end) (seq 0 (next_id s)))
        (map (fun i => match identify_dof s (Z.of_nat i) with
                       | OVarId id => Some id | _ => None end) (seq 0 n))
        (is_keyerr (identify_dof s (-1)%Z))
        (is_keyerr (identify_dof s (Z.of_nat n))).

Definition step (g : mdgrid) (s : st) (o : op) : st * out :=
  match o with
  | OpCreate name dof badkey sub intf => create g s name dof badkey sub intf
  | OpRemove r => remove_loop g s (parse s r)
  | OpSet r values w additive => set_values s r values w additive
  | OpGet r l => (s, get_values s r l)
  | OpDofs r => (s, dofs_out s r)
  | OpIdent dof => (s, identify_dof s dof)
  | OpProj r => (s, projection_to s r)
  | OpNum => (s, ONumDofs (num_dofs s))
  | OpSnap => (s, snapshot s)
  end.

Fixpoint run (g : mdgrid) (s : st) (ops : list op) : st * list out :=
  match ops with
  | [] => (s, [])
  | o :: r => let (s', x) := step g s o in
              let (s'', xs) := run g s' r in (s'', x :: xs)
  end.

Definition final (g : mdgrid) (ops : list op) : st := fst (run g init ops).

(* ---------------- comparison with observed outputs (tie) ---------------- *)
(* what the harness records from the implementation; indices as Z *)
Inductive obs :=
| BDone
| BCreated (ids : list Z)
| BIdx (l : list Z)
| BVarId (id : Z)
| BProj (rows : list (list (Z * Z))) (ncols : Z)   (* per row: (column, value) of nonzeros *)
| BProjCols (cols : list Z) (ncols : Z)   (* every row has exactly one nonzero, a 1, in cols[i] *)
| BVals (l : list Z)
| BNumDofs (n : Z)
| BSnap (n : Z) (dofs : list (option (list Z))) (owners : list (option Z)) (below above : bool)
| BErr (e : err).

(* lossless run encodings used by the harness to keep the generated literals small:
   a list of integers as maximal runs (start, length) of consecutive values, a list of
   optional integers as (value, repetitions) *)
Definition zrange (a : Z) (n : Z) : list Z :=
  map (fun k => (a + Z.of_nat k)%Z) (seq 0 (Z.to_nat n)).
Definition zruns (l : list (Z * Z)) : list Z := flat_map (fun p => zrange (fst p) (snd p)) l.
Definition orep (l : list (option Z * Z)) : list (option Z) :=
  flat_map (fun p => repeat (fst p) (Z.to_nat (snd p))) l.

Fixpoint eqb_list {A B} (f : A -> B -> bool) (a : list A) (b : list B) : bool :=
  match a, b with
  | [], [] => true
  | x :: r, y :: t => f x y && eqb_list f r t
  | _, _ => false
  end.

Definition eqb_opt {A} (f : A -> A -> bool) (a b : option A) : bool :=
  match a, b with
  | None, None => true
  | Some x, Some y => f x y
  | _, _ => false
  end.

Definition zn (l : list nat) : list Z := map Z.of_nat l.
Definition eqb_zl := eqb_list Z.eqb.

Definition err_eqb (a b : err) : bool :=
  match a, b with
  | KeyErr, KeyErr | ValueErr, ValueErr | AssertErr, AssertErr | IndexErr, IndexErr => true
  | _, _ => false
  end.

Definition agree_out (m : out) (b : obs) : bool :=
  match m, b with
  | ODone, BDone => true
  | OCreated a, BCreated c => eqb_zl (zn a) c
  | OIdx a, BIdx c => eqb_zl (zn a) c
  | OVarId a, BVarId c => Z.eqb (Z.of_nat a) c
  | OProjM cols n, BProj rows n' =>
      Z.eqb (Z.of_nat n) n' &&
      eqb_list (eqb_list (fun p q => Z.eqb (fst p) (fst q) && Z.eqb (snd p) (snd q)))
               (map (fun c => [(Z.of_nat c, 1%Z)]) cols) rows
  | OProjM cols n, BProjCols cols' n' => Z.eqb (Z.of_nat n) n' && eqb_zl (zn cols) cols'
  | OVals a, BVals c => eqb_zl a c
  | ONumDofs a, BNumDofs c => Z.eqb (Z.of_nat a) c
  | OSnap n d o lo hi, BSnap n' d' o' lo' hi' =>
      Z.eqb (Z.of_nat n) n' &&
      eqb_list (eqb_opt eqb_zl) (map (option_map zn) d) d' &&
      eqb_list (eqb_opt Z.eqb) (map (option_map Z.of_nat) o) o' &&
      Bool.eqb lo lo' && Bool.eqb hi hi'
  | OErr a, BErr c => err_eqb a c
  | _, _ => false
  end.

Definition agree (g : mdgrid) (ops : list op) (outs : list obs) : bool :=
  eqb_list agree_out (snd (run g init ops)) outs.
