(* C28 — segment intersection.
   Transcribes porepy/geometry/intersections.py: segments_2d, segments_3d over exact
   rationals Q.  Tests that involve a norm (np.sqrt) are written in SQUARED form:
       |x| <  tol * sqrt(n1) * sqrt(n2)    as   x*x <  tol*tol*(n1*n2)
       |x| <  tol * max(sqrt n1, sqrt n2)  as   x*x <  tol*tol*max(n1,n2)
       |x| >  tol * sqrt(n)                as   x*x >  tol*tol*n
   (equivalence for tol >= 0, n >= 0 proved over R in Proofs/C28_sqrt.v).
   Everything else is branch-by-branch what the code does, defects included.
   Executable definitions only. *)
From Coq Require Import List QArith Qabs Bool Arith.
Import ListNotations.
Open Scope Q_scope.

Inductive err := AssertErr | ValueErr | IndexErr.

Definition qltb (x y : Q) : bool := negb (Qle_bool y x).
Definition qmax (x y : Q) : Q := if qltb x y then y else x.     (* python max(x, y) *)
Definition qmin (x y : Q) : Q := if qltb y x then y else x.     (* python min(x, y) *)

(* numpy's default absolute tolerance in np.allclose *)
Definition np_atol : Q := 1 # 100000000.
(* np.allclose(a, b, rtol) on one component: |a - b| <= atol + rtol*|b| *)
Definition close1 (rtol a b : Q) : bool := Qle_bool (Qabs (a - b)) (np_atol + rtol * Qabs b).

(* ------------------------------------------------------------------------------ 2-D *)
Definition pt2 := (Q * Q)%type.

Inductive res2 :=
| R2None                       (* return None *)
| R2Pt (p : pt2)               (* array of shape (2,1) *)
| R2Seg (p q : pt2)            (* array of shape (2,2): columns p, q *)
| R2Err (e : err).

(* the parameter-axis choice of the colinear branch: Some (t_start_2, t_end_2) or the
   ValueError.  Note the (sic) mixed norms: the y-test compares d_1[1] with length_2. *)
Definition colinear_params (tol : Q) (s1 e1 s2 e2 : pt2) : option (Q * Q) :=
  let d1x := fst e1 - fst s1 in let d1y := snd e1 - snd s1 in
  let d2x := fst e2 - fst s2 in let d2y := snd e2 - snd s2 in
  let n1 := d1x * d1x + d1y * d1y in
  let n2 := d2x * d2x + d2y * d2y in
  if qltb (tol * tol * n1) (d1x * d1x) then
    Some ((fst s2 - fst s1) / d1x, (fst e2 - fst s1) / d1x)
  else if qltb (tol * tol * n2) (d1y * d1y) then
    Some ((snd s2 - snd s1) / d1y, (snd e2 - snd s1) / d1y)
  else None.

Definition seg2d (tol : Q) (s1 e1 s2 e2 : pt2) : res2 :=
  let d1x := fst e1 - fst s1 in let d1y := snd e1 - snd s1 in
  let d2x := fst e2 - fst s2 in let d2y := snd e2 - snd s2 in
  let n1 := d1x * d1x + d1y * d1y in          (* length_1 ** 2 *)
  let n2 := d2x * d2x + d2y * d2y in          (* length_2 ** 2 *)
  let dsx := fst s2 - fst s1 in let dsy := snd s2 - snd s1 in
  let discr := d1x * (- d2y) - d1y * (- d2x) in
  if qltb (discr * discr) (tol * tol * (n1 * n2)) then
    (* parallel *)
    let scl := dsx * d1y - dsy * d1x in
    if qltb (scl * scl) (tol * tol * qmax n1 n2) then
      (* colinear *)
      match colinear_params tol s1 e1 s2 e2 with
      | None => R2Err ValueErr
      | Some (ts, te) =>
          if qltb ts 0 && qltb te 0 then R2None
          else if qltb 1 ts && qltb 1 te then R2None
          else
            let tmin := qmax (qmin ts te) 0 in
            let tmax := qmin (qmax ts te) 1 in
            if qltb (tmax - tmin) tol then
              R2Pt (fst s1 + d1x * tmin, snd s1 + d1y * tmin)
            else
              R2Seg (fst s1 + d1x * tmin, snd s1 + d1y * tmin)
                    (fst s1 + d1x * tmax, snd s1 + d1y * tmax)
      end
    else R2None
  else
    (* Cramer.  discr = 0 here only for a degenerate segment (length 0): the float code
       divides by zero, gets nan and fails the allclose assertion. *)
    if Qeq_bool discr 0 then R2Err AssertErr
    else
      let t1 := (dsx * (- d2y) - dsy * (- d2x)) / discr in
      let t2 := (d1x * dsy - d1y * dsx) / discr in
      let i1x := fst s1 + t1 * d1x in let i1y := snd s1 + t1 * d1y in
      let i2x := fst s2 + t2 * d2x in let i2y := snd s2 + t2 * d2y in
      if negb (close1 tol i1x i2x && close1 tol i1y i2y) then R2Err AssertErr
      else if Qle_bool (- tol) t1 && Qle_bool t1 (1 + tol)
              && Qle_bool (- tol) t2 && Qle_bool t2 (1 + tol)
      then R2Pt (i1x, i1y)
      else R2None.

(* ------------------------------------------------------------------------------ 3-D *)
Definition pt3 := list Q.                     (* length 3 *)
Definition c3 (p : pt3) (i : nat) : Q := nth i p 0.

Inductive res3 :=
| R3None
| R3Cols (cols : list pt3)      (* array of shape (3, len cols) *)
| R3Err (e : err).

Fixpoint map2 {A B C} (f : A -> B -> C) (l : list A) (m : list B) : list C :=
  match l, m with
  | a :: l', b :: m' => f a b :: map2 f l' m'
  | _, _ => []
  end.

(* boolean-mask indexing v[mask] *)
Fixpoint sel {A} (mask : list bool) (v : list A) : list A :=
  match mask, v with
  | b :: mask', x :: v' => if b then x :: sel mask' v' else sel mask' v'
  | _, _ => []
  end.

Fixpoint bools_eqb (a b : list bool) : bool :=
  match a, b with
  | [], [] => true
  | x :: a', y :: b' => Bool.eqb x y && bools_eqb a' b'
  | _, _ => false
  end.

Definition count_true (m : list bool) : nat := length (filter (fun b => b) m).

Fixpoint allclose (rtol : Q) (a b : list Q) : bool :=
  match a, b with
  | x :: a', y :: b' => close1 rtol x y && allclose rtol a' b'
  | _, _ => true
  end.

(* np.argsort of four floats: stable insertion by value (ties only arise between
   equal coordinates, where the selected columns are equal as points as well) *)
Fixpoint ins_sorted (v : Q) (i : nat) (l : list (Q * nat)) : list (Q * nat) :=
  match l with
  | [] => [(v, i)]
  | (w, j) :: r => if qltb v w then (v, i) :: (w, j) :: r else (w, j) :: ins_sorted v i r
  end.

Fixpoint argsort_aux (l : list Q) (i : nat) (acc : list (Q * nat)) : list nat :=
  match l with
  | [] => map snd acc
  | v :: r => argsort_aux r (S i) (ins_sorted v i acc)
  end.
Definition argsort (l : list Q) : list nat := argsort_aux l 0%nat [].

(* the projection axes (in_discr[0], in_discr[1], not_in_discr) *)
Definition pick_axes (ms : list bool) : nat * nat * nat :=
  if (1 <? count_true ms)%nat then
    if nth 0 ms false && nth 1 ms false then (0, 1, 2)%nat
    else if nth 0 ms false && nth 2 ms false then (0, 2, 1)%nat
    else (1, 2, 0)%nat
  else (0, 1, 2)%nat.

(* the "parallel" branch (|discr| < tol) *)
Definition seg3d_par (tol : Q) (s1 e1 s2 e2 dl1 dl2 : pt3) (m1 m2 : list bool) : res3 :=
  if negb (bools_eqb m1 m2) then R3None
  else
    let t := map2 Qdiv (sel m1 dl1) (sel m2 dl2) in
    let t0 := nth 0 t 0 in let t1 := nth 1 t 0 in let t2 := nth 2 t 0 in
    if (length t =? 2)%nat && qltb tol (Qabs (t0 - t1)) then R3None
    else if (length t =? 3)%nat
            && (qltb tol (Qabs (t0 - t1)) || qltb tol (Qabs (t0 - t2))) then R3None
    else
      let ds := map2 Qminus s2 s1 in
      if qltb tol (Qabs (c3 ds 1 * c3 dl1 2 - c3 ds 2 * c3 dl1 1)) then R3None
      else if qltb tol (Qabs (c3 ds 2 * c3 dl1 0 - c3 ds 0 * c3 dl1 2)) then R3None
      else if qltb tol (Qabs (c3 ds 0 * c3 dl1 1 - c3 ds 1 * c3 dl1 0)) then R3None
      else if negb (allclose tol (sel (map negb m1) s1) (sel (map negb m1) s2)) then R3None
      else
        match sel m1 s1, sel m1 e1, sel m1 s2, sel m1 e2 with
        | a1 :: _, b1 :: _, a2 :: _, b2 :: _ =>
            let max1 := qmax a1 b1 in let min1 := qmin a1 b1 in
            let max2 := qmax a2 b2 in let min2 := qmin a2 b2 in
            if qltb max1 min2 then R3None
            else if qltb max2 min1 then R3None
            else
              let order := argsort [a1; b1; a2; b2] in
              let full := [s1; e1; s2; e2] in
              R3Cols [nth (nth 1 order 0%nat) full []; nth (nth 2 order 0%nat) full []]
        | _, _, _, _ => R3Err IndexErr      (* start_1[mask_1][0] on an empty selection *)
        end.

(* the point branch: Cramer in the projection (i0, i1), then the check of axis ni *)
Definition seg3d_pt (tol : Q) (s1 s2 dl1 dl2 : pt3) (i0 i1 ni : nat) : res3 :=
  let discr' := c3 dl1 i0 * (- c3 dl2 i1) - c3 dl1 i1 * (- c3 dl2 i0) in
  let t1 := ((c3 s2 i0 - c3 s1 i0) * (- c3 dl2 i1)
             - (c3 s2 i1 - c3 s1 i1) * (- c3 dl2 i0)) / discr' in
  let t2 := (c3 dl1 i0 * (c3 s2 i1 - c3 s1 i1)
             - c3 dl1 i1 * (c3 s2 i0 - c3 s1 i0)) / discr' in
  if qltb t1 0 || qltb 1 t1 || qltb t2 0 || qltb 1 t2 then R3None
  else
    let z1 := c3 s1 ni + t1 * c3 dl1 ni in
    let z2 := c3 s2 ni + t2 * c3 dl2 ni in
    if qltb (Qabs (z1 - z2)) tol then
      let v0 := c3 s1 i0 + t1 * c3 dl1 i0 in
      let v1 := c3 s1 i1 + t1 * c3 dl1 i1 in
      (* vec[in_discr] = ..., vec[not_in_discr] = z_1_isect *)
      R3Cols [ map (fun k => if (k =? i0)%nat then v0 else if (k =? i1)%nat then v1 else z1)
                   [0; 1; 2]%nat ]
    else R3None.

Definition seg3d (tol : Q) (s1 e1 s2 e2 : pt3) : res3 :=
  let dl1 := map2 Qminus e1 s1 in
  let dl2 := map2 Qminus e2 s2 in
  let m1 := map (fun x => qltb tol (Qabs x)) dl1 in
  let m2 := map (fun x => qltb tol (Qabs x)) dl2 in
  let ms := map2 orb m1 m2 in
  let '(i0, i1, ni) := pick_axes ms in
  let discr := c3 dl1 i0 * c3 dl2 i1 - c3 dl1 i1 * c3 dl2 i0 in
  if qltb (Qabs discr) tol then seg3d_par tol s1 e1 s2 e2 dl1 dl2 m1 m2
  else seg3d_pt tol s1 s2 dl1 dl2 i0 i1 ni.

(* ------------------------------------------------------------ comparison with the impl *)
(* the implementation's floats, converted exactly to Q, against the exact model value *)
Definition near (x y : Q) : bool :=
  Qle_bool (Qabs (x - y)) ((1 # 1000000000) * (1 + Qabs y)).

Definition near2 (p q : pt2) : bool := near (fst p) (fst q) && near (snd p) (snd q).

Fixpoint near_list (p q : list Q) : bool :=
  match p, q with
  | [], [] => true
  | x :: p', y :: q' => near x y && near_list p' q'
  | _, _ => false
  end.

Definition err_eqb (a b : err) : bool :=
  match a, b with
  | AssertErr, AssertErr | ValueErr, ValueErr | IndexErr, IndexErr => true
  | _, _ => false
  end.

(* impl first, model second *)
Definition agree2 (impl model : res2) : bool :=
  match impl, model with
  | R2None, R2None => true
  | R2Pt p, R2Pt q => near2 p q
  | R2Seg p1 p2, R2Seg q1 q2 => near2 p1 q1 && near2 p2 q2
  | R2Err a, R2Err b => err_eqb a b
  | _, _ => false
  end.

Fixpoint near_cols (a b : list pt3) : bool :=
  match a, b with
  | [], [] => true
  | p :: a', q :: b' => near_list p q && near_cols a' b'
  | _, _ => false
  end.

Definition agree3 (impl model : res3) : bool :=
  match impl, model with
  | R3None, R3None => true
  | R3Cols a, R3Cols b => near_cols a b
  | R3Err a, R3Err b => err_eqb a b
  | _, _ => false
  end.

Definition tol8 : Q := 1 # 100000000.       (* the default tol = 1e-8 *)
