(* C43 — unit conversion.  Transcribes porepy/models/units.py (Units.__init__, the derived
   unit properties as an expression evaluator, Units.convert_units) and the conversion of
   material constants in porepy/compositional/materials.py (Constants.__post_init__,
   Constants.to_units).  The TABLES (base units, property bodies, SI_units dictionaries) are
   not written here: they are regenerated from the source text into Gen/C43_tables.v by
   harness/translator/units_tables.py and passed to these functions as arguments.
   Executable definitions only; written once over an abstract number type (record numops),
   instantiated with Q here (execution) and with R in Proofs/C43.v (theorems). *)
From Coq Require Import String Ascii List ZArith QArith Qabs Bool.
Import ListNotations.
Open Scope string_scope.

Inductive err := AttrErr | ValueErr | NotImplErr.

Definition err_eqb (a b : err) : bool :=
  match a, b with
  | AttrErr, AttrErr | ValueErr, ValueErr | NotImplErr, NotImplErr => true
  | _, _ => false
  end.

(* Result of a call: a value, a raised exception of the small enum, or [Unmodelled]: the
   input is outside what this model describes (power strings in exponent/inf/nan/underscore
   notation, non-integer powers in the Q instance, attribute names that are methods or
   private).  Theorems never claim anything about [Unmodelled]. *)
Inductive res (A : Type) := Ok (a : A) | Err (e : err) | Unmodelled.
Arguments Ok {A} a.
Arguments Err {A} e.
Arguments Unmodelled {A}.

Definition bind {A B} (r : res A) (f : A -> res B) : res B :=
  match r with Ok a => f a | Err e => Err e | Unmodelled => Unmodelled end.

(* ------------------------------------------------------------------------------------ *)
(* Strings as Python handles them in convert_units                                       *)
(* ------------------------------------------------------------------------------------ *)

(* units.replace(" ", "") *)
Fixpoint strip_spaces (s : string) : string :=
  match s with
  | EmptyString => EmptyString
  | String c r => if Ascii.eqb c " " then strip_spaces r else String c (strip_spaces r)
  end.

(* s.split(sep) for a one-character separator: "a**b" -> ["a";"";"b"], "" -> [""] *)
Fixpoint split_on (sep : ascii) (s : string) : list string :=
  match s with
  | EmptyString => [EmptyString]
  | String c r =>
      if Ascii.eqb c sep then EmptyString :: split_on sep r
      else match split_on sep r with
           | h :: t => String c h :: t
           | [] => [String c EmptyString]
           end
  end.

(* units in ["", "1", "-"] *)
Definition is_marker (s : string) : bool :=
  String.eqb s "" || String.eqb s "1" || String.eqb s "-".

(* `if "^" in sub_unit: sub_unit, power = sub_unit.split("^")` *)
Inductive token :=
| TName (s : string)            (* no "^" *)
| TPow (s p : string)           (* exactly one "^" *)
| TMany.                        (* two or more: the tuple unpacking raises ValueError *)

Definition tokenize (sub : string) : token :=
  match split_on "^" sub with
  | [s] => TName s
  | [s; p] => TPow s p
  | _ => TMany
  end.

(* float(power).  Decided completely for ASCII strings without the characters that start
   the other float notations: [PNum q] for [+-]? (digits [. digits*]? | . digits+), [PBad]
   (float raises ValueError) for every other such string, [POut] (not modelled) as soon as
   the string contains e E _ or a letter of "infinity"/"nan", an ASCII white-space/control
   character that float() strips, or a non-ASCII character. *)
Inductive pw := PNum (q : Q) | PBad | POut.

Definition digit_val (c : ascii) : option Z :=
  let n := nat_of_ascii c in
  if andb (Nat.leb 48 n) (Nat.leb n 57) then Some (Z.of_nat (n - 48)) else None.

(* all characters are digits: value (base 10) and number of digits *)
Fixpoint digits (s : string) (acc : Z) (len : nat) : option (Z * nat) :=
  match s with
  | EmptyString => Some (acc, len)
  | String c r => match digit_val c with
                  | Some d => digits r (10 * acc + d)%Z (S len)
                  | None => None
                  end
  end.

Definition out_char (c : ascii) : bool :=
  let n := nat_of_ascii c in
  (Nat.leb 128 n) || (Nat.leb n 32) ||
  existsb (Ascii.eqb c)
    ["e"; "E"; "_"; "i"; "I"; "n"; "N"; "f"; "F"; "a"; "A"; "t"; "T"; "y"; "Y"]%char.

Fixpoint has_out_char (s : string) : bool :=
  match s with EmptyString => false | String c r => out_char c || has_out_char r end.

Definition unsigned_decimal (s : string) : pw :=
  match split_on "." s with
  | [i] => match digits i 0 0 with
           | Some (v, S _) => PNum (inject_Z v)
           | _ => PBad
           end
  | [i; f] => match digits i 0 0, digits f 0 0 with
              | Some (vi, li), Some (vf, lf) =>
                  match (li + lf)%nat with
                  | O => PBad
                  | _ => PNum (Qred (Qmake (vi * 10 ^ Z.of_nat lf + vf)
                                           (Z.to_pos (10 ^ Z.of_nat lf))))
                  end
              | _, _ => PBad
              end
  | _ => PBad
  end.

Definition parse_float (p : string) : pw :=
  if has_out_char p then POut
  else match p with
       | String "-" r => match unsigned_decimal r with PNum q => PNum (Qopp q) | o => o end
       | String "+" r => unsigned_decimal r
       | _ => unsigned_decimal p
       end.

(* ------------------------------------------------------------------------------------ *)
(* Expressions of the derived-unit properties (bodies `return <expr>` in class Units)     *)
(* ------------------------------------------------------------------------------------ *)
Inductive uexpr :=
| UBase (b : string)            (* self.<base unit> *)
| UConst (q : Q)                (* numeric literal (floats as their exact binary value) *)
| UPi                           (* np.pi *)
| UMul (a b : uexpr)
| UDiv (a b : uexpr)
| UPow (a : uexpr) (n : Z).     (* a ** <integer literal> *)

Fixpoint assoc {A} (k : string) (l : list (string * A)) : option A :=
  match l with
  | [] => None
  | (k', v) :: r => if String.eqb k k' then Some v else assoc k r
  end.

Definition mem (k : string) (l : list string) : bool := existsb (String.eqb k) l.

(* ------------------------------------------------------------------------------------ *)
(* The numeric part, over an abstract number type                                         *)
(* ------------------------------------------------------------------------------------ *)
Record numops (T : Type) := {
  tmul : T -> T -> T;
  tdiv : T -> T -> T;
  tpowZ : T -> Z -> T;                 (* x ** n, integer literal n *)
  tpowQ : T -> Q -> option T;          (* x ** float(p); None = not computable here *)
  tofQ : Q -> T;
  tpi : T;                             (* the constant np.pi *)
}.
Arguments tmul {T} _. Arguments tdiv {T} _. Arguments tpowZ {T} _. Arguments tpowQ {T} _.
Arguments tofQ {T} _. Arguments tpi {T} _.

Section Num.
  Context {T : Type} (ops : numops T).
  (* generated tables *)
  Variable derived : list (string * uexpr).      (* property name -> body *)
  Variable other_attrs : list string.            (* other attributes of the class (methods) *)
  (* the Units instance: base unit name -> value of the attribute *)
  Variable env : list (string * T).

  Fixpoint eval (e : uexpr) : res T :=
    match e with
    | UBase b => match assoc b env with Some x => Ok x | None => Err AttrErr end
    | UConst q => Ok (tofQ ops q)
    | UPi => Ok (tpi ops)
    | UMul a b => bind (eval a) (fun x => bind (eval b) (fun y => Ok (tmul ops x y)))
    | UDiv a b => bind (eval a) (fun x => bind (eval b) (fun y => Ok (tdiv ops x y)))
    | UPow a n => bind (eval a) (fun x => Ok (tpowZ ops x n))
    end.

  (* getattr(self, name) *)
  Definition getattr (name : string) : res T :=
    match assoc name env with
    | Some x => Ok x
    | None =>
        match assoc name derived with
        | Some e => eval e
        | None =>
            if mem name other_attrs then Unmodelled
            else match name with
                 | String "_" _ => Unmodelled
                 | _ => Err AttrErr
                 end
        end
    end.

  (* the factor computed for one sub_unit of the "*"-split *)
  Definition sub_factor (sub : string) : res T :=
    match tokenize sub with
    | TMany => Err ValueErr
    | TName s => getattr s
    | TPow s p =>
        bind (getattr s) (fun x =>
          match parse_float p with
          | PBad => Err ValueErr
          | POut => Unmodelled
          | PNum q => match tpowQ ops x q with Some y => Ok y | None => Unmodelled end
          end)
    end.

  Definition scale (to_si : bool) (f : T) (x : T) : T :=
    if to_si then tmul ops x f else tdiv ops x f.

  (* the for-loop; values are lists (a scalar is a list of length one); the value is a
     private copy, so an exception leaves nothing observable behind *)
  Fixpoint convert_loop (subs : list string) (to_si : bool) (v : list T) : res (list T) :=
    match subs with
    | [] => Ok v
    | sub :: r =>
        match sub_factor sub with
        | Ok f => convert_loop r to_si (map (scale to_si f) v)
        | Err e => Err e
        | Unmodelled => Unmodelled
        end
    end.

  Definition convert (v : list T) (units : string) (to_si : bool) : res (list T) :=
    let u := strip_spaces units in
    if is_marker u then Ok v else convert_loop (split_on "*" u) to_si v.

  (* Constants.__post_init__ : every constant is converted with the unit string declared
     for its field in SI_units (AttributeError if the field is not declared) *)
  Fixpoint convert_constants (si_units : list (string * string))
           (cs : list (string * T)) (to_si : bool) : res (list (string * T)) :=
    match cs with
    | [] => Ok []
    | (k, v) :: r =>
        match assoc k si_units with
        | None => Err AttrErr
        | Some u =>
            bind (convert [v] u to_si) (fun w =>
              bind (convert_constants si_units r to_si) (fun r' =>
                Ok ((k, hd v w) :: r')))
        end
    end.
End Num.

(* A material-constants object: the SI values given at construction (constants_in_SI) and
   the attribute values (converted).  [to_units] builds the new object from constants_in_SI
   only, so it does not depend on the units the object currently has. *)
Record constants (T : Type) := { in_SI : list (string * T); attrs : list (string * T) }.
Arguments in_SI {T} _. Arguments attrs {T} _.

Definition make_constants {T} (ops : numops T) derived other env si_units
           (cs : list (string * T)) : res (constants T) :=
  bind (convert_constants ops derived other env si_units cs false)
       (fun a => Ok {| in_SI := cs; attrs := a |}).

Definition to_units {T} (ops : numops T) derived other env' si_units (c : constants T)
  : res (constants T) :=
  make_constants ops derived other env' si_units (in_SI c).

(* ------------------------------------------------------------------------------------ *)
(* Units.__init__ with keyword arguments                                                               *)
(* ------------------------------------------------------------------------------------ *)
Inductive kwval := KNum (q : Q) | KOther.      (* a float/int, or any other object *)

(* the validation loop over kwargs.items(), in order *)
Fixpoint check_kwargs (bases : list string) (kw : list (string * kwval)) : option err :=
  match kw with
  | [] => None
  | (k, v) :: r =>
      match v with
      | KOther => Some ValueErr
      | KNum _ => if mem k bases then check_kwargs bases r else Some ValueErr
      end
  end.

Definition kw_get (kw : list (string * kwval)) (k : string) (default : Q) : Q :=
  (* kwargs of a call have distinct keys *)
  match assoc k kw with Some (KNum q) => q | _ => default end.

(* np.isclose(s, 1): |s - 1| <= atol + rtol*|1| with atol = 1e-8, rtol = 1e-5 *)
Definition isclose1 (s : Q) : bool :=
  Qle_bool (Qabs (s - 1)) ((1 # 100000000) + (1 # 100000)).

Definition units_init (bases : list (string * Q)) (kw : list (string * kwval))
  : res (list (string * Q)) :=
  match check_kwargs (map fst bases) kw with
  | Some e => Err e
  | None =>
      if isclose1 (kw_get kw "s" 1) then
        Ok (map (fun '(b, d) => (b, kw_get kw b d)) bases)
      else Err NotImplErr
  end.

(* ------------------------------------------------------------------------------------ *)
(* Dimension bookkeeping: normal form  c * pi^k * prod base_i ^ d_i                        *)
(* (exponent vector aligned with the list of base units)                                  *)
(* ------------------------------------------------------------------------------------ *)
Record mono := { coef : Q; pi_exp : Z; dims : list Z }.

Fixpoint vadd (a b : list Z) : list Z :=
  match a, b with
  | x :: a', y :: b' => (x + y)%Z :: vadd a' b'
  | [], _ => b
  | _, [] => a
  end.

Definition vzero (bases : list string) : list Z := map (fun _ => 0%Z) bases.
Definition vunit (bases : list string) (b : string) : list Z :=
  map (fun k => if String.eqb b k then 1%Z else 0%Z) bases.

Definition mono_mul (a b : mono) : mono :=
  {| coef := Qred (coef a * coef b); pi_exp := (pi_exp a + pi_exp b)%Z;
     dims := vadd (dims a) (dims b) |}.

Definition mono_pow (a : mono) (n : Z) : mono :=
  {| coef := Qred (Qpower (coef a) n); pi_exp := (pi_exp a * n)%Z;
     dims := map (fun m => (m * n)%Z) (dims a) |}.

Definition mono_one (bases : list string) : mono :=
  {| coef := 1; pi_exp := 0; dims := vzero bases |}.

Definition mono_base (bases : list string) (b : string) : mono :=
  {| coef := 1; pi_exp := 0; dims := vunit bases b |}.

(* normal form of a property body; None if it mentions an unknown base unit or a
   non-positive constant *)
Fixpoint mono_of (bases : list string) (e : uexpr) : option mono :=
  match e with
  | UBase b => if mem b bases then Some (mono_base bases b) else None
  | UConst q => if (0 <? Qnum q)%Z
                then Some {| coef := Qred q; pi_exp := 0; dims := vzero bases |}
                else None
  | UPi => Some {| coef := 1; pi_exp := 1; dims := vzero bases |}
  | UMul a b => match mono_of bases a, mono_of bases b with
                | Some x, Some y => Some (mono_mul x y) | _, _ => None end
  | UDiv a b => match mono_of bases a, mono_of bases b with
                | Some x, Some y => Some (mono_mul x (mono_pow y (-1))) | _, _ => None end
  | UPow a n => match mono_of bases a with Some x => Some (mono_pow x n) | None => None end
  end.

(* normal form of what getattr returns for a name *)
Definition mono_of_name (bases : list string) (derived : list (string * uexpr))
           (name : string) : option mono :=
  if mem name bases then Some (mono_base bases name)
  else match assoc name derived with Some e => mono_of bases e | None => None end.

(* normal form of one sub_unit with an integer power *)
Definition mono_of_sub (bases : list string) derived (sub : string) : option mono :=
  match tokenize sub with
  | TMany => None
  | TName s => mono_of_name bases derived s
  | TPow s p =>
      match mono_of_name bases derived s, parse_float p with
      | Some m, PNum q =>
          let r := Qred q in
          if Pos.eqb (Qden r) 1 then Some (mono_pow m (Qnum r)) else None
      | _, _ => None
      end
  end.

Fixpoint mono_of_subs (bases : list string) derived (subs : list string) : option mono :=
  match subs with
  | [] => Some (mono_one bases)
  | s :: r => match mono_of_sub bases derived s, mono_of_subs bases derived r with
              | Some a, Some b => Some (mono_mul a b)
              | _, _ => None
              end
  end.

(* normal form of a whole unit string (dimensionless markers: the unit monomial) *)
Definition mono_of_units (bases : list string) derived (units : string) : option mono :=
  let u := strip_spaces units in
  if is_marker u then Some (mono_one bases)
  else mono_of_subs bases derived (split_on "*" u).

Fixpoint zlist_eqb (a b : list Z) : bool :=
  match a, b with
  | [], [] => true
  | x :: a', y :: b' => Z.eqb x y && zlist_eqb a' b'
  | _, _ => false
  end.

Definition mono_eqb (a b : mono) : bool :=
  Qeq_bool (coef a) (coef b) && Z.eqb (pi_exp a) (pi_exp b) && zlist_eqb (dims a) (dims b).

Fixpoint nodupb (l : list string) : bool :=
  match l with [] => true | x :: r => negb (mem x r) && nodupb r end.

(* every SI_units entry has a normal form *)
Definition si_table_ok (bases : list string) derived (tab : list (string * string)) : bool :=
  forallb (fun '(_, u) => match mono_of_units bases derived u with Some _ => true
                                                                  | None => false end) tab.

(* ------------------------------------------------------------------------------------ *)
(* Q instance (execution) and the comparison used by the generated case files             *)
(* ------------------------------------------------------------------------------------ *)
Definition QOps (pi_float : Q) : numops Q := {|
  tmul := fun a b => Qred (a * b);
  tdiv := fun a b => Qred (a / b);
  tpowZ := fun a n => Qred (Qpower a n);
  tpowQ := fun a q => let r := Qred q in
                      if Pos.eqb (Qden r) 1 then Some (Qred (Qpower a (Qnum r))) else None;
  tofQ := fun q => q;
  tpi := pi_float;
|}.

(* |impl - model| <= 1e-9 * |model| *)
Definition close (impl model : Q) : bool :=
  Qle_bool (Qabs (impl - model)) ((1 # 1000000000) * Qabs model).

Fixpoint all_close (impl model : list Q) : bool :=
  match impl, model with
  | [], [] => true
  | a :: r, b :: s => close a b && all_close r s
  | _, _ => false
  end.

Inductive iout := IVals (l : list Q) | IErr (e : err).

(* [modelled] is the harness's own prediction (from how the case was generated) of whether
   the case lies inside the modelled grammar; model and harness must agree on that too *)
Definition agree_res (modelled : bool) (m : res (list Q)) (impl : iout) : bool :=
  match m, impl with
  | Ok ws, IVals l => modelled && all_close l ws
  | Err e, IErr e' => modelled && err_eqb e e'
  | Unmodelled, _ => negb modelled
  | _, _ => false
  end.

Definition agree_convert pi_float derived other env vals units to_si modelled impl : bool :=
  agree_res modelled (convert (QOps pi_float) derived other env vals units to_si) impl.

(* getattr of every name in a list equals the given values *)
Definition agree_getattr pi_float derived other env (names : list string) (impl : list Q)
  : bool :=
  let fix go ns vs :=
    match ns, vs with
    | [], [] => true
    | n :: ns', v :: vs' =>
        match getattr (QOps pi_float) derived other env n with
        | Ok x => close v x && go ns' vs'
        | _ => false
        end
    | _, _ => false
    end in go names impl.

Inductive init_out := InitOk (l : list Q) | InitErr (e : err).

Definition agree_init (bases : list (string * Q)) kw (impl : init_out) : bool :=
  match units_init bases kw, impl with
  | Ok e, InitOk l => all_close l (map snd e)
  | Err e, InitErr e' => err_eqb e e'
  | _, _ => false
  end.

(* material constants: attributes after construction in env1 and after to_units(env2),
   constants_in_SI of both, and the attributes converted back to SI *)
Definition vals_of (l : list (string * Q)) := map snd l.

Definition agree_material pi_float derived other (si_units : list (string * string))
           (env1 env2 : list (string * Q)) (cs : list (string * Q))
           (attrs1 si1 attrs2 si2 : list Q) : bool :=
  let ops := QOps pi_float in
  match make_constants ops derived other env1 si_units cs with
  | Ok c1 =>
      match to_units ops derived other env2 si_units c1 with
      | Ok c2 =>
          all_close attrs1 (vals_of (attrs c1)) && all_close si1 (vals_of (in_SI c1)) &&
          all_close attrs2 (vals_of (attrs c2)) && all_close si2 (vals_of (in_SI c2))
      | _ => false
      end
  | _ => false
  end.
