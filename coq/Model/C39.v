(* C39 — boundary condition objects (porepy/params/bc.py), as repaired by the commits
   "fix: boundary condition setters keep the Dirichlet/Neumann/Robin flags exclusive" and
   "fix: AbstractBoundaryCondition.copy returns an independent object of the same class".
   Transcribes BoundaryCondition.__init__, BoundaryConditionVectorial.__init__ / set_bc,
   AbstractBoundaryCondition.internal_to_dirichlet and Grid.get_all_boundary_faces (faces
   tagged domain_boundary, fracture or tip).  The pre-fix assignment is kept as
   [assign_prefix] only to document the defect.  Executable definitions only. *)
From Coq Require Import List Bool Arith.
Import ListNotations.

Inductive err := ValueErr | AssertErr | IndexErr.

(* a condition string after .lower(): 'dir' | 'neu' | 'rob' | anything else *)
Inductive cstr := CDir | CNeu | CRob | CBad.
Inductive ty := Dir | Neu | Rob.
Definition parse (c : cstr) : option ty :=
  match c with CDir => Some Dir | CNeu => Some Neu | CRob => Some Rob | CBad => None end.

(* cond argument: a single string or a list of strings *)
Inductive cond := COne (c : cstr) | CList (l : list cstr).
(* faces argument: integer index array or boolean mask *)
Inductive faces := FIdx (l : list nat) | FMask (m : list bool).

(* per face: tags domain_boundary_faces, fracture_faces, tip_faces *)
Record ftag := mkT { t_db : bool; t_frac : bool; t_tip : bool }.
Definition grid := list ftag.
Definition nf (g : grid) : nat := length g.
Definition tag (g : grid) (f : nat) : ftag := nth f g (mkT false false false).
(* membership in sd.get_all_boundary_faces() *)
Definition is_bf (g : grid) (f : nat) : bool :=
  (f <? nf g) && (t_db (tag g f) || t_frac (tag g f) || t_tip (tag g f)).

(* one component's three flag arrays (the scalar class has exactly one component) *)
Record comp := mkC { c_dir : list bool; c_neu : list bool; c_rob : list bool }.

Fixpoint setb (l : list bool) (i : nat) (v : bool) : list bool :=
  match l, i with
  | [], _ => []
  | _ :: r, O => v :: r
  | a :: r, S i' => a :: setb r i' v
  end.

(* the body of one loop iteration (all three branches write all three arrays) *)
Definition assign (f : nat) (t : ty) (c : comp) : comp :=
  match t with
  | Neu => mkC (setb (c_dir c) f false) (setb (c_neu c) f true) (setb (c_rob c) f false)
  | Dir => mkC (setb (c_dir c) f true) (setb (c_neu c) f false) (setb (c_rob c) f false)
  | Rob => mkC (setb (c_dir c) f false) (setb (c_neu c) f false) (setb (c_rob c) f true)
  end.

(* pre-fix: 'neu' is a no-op; the vectorial 'dir' leaves is_rob alone *)
Definition assign_prefix (vectorial : bool) (f : nat) (t : ty) (c : comp) : comp :=
  match t with
  | Neu => c
  | Dir => mkC (setb (c_dir c) f true) (setb (c_neu c) f false)
               (if vectorial then c_rob c else setb (c_rob c) f false)
  | Rob => mkC (setb (c_dir c) f false) (setb (c_neu c) f false) (setb (c_rob c) f true)
  end.

Section Loop.
  Variable asg : nat -> ty -> comp -> comp.
  (* for j in range(faces.size): ... ; ValueError at the first unknown keyword, the
     assignments made before it stay *)
  Fixpoint loop (cs : list comp) (fs : list nat) (cds : list cstr) : list comp * option err :=
    match fs, cds with
    | f :: fr, c :: cr =>
        match parse c with
        | Some t => loop (map (asg f t) cs) fr cr
        | None => (cs, Some ValueErr)
        end
    | _, _ => (cs, None)
    end.
End Loop.

(* np.argwhere(mask) *)
Fixpoint argwhere_from (i : nat) (m : list bool) : list nat :=
  match m with
  | [] => []
  | b :: r => if b then i :: argwhere_from (S i) r else argwhere_from (S i) r
  end.
Definition argwhere := argwhere_from 0.

Inductive outcome :=
| Done (warned : bool)
| Fail (warned : bool) (e : err).

(* the common argument handling of BoundaryCondition.__init__ (scalar, warns) and
   BoundaryConditionVectorial.set_bc (does not warn) *)
Definition set_faces (asg : nat -> ty -> comp -> comp) (warns : bool) (g : grid)
           (cs : list comp) (fs : option faces) (cd : option cond) : list comp * outcome :=
  match fs with
  | None => (cs, Done false)
  | Some fs =>
      match cd with
      | None => (cs, Fail false AssertErr)
      | Some cd =>
          match (match fs with
                 | FIdx l => Some l
                 | FMask m => if length m =? nf g then Some (argwhere m) else None
                 end) with
          | None => (cs, Fail false ValueErr)
          | Some l =>
              if negb (forallb (is_bf g) l) then (cs, Fail false ValueErr)
              else
                let w := warns &&
                         negb (forallb (fun f => t_db (tag g f) || t_tip (tag g f)) l) in
                let cds := match cd with
                           | COne c => repeat c (length l)
                           | CList cl => cl
                           end in
                if negb (length l =? length cds) then (cs, Fail w ValueErr)
                else match loop asg cs l cds with
                     | (cs', None) => (cs', Done w)
                     | (cs', Some e) => (cs', Fail w e)
                     end
          end
      end
  end.

(* is_neu[bf] = True on zero arrays *)
Definition init_comp (g : grid) : comp :=
  mkC (repeat false (nf g)) (map (is_bf g) (seq 0 (nf g))) (repeat false (nf g)).

(* the object: class + components; None = the constructor raised *)
Record obj := mkO { vectorial : bool; comps : list comp }.

Definition construct (asg : nat -> ty -> comp -> comp) (g : grid) (vect : bool) (dim : nat)
           (fs : option faces) (cd : option cond) : option obj * outcome :=
  let cs0 := if vect then repeat (init_comp g) dim else [init_comp g] in
  match set_faces asg (negb vect) g cs0 fs cd with
  | (cs, Done w) => (Some (mkO vect cs), Done w)
  | (_, Fail w e) => (None, Fail w e)
  end.

(* is_neu[:, frac] = False; is_rob[:, frac] = False; is_dir[:, frac] = True  — the masked
   assignment written face by face *)
Definition internal_to_dirichlet (g : grid) (cs : list comp) : list comp :=
  fold_left (fun cs f => if t_frac (tag g f) then map (assign f Dir) cs else cs)
            (seq 0 (nf g)) cs.

Fixpoint map_nth {A} (f : A -> A) (l : list A) (i : nat) : list A :=
  match l, i with
  | [], _ => []
  | a :: r, O => f a :: r
  | a :: r, S i' => a :: map_nth f r i'
  end.

Inductive op :=
| OpSet (fs : option faces) (cd : option cond)      (* bc.set_bc(faces, cond) *)
| OpInternal                                        (* bc.internal_to_dirichlet(sd) *)
| OpUser (c f : nat) (t : ty)    (* documented manual assignment of component c, face f:
                                    the three flags written by the user *)
| OpCopy.                        (* bc = bc.copy(): an independent object of the same class
                                    with equal flag arrays; the history goes on with the copy *)

Definition step (asg : nat -> ty -> comp -> comp) (g : grid) (o : obj) (p : op) : obj * outcome :=
  match p with
  | OpSet fs cd =>
      if vectorial o
      then let (cs, r) := set_faces asg false g (comps o) fs cd in (mkO true cs, r)
      else (o, Fail false AssertErr)       (* the scalar class has no set_bc: not used *)
  | OpInternal =>
      if vectorial o then (mkO true (internal_to_dirichlet g (comps o)), Done false)
      else (o, Fail false IndexErr)        (* is_neu[:, mask] on a 1-D array *)
  | OpUser c f t =>
      if (c <? length (comps o)) && (f <? nf g)
      then (mkO (vectorial o) (map_nth (assign f t) (comps o) c), Done false)
      else (o, Fail false IndexErr)
  | OpCopy => (mkO (vectorial o) (comps o), Done false)
  end.

Fixpoint run (asg : nat -> ty -> comp -> comp) (g : grid) (o : obj) (ps : list op)
  : list (obj * outcome) :=
  match ps with
  | [] => []
  | p :: r => let (o', x) := step asg g o p in (o', x) :: run asg g o' r
  end.

(* ---------------- comparison with the implementation ---------------- *)
Fixpoint eqb_bools (a b : list bool) : bool :=
  match a, b with
  | [], [] => true
  | x :: r, y :: s => Bool.eqb x y && eqb_bools r s
  | _, _ => false
  end.

Definition eqb_comp (c : comp) (d : list bool * list bool * list bool) : bool :=
  let '(dd, dn, dr) := d in
  eqb_bools (c_dir c) dd && eqb_bools (c_neu c) dn && eqb_bools (c_rob c) dr.

Fixpoint eqb_comps (cs : list comp) (ds : list (list bool * list bool * list bool)) : bool :=
  match cs, ds with
  | [], [] => true
  | c :: r, d :: s => eqb_comp c d && eqb_comps r s
  | _, _ => false
  end.

Definition eqb_err (a b : err) : bool :=
  match a, b with
  | ValueErr, ValueErr | AssertErr, AssertErr | IndexErr, IndexErr => true
  | _, _ => false
  end.

Definition eqb_outcome (a b : outcome) : bool :=
  match a, b with
  | Done w, Done v => Bool.eqb w v
  | Fail w e, Fail v f => Bool.eqb w v && eqb_err e f
  | _, _ => false
  end.

Definition dumpT := list (list bool * list bool * list bool).

Fixpoint eqb_steps (l : list (obj * outcome)) (m : list (outcome * dumpT)) : bool :=
  match l, m with
  | [], [] => true
  | (o, x) :: r, (y, d) :: s => eqb_outcome x y && eqb_comps (comps o) d && eqb_steps r s
  | _, _ => false
  end.

(* the model reproduces: the constructor's outcome (+ flags when it succeeded) and, after
   every later call, the outcome and all flag arrays *)
Definition agree (g : grid) (vect : bool) (dim : nat) (fs : option faces) (cd : option cond)
           (ps : list op) (c_out : outcome) (c_dump : option dumpT)
           (steps : list (outcome * dumpT)) : bool :=
  match construct assign g vect dim fs cd, c_dump with
  | (Some o, x), Some d =>
      eqb_outcome x c_out && eqb_comps (comps o) d && eqb_steps (run assign g o ps) steps
  | (None, x), None => eqb_outcome x c_out && match steps with [] => true | _ => false end
  | _, _ => false
  end.
