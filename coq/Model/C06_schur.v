(* C06 (second part) — assembled_equation_indices after assemble_schur_complement_system.
   The Schur assembly is an assemble-method too: it reports, per primary equation, the rows
   of the primary block (repaired code: the dictionary is stored after the inner
   assemble(equations=[name]) calls, each of which overwrites the attribute).
   Transcribes the index bookkeeping of the first loop of assemble_schur_complement_system and
   the state of the attribute on every exit; the blocks themselves are PP.Model.C07.
   Executable definitions only. *)
From Coq Require Import List ZArith Bool Arith.
Import ListNotations.
From PP Require Import Model.C05 Model.C06 Model.C07.

(* ---------------- update_equation ---------------- *)
(* grids=None: the grids of the stored image (KeyError for an unknown name);
   equations_per_grid_entity=None: the stored size info (which survives remove_equation);
   then remove_equation and set_equation under the same name: the equation moves to the END
   of the insertion order; if set_equation fails the equation is gone *)
Definition update_equation (g : mdgrid) (es : est) (name op : nat)
           (grids : option (list dom)) (info : option (nat * nat * nat)) : est * option err :=
  match (match grids with
         | Some gs => Some gs
         | None => option_map (map fst) (dget (comp es) name)
         end) with
  | None => (es, Some KeyErr)
  | Some gs =>
      match (match info with Some i => Some i | None => dget (sinfo es) name end) with
      | None => (es, Some KeyErr)
      | Some i =>
          match remove_equation es name with
          | (es1, Some e) => (es1, Some e)
          | (es1, None) => set_equation g es1 name op gs i
          end
      end
  end.

Section SchurIndices.
  Context {V : Type}.
  Variable vzero : V.
  Variable vopp : V -> V.
  Variable eval : nat -> list (@prow V).

  (* row_idx = np.arange(b_prim[-1].size); indices = row_idx + ind_start;
     ind_start += row_idx.size; assembled_equation_indices.update({name: indices}) *)
  Fixpoint sidx_loop (eqs : list (nat * nat)) (prim : list (nat * rowsel)) (ind_start : nat)
           (acc : list (nat * list nat)) : list (nat * list nat) :=
    match eqs with
    | [] => acc
    | (name, op) :: r =>
        match dget prim name with
        | None => sidx_loop r prim ind_start acc
        | Some sel =>
            let n := match sel with Some ip => length ip | None => length (eval op) end in
            sidx_loop r prim (ind_start + n) (dset acc name (seq ind_start n))
        end
    end.
  Definition schur_indices (es : est) (prim : list (nat * rowsel)) : list (nat * list nat) :=
    sidx_loop (equations es) prim 0 [].

  Definition all_below (n : nat) (idx : list nat) : bool := forallb (fun i => i <? n) idx.

  (* the attribute after an IndexError inside the first loop: the dictionary of the inner
     assemble(equations=[name]) of the equation whose rows could not be indexed *)
  Definition failing_single (es : est) (prim excl : list (nat * rowsel))
    : option (list (nat * list nat)) :=
    match find (fun kv => match dget prim (fst kv) with
                          | Some (Some ip) =>
                              negb (all_below (length (eval (snd kv))) ip &&
                                    match dget excl (fst kv) with
                                    | Some (Some ie) => all_below (length (eval (snd kv))) ie
                                    | _ => false
                                    end)
                          | _ => false
                          end) (equations es) with
    | Some (name, op) => Some [(name, seq 0 (length (eval op)))]
    | None => None
    end.

  (* assemble_schur_complement_system as an operation on the equation-side state: the new
     assembled_equation_indices and done / the exception *)
  Definition schur_step (s : st) (es : est) (pe : eqarg) (pv : refs) : est * @eout V :=
    match parse_equations es pe with
    | inr e => (es, XErr e)
    | inl prim =>
    match complement es prim with
    | inr e => (es, XErr e)
    | inl excl =>
    match @proj_cols s (parse s pv) with
    | inr e => (es, XErr e)
    | inl colsp =>
    if Nat.eqb (length prim) 0 then (es, XErr AssertErr) else
    if Nat.eqb (length colsp) 0 then (es, XErr AssertErr) else
    match @proj_cols s (filter (fun id => negb (memb id (parse s pv))) (map vid (vars s))) with
    | inr e => (es, XErr e)
    | inl colss =>
    if Nat.eqb (length colss) 0 then (es, XErr AssertErr) else
    match schur_blocks vzero vopp eval s es pe pv with
    | SOk _ _ _ _ _ _ _ _ => (with_aei es (schur_indices es prim), XDone)
    | SErr e =>
        match failing_single es prim excl with
        | Some ind => (with_aei es ind, XErr e)        (* raised inside the first loop *)
        | None => (with_aei es (schur_indices es prim), XErr e)   (* raised after the loops *)
        end
    end end end end end.

  Inductive sop :=
  | SBase (o : eop)
  | SSchur (pe : eqarg) (pv : refs)
  | SUpdate (name op : nat) (grids : option (list dom)) (info : option (nat * nat * nat)).

  Definition sstep (g : mdgrid) (s : st) (es : est) (o : sop) : est * @eout V :=
    match o with
    | SBase o => estep vzero vopp eval g s es o
    | SSchur pe pv => schur_step s es pe pv
    | SUpdate name op grids info =>
        match update_equation g es name op grids info with
        | (es', None) => (es', XDone)
        | (es', Some e) => (es', XErr e)
        end
    end.

  Fixpoint srun (g : mdgrid) (s : st) (es : est) (ops : list sop)
    : est * list (@eout V * list (nat * list nat)) :=
    match ops with
    | [] => (es, [])
    | o :: r =>
        let (es', x) := sstep g s es o in
        let (es'', xs) := srun g s es' r in
        (es'', (x, aei es') :: xs)
    end.
End SchurIndices.

Definition agree6s (g : mdgrid) (vops : list op) (t : evtab) (ops : list sop)
           (outs : list (eobs * list (nat * list nat))) : bool :=
  let s := final g vops in
  let n := num_dofs s in
  eqb_list (fun m o => agree_eout (fst m) (fst o) && agree_ind (snd m) (snd o))
           (snd (srun 0%Z Z.opp (eval_of n t) g s einit ops)) outs.
