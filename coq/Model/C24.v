(* C24 — the mixed-dimensional grid container.
   Transcribes porepy/grids/md_grid.py (MixedDimensionalGrid): add_subdomains,
   add_interface, remove_subdomain, replace_subdomains_and_interfaces, argsort_grids /
   sort_*, subdomains(), interfaces(), interface_to_subdomain_pair,
   subdomain_pair_to_interface, subdomain_to_interfaces, subdomain_to_boundary_grid,
   as of the tree containing the two repairs
     "fix: md-grid remove/replace of 0-d subdomains no longer looks up a boundary grid"
     "fix: md-grid add_interface registers the interface only after validating the pair"
     "fix: md-grid remove/replace handle a subdomain that is coupled to itself"
     "fix: md-grid add_subdomains rejects a grid that is listed twice in one call"
     "fix: md-grid argsort_grids accepts iterables that can be consumed only once"
   (iterable arguments - lists, tuples, generators, iterators, views - are lists here).
   Executable definitions only.

   Grids (subdomain grids, mortar grids, boundary grids) are identified by
   [(dim, id)]; [id] is the creation counter of the object's class (pp.Grid,
   pp.MortarGrid, pp.BoundaryGrid each have their own counter; Python dictionaries hash
   these objects by identity).  Python dictionaries are association lists in insertion
   order: assignment to an existing key keeps its position, [del] removes the key. *)
From Coq Require Import List Arith Bool.
Import ListNotations.

Definition gid := (nat * nat)%type.          (* (dim, id) *)
Definition gdim (g : gid) : nat := fst g.
Definition gnum (g : gid) : nat := snd g.
Definition geqb (a b : gid) : bool := (fst a =? fst b) && (snd a =? snd b).

Inductive err := KeyErr | ValueErr | AssertErr | IndexErr.
Inductive res (A : Type) := Ok (a : A) | Err (e : err).
Arguments Ok {A}. Arguments Err {A}.

(* ---------------- dictionaries ---------------- *)
Fixpoint mem (k : gid) (l : list gid) : bool :=
  match l with [] => false | x :: r => geqb x k || mem k r end.

(* d[k] = ...  on a dictionary whose values are not modelled *)
Definition kadd (k : gid) (l : list gid) : list gid := if mem k l then l else l ++ [k].

(* del d[k] *)
Fixpoint kdel (k : gid) (l : list gid) : list gid :=
  match l with [] => [] | x :: r => if geqb x k then r else x :: kdel k r end.

Section Dict.
  Variable V : Type.
  Fixpoint lookup (k : gid) (m : list (gid * V)) : option V :=
    match m with [] => None | (k', v) :: r => if geqb k' k then Some v else lookup k r end.
  Fixpoint dset (k : gid) (v : V) (m : list (gid * V)) : list (gid * V) :=
    match m with
    | [] => [(k, v)]
    | (k', v') :: r => if geqb k' k then (k', v) :: r else (k', v') :: dset k v r
    end.
  Fixpoint ddel (k : gid) (m : list (gid * V)) : list (gid * V) :=
    match m with [] => [] | (k', v') :: r => if geqb k' k then r else (k', v') :: ddel k r end.
End Dict.
Arguments lookup {V}. Arguments dset {V}. Arguments ddel {V}.

(* ---------------- the container ---------------- *)
Record st := mk {
  sds  : list gid;                    (* keys of _subdomain_data *)
  intfs : list gid;                   (* keys of _interface_data *)
  i2s  : list (gid * (gid * gid));    (* _interface_to_subdomains *)
  s2b  : list (gid * gid);            (* _subdomain_to_boundary_grid *)
  bgs  : list gid;                    (* keys of _boundary_grid_data *)
  nbg  : nat                          (* number of BoundaryGrid objects allocated so far *)
}.

Definition empty : st := mk [] [] [] [] [] 0.

(* ---------------- argsort_grids ---------------- *)
(* np.argsort of the ids of one dimension (stable insertion sort; ids of distinct
   objects of one class are distinct) *)
Fixpoint ins_id (x : gid) (l : list gid) : list gid :=
  match l with
  | [] => [x]
  | y :: r => if snd x <=? snd y then x :: y :: r else y :: ins_id x r
  end.
Definition isort (l : list gid) : list gid := fold_right ins_id [] l.

Definition of_dim (d : nat) (l : list gid) : list gid := filter (fun g => fst g =? d) l.

(* np.arange(n, -1, -1) *)
Fixpoint dims_down (n : nat) : list nat :=
  match n with O => [0] | S k => S k :: dims_down k end.

(* [grids[i] for i in argsort_grids(grids)] when the md-grid has subdomains: for dim from
   dim_max() down to 0, the grids of that dimension by ascending id; grids of a
   dimension above dim_max() are dropped *)
Definition sort_grids (dmax : nat) (l : list gid) : list gid :=
  flat_map (fun d => isort (of_dim d l)) (dims_down dmax).

Definition dim_max (s : list gid) : nat := fold_right Nat.max 0 (map fst s).

Definition argsort (s : list gid) (l : list gid) : res (list gid) :=
  match s with
  | [] => match l with [] => Ok [] | _ => Err AssertErr end   (* assert len(grids) == 0 *)
  | _ => Ok (sort_grids (dim_max s) l)
  end.

(* sort_subdomain_tuple: (subdomains[inds[0]], subdomains[inds[1]]) *)
Definition sort_tuple (s : list gid) (a b : gid) : res (gid * gid) :=
  match argsort s [a; b] with
  | Err e => Err e
  | Ok (x :: y :: _) => Ok (x, y)
  | Ok _ => Err IndexErr
  end.

(* ---------------- queries ---------------- *)
Definition dim_filter (d : option nat) (l : list gid) : list gid :=
  match d with None => l | Some d => of_dim d l end.

Definition subdomains (g : st) (d : option nat) : res (list gid) :=
  argsort (sds g) (dim_filter d (sds g)).

Definition interfaces (g : st) (d : option nat) : res (list gid) :=
  argsort (sds g) (dim_filter d (intfs g)).

Definition intf_pair (g : st) (i : gid) : res (gid * gid) :=
  match lookup i (i2s g) with
  | None => Err KeyErr
  | Some (a, b) => sort_tuple (sds g) a b
  end.

Definition pair_eqb (p q : gid * gid) : bool := geqb (fst p) (fst q) && geqb (snd p) (snd q).

(* reverse_dict = {v: k for k, v in ...items()}: the last interface stored with that
   pair wins *)
Fixpoint rev_lookup (p : gid * gid) (m : list (gid * (gid * gid))) : option gid :=
  match m with
  | [] => None
  | (i, q) :: r => match rev_lookup p r with
                   | Some j => Some j
                   | None => if pair_eqb q p then Some i else None
                   end
  end.

Definition pair_to_intf (g : st) (a b : gid) : res gid :=
  match rev_lookup (a, b) (i2s g) with
  | Some i => Ok i
  | None => match rev_lookup (b, a) (i2s g) with
            | Some i => Ok i
            | None => Err KeyErr
            end
  end.

Definition touches (s : gid) (p : gid * gid) : bool := geqb (fst p) s || geqb (snd p) s.

(* the loop "for intf in <keys>: sd_pair = _interface_to_subdomains[intf]; if sd_pair[0]
   == sd or sd_pair[1] == sd: append" *)
Fixpoint collect (m : list (gid * (gid * gid))) (s : gid) (keys : list gid) : res (list gid) :=
  match keys with
  | [] => Ok []
  | i :: r => match lookup i m with
              | None => Err KeyErr
              | Some p => match collect m s r with
                          | Err e => Err e
                          | Ok l => Ok (if touches s p then i :: l else l)
                          end
              end
  end.

Definition sd_to_intfs (g : st) (s : gid) : res (list gid) :=
  match collect (i2s g) s (intfs g) with
  | Err e => Err e
  | Ok l => argsort (sds g) l
  end.

Definition sd_to_bg (g : st) (s : gid) : option gid := lookup s (s2b g).

(* boundaries(dim=d) *)
Definition boundaries (g : st) (d : option nat) : res (list gid) :=
  match sds g, s2b g with
  | _ :: _, [] => Err ValueErr       (* subdomains but no boundary grids *)
  | _, _ => argsort (sds g) (dim_filter d (bgs g))
  end.

(* interfaces(dim=d, codim=c); the co-dimension is an attribute of the mortar grid,
   given here as a table (default 1, the constructor's default) *)
Definition codim_of (cm : list (gid * nat)) (i : gid) : nat :=
  match lookup i cm with Some c => c | None => 1 end.
Definition codim_filter (cm : list (gid * nat)) (c : option nat) (l : list gid) : list gid :=
  match c with None => l | Some c => filter (fun i => codim_of cm i =? c) l end.
Definition interfaces_cd (cm : list (gid * nat)) (g : st) (d c : option nat) : res (list gid) :=
  argsort (sds g) (codim_filter cm c (dim_filter d (intfs g))).

(* neighboring_subdomains(sd, only_higher, only_lower) *)
Fixpoint neigh_raw (s : gid) (m : list (gid * (gid * gid))) : list gid :=
  match m with
  | [] => []
  | (_, (a, b)) :: r => if geqb a s then b :: neigh_raw s r
                        else if geqb b s then a :: neigh_raw s r
                        else neigh_raw s r
  end.
Definition neighbours (g : st) (s : gid) (hi lo : bool) : res (list gid) :=
  let nb := neigh_raw s (i2s g) in
  if hi && lo then Err ValueErr
  else if hi then argsort (sds g) (filter (fun x => fst s <? fst x) nb)
  else if lo then argsort (sds g) (filter (fun x => fst x <? fst s) nb)
  else argsort (sds g) nb.

(* ---------------- operations ---------------- *)
Inductive op :=
| AddSd (l : list gid)                        (* add_subdomains(list) *)
| AddIntf (i a b : gid)                       (* add_interface(i, (a, b), map) *)
| RemoveSd (s : gid)                          (* remove_subdomain(s) *)
| Replace (im : list (gid * gid)) (sm : list (gid * gid)).
                                              (* replace_subdomains_and_interfaces(sd_map=sm,
                                                 interface_map=im), maps in dict order *)

Inductive outcome := Done | Raised (e : err).

(* second loop of add_subdomains: boundary grids for the positive-dimensional grids *)
Fixpoint add_bgs (l : list gid) (m : list (gid * gid)) (b : list gid) (n : nat)
  : list (gid * gid) * list gid * nat :=
  match l with
  | [] => (m, b, n)
  | s :: r => if 0 <? gdim s
              then let bg := (gdim s - 1, n) in add_bgs r (dset s bg m) (kadd bg b) (S n)
              else add_bgs r m b n
  end.

(* no grid of the list equals an earlier one *)
Fixpoint dupfree (l : list gid) : bool :=
  match l with [] => true | x :: r => negb (mem x r) && dupfree r end.

Definition add_subdomains (g : st) (l : list gid) : st * outcome :=
  if existsb (fun s => mem s (sds g)) l then (g, Raised ValueErr)
  else if negb (dupfree l) then (g, Raised ValueErr)
  else
    let s' := fold_left (fun acc s => kadd s acc) l (sds g) in
    let '(m, b, n) := add_bgs l (s2b g) (bgs g) (nbg g) in
    (mk s' (intfs g) (i2s g) m b n, Done).

Definition absdiff (a b : nat) : nat := (a - b) + (b - a).

Definition add_interface (g : st) (i a b : gid) : st * outcome :=
  if mem i (intfs g) then (g, Raised ValueErr)
  else if absdiff (gdim a) (gdim b) <? 3 then
    match sort_tuple (sds g) a b with
    | Err e => (g, Raised e)
    | Ok p => (mk (sds g) (kadd i (intfs g)) (dset i p (i2s g)) (s2b g) (bgs g) (nbg g), Done)
    end
  else (g, Raised ValueErr).

(* "for intf in interfaces_to_remove: del _interface_data[intf]; del
   _interface_to_subdomains[intf]" *)
Fixpoint del_intfs (l : list gid) (k : list gid) (m : list (gid * (gid * gid)))
  : list gid * list (gid * (gid * gid)) :=
  match l with
  | [] => (k, m)
  | i :: r => del_intfs r (kdel i k) (ddel i m)
  end.

Definition remove_subdomain (g : st) (s : gid) : st * outcome :=
  (* the interfaces are collected first, then the subdomain is deleted *)
  match interfaces g None with
  | Err e => (g, Raised e)
  | Ok L =>
      match collect (i2s g) s L with
      | Err e => (g, Raised e)
      | Ok rm =>
          if negb (mem s (sds g)) then (g, Raised KeyErr)
          else
            let g1 := mk (kdel s (sds g)) (intfs g) (i2s g) (s2b g) (bgs g) (nbg g) in
            let '(k, m) := del_intfs rm (intfs g1) (i2s g1) in
            let g2 := mk (sds g1) k m (s2b g1) (bgs g1) (nbg g1) in
            if 0 <? gdim s then
              match lookup s (s2b g2) with
              | None => (g2, Raised KeyErr)
              | Some bg =>
                  if mem bg (bgs g2)
                  then (mk (sds g2) k m (ddel s (s2b g2)) (kdel bg (bgs g2)) (nbg g2), Done)
                  else (g2, Raised KeyErr)
              end
            else (g2, Done)
      end
  end.

(* the loop over subdomain_to_interfaces(sd_old) inside replace *)
Fixpoint rename_loop (s : list gid) (o n : gid) (l : list gid) (m : list (gid * (gid * gid)))
  : list (gid * (gid * gid)) * option err :=
  match l with
  | [] => (m, None)
  | i :: r =>
      match lookup i m with
      | None => (m, Some KeyErr)
      | Some (a, b) =>
          match sort_tuple s a b with
          | Err e => (m, Some e)
          | Ok (hi, lo) =>
              (* both items are checked: a subdomain can be coupled to itself *)
              let hi' := if geqb hi o then n else hi in
              let m1 := if geqb hi o then dset i (n, lo) m else m in
              let m2 := if geqb lo o then dset i (hi', n) m1 else m1 in
              rename_loop s o n r m2
          end
      end
  end.

(* one (sd_old, sd_new) item of sd_map *)
Definition replace_one (g : st) (o n : gid) : st * outcome :=
  if negb (mem o (sds g)) then (g, Raised KeyErr)
  else
    let g1 := mk (kadd n (sds g)) (intfs g) (i2s g) (s2b g) (bgs g) (nbg g) in
    match sd_to_intfs g1 o with
    | Err e => (g1, Raised e)
    | Ok L =>
        let (m, e) := rename_loop (sds g1) o n L (i2s g1) in
        let g2 := mk (sds g1) (intfs g1) m (s2b g1) (bgs g1) (nbg g1) in
        match e with
        | Some e => (g2, Raised e)
        | None =>
            let g3 := mk (kdel o (sds g2)) (intfs g2) m (s2b g2) (bgs g2) (nbg g2) in
            if 0 <? gdim o then
              match lookup o (s2b g3) with
              | None => (g3, Raised KeyErr)
              | Some bgo =>
                  if gdim n =? 0                     (* BoundaryGrid(0-d grid): the object is
                                                        allocated, then __init__ raises *)
                  then (mk (sds g3) (intfs g3) m (s2b g3) (bgs g3) (S (nbg g3)), Raised ValueErr)
                  else if negb (mem bgo (bgs g3)) then (g3, Raised KeyErr)
                  else
                    let bgn := (gdim n - 1, nbg g3) in
                    (mk (sds g3) (intfs g3) m
                        (ddel o (dset n bgn (s2b g3)))
                        (kdel bgo (kadd bgn (bgs g3)))
                        (S (nbg g3)), Done)
              end
            else (g3, Done)
        end
    end.

Fixpoint replace_all (g : st) (sm : list (gid * gid)) : st * outcome :=
  match sm with
  | [] => (g, Done)
  | (o, n) :: r => match replace_one g o n with
                   | (g', Done) => replace_all g' r
                   | (g', Raised e) => (g', Raised e)
                   end
  end.

(* interface_map only triggers MortarGrid.update_mortar on the old mortar grid object, in
   place; the container is not touched (not even read) *)
Definition step (g : st) (o : op) : st * outcome :=
  match o with
  | AddSd l => add_subdomains g l
  | AddIntf i a b => add_interface g i a b
  | RemoveSd s => remove_subdomain g s
  | Replace im sm => replace_all g sm
  end.

Fixpoint run (g : st) (ops : list op) : st * list outcome :=
  match ops with
  | [] => (g, [])
  | o :: r => let (g', x) := step g o in
              let (g'', xs) := run g' r in (g'', x :: xs)
  end.

(* ---------------- comparison with the implementation (tie) ---------------- *)
Fixpoint list_eqb {A} (eqb : A -> A -> bool) (a b : list A) : bool :=
  match a, b with
  | [], [] => true
  | x :: r, y :: s => eqb x y && list_eqb eqb r s
  | _, _ => false
  end.

Definition err_eqb (a b : err) : bool :=
  match a, b with
  | KeyErr, KeyErr | ValueErr, ValueErr | AssertErr, AssertErr | IndexErr, IndexErr => true
  | _, _ => false
  end.

Definition res_eqb {A} (eqb : A -> A -> bool) (a b : res A) : bool :=
  match a, b with
  | Ok x, Ok y => eqb x y
  | Err e, Err f => err_eqb e f
  | _, _ => false
  end.

Definition outcome_eqb (a b : outcome) : bool :=
  match a, b with
  | Done, Done => true
  | Raised e, Raised f => err_eqb e f
  | _, _ => false
  end.

Definition opt_eqb {A} (eqb : A -> A -> bool) (a b : option A) : bool :=
  match a, b with
  | None, None => true
  | Some x, Some y => eqb x y
  | _, _ => false
  end.

Definition glist_eqb := list_eqb geqb.
Definition kv_eqb {V} (veqb : V -> V -> bool) (a b : gid * V) : bool :=
  geqb (fst a) (fst b) && veqb (snd a) (snd b).

(* what the harness records after every call *)
Record obs := mkobs {
  o_out : outcome;
  o_sds : list gid;  o_intfs : list gid;             (* raw dictionary key orders *)
  o_i2s : list (gid * (gid * gid));
  o_s2b : list (gid * gid);  o_bgs : list gid;
  o_subdomains : res (list gid);                     (* subdomains() *)
  o_interfaces : res (list gid);                     (* interfaces() *)
  o_sub_dim : list (nat * res (list gid));           (* subdomains(dim=d) *)
  o_int_dim : list (nat * res (list gid));           (* interfaces(dim=d) *)
  o_pairs : list (gid * res (gid * gid));            (* interface_to_subdomain_pair *)
  o_back : list (gid * gid * res gid);               (* subdomain_pair_to_interface *)
  o_sd_intfs : list (gid * res (list gid));          (* subdomain_to_interfaces *)
  o_sd_bg : list (gid * option gid);                 (* subdomain_to_boundary_grid *)
  o_bounds : res (list gid);                         (* boundaries() *)
  o_bounds_dim : list (nat * res (list gid));        (* boundaries(dim=d) *)
  o_int_cd : list (option nat * nat * res (list gid));  (* interfaces(dim=d, codim=c) *)
  o_neigh : list (gid * (bool * bool) * res (list gid)); (* neighboring_subdomains *)
  o_argsort : list (list gid * res (list gid))       (* [l[i] for i in argsort_grids(l)] *)
}.

Definition obs_ok (cm : list (gid * nat)) (g : st) (x : outcome) (o : obs) : bool :=
  outcome_eqb x (o_out o)
  && glist_eqb (sds g) (o_sds o) && glist_eqb (intfs g) (o_intfs o)
  && list_eqb (kv_eqb pair_eqb) (i2s g) (o_i2s o)
  && list_eqb (kv_eqb geqb) (s2b g) (o_s2b o) && glist_eqb (bgs g) (o_bgs o)
  && res_eqb glist_eqb (subdomains g None) (o_subdomains o)
  && res_eqb glist_eqb (interfaces g None) (o_interfaces o)
  && forallb (fun p => res_eqb glist_eqb (subdomains g (Some (fst p))) (snd p)) (o_sub_dim o)
  && forallb (fun p => res_eqb glist_eqb (interfaces g (Some (fst p))) (snd p)) (o_int_dim o)
  && forallb (fun p => res_eqb pair_eqb (intf_pair g (fst p)) (snd p)) (o_pairs o)
  && forallb (fun p => res_eqb geqb (pair_to_intf g (fst (fst p)) (snd (fst p))) (snd p))
             (o_back o)
  && forallb (fun p => res_eqb glist_eqb (sd_to_intfs g (fst p)) (snd p)) (o_sd_intfs o)
  && forallb (fun p => opt_eqb geqb (sd_to_bg g (fst p)) (snd p)) (o_sd_bg o)
  && res_eqb glist_eqb (boundaries g None) (o_bounds o)
  && forallb (fun p => res_eqb glist_eqb (boundaries g (Some (fst p))) (snd p)) (o_bounds_dim o)
  && forallb (fun p => res_eqb glist_eqb
                         (interfaces_cd cm g (fst (fst p)) (Some (snd (fst p)))) (snd p))
             (o_int_cd o)
  && forallb (fun p => res_eqb glist_eqb
                         (neighbours g (fst (fst p)) (fst (snd (fst p))) (snd (snd (fst p))))
                         (snd p))
             (o_neigh o)
  && forallb (fun p => res_eqb glist_eqb (argsort (sds g) (fst p)) (snd p)) (o_argsort o).

(* monomorphic constructors for the literals of generated case files (cheap to elaborate) *)
Definition G (d n : nat) : gid := (d, n).
Definition KP (i a b : gid) : gid * (gid * gid) := (i, (a, b)).
Definition KB (s b : gid) : gid * gid := (s, b).
Definition PP2 (a b : gid) : gid * gid := (a, b).
Definition DR (d : nat) (r : res (list gid)) : nat * res (list gid) := (d, r).
Definition PR (i : gid) (r : res (gid * gid)) : gid * res (gid * gid) := (i, r).
Definition BK (a b : gid) (r : res gid) : gid * gid * res gid := (a, b, r).
Definition SI (s : gid) (r : res (list gid)) : gid * res (list gid) := (s, r).
Definition SB (s : gid) (b : option gid) : gid * option gid := (s, b).
Definition OkL (l : list gid) : res (list gid) := Ok l.
Definition OkP (a b : gid) : res (gid * gid) := Ok (a, b).
Definition OkG (g : gid) : res gid := Ok g.
Definition ErrL (e : err) : res (list gid) := Err e.
Definition ErrP (e : err) : res (gid * gid) := Err e.
Definition ErrG (e : err) : res gid := Err e.
Definition NoG : option gid := None.
Definition SomeG (g : gid) : option gid := Some g.
Definition CM (i : gid) (c : nat) : gid * nat := (i, c).
Definition CD (d : option nat) (c : nat) (r : res (list gid)) : option nat * nat * res (list gid) :=
  (d, c, r).
Definition NB (s : gid) (hi lo : bool) (r : res (list gid)) : gid * (bool * bool) * res (list gid) :=
  (s, (hi, lo), r).
Definition AS (l : list gid) (r : res (list gid)) : list gid * res (list gid) := (l, r).
Definition gnil : list gid := nil.
Definition gcons (g : gid) (l : list gid) : list gid := g :: l.

(* what the case file carries per call: the outcome alone, or the outcome with the full
   dump and query results *)
Inductive ob := Brief (x : outcome) | Full (o : obs).

Fixpoint agree_from (cm : list (gid * nat)) (g : st) (ops : list op) (os : list ob) : bool :=
  match ops, os with
  | [], [] => true
  | o :: r, x :: xs =>
      let (g', out) := step g o in
      (match x with Brief y => outcome_eqb out y | Full y => obs_ok cm g' out y end)
      && agree_from cm g' r xs
  | _, _ => false
  end.

(* [cm]: the co-dimension attribute of the mortar grids of the case *)
Definition agree (cm : list (gid * nat)) (ops : list op) (os : list ob) : bool :=
  agree_from cm empty ops os.
