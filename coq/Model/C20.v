(* C20 — rigid motions and grid geometry.  Executable definitions only.

   Part 1 (Section Generic): 3-vectors, 3x3 matrices, cofactor matrix, rigid motions and
   a small expression language of geometry formulas (points, vectors, scalars) over the
   operations of an arbitrary commutative ring.
   Part 2: a formula set transcribed from porepy/grids/grid.py — the consistently-oriented
   branch of Grid._compute_geometry_2d for grids embedded in 3-D (face centres, tangents,
   sub-simplex normals, plane normal, face normals, signed sub-simplex volumes, cell
   volumes, cell centroids), the 1-D formulas of _compute_geometry_1d and the face normals
   of _compute_geometry_3d (sum of the sub-triangle normals) — written with the generic
   operations and instantiated with Q for execution.
   Part 3: the comparison functions of the tie (Q, relative band 1e-9).

   This is this property's OWN formula set (the C19 model covers only non-embedded 1-D/2-D
   grids). *)
From Coq Require Import List ZArith QArith Qabs Qminmax Bool Arith.
Import ListNotations.

Section Generic.
  Variable F : Type.
  Variables (f0 f1 : F) (fadd fmul fsub : F -> F -> F) (fopp : F -> F).
  Local Infix "+" := fadd.  Local Infix "*" := fmul.  Local Infix "-" := fsub.

  Definition vec := (F * F * F)%type.
  Definition vx (v : vec) : F := fst (fst v).
  Definition vy (v : vec) : F := snd (fst v).
  Definition vz (v : vec) : F := snd v.
  Definition mkv (x y z : F) : vec := (x, y, z).
  Definition vzero : vec := mkv f0 f0 f0.
  Definition vadd (a b : vec) : vec := mkv (vx a + vx b) (vy a + vy b) (vz a + vz b).
  Definition vsub (a b : vec) : vec := mkv (vx a - vx b) (vy a - vy b) (vz a - vz b).
  Definition vscale (k : F) (a : vec) : vec := mkv (k * vx a) (k * vy a) (k * vz a).
  Definition dot (a b : vec) : F := vx a * vx b + vy a * vy b + vz a * vz b.
  Definition cross (a b : vec) : vec :=
    mkv (vy a * vz b - vz a * vy b) (vz a * vx b - vx a * vz b) (vx a * vy b - vy a * vx b).
  Definition vsum (l : list vec) : vec := fold_right vadd vzero l.
  Definition ssum (l : list F) : F := fold_right fadd f0 l.

  (* matrices: three rows *)
  Definition mat := (vec * vec * vec)%type.
  Definition row1 (M : mat) : vec := fst (fst M).
  Definition row2 (M : mat) : vec := snd (fst M).
  Definition row3 (M : mat) : vec := snd M.
  Definition mapply (M : mat) (v : vec) : vec :=
    mkv (dot (row1 M) v) (dot (row2 M) v) (dot (row3 M) v).
  Definition col1 (M : mat) : vec := mkv (vx (row1 M)) (vx (row2 M)) (vx (row3 M)).
  Definition col2 (M : mat) : vec := mkv (vy (row1 M)) (vy (row2 M)) (vy (row3 M)).
  Definition col3 (M : mat) : vec := mkv (vz (row1 M)) (vz (row2 M)) (vz (row3 M)).
  Definition det (M : mat) : F := dot (row1 M) (cross (row2 M) (row3 M)).
  (* cofactor matrix *)
  Definition cof (M : mat) : mat :=
    (cross (row2 M) (row3 M), cross (row3 M) (row1 M), cross (row1 M) (row2 M)).

  (* rigid motion x -> M x + t *)
  Definition motion (M : mat) (t : vec) (p : vec) : vec := vadd (mapply M p) t.

  (* --------------------------------------------------------------------------------
     Geometry formulas as expressions: scalars (invariant), vectors (rotate), points
     (move).  Scalars may pass through ARBITRARY functions (sqrt, sign, reciprocal...). *)
  Inductive sexp : Type :=
  | SConst (c : F)
  | SDot (a b : vexp)
  | SAdd (a b : sexp)
  | SMul (a b : sexp)
  | SFun1 (f : F -> F) (a : sexp)
  | SFun2 (f : F -> F -> F) (a b : sexp)
  with vexp : Type :=
  | VDiff (p q : pexp)              (* p - q *)
  | VCross (a b : vexp)
  | VScale (s : sexp) (a : vexp)
  | VAdd (a b : vexp)
  with pexp : Type :=
  | PNode (i : nat)
  | PShift (p : pexp) (v : vexp)    (* p + v *)
  | PComb (w1 w2 : F) (p q : pexp). (* w1 p + w2 q, an affine combination iff w1 + w2 = 1 *)

  Fixpoint seval (nodes : nat -> vec) (e : sexp) : F :=
    match e with
    | SConst c => c
    | SDot a b => dot (veval nodes a) (veval nodes b)
    | SAdd a b => seval nodes a + seval nodes b
    | SMul a b => seval nodes a * seval nodes b
    | SFun1 f a => f (seval nodes a)
    | SFun2 f a b => f (seval nodes a) (seval nodes b)
    end
  with veval (nodes : nat -> vec) (e : vexp) : vec :=
    match e with
    | VDiff p q => vsub (peval nodes p) (peval nodes q)
    | VCross a b => cross (veval nodes a) (veval nodes b)
    | VScale s a => vscale (seval nodes s) (veval nodes a)
    | VAdd a b => vadd (veval nodes a) (veval nodes b)
    end
  with peval (nodes : nat -> vec) (e : pexp) : vec :=
    match e with
    | PNode i => nodes i
    | PShift p v => vadd (peval nodes p) (veval nodes v)
    | PComb w1 w2 p q => vadd (vscale w1 (peval nodes p)) (vscale w2 (peval nodes q))
    end.

  (* --------------------------------------------------------------------------------
     Formula set of Grid._compute_geometry_2d (oriented branch), grid embedded in 3-D.
     An edge as seen from a cell: start node, end node (order of face_nodes.indices) and
     the sign s of the cell_faces entry.  [half], [third] are the constants 0.5 and 1/3. *)
  Variables (half third : F).
  Definition edge := (vec * vec * F)%type.
  Definition e_a (e : edge) : vec := fst (fst e).
  Definition e_b (e : edge) : vec := snd (fst e).
  Definition e_s (e : edge) : F := snd e.
  (* tangent = nodes @ fn_orient *)
  Definition tangent (e : edge) : vec := vsub (e_b e) (e_a e).
  (* face_centers = 0.5 * nodes * |fn_orient| *)
  Definition fcenter (e : edge) : vec := vscale half (vadd (e_a e) (e_b e)).
  (* temporary cell centre: sum of the face centres times w = 1 / (number of faces) *)
  Definition temp_center (w : F) (es : list edge) : vec := vscale w (vsum (map fcenter es)).
  (* subsimplex_normals = 0.5 * cross(face_center - temp_center, sign * tangent) *)
  Definition subnormal (tc : vec) (e : edge) : vec :=
    vscale half (cross (vsub (fcenter e) tc) (vscale (e_s e) (tangent e))).
  (* contribution of one cell to plane_normal = subsimplex_normals.sum(axis=1) *)
  Definition cell_normal_sum (w : F) (es : list edge) : vec :=
    vsum (map (subnormal (temp_center w es)) es).
  (* face_normals = cross(tangent, plane_normal) *)
  Definition fnormal (n : vec) (e : edge) : vec := cross (tangent e) n.
  (* subsimplex_volumes = dot(plane_normal, subsimplex_normals); cell volume = their sum *)
  Definition subvol (n tc : vec) (e : edge) : F := dot n (subnormal tc e).
  Definition cell_volume (n : vec) (w : F) (es : list edge) : F :=
    ssum (map (subvol n (temp_center w es)) es).
  (* sum of subvol * (temp + 2 * face_center) / 3: numerator of the cell centroid *)
  Definition cell_moment (n : vec) (w : F) (es : list edge) : vec :=
    let tc := temp_center w es in
    vsum (map (fun e => vscale (subvol n tc e)
                          (vscale third (vadd tc (vadd (fcenter e) (fcenter e))))) es).

  (* _compute_geometry_3d: normal of a face = sum over its edges (cur -> next) of
     cross(next - cur, centre - cur) / 2 with centre = mean of the face's nodes *)
  Definition sub_normal3 (c : vec) (ab : vec * vec) : vec :=
    vscale half (cross (vsub (snd ab) (fst ab)) (vsub c (fst ab))).
  Definition face_normal3 (w : F) (loop : list (vec * vec)) : vec :=
    let c := vscale w (vsum (map fst loop)) in
    vsum (map (sub_normal3 c) loop).
End Generic.

Arguments vx {F} v.  Arguments vy {F} v.  Arguments vz {F} v.
Arguments mkv {F} x y z.
Arguments row1 {F} M.  Arguments row2 {F} M.  Arguments row3 {F} M.
Arguments e_a {F} e.  Arguments e_b {F} e.  Arguments e_s {F} e.
Arguments SConst {F} c.  Arguments SDot {F} a b.  Arguments SAdd {F} a b.
Arguments SMul {F} a b.  Arguments SFun1 {F} f a.  Arguments SFun2 {F} f a b.
Arguments VDiff {F} p q.  Arguments VCross {F} a b.  Arguments VScale {F} s a.
Arguments VAdd {F} a b.  Arguments PNode {F} i.  Arguments PShift {F} p v.
Arguments PComb {F} w1 w2 p q.

(* ------------------------------------------------------------------------------------ *)
(* Q instance *)
Open Scope Q_scope.
Definition qvec := vec Q.
Definition qmat := mat Q.
(* normalising operations: every intermediate result is reduced to lowest terms (same
   rational values, smaller numerals) *)
Definition radd (a b : Q) : Q := Qred (a + b).
Definition rsub (a b : Q) : Q := Qred (a - b).
Definition rmul (a b : Q) : Q := Qred (a * b).
Definition qvadd := vadd Q radd.
Definition qvsub := vsub Q rsub.
Definition qvscale := vscale Q rmul.
Definition qdot := dot Q radd rmul.
Definition qcross := cross Q rmul rsub.
Definition qmapply := mapply Q radd rmul.
Definition qmotion := motion Q radd rmul.
Definition qdet := det Q radd rmul rsub.
Definition qcol1 := col1 Q.  Definition qcol2 := col2 Q.  Definition qcol3 := col3 Q.

Definition vred (v : qvec) : qvec := (Qred (vx v), Qred (vy v), Qred (vz v)).

(* R^T R = I and det R = 1, exactly *)
Definition is_rotation_q (M : qmat) : bool :=
  Qeq_bool (qdot (qcol1 M) (qcol1 M)) 1 && Qeq_bool (qdot (qcol2 M) (qcol2 M)) 1
  && Qeq_bool (qdot (qcol3 M) (qcol3 M)) 1 && Qeq_bool (qdot (qcol1 M) (qcol2 M)) 0
  && Qeq_bool (qdot (qcol1 M) (qcol3 M)) 0 && Qeq_bool (qdot (qcol2 M) (qcol3 M)) 0
  && Qeq_bool (qdet M) 1.

(* comparison band: relative 1e-9 plus an absolute slack [sl] that accounts for the
   precision of the INPUT: node coordinates of magnitude M are floats with spacing M * 2^-52,
   so quantities computed from them carry absolute errors proportional to M (see [slack]) *)
Definition close (sl a b : Q) : bool :=
  Qle_bool (Qabs (a - b)) ((1 # 1000000000) * (1 + Qabs b) + sl).
Definition closev (sl : Q) (a b : qvec) : bool :=
  close sl (vx a) (vx b) && close sl (vy a) (vy b) && close sl (vz a) (vz b).
Definition maxabs (l : list qvec) : Q :=
  fold_right (fun p m => Qmax (Qmax (Qabs (vx p)) (Qabs (vy p))) (Qmax (Qabs (vz p)) m)) 0 l.
(* 2^-40 * (largest moved coordinate) * (1 + largest original coordinate)^2 *)
Definition slack (N N' : list qvec) : Q :=
  Qred ((1 # 1099511627776) * maxabs N' * ((1 + maxabs N) * (1 + maxabs N))).

Fixpoint all2 {A B} (f : A -> B -> bool) (a : list A) (b : list B) : bool :=
  match a, b with
  | [], [] => true
  | x :: r, y :: s => f x y && all2 f r s
  | _, _ => false
  end.

(* the geometry arrays of one grid, as floats converted exactly *)
Record geom := { g_area : list Q; g_fc : list qvec; g_fn : list qvec;
                 g_vol : list Q; g_cc : list qvec }.

(* The property, evaluated on the implementation's output before (G) and after (G') the
   motion x -> M x + t of the nodes (N -> N'). *)
Definition moved_nodes_ok (sl : Q) (M : qmat) (t : qvec) (N N' : list qvec) : bool :=
  all2 (fun p p' => closev sl p' (vred (qmotion M t p))) N N'.
Definition equivariant_ok (sl : Q) (M : qmat) (t : qvec) (G G' : geom) : bool :=
  all2 (fun a a' => close sl a' a) (g_area G) (g_area G')
  && all2 (fun a a' => close sl a' a) (g_vol G) (g_vol G')
  && all2 (fun p p' => closev sl p' (vred (qmotion M t p))) (g_fc G) (g_fc G')
  && all2 (fun p p' => closev sl p' (vred (qmotion M t p))) (g_cc G) (g_cc G')
  && all2 (fun n n' => closev sl n' (vred (qmapply M n))) (g_fn G) (g_fn G').

(* ------------------------------------------------------------------------------------ *)
(* The 2-D formula set executed on a grid: nodes, faces (start node, end node), cell_faces
   entries (face, cell, sign) in storage order. *)
Record grid2 := { t_nodes : list qvec; t_faces : list (nat * nat);
                  t_cf : list (nat * nat * Z); t_nc : nat }.

Definition half_q : Q := 1 # 2.
Definition third_q : Q := 1 # 3.
Definition qzero : qvec := (0, 0, 0).
Definition node (g : grid2) (i : nat) : qvec := nth i (t_nodes g) qzero.
Definition edge_of (g : grid2) (f : nat) (s : Z) : edge Q :=
  let se := nth f (t_faces g) (O, O) in (node g (fst se), node g (snd se), inject_Z s).
Definition cell_edges (g : grid2) (c : nat) : list (edge Q) :=
  map (fun x => edge_of g (fst (fst x)) (snd x))
      (filter (fun x => Nat.eqb (snd (fst x)) c) (t_cf g)).
Definition wq (es : list (edge Q)) : Q := 1 / inject_Z (Z.of_nat (length es)).

Definition q_fcenter := fcenter Q radd rmul half_q.
Definition q_tangent := tangent Q rsub.
Definition q_cell_normal_sum := cell_normal_sum Q 0 radd rmul rsub half_q.
Definition q_cell_volume := cell_volume Q 0 radd rmul rsub half_q.
Definition q_cell_moment := cell_moment Q 0 radd rmul rsub half_q third_q.
Definition q_fnormal := fnormal Q rmul rsub.
Definition q_vsum := vsum Q 0 radd.

(* unnormalised plane normal: sum of all sub-simplex normals *)
Definition plane_sum (g : grid2) : qvec :=
  vred (q_vsum (map (fun c => let es := cell_edges g c in q_cell_normal_sum (wq es) es)
                    (seq 0 (t_nc g)))).

(* [s] is a witness for |plane_sum| (the square root is not computable in Q): the harness
   supplies the implementation's total area; it is CHECKED here (s > 0, s^2 = |S|^2). *)
Definition geometry2 (sl : Q) (g : grid2) (s : Q) : option geom :=
  let S := plane_sum g in
  if negb (Qle_bool s 0) && close sl (s * s) (qdot S S) then
    let n := vred (qvscale (1 / s) S) in
    let fs := map (fun f => edge_of g f 1%Z) (seq 0 (length (t_faces g))) in
    let cells := map (cell_edges g) (seq 0 (t_nc g)) in
    let vols := map (fun es => Qred (q_cell_volume n (wq es) es)) cells in
    Some {| g_area := map (fun e => Qred (qdot (q_tangent e) (q_tangent e))) fs;  (* squared *)
            g_fc := map (fun e => vred (q_fcenter e)) fs;
            g_fn := map (fun e => vred (q_fnormal n e)) fs;
            g_vol := vols;
            g_cc := map (fun es => vred (qvscale (1 / q_cell_volume n (wq es) es)
                                                  (q_cell_moment n (wq es) es))) cells |}
  else None.

(* model vs implementation (areas compared through their squares) *)
Definition agree2 (sl : Q) (g : grid2) (s : Q) (G : geom) : bool :=
  match geometry2 sl g s with
  | None => false
  | Some m =>
      all2 (fun a2 a => close sl (a * a) a2) (g_area m) (g_area G)
      && all2 (fun p q => closev sl q p) (g_fc m) (g_fc G)
      && all2 (fun p q => closev sl q p) (g_fn m) (g_fn G)
      && all2 (fun a b => close sl b a) (g_vol m) (g_vol G)
      && all2 (fun p q => closev sl q p) (g_cc m) (g_cc G)
  end.

(* 1-D formula set: face i sits at node fn[i]; cell c has the faces (f1, f2) =
   cf.indices[2c], cf.indices[2c+1]; volume = |xf1 - xf2| (compared through squares),
   centre = midpoint; face normals: unit length, along the line, outward for a positive
   cell_faces sign (first stored entry of the face: (cell centre, sign)). *)
Record grid1 := { u_nodes : list qvec; u_fn : list nat; u_cells : list (nat * nat);
                  u_first : list (nat * Z) }.
Definition xface (h : grid1) (f : nat) : qvec := nth (nth f (u_fn h) O) (u_nodes h) qzero.
Definition agree1 (sl : Q) (h : grid1) (G : geom) : bool :=
  all2 (fun f p => closev sl p (xface h f)) (seq 0 (length (u_fn h))) (g_fc G)
  && all2 (fun c v => let d := qvsub (xface h (fst c)) (xface h (snd c)) in
                      close sl (v * v) (Qred (qdot d d)) && negb (Qle_bool v 0))
          (u_cells h) (g_vol G)
  && all2 (fun c p => closev sl p (vred (qvscale half_q (qvadd (xface h (fst c)) (xface h (snd c))))))
          (u_cells h) (g_cc G)
  && all2 (fun a _ => close sl a 1) (g_area G) (g_area G)
  && all2 (fun fe n =>
             let f := fst fe in let cs := snd fe in
             let c := nth (fst cs) (u_cells h) (O, O) in
             let dir := qvsub (xface h (fst c)) (xface h (snd c)) in
             let cc := qvscale half_q (qvadd (xface h (fst c)) (xface h (snd c))) in
             let out := Qred (qdot n (qvsub (xface h f) cc)) * inject_Z (snd cs) in
             close sl (qdot n n) 1 && closev sl (qcross n dir) qzero && negb (Qle_bool out 0))
          (combine (seq 0 (length (u_fn h))) (u_first h)) (g_fn G).

(* 3-D: face normals = sum of the sub-triangle normals (polynomial in the nodes) *)
Definition q_face_normal3 := face_normal3 Q 0 radd rmul rsub half_q.
Definition agree3 (sl : Q) (nodes : list qvec) (faces : list (list nat)) (G : geom) : bool :=
  all2 (fun ids n =>
          let pts := map (fun i => nth i nodes qzero) ids in
          let loop := combine pts (tl pts ++ firstn 1 pts) in
          closev sl n (vred (q_face_normal3 (1 / inject_Z (Z.of_nat (length ids))) loop)))
       faces (g_fn G).

(* one case of the tie *)
Inductive shape := Shape1 (h h' : grid1) | Shape2 (g g' : grid2) (s s' : Q)
                 | Shape3 (faces : list (list nat)) | ShapeNone.

Definition agree (M : qmat) (t : qvec) (N N' : list qvec) (G G' : geom) (sh : shape) : bool :=
  let sl := slack N N' in
  is_rotation_q M && moved_nodes_ok sl M t N N' && equivariant_ok sl M t G G'
  && match sh with
     | Shape1 h h' => agree1 sl h G && agree1 sl h' G'
     | Shape2 g g' s s' => agree2 sl g s G && agree2 sl g' s' G'
     | Shape3 faces => agree3 sl N faces G && agree3 sl N' faces G'
     | ShapeNone => true
     end.

(* Constructors used by the generated case files: indices as binary integers. *)
Definition zn (i : Z) : nat := Z.to_nat i.
Definition zpair (a b : Z) : nat * nat := (Z.to_nat a, Z.to_nat b).
Definition zcf (f c s : Z) : nat * nat * Z := (Z.to_nat f, Z.to_nat c, s).
Definition zfirst (c s : Z) : nat * Z := (Z.to_nat c, s).
