(* C09 — adaptive time stepping (porepy/numerics/time_step_control.py, class TimeManager)
   and the time loop that drives it (porepy/models/run_models.py:run_time_dependent_model,
   solution_strategy.py:after_nonlinear_convergence / after_nonlinear_failure).

   The model is written ONCE, polymorphically over a record of numeric operations
   ([numops]); this file instantiates it with PrimFloat (binary64; used only to execute the
   model bit-exactly next to CPython/numpy), Proofs/C09.v instantiates it with the reals
   (for the theorems).  Statement-by-statement transcription of the repaired code (commit
   "fix: TimeManager skips to the next scheduled time after landing exactly on one").
   Executable definitions only. *)
From Coq Require Import List ZArith Bool PrimFloat.
Import ListNotations.

Record numops (T : Type) := {
  n_zero : T; n_one : T;
  n_milli : T;                      (* the literal 0.001 *)
  n_tenth : T;                      (* the literal 0.1 *)
  n_add : T -> T -> T; n_sub : T -> T -> T; n_mul : T -> T -> T;
  n_leb : T -> T -> bool; n_ltb : T -> T -> bool; n_eqb : T -> T -> bool;
  n_abs : T -> T }.

(* every Python exception the transcribed code can raise (all but the last are ValueError) *)
Inductive err :=
| E_sched_size | E_sched_neg | E_sched_incr | E_dtinit_pos | E_dtinit_final
| E_dtinit_lt_min | E_dtinit_gt_max | E_iter_max | E_iter_low_gt_upp | E_iter_upp_gt_max
| E_iter_low_neg | E_under | E_over | E_min_over | E_max_under | E_recomp_factor
| E_recomp_max
| E_no_iterations        (* compute_time_step(iterations=None, recompute_solution=False) *)
| E_dt_at_min            (* recomputation requested while dt == dt_min *)
| E_recomp_exhausted     (* recomputation requested, counter == recomp_max *)
| E_not_converged        (* after_nonlinear_failure with a constant time step *)
| E_index.               (* IndexError: schedule[_scheduled_idx] out of range *)

Definition err_eqb (a b : err) : bool :=
  match a, b with
  | E_sched_size, E_sched_size | E_sched_neg, E_sched_neg | E_sched_incr, E_sched_incr
  | E_dtinit_pos, E_dtinit_pos | E_dtinit_final, E_dtinit_final
  | E_dtinit_lt_min, E_dtinit_lt_min | E_dtinit_gt_max, E_dtinit_gt_max
  | E_iter_max, E_iter_max | E_iter_low_gt_upp, E_iter_low_gt_upp
  | E_iter_upp_gt_max, E_iter_upp_gt_max | E_iter_low_neg, E_iter_low_neg
  | E_under, E_under | E_over, E_over | E_min_over, E_min_over | E_max_under, E_max_under
  | E_recomp_factor, E_recomp_factor | E_recomp_max, E_recomp_max
  | E_no_iterations, E_no_iterations | E_dt_at_min, E_dt_at_min
  | E_recomp_exhausted, E_recomp_exhausted | E_not_converged, E_not_converged
  | E_index, E_index => true
  | _, _ => false
  end.

Section Model.
  Variable T : Type.
  Variable O : numops T.

  Let zero := n_zero T O.  Let one := n_one T O.
  Let add := n_add T O.  Let sub := n_sub T O.  Let mul := n_mul T O.
  Let leb := n_leb T O.  Let ltb := n_ltb T O.  Let eqb := n_eqb T O.
  Let abs := n_abs T O.

  (* constructor arguments (print_info has no effect on the state) *)
  Record args := {
    a_dt_init : T;
    a_constant : bool;
    a_dt_min_max : option (T * T);
    a_iter_max : Z;
    a_iter_low : Z; a_iter_upp : Z;            (* iter_optimal_range *)
    a_under : T; a_over : T;                    (* iter_relax_factors *)
    a_recomp_factor : T;
    a_recomp_max : Z;
    a_rtol : T; a_atol : T }.

  (* the attributes stored on the object that the stepping code reads *)
  Record cfg := {
    dt_init : T; constant : bool; dt_min : T; dt_max : T;
    iter_max : Z; iter_low : Z; iter_upp : Z; under : T; over : T;
    recomp_factor : T; recomp_max : Z; rtol : T; atol : T }.

  Record state := {
    time : T; dt : T;
    tidx : Z;            (* time_index *)
    idx : Z;             (* _scheduled_idx *)
    recomp : Z;          (* _recomp_num *)
    about : bool }.      (* _is_about_to_hit_schedule *)

  (* ------------------------------ __init__ ------------------------------ *)
  Fixpoint strictly_increasing (l : list T) : bool :=
    match l with
    | a :: ((b :: _) as r) => ltb a b && strictly_increasing r
    | _ => true
    end.

  (* python: min(a, b) = b if b < a else a *)
  Definition pymin (a b : T) : T := if ltb b a then b else a.

  Definition resolve_min_max (a : args) (final : T) : T * T :=
    match a_dt_min_max a with
    | Some mm => mm
    | None => (pymin (a_dt_init a) (mul (n_milli T O) final), mul (n_tenth T O) final)
    end.

  (* The checks of __init__ in source order.  For constant_dt=True the compatibility test
     of dt_init with the schedule (np.arange / np.searchsorted) is NOT modelled: the model
     accepts, and the correspondence only uses constant-dt cases the real constructor
     accepts. *)
  Definition construct (a : args) (sched : list T) : cfg + err :=
    if (length sched <? 2)%nat then inr E_sched_size
    else if existsb (fun t => ltb t zero) sched then inr E_sched_neg
    else if negb (strictly_increasing sched) then inr E_sched_incr
    else if leb (a_dt_init a) zero then inr E_dtinit_pos
    else if ltb (last sched zero) (a_dt_init a) then inr E_dtinit_final
    else
      let mm := resolve_min_max a (last sched zero) in
      let c := {| dt_init := a_dt_init a; constant := a_constant a;
                  dt_min := fst mm; dt_max := snd mm;
                  iter_max := a_iter_max a; iter_low := a_iter_low a;
                  iter_upp := a_iter_upp a; under := a_under a; over := a_over a;
                  recomp_factor := a_recomp_factor a; recomp_max := a_recomp_max a;
                  rtol := a_rtol a; atol := a_atol a |} in
      if a_constant a then inl c
      else if ltb (a_dt_init a) (fst mm) then inr E_dtinit_lt_min
      else if ltb (snd mm) (a_dt_init a) then inr E_dtinit_gt_max
      else if (a_iter_max a <=? 0)%Z then inr E_iter_max
      else if (a_iter_upp a <? a_iter_low a)%Z then inr E_iter_low_gt_upp
      else if (a_iter_max a <? a_iter_upp a)%Z then inr E_iter_upp_gt_max
      else if (a_iter_low a <? 0)%Z then inr E_iter_low_neg
      else if leb one (a_under a) then inr E_under
      else if leb (a_over a) one then inr E_over
      else if ltb (snd mm) (mul (fst mm) (a_over a)) then inr E_min_over
      else if ltb (mul (snd mm) (a_under a)) (fst mm) then inr E_max_under
      else if leb one (a_recomp_factor a) then inr E_recomp_factor
      else if (a_recomp_max a <=? 0)%Z then inr E_recomp_max
      else inl c.

  Definition init_state (c : cfg) (sched : list T) : state :=
    {| time := hd zero sched; dt := dt_init c; tidx := 0; idx := 1; recomp := 0;
       about := false |}.

  (* ------------------------------ helpers ------------------------------ *)
  (* np.isclose(a, b, rtol, atol) on finite scalars:
     (|a-b| <= atol + rtol*|b|) & isfinite(b) | (a == b) *)
  Definition isclose (c : cfg) (a b : T) : bool :=
    leb (abs (sub a b)) (add (atol c) (mul (rtol c) (abs b))) || eqb a b.

  Definition time_final (sched : list T) : T := last sched zero.

  Definition final_time_reached (c : cfg) (sched : list T) (s : state) : bool :=
    ltb (time_final sched) (time s) || isclose c (time s) (time_final sched).

  (* schedule[i] with python index semantics *)
  Definition sget (sched : list T) (i : Z) : option T :=
    let n := Z.of_nat (length sched) in
    if (i <? 0)%Z then (if (i + n <? 0)%Z then None else nth_error sched (Z.to_nat (i + n)))
    else nth_error sched (Z.to_nat i).

  Definition set_dt (s : state) (x : T) : state :=
    {| time := time s; dt := x; tidx := tidx s; idx := idx s; recomp := recomp s;
       about := about s |}.

  (* ------------------------------ adaptation ------------------------------ *)
  Definition adapt_iterations (c : cfg) (s : state) (it : option Z) : state * option err :=
    match it with
    | None => (s, Some E_no_iterations)
    | Some k =>
        let s := {| time := time s; dt := dt s; tidx := tidx s; idx := idx s; recomp := 0;
                    about := about s |} in
        if (k <=? iter_low c)%Z then (set_dt s (mul (dt s) (over c)), None)
        else if (iter_upp c <=? k)%Z then (set_dt s (mul (dt s) (under c)), None)
        else (s, None)
    end.

  Definition adapt_recomputation (c : cfg) (s : state) : state * option err :=
    if (recomp s <? recomp_max c)%Z then
      if eqb (dt s) (dt_min c) then (s, Some E_dt_at_min)
      else
        ({| time := sub (time s) (dt s);                       (* S1 *)
            tidx := (tidx s - 1)%Z;                              (* S2 *)
            dt := mul (dt s) (recomp_factor c);                  (* S3 *)
            recomp := (recomp s + 1)%Z;                          (* S4 *)
            idx := if about s then (idx s - 1)%Z else idx s;    (* S5 *)
            about := about s |}, None)
    else (s, Some E_recomp_exhausted).

  (* ------------------------------ corrections ------------------------------ *)
  Definition correct_min (c : cfg) (s : state) : state :=
    if ltb (dt s) (dt_min c) then set_dt s (dt_min c) else s.

  Definition correct_max (c : cfg) (s : state) : state :=
    if ltb (dt_max c) (dt s) then set_dt s (dt_max c) else s.

  Definition correct_schedule (c : cfg) (sched : list T) (s : state) : state * option err :=
    match sget sched (idx s) with
    | None => (s, Some E_index)
    | Some st0 =>
        (* about := False *)
        let s := {| time := time s; dt := dt s; tidx := tidx s; idx := idx s;
                    recomp := recomp s; about := false |} in
        (* the repair: already at the targeted scheduled time and not the last one *)
        let skip := (idx s <? Z.of_nat (length sched) - 1)%Z && isclose c (time s) st0 in
        let i1 := if skip then (idx s + 1)%Z else idx s in
        match (if skip then sget sched i1 else Some st0) with
        | None => ({| time := time s; dt := dt s; tidx := tidx s; idx := i1;
                      recomp := recomp s; about := false |}, Some E_index)
        | Some st1 =>
            if ltb st1 (add (time s) (dt s)) then
              if isclose c (time s) st1 then
                ({| time := time s; dt := dt s; tidx := tidx s; idx := (i1 + 1)%Z;
                    recomp := recomp s; about := true |}, None)
              else
                ({| time := time s; dt := sub st1 (time s); tidx := tidx s;
                    idx := (i1 + 1)%Z; recomp := recomp s; about := true |}, None)
            else
              ({| time := time s; dt := dt s; tidx := tidx s; idx := i1;
                  recomp := recomp s; about := false |}, None)
        end
    end.

  (* ------------------------------ the public calls ------------------------------ *)
  Inductive out :=
  | ONone                 (* returned None *)
  | ODt (x : T)           (* returned a time step *)
  | OBool (b : bool)
  | OUnit
  | OErr (e : err).

  Definition compute_time_step (c : cfg) (sched : list T) (s : state)
             (it : option Z) (recompute : bool) : state * out :=
    if negb recompute && final_time_reached c sched s then (s, ONone)
    else if constant c then (s, ODt (dt_init c))
    else
      let (s1, e) := if recompute then adapt_recomputation c s
                     else adapt_iterations c s it in
      match e with
      | Some e => (s1, OErr e)
      | None =>
          let (s2, e2) := correct_schedule c sched (correct_max c (correct_min c s1)) in
          match e2 with
          | Some e => (s2, OErr e)
          | None => (s2, ODt (dt s2))
          end
      end.

  Definition increase_time (s : state) : state :=
    {| time := add (time s) (dt s); dt := dt s; tidx := tidx s; idx := idx s;
       recomp := recomp s; about := about s |}.

  Definition increase_time_index (s : state) : state :=
    {| time := time s; dt := dt s; tidx := (tidx s + 1)%Z; idx := idx s;
       recomp := recomp s; about := about s |}.

  (* raw call sequences (API-level correspondence) *)
  Inductive call :=
  | CIncreaseTime | CIncreaseIndex | CFinal
  | CCompute (it : option Z) (recompute : bool).

  Definition do_call (c : cfg) (sched : list T) (s : state) (k : call) : state * out :=
    match k with
    | CIncreaseTime => (increase_time s, OUnit)
    | CIncreaseIndex => (increase_time_index s, OUnit)
    | CFinal => (s, OBool (final_time_reached c sched s))
    | CCompute it re => compute_time_step c sched s it re
    end.

  Fixpoint run_calls (c : cfg) (sched : list T) (s : state) (ks : list call)
    : list (state * out) :=
    match ks with
    | [] => []
    | k :: r => let (s', o) := do_call c sched s k in (s', o) :: run_calls c sched s' r
    end.

  (* ------------------------------ the time loop ------------------------------ *)
  (* What the nonlinear solver reports for one attempted time step. *)
  Inductive event := Converged (iterations : Z) | Failed.

  (* how the loop ended: final time reached / the scripted events ran out / exception *)
  Inductive stop := Finished | OutOfEvents | Raised (e : err).

  (* run_time_dependent_model:
       while not final_time_reached():
           increase_time(); increase_time_index(); converged = solver.solve(model)
     where solve ends in after_nonlinear_convergence
           (compute_time_step(iterations=n) unless the step is constant)
     or in after_nonlinear_failure
           (constant: raise ValueError; else compute_time_step(recompute_solution=True)).
     The trace records, per event, the state after the event and what compute_time_step
     answered (OUnit when it was not called). *)
  Fixpoint drive (c : cfg) (sched : list T) (s : state) (evs : list event)
    : list (event * state * out) * stop :=
    if final_time_reached c sched s then ([], Finished)
    else
      match evs with
      | [] => ([], OutOfEvents)
      | ev :: r =>
          let s1 := increase_time_index (increase_time s) in
          let (s2, o) :=
            match ev with
            | Converged k => if constant c then (s1, OUnit)
                             else compute_time_step c sched s1 (Some k) false
            | Failed => if constant c then (s1, OErr E_not_converged)
                        else compute_time_step c sched s1 None true
            end in
          match o with
          | OErr e => ([(ev, s2, o)], Raised e)
          | _ => let (tr, st) := drive c sched s2 r in ((ev, s2, o) :: tr, st)
          end
      end.

  (* whole simulation: constructor, then the loop *)
  Definition simulate (a : args) (sched : list T) (evs : list event)
    : (cfg * (list (event * state * out) * stop)) + err :=
    match construct a sched with
    | inr e => inr e
    | inl c => inl (c, drive c sched (init_state c sched) evs)
    end.

  (* the times of the accepted (converged) steps, in order *)
  Fixpoint accepted (tr : list (event * state * out)) : list T :=
    match tr with
    | [] => []
    | (Converged _, s, OErr _) :: r => accepted r
    | (Converged _, s, _) :: r => time s :: accepted r
    | (Failed, _, _) :: r => accepted r
    end.
End Model.

Arguments a_dt_init {T}. Arguments a_constant {T}. Arguments a_dt_min_max {T}.
Arguments a_iter_max {T}. Arguments a_iter_low {T}. Arguments a_iter_upp {T}.
Arguments a_under {T}. Arguments a_over {T}. Arguments a_recomp_factor {T}.
Arguments a_recomp_max {T}. Arguments a_rtol {T}. Arguments a_atol {T}.
Arguments dt_init {T}. Arguments constant {T}. Arguments dt_min {T}. Arguments dt_max {T}.
Arguments iter_max {T}. Arguments iter_low {T}. Arguments iter_upp {T}.
Arguments under {T}. Arguments over {T}. Arguments recomp_factor {T}.
Arguments recomp_max {T}. Arguments rtol {T}. Arguments atol {T}.
Arguments time {T}. Arguments dt {T}. Arguments tidx {T}. Arguments idx {T}.
Arguments recomp {T}. Arguments about {T}.
Arguments ONone {T}. Arguments ODt {T}. Arguments OBool {T}. Arguments OUnit {T}.
Arguments OErr {T}.

(* =================== binary64 instance (execution correspondence only) =================== *)
Definition FOps : numops float := {|
  n_zero := 0%float; n_one := 1%float;
  n_milli := 0x1.0624dd2f1a9fcp-10%float;      (* float.hex(0.001) *)
  n_tenth := 0x1.999999999999ap-4%float;       (* float.hex(0.1) *)
  n_add := PrimFloat.add; n_sub := PrimFloat.sub; n_mul := PrimFloat.mul;
  n_leb := PrimFloat.leb; n_ltb := PrimFloat.ltb; n_eqb := PrimFloat.eqb;
  n_abs := PrimFloat.abs |}.

(* bit-level equality of two finite floats (distinguishes +0 / -0) *)
Definition fsame (a b : float) : bool :=
  PrimFloat.eqb a b && PrimFloat.eqb (PrimFloat.div 1 a) (PrimFloat.div 1 b).

Definition state_same (a b : state float) : bool :=
  fsame (time a) (time b) && fsame (dt a) (dt b) && Z.eqb (tidx a) (tidx b)
  && Z.eqb (idx a) (idx b) && Z.eqb (recomp a) (recomp b) && Bool.eqb (about a) (about b).

Definition out_same (a b : out float) : bool :=
  match a, b with
  | ONone, ONone | OUnit, OUnit => true
  | ODt x, ODt y => fsame x y
  | OBool x, OBool y => Bool.eqb x y
  | OErr x, OErr y => err_eqb x y
  | _, _ => false
  end.

Fixpoint snaps_same (a b : list (state float * out float)) : bool :=
  match a, b with
  | [], [] => true
  | (s, o) :: r, (s', o') :: r' => state_same s s' && out_same o o' && snaps_same r r'
  | _, _ => false
  end.

Definition stop_same (a b : stop) : bool :=
  match a, b with
  | Finished, Finished | OutOfEvents, OutOfEvents => true
  | Raised x, Raised y => err_eqb x y
  | _, _ => false
  end.

Definition cfg_same (a b : cfg float) : bool :=
  fsame (dt_init a) (dt_init b) && Bool.eqb (constant a) (constant b)
  && fsame (dt_min a) (dt_min b) && fsame (dt_max a) (dt_max b)
  && Z.eqb (iter_max a) (iter_max b) && Z.eqb (iter_low a) (iter_low b)
  && Z.eqb (iter_upp a) (iter_upp b) && fsame (under a) (under b) && fsame (over a) (over b)
  && fsame (recomp_factor a) (recomp_factor b) && Z.eqb (recomp_max a) (recomp_max b)
  && fsame (rtol a) (rtol b) && fsame (atol a) (atol b).

(* API-level case: constructor outcome, then every call's state and answer *)
Definition agree_calls (a : args float) (sched : list float) (ks : list call)
           (expect : (cfg float * list (state float * out float)) + err) : bool :=
  match construct float FOps a sched, expect with
  | inr e, inr e' => err_eqb e e'
  | inl c, inl (c', snaps) =>
      cfg_same c c' && snaps_same (run_calls float FOps c sched (init_state float FOps c sched) ks) snaps
  | _, _ => false
  end.

(* driver-level case: constructor outcome, then the trace of the real time loop *)
Definition agree_drive (a : args float) (sched : list float) (evs : list event)
           (expect : (cfg float * list (state float * out float) * stop) + err) : bool :=
  match simulate float FOps a sched evs, expect with
  | inr e, inr e' => err_eqb e e'
  | inl (c, (tr, st)), inl (c', snaps, st') =>
      cfg_same c c' && snaps_same (map (fun x => (snd (fst x), snd x)) tr) snaps
      && stop_same st st'
  | _, _ => false
  end.
