(* C47 — file round trips.
   Transcribes
     porepy/utils/txt_io.py          export_data_to_txt / read_data_from_txt (as repaired:
                                     np.loadtxt(..., unpack=True, ndmin=2))
     porepy/fracs/fracture_network_2d.py   FractureNetwork2d.to_csv
     porepy/fracs/fracture_importer.py     network_2d_from_csv (straight-line format),
                                           network_3d_from_csv
     porepy/fracs/fracture_network_3d.py   FractureNetwork3d.to_csv
     porepy/fracs/utils.py                 linefractures_to_pts_edges (the FractureNetwork2d
                                           constructor), pts_edges_to_linefractures
   Text is a list of unicode code points (Z); a file is a list of lines (txt) or a list of
   rows of fields (csv, i.e. what csv.writer / csv.reader / genfromtxt exchange).
   Number formatting / parsing are parameters (print / parse).
   Executable definitions only. *)
From Coq Require Import List ZArith Bool Arith.
Import ListNotations.

Inductive err := ValueErr | AssertErr | IndexErr | StopIter.
Inductive res (A : Type) := Ok (a : A) | Err (e : err).
Arguments Ok {A} a.
Arguments Err {A} e.

Definition str := list Z.

Definition str_eqb (a b : str) : bool :=
  (length a =? length b) && forallb (fun p => Z.eqb (fst p) (snd p)) (combine a b).

(* ------------------------------------------------------------------------------ *)
(* python str helpers                                                             *)
(* ------------------------------------------------------------------------------ *)

(* code points c with chr(c).isspace() (checked against CPython by the harness) *)
Definition ws_codes : list Z :=
  [9; 10; 11; 12; 13; 28; 29; 30; 31; 32; 133; 160; 5760; 8192; 8193; 8194; 8195; 8196;
   8197; 8198; 8199; 8200; 8201; 8202; 8232; 8233; 8239; 8287; 12288]%Z.
Definition is_ws (c : Z) : bool := existsb (Z.eqb c) ws_codes.

Definition NL : Z := 10%Z.
Definition SP : Z := 32%Z.
Definition HASH : Z := 35%Z.

(* str.split() / the whitespace tokeniser of np.loadtxt: maximal runs of non-blank
   characters.  State while scanning from the right: (current token, finished tokens) *)
Definition split_step (c : Z) (st : str * list str) : str * list str :=
  let (cur, toks) := st in
  if is_ws c then ([], match cur with [] => toks | _ => cur :: toks end)
  else (c :: cur, toks).
Definition split_fin (st : str * list str) : list str :=
  let (cur, toks) := st in match cur with [] => toks | _ => cur :: toks end.
Definition split_ws (s : str) : list str := split_fin (fold_right split_step ([], []) s).

Fixpoint lstrip (p : Z -> bool) (s : str) : str :=
  match s with
  | [] => []
  | c :: r => if p c then lstrip p r else s
  end.
Definition rstrip (p : Z -> bool) (s : str) : str := rev (lstrip p (rev s)).

Fixpoint take_while (p : Z -> bool) (s : str) : str :=
  match s with
  | [] => []
  | c :: r => if p c then c :: take_while p r else []
  end.

(* boolean-mask selection  l[keep] *)
Definition sel {A} (keep : list bool) (l : list A) : list A :=
  map snd (filter (fun p => fst p) (combine keep l)).

(* each item followed by one blank *)
Definition flat_sp (l : list str) : str := flat_map (fun t => t ++ [SP]) l.

(* ------------------------------------------------------------------------------ *)
(* txt tables                                                                     *)
(* ------------------------------------------------------------------------------ *)
Section Txt.
  Variable V : Type.           (* array entries (binary64 values) *)
  Variable F : Type.           (* TxtData.format *)
  Variable print : F -> V -> str.          (* python  fmt % value *)
  Variable parse : str -> option V.        (* loadtxt's float conversion *)
  Variable v0 : V.

  Record txtdata := { header : str; array : list V; format : F }.

  (* np.savetxt(fname, X=export, header=header, fmt=fmt): the header line is
     comments + header + newline with comments = "# "; every record is written with the
     concatenated format "f0 f1 ... " (one blank after each) followed by a newline. *)
  Definition header_line (l : list txtdata) : str :=
    [HASH; SP] ++ flat_sp (map header l) ++ [NL].
  Definition data_line (l : list txtdata) (i : nat) : str :=
    flat_sp (map (fun d => print (format d) (nth i (array d) v0)) l) ++ [NL].

  Definition export_data_to_txt (l : list txtdata) : res (list str) :=
    match l with
    | [] => Err IndexErr                           (* array_sizes[0] *)
    | d0 :: _ =>
        if forallb (fun d => length (array d) =? length (array d0)) l
        then Ok (header_line l :: map (data_line l) (seq 0 (length (array d0))))
        else Err ValueErr                          (* "Expected arrays of equal length." *)
    end.

  (* np.loadtxt(skiprows=1, unpack=True, ndmin=2) on the remaining lines: comments are
     cut, blank lines skipped, all rows must have the same number of fields, every field
     must convert.  Result: the list of columns (the transposed table); with no rows at
     all numpy returns an array of shape (0, 1), transposed (1, 0): one empty column. *)
  Fixpoint parse_all (l : list str) : option (list V) :=
    match l with
    | [] => Some []
    | t :: r => match parse t, parse_all r with
                | Some v, Some vs => Some (v :: vs)
                | _, _ => None
                end
    end.
  Fixpoint parse_rows (l : list (list str)) : option (list (list V)) :=
    match l with
    | [] => Some []
    | t :: r => match parse_all t, parse_rows r with
                | Some v, Some vs => Some (v :: vs)
                | _, _ => None
                end
    end.
  Definition nonempty {A} (l : list A) : bool := match l with [] => false | _ => true end.

  Definition loadtxt_unpack (lines : list str) : res (list (list V)) :=
    let rows := filter nonempty
                  (map (fun l => split_ws (take_while (fun c => negb (Z.eqb c HASH)) l)) lines) in
    match rows with
    | [] => Ok [[]]
    | r0 :: _ =>
        if forallb (fun r => length r =? length r0) rows then
          match parse_rows rows with
          | None => Err ValueErr
          | Some tab => Ok (map (fun j => map (fun r => nth j r v0) tab) (seq 0 (length r0)))
          end
        else Err ValueErr
    end.

  (* a python dict  name -> array  as an association list in insertion order *)
  Fixpoint dset (d : list (str * list V)) (k : str) (v : list V) : list (str * list V) :=
    match d with
    | [] => [(k, v)]
    | (k', v') :: r => if str_eqb k k' then (k', v) :: r else (k', v') :: dset r k v
    end.

  Definition read_data_from_txt (file : list str) : res (list (str * list V)) :=
    match file with
    | [] => Err IndexErr                           (* lines[0] *)
    | h :: rest =>
        let hd := rstrip (Z.eqb NL) (lstrip (fun c => Z.eqb c HASH || Z.eqb c SP) h) in
        let names := split_ws hd in
        match loadtxt_unpack rest with
        | Err e => Err e
        | Ok cols => Ok (fold_left (fun d nv => dset d (fst nv) (snd nv)) (combine names cols) [])
        end
    end.
End Txt.

Arguments header {V F} t.
Arguments array {V F} t.
Arguments format {V F} t.

(* ------------------------------------------------------------------------------ *)
(* 2-D fracture networks                                                          *)
(* ------------------------------------------------------------------------------ *)
Section Csv2.
  Variable V : Type.
  Variable veqb : V -> V -> bool.      (* coordinates agree within the tolerance *)
  Variable print : V -> str.           (* str(np.float64) as written by csv.writer *)
  Variable printi : nat -> str.        (* str(int) *)
  Variable parse : str -> V.           (* genfromtxt's float conversion *)
  Variable toint : V -> Z.             (* ndarray.astype(int) *)
  Variable v0 : V.

  Definition P2 := (V * V)%type.
  Definition peqb (a b : P2) : bool := veqb (fst a) (fst b) && veqb (snd a) (snd b).
  Definition p0 : P2 := (v0, v0).

  (* pp.array_operations.uniquify_point_set(pts, tol): (unique points, old_2_new) *)
  Variable uniq : list P2 -> list P2 * list nat.

  Record net2 := { pts : list P2; edges : list (nat * nat) }.

  (* linefractures_to_pts_edges: first earlier point that is close, else append *)
  Fixpoint find_close (p : P2) (l : list P2) (i : nat) : option nat :=
    match l with
    | [] => None
    | x :: r => if peqb p x then Some i else find_close p r (S i)
    end.
  Definition add_pt (pl : list P2) (p : P2) : list P2 * nat :=
    match find_close p pl 0 with
    | Some i => (pl, i)
    | None => (pl ++ [p], length pl)
    end.
  Fixpoint build_aux (pl : list P2) (fr : list (P2 * P2)) : list P2 * list (nat * nat) :=
    match fr with
    | [] => (pl, [])
    | (a, b) :: r =>
        let (pl1, ia) := add_pt pl a in
        let (pl2, ib) := add_pt pl1 b in
        let (pl3, es) := build_aux pl2 r in
        (pl3, (ia, ib) :: es)
    end.
  (* FractureNetwork2d(fractures) *)
  Definition build (fr : list (P2 * P2)) : net2 :=
    let (pl, es) := build_aux [] fr in {| pts := pl; edges := es |}.

  (* the fractures a network stands for *)
  Definition fracs_of (n : net2) : list (P2 * P2) :=
    map (fun e => (nth (fst e) (pts n) p0, nth (snd e) (pts n) p0)) (edges n).

  (* "# FID", "START_X", "START_Y", "END_X", "END_Y" *)
  Definition csv2_header : list str :=
    [[35; 32; 70; 73; 68]; [83; 84; 65; 82; 84; 95; 88]; [83; 84; 65; 82; 84; 95; 89];
     [69; 78; 68; 95; 88]; [69; 78; 68; 95; 89]]%Z.

  Fixpoint rows2 (n : net2) (i : nat) (es : list (nat * nat)) : list (list str) :=
    match es with
    | [] => []
    | (s, e) :: r =>
        let a := nth s (pts n) p0 in
        let b := nth e (pts n) p0 in
        [printi i; print (fst a); print (snd a); print (fst b); print (snd b)]
          :: rows2 n (S i) r
    end.
  Definition to_csv2 (with_header : bool) (n : net2) : list (list str) :=
    (if with_header then [csv2_header] else []) ++ rows2 n 0 (edges n).

  (* data[:, 1:].reshape((-1, 2)) *)
  Fixpoint pairs (l : list V) : list P2 :=
    match l with
    | a :: b :: r => (a, b) :: pairs r
    | _ => []
    end.

  (* network_2d_from_csv(f, skip_header=skip, return_frac_id=True), straight-line format *)
  Definition from_csv2 (skip : nat) (file : list (list str)) : res (net2 * list Z) :=
    let data := map (map parse) (skipn skip file) in
    match data with
    | [] => Ok ({| pts := []; edges := [] |}, [])
    | _ =>
        let coords := concat (map (@tl V) data) in
        if Nat.odd (length coords) then Err ValueErr else    (* reshape((-1, 2)) *)
        let ptl := pairs coords in
        let n := length data in
        let e0 := map (fun i => (2 * i, 2 * i + 1)) (seq 0 n) in
        let ids := map (fun r => hd v0 r) data in
        let (upts, o2n) := uniq ptl in
        if forallb (fun e => (fst e <? length o2n) && (snd e <? length o2n)) e0 then
          let e1 := map (fun e => (nth (fst e) o2n 0, nth (snd e) o2n 0)) e0 in
          let keep := map (fun e => negb (fst e =? snd e)) e1 in
          let e2 := sel keep e1 in
          let ids2 := sel keep ids in
          if forallb (fun e => (fst e <? length upts) && (snd e <? length upts)) e2 then
            let fr := map (fun e => (nth (fst e) upts p0, nth (snd e) upts p0)) e2 in
            if existsb (fun f => peqb (fst f) (snd f)) fr then Err ValueErr  (* LineFracture *)
            else Ok (build fr, map toint ids2)
          else Err IndexErr
        else Err IndexErr
    end.

  (* ---- polyline format  FID, PT_X, PT_Y  (network_2d_from_csv(polyline=True)) ---- *)
  (* np.unique(frac_id) *)
  Fixpoint insz (t : Z) (l : list Z) : list Z :=
    match l with
    | [] => [t]
    | x :: r => if (t <? x)%Z then t :: l else if (t =? x)%Z then l else x :: insz t r
    end.

  (* rows of one fracture id: np.argwhere(frac_id == fi); two rows give one edge; more rows
     pair the rows from the first to the last-but-one such row with the rows from the second
     to the last one — whatever lies in between (the code assumes the rows of one fracture
     are contiguous) *)
  Definition poly_edges (ids : list Z) (fi : Z) : res (list (nat * nat)) :=
    let ind := filter (fun i => Z.eqb (nth i ids 0%Z) fi) (seq 0 (length ids)) in
    match ind with
    | [] | [_] => Err ValueErr
    | [a; b] => Ok [(a, b)]
    | a :: a1 :: _ =>
        (* start = pt_ind[ind[0] : ind[-1]], end = pt_ind[ind[1] : ind[-1] + 1]; np.vstack
           raises ValueError when the two have different lengths *)
        let b := last ind 0 in
        let st := seq a (b - a) in
        let en := seq a1 (S b - a1) in
        if length st =? length en then Ok (combine st en) else Err ValueErr
    end.

  Fixpoint poly_all (ids : list Z) (fis : list Z) : res (list (nat * nat) * list Z) :=
    match fis with
    | [] => Ok ([], [])
    | fi :: r =>
        match poly_edges ids fi with
        | Err e => Err e
        | Ok es =>
            match poly_all ids r with
            | Err e => Err e
            | Ok (es', fs') => Ok (es ++ es', map (fun _ => fi) es ++ fs')
            end
        end
    end.

  Definition from_csv2_polyline (skip : nat) (file : list (list str)) : res (net2 * list Z) :=
    let data := map (map parse) (skipn skip file) in
    match data with
    | [] => Ok ({| pts := []; edges := [] |}, [])
    | _ =>
        let coords := concat (map (@tl V) data) in
        if Nat.odd (length coords) then Err ValueErr else
        let ptl := pairs coords in
        let ids := map (fun r => toint (hd v0 r)) data in
        match poly_all ids (fold_right insz [] ids) with
        | Err e => Err e
        | Ok (e0, fid) =>
            let (upts, o2n) := uniq ptl in
            if forallb (fun e => (fst e <? length o2n) && (snd e <? length o2n)) e0 then
              let e1 := map (fun e => (nth (fst e) o2n 0, nth (snd e) o2n 0)) e0 in
              let keep := map (fun e => negb (fst e =? snd e)) e1 in
              let e2 := sel keep e1 in
              let fid2 := sel keep fid in
              if forallb (fun e => (fst e <? length upts) && (snd e <? length upts)) e2 then
                let fr := map (fun e => (nth (fst e) upts p0, nth (snd e) upts p0)) e2 in
                if existsb (fun f => peqb (fst f) (snd f)) fr then Err ValueErr
                else Ok (build fr, fid2)
              else Err IndexErr
            else Err IndexErr
        end
    end.

  Definition uniq_okb (peq : P2 -> P2 -> bool) (l : list P2) (r : list P2 * list nat) : bool :=
    (length (snd r) =? length l) &&
    forallb (fun i => match nth_error (fst r) (nth i (snd r) 0) with
                      | Some q => peq q (nth i l p0)
                      | None => false
                      end) (seq 0 (length l)).
End Csv2.

Arguments pts {V} n.
Arguments edges {V} n.

(* ------------------------------------------------------------------------------ *)
(* 3-D fracture networks                                                          *)
(* ------------------------------------------------------------------------------ *)
Section Csv3.
  Variable V : Type.
  Variable print : V -> str.            (* str(value) as written by csv.writer *)
  Variable parse : str -> option V.     (* np.asarray(row, dtype=float), element-wise *)

  Definition P3 := (V * V * V)%type.
  Variable sortp : list P3 -> list P3.  (* PlaneFracture.sort_points (counter-clockwise) *)
  Variable accept : list P3 -> bool.    (* is_planar() and (check_convexity => is_convex())
                                           of the sorted polygon *)

  Definition row_of_frac (f : list P3) : list str :=
    flat_map (fun p => [print (fst (fst p)); print (snd (fst p)); print (snd p)]) f.

  (* FractureNetwork3d.to_csv(file, domain): dom = [xmin;ymin;zmin;xmax;ymax;zmax] *)
  Definition to_csv3 (net : list (list P3)) (dom : option (list V)) : list (list str) :=
    (match dom with Some b => [map print b] | None => [] end) ++ map row_of_frac net.

  Fixpoint parse_all3 (l : list str) : option (list V) :=
    match l with
    | [] => Some []
    | t :: r => match parse t, parse_all3 r with
                | Some v, Some vs => Some (v :: vs)
                | _, _ => None
                end
    end.

  Fixpoint triples (l : list V) : list P3 :=
    match l with
    | a :: b :: c :: r => (a, b, c) :: triples r
    | _ => []
    end.

  (* row[0][0] == "#" : IndexError on an empty first field *)
  Definition first_char (row : list str) : option Z :=
    match row with (c :: _) :: _ => Some c | _ => None end.

  Fixpoint read_fracs (rows : list (list str)) : res (list (list P3)) :=
    match rows with
    | [] => Ok []
    | row :: rest =>
        match row with
        | [] => read_fracs rest                            (* len(row) == 0 *)
        | _ =>
            match first_char row with
            | None => Err IndexErr
            | Some c =>
                if Z.eqb c HASH then read_fracs rest
                else
                  match parse_all3 row with
                  | None => Err ValueErr
                  | Some vals =>
                      if negb (length vals mod 3 =? 0) then Err ValueErr
                      else
                        let p := triples vals in
                        if length p <? 3 then Err ValueErr          (* _check_pts *)
                        else
                          let q := sortp p in
                          if accept q then
                            match read_fracs rest with
                            | Ok fs => Ok (q :: fs)
                            | Err e => Err e
                            end
                          else Err AssertErr
                  end
            end
        end
    end.

  (* the loop  while not read_domain: line = next(reader) ... *)
  Fixpoint read_domain (rows : list (list str)) : res (list V * list (list str)) :=
    match rows with
    | [] => Err StopIter
    | row :: rest =>
        match first_char row with
        | None => Err IndexErr
        | Some c =>
            if Z.eqb c HASH then read_domain rest
            else match parse_all3 row with
                 | None => Err ValueErr
                 | Some vals =>
                     if length vals <? 6 then Err IndexErr
                     else Ok (firstn 6 vals, rest)
                 end
        end
    end.

  Definition from_csv3 (has_domain : bool) (file : list (list str))
    : res (option (list V) * list (list P3)) :=
    if has_domain then
      match read_domain file with
      | Err e => Err e
      | Ok (d, rest) =>
          match read_fracs rest with
          | Err e => Err e
          | Ok fs => Ok (Some d, fs)
          end
      end
    else
      match read_fracs file with
      | Err e => Err e
      | Ok [] => Err ValueErr      (* create_fracture_network: no fractures and no domain *)
      | Ok fs => Ok (None, fs)
      end.
End Csv3.

(* ------------------------------------------------------------------------------ *)
(* instances used by the execution correspondence: values are exact rationals held  *)
(* through an injective integer code;    print / parse are the finite tables produced by   *)
(* the python runtime for the values / tokens of the case at hand.                  *)
(* ------------------------------------------------------------------------------ *)
Fixpoint lookup_str {A} (t : list (str * A)) (k : str) : option A :=
  match t with
  | [] => None
  | (k', a) :: r => if str_eqb k k' then Some a else lookup_str r k
  end.
Fixpoint lookup_z {A} (t : list (Z * A)) (k : Z) : option A :=
  match t with
  | [] => None
  | (k', a) :: r => if Z.eqb k k' then Some a else lookup_z r k
  end.

Definition tprint (t : list (Z * str)) (v : Z) : str :=
  match lookup_z t v with Some s => s | None => [] end.
Definition tprintf (t : list (nat * list (Z * str))) (f : nat) (v : Z) : str :=
  match nth_error (map snd (filter (fun p => fst p =? f) t)) 0 with
  | Some tb => tprint tb v
  | None => []
  end.
Definition tparse (t : list (str * Z)) (s : str) : option Z := lookup_str t s.
Definition tparse_tot (t : list (str * Z)) (s : str) : Z :=
  match lookup_str t s with Some v => v | None => (-1)%Z end.

Definition list_eqb {A} (eqb : A -> A -> bool) (a b : list A) : bool :=
  (length a =? length b) && forallb (fun p => eqb (fst p) (snd p)) (combine a b).

Definition p2_eqb (a b : Z * Z) := Z.eqb (fst a) (fst b) && Z.eqb (snd a) (snd b).
Definition p3_eqb (a b : Z * Z * Z) :=
  Z.eqb (fst (fst a)) (fst (fst b)) && Z.eqb (snd (fst a)) (snd (fst b)) && Z.eqb (snd a) (snd b).
Definition nn_eqb (a b : nat * nat) := (fst a =? fst b) && (snd a =? snd b).

Definition res_eqb {A} (eqb : A -> A -> bool) (a b : res A) : bool :=
  match a, b with
  | Ok x, Ok y => eqb x y
  | Err ValueErr, Err ValueErr | Err AssertErr, Err AssertErr
  | Err IndexErr, Err IndexErr | Err StopIter, Err StopIter => true
  | _, _ => false
  end.

(* ---- txt ---- *)
Definition txt_agree (ptab : list (nat * list (Z * str))) (qtab : list (str * Z))
           (data : list (str * list Z * nat))
           (file : res (list str)) (back : res (list (str * list Z))) : bool :=
  let l := map (fun d => {| header := fst (fst d); array := snd (fst d); format := snd d |}) data in
  let pr := tprintf ptab in
  let pa := tparse qtab in
  res_eqb (list_eqb str_eqb) (export_data_to_txt Z nat pr 0%Z l) file
  && match file with
     | Ok f => res_eqb (list_eqb (fun a b => str_eqb (fst a) (fst b)
                                               && list_eqb Z.eqb (snd a) (snd b)))
                       (read_data_from_txt Z pa 0%Z f) back
     | Err _ => true
     end.

(* ---- 2-D csv ---- *)
Definition net2_eqb (a b : net2 Z) : bool :=
  list_eqb p2_eqb (pts a) (pts b) && list_eqb nn_eqb (edges a) (edges b).

Definition mk2 (p : list (Z * Z)) (e : list (nat * nat)) : net2 Z := {| pts := p; edges := e |}.

Definition csv2_agree (ptab : list (Z * str)) (itab : list str) (qtab : list (str * Z))
           (fr : list ((Z * Z) * (Z * Z)))
           (net : net2 Z) (with_header : bool) (skip : nat) (file : list (list str))
           (u : list (Z * Z) * list nat)
           (back : res (net2 Z * list Z)) : bool :=
  let pr := tprint ptab in
  let pri := fun i => nth i itab [] in
  let pa := tparse_tot qtab in
  let toint := fun v => Z.shiftr v 11 in
  let data := map (map pa) (skipn skip file) in
  let ptl := pairs Z (concat (map (@tl Z) data)) in
  net2_eqb (build Z Z.eqb fr) net
  && list_eqb (list_eqb str_eqb) (to_csv2 Z pr pri 0%Z with_header net) file
  && (match data with [] => true | _ => uniq_okb Z 0%Z p2_eqb ptl u end)
  && res_eqb (fun a b => net2_eqb (fst a) (fst b) && list_eqb Z.eqb (snd a) (snd b))
             (from_csv2 Z Z.eqb pa toint 0%Z (fun _ => u) skip file) back.

(* ---- 3-D csv ---- *)
Definition frac3_eqb := list_eqb p3_eqb.
Fixpoint lookup_f3 {A} (t : list (list (Z * Z * Z) * A)) (k : list (Z * Z * Z)) : option A :=
  match t with
  | [] => None
  | (k', a) :: r => if frac3_eqb k k' then Some a else lookup_f3 r k
  end.

(* is b a permutation of a (multiset comparison by counting) *)
Definition count3 (p : Z * Z * Z) (l : list (Z * Z * Z)) : nat :=
  length (filter (p3_eqb p) l).
Definition perm3b (a b : list (Z * Z * Z)) : bool :=
  (length a =? length b) && forallb (fun p => count3 p a =? count3 p b) a.

Definition csv3_agree (ptab : list (Z * str)) (qtab : list (str * Z))
           (net : list (list (Z * Z * Z))) (dom : option (list Z)) (has_domain : bool)
           (file : list (list str))
           (stab : list (list (Z * Z * Z) * (list (Z * Z * Z) * bool)))
           (back : res (option (list Z) * list (list (Z * Z * Z)))) : bool :=
  let pr := tprint ptab in
  let pa := tparse qtab in
  let sortp := fun l => match lookup_f3 stab l with Some r => fst r | None => l end in
  let accept := fun l => existsb (fun kr => frac3_eqb (fst (snd kr)) l && snd (snd kr)) stab in
  list_eqb (list_eqb str_eqb) (to_csv3 Z pr net dom) file
  && forallb (fun kr => perm3b (fst kr) (fst (snd kr))) stab
  && res_eqb (fun a b =>
                match fst a, fst b with
                | Some x, Some y => list_eqb Z.eqb x y
                | None, None => true
                | _, _ => false
                end && list_eqb frac3_eqb (snd a) (snd b))
             (from_csv3 Z pa sortp accept has_domain file) back.

(* ---- 2-D csv, polyline format (reader only: the library has no writer for it; the file
   is written by the harness as documented: FID, PT_X, PT_Y) ---- *)
Definition csv2p_agree (qtab : list (str * Z)) (skip : nat) (file : list (list str))
           (u : list (Z * Z) * list nat) (back : res (net2 Z * list Z)) : bool :=
  let pa := tparse_tot qtab in
  let toint := fun v => Z.shiftr v 11 in
  res_eqb (fun a b => net2_eqb (fst a) (fst b) && list_eqb Z.eqb (snd a) (snd b))
          (from_csv2_polyline Z Z.eqb pa toint 0%Z (fun _ => u) skip file) back.
