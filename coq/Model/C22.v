(* C22 — subgrid extraction, structured partitioning and overlap.
   Transcribes porepy/grids/partition.py:
     _extract_submatrix / extract_subgrid (cell branch), partition_structured,
     overlap ('node' and 'face' criteria share one loop over a 0/1 incidence pattern).
   Executable definitions only. *)
From Coq Require Import List ZArith Bool Arith.
Import ListNotations.

Inductive err := IndexErr | ValueErr.
Inductive res (A : Type) := Ok (a : A) | Err (e : err).
Arguments Ok {A}. Arguments Err {A}.

(* ------------------------------------------------------------------------------------
   A. extraction.  A csc matrix is the list of its columns; a column is the list of its
   stored (row index, value) pairs in storage order (the order of [indices]/[data]
   between two consecutive [indptr] entries).  cell_faces: column = cell, rows = faces,
   value = +-1; face_nodes: column = face, rows = nodes (in the stored node order),
   value = 1. *)
Definition col := list (nat * Z).
Definition zp : Z := 1%Z.       (* literal shorthands used by the generated case files *)
Definition zm : Z := (-1)%Z.
Definition csc := list col.

(* pp.matrix_operations.slice_sparse_matrix(A, ind) for a csc matrix: column j of the
   result is column ind[j] of A (A.indptr[ind + 1] raises IndexError when ind >= ncols). *)
Definition slice (m : csc) (ind : list nat) : res csc :=
  if forallb (fun j => j <? length m) ind
  then Ok (map (fun j => nth j m []) ind)
  else Err IndexErr.

(* np.unique(x): sorted, duplicates removed *)
Fixpoint ins (x : nat) (l : list nat) : list nat :=
  match l with
  | [] => [x]
  | y :: t => if x <? y then x :: l else if x =? y then l else y :: ins x t
  end.
Definition usort (l : list nat) : list nat := fold_right ins [] l.

(* return_inverse: position of r in the unique array *)
Fixpoint index_of (u : list nat) (r : nat) : nat :=
  match u with
  | [] => 0
  | x :: t => if x =? r then 0 else S (index_of t r)
  end.

Definition all_rows (s : csc) : list nat := flat_map (map fst) s.

Definition renumber (u : list nat) (c : col) : col :=
  map (fun e => (index_of u (fst e), snd e)) c.

(* _extract_submatrix(mat, ind) -> (sub matrix with renumbered rows, unique_rows) *)
Definition extract_submatrix (m : csc) (ind : list nat) : res (csc * list nat) :=
  match slice m ind with
  | Err e => Err e
  | Ok s => let u := usort (all_rows s) in Ok (map (renumber u) s, u)
  end.

(* np.sort (duplicates kept) *)
Fixpoint insd (x : nat) (l : list nat) : list nat :=
  match l with
  | [] => [x]
  | y :: t => if x <=? y then x :: l else y :: insd x t
  end.
Definition isort (l : list nat) : list nat := fold_right insd [] l.

(* the argument [c]: an index array or a boolean mask *)
Inductive cells := CIdx (l : list nat) | CMask (b : list bool).

Fixpoint mask_idx_from (k : nat) (b : list bool) : list nat :=
  match b with
  | [] => []
  | true :: t => k :: mask_idx_from (S k) t
  | false :: t => mask_idx_from (S k) t
  end.
Definition mask_idx := mask_idx_from 0.          (* np.where(c)[0] *)

Record subgrid := {
  sg_cf : csc;              (* h.cell_faces *)
  sg_fn : csc;              (* h.face_nodes *)
  sg_faces : list nat;      (* unique_faces: parent index of local face i *)
  sg_nodes : list nat;      (* unique_nodes: parent index of local node i *)
  sg_cells : list nat       (* h.parent_cell_ind *)
}.

Definition extract_idx (cf fn : csc) (c : list nat) : res subgrid :=
  match extract_submatrix cf c with
  | Err e => Err e
  | Ok (cf_sub, uf) =>
      match extract_submatrix fn uf with
      | Err e => Err e
      | Ok (fn_sub, un) => Ok {| sg_cf := cf_sub; sg_fn := fn_sub; sg_faces := uf;
                                 sg_nodes := un; sg_cells := c |}
      end
  end.

(* extract_subgrid(g, c, sort, faces=False) *)
Definition extract_subgrid (cf fn : csc) (c : cells) (sort : bool) : res subgrid :=
  match c with
  | CMask b =>
      if length b =? length cf
      then extract_idx cf fn (if sort then isort (mask_idx b) else mask_idx b)
      else Err IndexErr
  | CIdx l => extract_idx cf fn (if sort then isort l else l)
  end.

(* What a per-face / per-cell geometric formula can read: the face's nodes (coordinates,
   in stored order); the cell's faces with their signs, each with its nodes. *)
Section Views.
  Variable X : Type.
  Variable d : X.
  Definition face_view (nodes : list X) (fn : csc) (f : nat) : list X :=
    map (fun e => nth (fst e) nodes d) (nth f fn []).
  Definition cell_view (nodes : list X) (cf fn : csc) (c : nat) : list (Z * list X) :=
    map (fun e => (snd e, face_view nodes fn (fst e))) (nth c cf []).
  (* g.nodes[:, unique_nodes] *)
  Definition take_nodes (nodes : list X) (un : list nat) : list X :=
    map (fun n => nth n nodes d) un.
End Views.
Arguments face_view {X}. Arguments cell_view {X}. Arguments take_nodes {X}.

(* index maps applied back: local (row, value) -> parent (row, value) *)
Definition relabel (u : list nat) (c : col) : col :=
  map (fun e => (nth (fst e) u 0, snd e)) c.

(* ------------------------------------------------------------------------------------
   B. partition_structured (after the two repairs: all surplus start indices are
   dropped; nd = 1 supported). *)

(* np.arange(0, stop, step) for step > 0 *)
Definition arange0 (stop step : Z) : list Z :=
  map (fun k => Z.of_nat k * step)%Z (seq 0 (Z.to_nat ((stop + step - 1) / step))).

(* loc_ind[i] += 1 through a fancy index: the entry becomes 0 + 1 *)
Fixpoint set_one (l : list Z) (i : nat) : list Z :=
  match l, i with
  | [], _ => []
  | _ :: t, O => 1%Z :: t
  | x :: t, S i' => x :: set_one t i'
  end.

Fixpoint cumsum_from (acc : Z) (l : list Z) : list Z :=
  match l with
  | [] => []
  | x :: t => (acc + x)%Z :: cumsum_from (acc + x)%Z t
  end.

Definition start_indices (fine coarse : Z) : list Z :=
  let incr := arange0 fine (fine / coarse) in
  if (Z.of_nat (length incr) >? coarse)%Z then firstn (Z.to_nat coarse) incr else incr.

(* the coarse index of every fine index along one axis *)
Definition dim_index (fine coarse : Z) : res (list Z) :=
  if (coarse <=? 0)%Z
  then (* outside the guard of the theorems: fine/coarse is inf or negative, every start
          index is dropped and all fine cells get -1 *)
       Ok (repeat (-1)%Z (Z.to_nat fine))
  else if (fine / coarse =? 0)%Z
  then Err ValueErr          (* np.arange with step 0: "Maximum allowed size exceeded" *)
  else
    let loc := fold_left (fun l i => set_one l (Z.to_nat i)) (start_indices fine coarse)
                         (repeat 0%Z (Z.to_nat fine)) in
    Ok (map (fun x => x - 1)%Z (cumsum_from 0 loc)).

Definition bind2 {A} (a b : res A) {B} (f : A -> A -> res B) : res B :=
  match a with
  | Err e => Err e
  | Ok x => match b with Err e => Err e | Ok y => f x y end
  end.

(* cell number = i + nx*j + nx*ny*k (x fastest), as in TensorGrid *)
Definition partition_structured (fine coarse : list Z) : res (list Z) :=
  match fine, coarse with
  | [f0], [c0] => dim_index f0 c0
  | [f0; f1], [c0; c1] =>
      bind2 (dim_index f0 c0) (dim_index f1 c1) (fun i0 i1 =>
        Ok (flat_map (fun y => map (fun x => x + y * c0)%Z i0) i1))
  | [f0; f1; f2], [c0; c1; c2] =>
      match dim_index f0 c0 with
      | Err e => Err e
      | Ok i0 =>
        bind2 (dim_index f1 c1) (dim_index f2 c2) (fun i1 i2 =>
          Ok (flat_map (fun z => flat_map (fun y =>
                map (fun x => x + y * c0 + z * (c0 * c1))%Z i0) i1) i2))
      end
  | _, _ => Err ValueErr      (* not a 1-3 dimensional tensor grid: not modelled *)
  end.

Definition prodZ (l : list Z) : Z := fold_right Z.mul 1%Z l.

(* ------------------------------------------------------------------------------------
   C. overlap.  [cols] is the 0/1 pattern used by the loop: column c lists the rows
   (nodes for criterion 'node' = g.cell_nodes(), faces for 'face' = |g.cell_faces|) of
   cell c.  Bool vectors are lists; [nth _ _ false] reads them. *)
Definition mem (r : nat) (l : list nat) : bool := existsb (Nat.eqb r) l.

(* (M * active_cells) > 0 at row r *)
Definition row_hit (cols : list (list nat)) (ac : list bool) (r : nat) : bool :=
  existsb (fun c => nth c ac false && mem r (nth c cols [])) (seq 0 (length cols)).

(* (M.T * active_rows) > 0 at column c *)
Definition col_hit (ar : list bool) (cl : list nat) : bool :=
  existsb (fun r => nth r ar false) cl.

(* one pass of the loop body: active_rows[...] = 1 ; active_cells[ci_new] = 1 *)
Definition ov_step (cols : list (list nat)) (nrows : nat) (s : list bool * list bool)
  : list bool * list bool :=
  let (ac, ar) := s in
  let ar' := map (fun r => nth r ar false || row_hit cols ac r) (seq 0 nrows) in
  let ac' := map (fun c => nth c ac false || col_hit ar' (nth c cols []))
                 (seq 0 (length cols)) in
  (ac', ar').

Fixpoint ov_state (cols : list (list nat)) (nrows : nat) (ac0 : list bool) (n : nat)
  : list bool * list bool :=
  match n with
  | O => (ac0, repeat false nrows)
  | S n' => ov_step cols nrows (ov_state cols nrows ac0 n')
  end.

Definition init_cells (ncells : nat) (cell_ind : list nat) : list bool :=
  map (fun c => mem c cell_ind) (seq 0 ncells).

Definition overlap (cols : list (list nat)) (nrows : nat) (cell_ind : list nat)
           (num_layers : nat) : res (list nat) :=
  if forallb (fun c => c <? length cols) cell_ind then
    let ac := fst (ov_state cols nrows (init_cells (length cols) cell_ind) num_layers) in
    Ok (filter (fun c => nth c ac false) (seq 0 (length cols)))
  else Err IndexErr.         (* active_cells[cell_ind] = 1 out of bounds *)

(* ------------------------------------------------------------------------------------
   comparison functions for the execution correspondence *)
Fixpoint eqb_list {A} (eqb : A -> A -> bool) (a b : list A) : bool :=
  match a, b with
  | [], [] => true
  | x :: r, y :: s => eqb x y && eqb_list eqb r s
  | _, _ => false
  end.

Definition eqb_entry (a b : nat * Z) : bool := (fst a =? fst b) && (snd a =? snd b)%Z.
Definition eqb_csc : csc -> csc -> bool := eqb_list (eqb_list eqb_entry).
Definition eqb_nats : list nat -> list nat -> bool := eqb_list Nat.eqb.
Definition eqb_zs : list Z -> list Z -> bool := eqb_list Z.eqb.

Definition eqb_err (a b : err) : bool :=
  match a, b with IndexErr, IndexErr => true | ValueErr, ValueErr => true | _, _ => false end.

Definition eqb_res {A} (eqb : A -> A -> bool) (a b : res A) : bool :=
  match a, b with
  | Ok x, Ok y => eqb x y
  | Err e, Err f => eqb_err e f
  | _, _ => false
  end.

Definition eqb_subgrid (a b : subgrid) : bool :=
  eqb_csc (sg_cf a) (sg_cf b) && eqb_csc (sg_fn a) (sg_fn b) &&
  eqb_nats (sg_faces a) (sg_faces b) && eqb_nats (sg_nodes a) (sg_nodes b) &&
  eqb_nats (sg_cells a) (sg_cells b).

Definition agree_extract (cf fn : csc) (c : cells) (sort : bool) (out : res subgrid) : bool :=
  eqb_res eqb_subgrid (extract_subgrid cf fn c sort) out.

Definition agree_structured (fine coarse : list Z) (out : res (list Z)) : bool :=
  eqb_res eqb_zs (partition_structured fine coarse) out.

Definition agree_overlap (cols : list (list nat)) (nrows : nat) (cell_ind : list nat)
           (n : nat) (out : res (list nat)) : bool :=
  eqb_res eqb_nats (overlap cols nrows cell_ind n) out.
