(* C27 — global projection operators (porepy/numerics/ad/grid_operators.py, as repaired by
   the commit "fix: MortarProjections sizes the zero blocks of codimension-2 interfaces by
   the cells of the listed subdomains ...":
   _cell_projections, _face_projections, SubdomainProjections, MortarProjections
   (_construct_projection, the eight cached accessors, sign_of_mortar_sides),
   BoundaryProjection; porepy/grids/boundary_grid.py: set_projections / projection;
   porepy/utils/array_operations.py: expand_indices_nd).

   Representation (stated in the property module's trusted list):
   * a scipy sparse matrix is its shape and its coordinate list (row, column, value) in
     construction order; duplicate coordinates stand for their sum (as in scipy's coo
     format); the storage format (csr / csc / dia) is not modelled, it does not change the
     matrix.  Values are exact rationals (the code's values are 1.0 and the mortar weights;
     the only arithmetic applied to them is multiplication by 1.0);
   * a grid is (identity, dim, num_cells, num_faces); python dictionaries keyed by grid
     objects are association lists keyed by the identity, newest binding first;
   * per-interface MortarGrid projections `getattr(intf, proj_func)(dim)` are inputs.
   Executable definitions only; lemmas live in PP.Proofs.C27*. *)
From Coq Require Import List ZArith QArith Qabs Bool Arith.
Import ListNotations.
Local Open Scope nat_scope.

Inductive err := ValueErr | KeyErr | IndexErr | UnboundErr.

Inductive res (A : Type) := Ok (a : A) | Err (e : err).
Arguments Ok {A}. Arguments Err {A}.

Definition bind {A B} (r : res A) (f : A -> res B) : res B :=
  match r with Ok a => f a | Err e => Err e end.

(* ------------------------------------------------------------------ sparse matrices *)
Definition entry := (nat * nat * Q)%type.
Definition erow (e : entry) : nat := fst (fst e).
Definition ecol (e : entry) : nat := snd (fst e).
Definition evl (e : entry) : Q := snd e.

Record mat := mkM { nr : nat; nc : nat; ents : list entry }.

Definition zeros (r c : nat) : mat := mkM r c [].

(* A.T / A.transpose() *)
Definition transpose (A : mat) : mat :=
  mkM (nc A) (nr A) (map (fun e => (ecol e, erow e, evl e)) (ents A)).

(* A @ B (also written A * B for scipy matrices); ValueError on a dimension mismatch *)
Definition mul (A B : mat) : res mat :=
  if nc A =? nr B then
    Ok (mkM (nr A) (nc B)
          (flat_map (fun a => map (fun b => (erow a, ecol b, (evl a * evl b)%Q))
                                  (filter (fun b => erow b =? ecol a) (ents B)))
                    (ents A)))
  else Err ValueErr.

Definition shift_row (o : nat) (e : entry) : entry := (o + erow e, ecol e, evl e).
Definition shift_col (o : nat) (e : entry) : entry := (erow e, o + ecol e, evl e).

Fixpoint sum_by {X} (f : X -> nat) (l : list X) : nat :=
  match l with [] => 0 | x :: r => f x + sum_by f r end.

(* sps.bmat([[A1], [A2], ...]) : vertical stack.  All blocks must have the same number of
   columns (ValueError otherwise; never the case for the blocks built below, see
   Proofs.C27); an empty block list is not accepted by scipy. *)
Fixpoint vstack_ents (l : list mat) (off : nat) : list entry :=
  match l with
  | [] => []
  | A :: r => map (shift_row off) (ents A) ++ vstack_ents r (off + nr A)
  end.

Definition vstack (l : list mat) : res mat :=
  match l with
  | [] => Err ValueErr
  | A :: _ =>
      if forallb (fun B => nc B =? nc A) l
      then Ok (mkM (sum_by nr l) (nc A) (vstack_ents l 0))
      else Err ValueErr
  end.

(* sps.bmat([[A1, A2, ...]]) : horizontal stack *)
Fixpoint hstack_ents (l : list mat) (off : nat) : list entry :=
  match l with
  | [] => []
  | A :: r => map (shift_col off) (ents A) ++ hstack_ents r (off + nc A)
  end.

Definition hstack (l : list mat) : res mat :=
  match l with
  | [] => Err ValueErr
  | A :: _ =>
      if forallb (fun B => nr B =? nr A) l
      then Ok (mkM (nr A) (sum_by nc l) (hstack_ents l 0))
      else Err ValueErr
  end.

(* sps.kron(A, sps.eye(nd)) (matrix_operations.sparse_kronecker_product) *)
Definition kron_eye (A : mat) (nd : nat) : mat :=
  mkM (nr A * nd) (nc A * nd)
      (flat_map (fun e => map (fun d => (erow e * nd + d, ecol e * nd + d, (evl e * 1)%Q))
                              (seq 0 nd))
                (ents A)).

(* ------------------------------------------------------------------ expand_indices_nd *)
(* order "F":  (nd * ind + arange(nd)[:, None]).ravel("F") ; nd == 1 returns ind *)
Definition expand_indices_nd (ind : list nat) (nd : nat) : list nat :=
  if nd =? 1 then ind
  else flat_map (fun i => map (fun d => nd * i + d) (seq 0 nd)) ind.

(* ------------------------------------------------------------------ grids *)
Record grid := mkG { gid : nat; gdim : nat; ncells : nat; nfaces : nat }.

Definition pdict := list (nat * mat).

Fixpoint lookup (d : pdict) (k : nat) : res mat :=
  match d with
  | [] => Err KeyErr
  | (k', m) :: r => if k' =? k then Ok m else lookup r k
  end.

(* coo_matrix((np.ones(sz), (ind, np.arange(sz))), shape=(tot, sz)); scipy raises
   ValueError if the index arrays differ in length *)
Definition coo_ones (tot sz : nat) (ind : list nat) : res mat :=
  if length ind =? sz
  then Ok (mkM tot sz (map (fun p => (fst p, snd p, 1%Q)) (combine ind (seq 0 sz))))
  else Err ValueErr.

(* the loop shared by _cell_projections / _face_projections:
     ind = offset + expand_indices_nd(np.arange(n), dim); sz = n * dim
     projection[sd] = coo_matrix(...)
     cells:  offset = ind[-1] + 1            (IndexError when ind is empty)
     faces:  if sd.dim > 0: offset = ind[-1] + 1 *)
Fixpoint proj_loop (num : grid -> nat) (always : bool) (tot nd : nat)
         (l : list grid) (off : nat) (acc : pdict) : res pdict :=
  match l with
  | [] => Ok acc
  | g :: r =>
      let ind := map (fun i => off + i) (expand_indices_nd (seq 0 (num g)) nd) in
      let sz := num g * nd in
      bind (coo_ones tot sz ind) (fun P =>
        let acc' := (gid g, P) :: acc in
        if always || (0 <? gdim g) then
          match rev ind with
          | [] => Err IndexErr
          | x :: _ => proj_loop num always tot nd r (x + 1) acc'
          end
        else proj_loop num always tot nd r off acc')
  end.

Definition cell_projections (sds : list grid) (nd : nat) : res pdict :=
  proj_loop ncells true (sum_by ncells sds * nd) nd sds 0 [].

Definition face_projections (sds : list grid) (nd : nat) : res pdict :=
  proj_loop nfaces false (sum_by nfaces sds * nd) nd sds 0 [].

(* ------------------------------------------------------------------ SubdomainProjections *)
Fixpoint nodupb (l : list nat) : bool :=
  match l with [] => true | x :: r => negb (existsb (Nat.eqb x) r) && nodupb r end.

Record sproj := mkSP { sp_all : list grid; sp_nd : nat }.

(* __init__: ValueError if a subdomain occurs more than once *)
Definition sp_init (all : list grid) (nd : nat) : res sproj :=
  if nodupb (map gid all) then Ok (mkSP all nd) else Err ValueErr.

Fixpoint lookups (d : pdict) (req : list grid) : res (list mat) :=
  match req with
  | [] => Ok []
  | g :: r => bind (lookup d (gid g)) (fun m => bind (lookups d r) (fun ms => Ok (m :: ms)))
  end.

Inductive ent := Cells | Faces.

Definition projections_of (e : ent) (sp : sproj) : res pdict :=
  match e with
  | Cells => cell_projections (sp_all sp) (sp_nd sp)
  | Faces => face_projections (sp_all sp) (sp_nd sp)
  end.

Definition num_of (e : ent) : grid -> nat :=
  match e with Cells => ncells | Faces => nfaces end.

(* cell_restriction / face_restriction *)
Definition restriction (e : ent) (sp : sproj) (req : list grid) : res mat :=
  bind (projections_of e sp) (fun d =>
    match req with
    | [] => Ok (zeros 0 (sum_by (num_of e) (sp_all sp) * sp_nd sp))
    | _ => bind (lookups d req) (fun ms => vstack (map transpose ms))
    end).

(* cell_prolongation / face_prolongation *)
Definition prolongation (e : ent) (sp : sproj) (req : list grid) : res mat :=
  bind (projections_of e sp) (fun d =>
    match req with
    | [] => Ok (zeros (sum_by (num_of e) (sp_all sp) * sp_nd sp) 0)
    | _ => bind (lookups d req) (fun ms => hstack ms)
    end).

(* ------------------------------------------------------------------ MortarProjections *)
Record intf := mkI {
  iid : nat;
  iprim : nat;        (* identity of the primary (higher-dimensional) subdomain *)
  isec : nat;         (* identity of the secondary subdomain *)
  imc : nat;          (* num_cells of the mortar grid *)
  icodim : nat;
  isides : list nat   (* num_cells of the side grids (one or two sides) *)
}.

Definition mem_gid (k : nat) (sds : list grid) : bool := existsb (fun g => gid g =? k) sds.

Fixpoint uniq (l : list nat) : list nat :=
  match l with [] => [] | x :: r => x :: filter (fun y => negb (y =? x)) (uniq r) end.

(* _construct_projection(proj_func, to_mortar, is_primary, name); [locs] are the matrices
   getattr(intf, proj_func)(self.dim) of the listed interfaces, in list order *)
Fixpoint cp_blocks (to_mortar is_primary : bool) (sds : list grid) (nd nms : nat)
         (d : pdict) (ifs : list intf) (locs : list mat) : res (list mat) :=
  match ifs, locs with
  | i :: ri, L :: rl =>
      let sd := if is_primary then iprim i else isec i in
      bind (if mem_gid sd sds then
              bind (lookup d sd) (fun P =>
                if to_mortar then mul L (transpose P) else mul P L)
            else Ok (if to_mortar then zeros (imc i * nd) nms else zeros nms (imc i * nd)))
           (fun m => bind (cp_blocks to_mortar is_primary sds nd nms d ri rl)
                          (fun ms => Ok (m :: ms)))
  | _, _ => Ok []
  end.

Definition construct_projection (sds : list grid) (ifs : list intf) (nd : nat)
           (to_mortar is_primary : bool) (locs : list mat) : res mat :=
  let nms0 := nd * sum_by (if is_primary then nfaces else ncells) sds in
  match ifs with
  | [] => Ok (if to_mortar then zeros 0 nms0 else zeros nms0 0)
  | _ =>
      match uniq (map icodim ifs) with
      | [c] =>
          if (c =? 1) || (c =? 2) then
            let faces := (c =? 1) && is_primary in
            (* as repaired: the non-mortar size is cell-based whenever cell projections
               are used (also for primary grids of codimension-2 interfaces) *)
            let nms := nd * sum_by (if faces then nfaces else ncells) sds in
            bind (if faces then face_projections sds nd else cell_projections sds nd)
              (fun d =>
              bind (cp_blocks to_mortar is_primary sds nd nms d ifs locs) (fun ms =>
                if to_mortar then vstack ms else hstack ms))
          else Err ValueErr
      | _ => Err ValueErr
      end
  end.

(* the eight accessors with their caches *)
Inductive pkind :=
| M2P_int | M2P_avg | P2M_int | P2M_avg | M2S_int | M2S_avg | S2M_int | S2M_avg.

(* cache attributes: conforming sides share one attribute for int and avg *)
Inductive slot :=
| S_m2p | S_p2m | S_m2s | S_s2m | S_own (k : pkind).

Definition k_is_primary (k : pkind) : bool :=
  match k with M2P_int | M2P_avg | P2M_int | P2M_avg => true | _ => false end.
Definition k_to_mortar (k : pkind) : bool :=
  match k with P2M_int | P2M_avg | S2M_int | S2M_avg => true | _ => false end.

Definition pkind_eqb (a b : pkind) : bool :=
  match a, b with
  | M2P_int, M2P_int | M2P_avg, M2P_avg | P2M_int, P2M_int | P2M_avg, P2M_avg
  | M2S_int, M2S_int | M2S_avg, M2S_avg | S2M_int, S2M_int | S2M_avg, S2M_avg => true
  | _, _ => false
  end.

Definition slot_eqb (a b : slot) : bool :=
  match a, b with
  | S_m2p, S_m2p | S_p2m, S_p2m | S_m2s, S_m2s | S_s2m, S_s2m => true
  | S_own x, S_own y => pkind_eqb x y
  | _, _ => false
  end.

(* np.allclose(proj.data, 1, atol=1e-10): |x - 1| <= 1e-10 + 1e-5 * |1| *)
Definition close1 (x : Q) : bool :=
  Qle_bool (Qabs (x - 1)) ((1 # 10000000000) + (1 # 100000))%Q.

Definition all_close1 (ms : list mat) : bool :=
  forallb (fun m => forallb (fun e => close1 (evl e)) (ents m)) ms.

Record mproj := mkMP {
  mp_sds : list grid;
  mp_ifs : list intf;
  mp_nd : nat;
  mp_loc : pkind -> list mat;   (* getattr(intf, k)(dim) for the listed interfaces *)
  mp_conf_p : bool;
  mp_conf_s : bool;
  mp_cache : list (slot * mat)
}.

(* __init__ : the conformity flags are computed from the data of mortar_to_primary_{int,avg}
   and mortar_to_secondary_{int,avg} of every listed interface (called with nd = 1 there;
   kron with eye(nd) repeats the same values, so the flags agree) *)
Definition mp_init (sds : list grid) (ifs : list intf) (nd : nat)
           (loc : pkind -> list mat) : mproj :=
  mkMP sds ifs nd loc
       (all_close1 (loc M2P_int) && all_close1 (loc M2P_avg))
       (all_close1 (loc M2S_int) && all_close1 (loc M2S_avg))
       [].

Definition slot_of (mp : mproj) (k : pkind) : slot :=
  if k_is_primary k then
    if mp_conf_p mp then (if k_to_mortar k then S_p2m else S_m2p) else S_own k
  else
    if mp_conf_s mp then (if k_to_mortar k then S_s2m else S_m2s) else S_own k.

Fixpoint cache_get (c : list (slot * mat)) (s : slot) : option mat :=
  match c with
  | [] => None
  | (s', m) :: r => if slot_eqb s' s then Some m else cache_get r s
  end.

Definition mp_call (mp : mproj) (k : pkind) : mproj * res mat :=
  let s := slot_of mp k in
  match cache_get (mp_cache mp) s with
  | Some m => (mp, Ok m)
  | None =>
      match construct_projection (mp_sds mp) (mp_ifs mp) (mp_nd mp)
                                 (k_to_mortar k) (k_is_primary k) (mp_loc mp k) with
      | Ok m => (mkMP (mp_sds mp) (mp_ifs mp) (mp_nd mp) (mp_loc mp) (mp_conf_p mp)
                      (mp_conf_s mp) ((s, m) :: mp_cache mp), Ok m)
      | Err e => (mp, Err e)
      end
  end.

Fixpoint mp_run (mp : mproj) (ks : list pkind) : list (res mat) :=
  match ks with
  | [] => []
  | k :: r => let '(mp', o) := mp_call mp k in o :: mp_run mp' r
  end.

(* sign_of_mortar_sides: MortarGrid.sign_of_mortar_sides(nd) per interface (diagonal
   data: ones for a one-sided grid, -ones(left) ++ ones(right) for two sides), glued by
   sparse_dia_from_sparse_blocks (concatenation of the diagonals) *)
Definition sign_data (i : intf) (nd : nat) : list Q :=
  match isides i with
  | [l; r] => repeat (-1)%Q (l * nd) ++ repeat 1%Q (r * nd)
  | _ => repeat 1%Q (imc i * nd)
  end.

Definition dia (data : list Q) : mat :=
  mkM (length data) (length data)
      (map (fun p => (fst p, fst p, snd p)) (combine (seq 0 (length data)) data)).

Definition sign_of_mortar_sides (ifs : list intf) (nd : nat) : mat :=
  match ifs with
  | [] => zeros 0 0
  | _ => dia (concat (map (fun i => sign_data i nd) ifs))
  end.

(* ------------------------------------------------------------------ BoundaryProjection *)
(* a listed subdomain together with what mdg.subdomain_to_boundary_grid(sd) returns:
   None, or a BoundaryGrid whose parent's domain-boundary faces are np.where(tags)[0] *)
Record bgrid := mkB { bg_grid : grid; bg_bnd : option (list nat) }.

(* BoundaryGrid.set_projections *)
Definition bg_projections (bnd : list nat) (nf : nat) : mat :=
  mkM (length bnd) nf
      (map (fun p => (fst p, snd p, 1%Q)) (combine (seq 0 (length bnd)) bnd)).

Fixpoint bp_loop (fp : pdict) (tot nd : nat) (l : list bgrid) (prev : option mat)
         (acc : list mat) : res (list mat) :=
  match l with
  | [] => Ok (rev acc)
  | b :: r =>
      let g := bg_grid b in
      if 0 <? gdim g then
        match bg_bnd b with
        | Some bnd =>
            bind (lookup fp (gid g)) (fun P =>
              bind (mul (kron_eye (bg_projections bnd (nfaces g)) nd) (transpose P))
                   (fun m => bp_loop fp tot nd r (Some m) (m :: acc)))
        | None =>
            (* mat_loc keeps the value of the previous iteration (UnboundLocalError in
               the first iteration) *)
            match prev with
            | None => Err UnboundErr
            | Some m => bp_loop fp tot nd r (Some m) (m :: acc)
            end
        end
      else
        let m := zeros 0 tot in bp_loop fp tot nd r (Some m) (m :: acc)
  end.

(* BoundaryProjection.__init__ -> self._projection *)
Definition bp_projection (bgs : list bgrid) (nd : nat) : res mat :=
  let sds := map bg_grid bgs in
  bind (face_projections sds nd) (fun fp =>
    bind (bp_loop fp (sum_by nfaces sds * nd) nd bgs None []) (fun ms =>
      match ms with [] => Ok (zeros 0 0) | _ => vstack ms end)).

Definition subdomain_to_boundary (bgs : list bgrid) (nd : nat) : res mat :=
  bp_projection bgs nd.
Definition boundary_to_subdomain (bgs : list bgrid) (nd : nat) : res mat :=
  bind (bp_projection bgs nd) (fun m => Ok (transpose m)).

(* ------------------------------------------------------------------ comparison (tie) *)
Definition get (A : mat) (i j : nat) : Q :=
  fold_right (fun e s => if (erow e =? i) && (ecol e =? j) then (evl e + s)%Q else s)
             0%Q (ents A).

(* the two coordinate lists denote the same matrix (duplicates summed) *)
Definition mat_eqb (A B : mat) : bool :=
  (nr A =? nr B) && (nc A =? nc B)
  && forallb (fun e => Qeq_bool (get A (erow e) (ecol e)) (get B (erow e) (ecol e))) (ents A)
  && forallb (fun e => Qeq_bool (get A (erow e) (ecol e)) (get B (erow e) (ecol e))) (ents B)
  && forallb (fun e => (erow e <? nr A) && (ecol e <? nc A)) (ents A).

Definition err_eqb (a b : err) : bool :=
  match a, b with
  | ValueErr, ValueErr | KeyErr, KeyErr | IndexErr, IndexErr | UnboundErr, UnboundErr => true
  | _, _ => false
  end.

Definition res_eqb (a b : res mat) : bool :=
  match a, b with
  | Ok x, Ok y => mat_eqb x y
  | Err x, Err y => err_eqb x y
  | _, _ => false
  end.

Fixpoint all_res_eqb (a b : list (res mat)) : bool :=
  match a, b with
  | [], [] => true
  | x :: ra, y :: rb => res_eqb x y && all_res_eqb ra rb
  | _, _ => false
  end.

(* literals of generated case files: integers as Z, values as numerator / denominator *)
Definition zmat (r c : Z) (l : list (Z * Z * Z * Z)) : mat :=
  mkM (Z.to_nat r) (Z.to_nat c)
      (map (fun q => match q with (i, j, n, d) =>
                       (Z.to_nat i, Z.to_nat j, Qmake n (Z.to_pos d)) end) l).

Definition zgrid (q : Z * Z * Z * Z) : grid :=
  match q with (i, d, c, f) => mkG (Z.to_nat i) (Z.to_nat d) (Z.to_nat c) (Z.to_nat f) end.

Definition zintf (q : Z * Z * Z * Z * Z * list Z) : intf :=
  match q with (i, p, s, m, c, sides) =>
    mkI (Z.to_nat i) (Z.to_nat p) (Z.to_nat s) (Z.to_nat m) (Z.to_nat c) (map Z.to_nat sides)
  end.

Definition zbgrid (q : Z * Z * Z * Z * option (list Z)) : bgrid :=
  match q with (i, d, c, f, b) =>
    mkB (zgrid (i, d, c, f)) (option_map (map Z.to_nat) b) end.

(* SubdomainProjections: construct, then the four operators for the requested list *)
Definition sp_case (all req : list grid) (nd : nat) : list (res mat) :=
  match sp_init all nd with
  | Err e => [Err e]
  | Ok sp => [restriction Cells sp req; prolongation Cells sp req;
              restriction Faces sp req; prolongation Faces sp req]
  end.
