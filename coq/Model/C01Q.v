(* C01 — second executable instance over Q: as QOps, but np.sqrt is executed exactly on
   perfect-square rationals, so that l2_norm blocks with axis-aligned or Pythagorean
   entries ((s,0), (0,s,0), (3,4), (0,0,0) ...) run in the vm_compute tie.
   Executable definitions only. *)
From Coq Require Import List ZArith QArith Qabs Bool Arith.
Import ListNotations.
From PP Require Import Model.C01.

Definition zsqrt_exact (z : Z) : option Z :=
  let s := Z.sqrt z in if (s * s =? z)%Z then Some s else None.

(* exact root of a perfect-square rational; -1 marks "not a perfect square" (the tie's
   generator only emits perfect squares; the marker makes any other use disagree) *)
Definition qsqrt (q : Q) : Q :=
  let r := Qred q in
  match zsqrt_exact (Qnum r), zsqrt_exact (Zpos (Qden r)) with
  | Some a, Some (Zpos b) => a # b
  | _, _ => (-1)%Q
  end.

Definition QOpsS : Ops Q :=
  mkOps Q 0%Q 1%Q
    (fun a b => Qred (a + b)) (fun a b => Qred (a - b)) (fun a b => Qred (a * b))
    (fun a b => Qred (a / b)) (fun a => Qred (- a))
    (fun a n => Qred (Qpower a n))
    (fun _ _ => 0%Q)
    inject_Z Qltb
    (fun p x => match p with Psqrt => qsqrt x | _ => 0%Q end)
    0%Q.

(* the model (over the instance O) reproduces the implementation's .val and dense .jac *)
Definition agree_with (O : Ops Q) (e : expr Q) (xs : list (list Q)) (val : list Q)
           (jac : list (list Q)) : bool :=
  let x := envQ xs in
  let cs := cols_from 0 (map (@length Q) xs) in
  Nat.eqb (elen e (fun k => length (nth k xs []))) (length val)
  && Nat.eqb (length jac) (length val)
  && forallb
       (fun ivr =>
          let i := fst ivr in
          let vi := fst (snd ivr) in
          let row := snd (snd ivr) in
          Nat.eqb (length row) (length cs)
          && close (fst (eval_ad O e x (unit_env 0 0) i)) vi
          && forallb
               (fun cj =>
                  close (snd (eval_ad O e x (unit_env (fst (fst cj)) (snd (fst cj))) i))
                        (snd cj))
               (combine cs row))
       (combine (seq 0 (length val)) (combine val jac)).

Definition agreeS := agree_with QOpsS.

Definition model_outS (e : expr Q) (xs : list (list Q)) (n : nat) : list (Q * list Q) :=
  let x := envQ xs in
  let cs := cols_from 0 (map (@length Q) xs) in
  map (fun i => (fst (eval_ad QOpsS e x (unit_env 0 0) i),
                 map (fun c => snd (eval_ad QOpsS e x (unit_env (fst c) (snd c)) i)) cs))
      (seq 0 n).
