(* C02 — evaluation of AD operator trees.
   Transcribes (rational fragment: + - * / integer ** , sparse @, projections)
     porepy/numerics/ad/_ad_parser.py   AdParser.evaluate / _evaluate_single
     porepy/numerics/ad/forward_mode.py AdArray.__add__ ... __rmatmul__, __neg__, __getitem__
     porepy/numerics/ad/operators.py    the arithmetic overloads Operator.__add__ ... __rmatmul__
                                        (after the repair commit) and _parse_other
     porepy/numerics/linalg/matrix_operations.py ArraySlicer.__matmul__ (general path)
   Numbers are canonical rationals (Qc: Leibniz equality, executable).
   Executable definitions only. *)
From Coq Require Import List ZArith QArith Qabs Qcanon Bool Arith.
Import ListNotations.
Local Open Scope Qc_scope.

Definition vec := list Qc.
Definition mat := list vec.           (* list of rows *)

(* exceptions: "Encountered unknown operation" | ValueError raised by AdArray / the parser's
   re-raise | division by zero or a non-finite result (not representable in Q) |
   NotImplementedError of evaluate | operand combination outside the modelled fragment *)
Inductive err := EUnknownOp | EValue | EDivZero | ENotImpl | EKey | EUnsupported.

Inductive res (A : Type) := Ok (a : A) | Err (e : err).
Arguments Ok {A} a.
Arguments Err {A} e.

Definition bind {A B} (r : res A) (f : A -> res B) : res B :=
  match r with Ok a => f a | Err e => Err e end.

(* ArraySlicer: out = zeros(range_size); out[range_indices] = x[domain_indices] *)
Record slicer := { s_dom : list nat; s_rng : list nat; s_rsize : nat; s_dsize : nat }.

Inductive value :=
| VNum (x : Qc)                       (* python float                       *)
| VVec (v : vec)                      (* 1-d numpy array                    *)
| VMat (nc : nat) (m : mat)           (* scipy sparse matrix, nc columns    *)
| VAd (v : vec) (j : mat)             (* AdArray(val, jac)                  *)
| VSl (s : slicer)                    (* ArraySlicer                        *)
| VSlList (l : list slicer).          (* parsed ProjectionList              *)

(* ---------------------------------------------------------------------------------- *)
(* vector helpers                                                                      *)
(* ---------------------------------------------------------------------------------- *)
Fixpoint map2 {A B C} (f : A -> B -> C) (a : list A) (b : list B) : list C :=
  match a, b with
  | x :: a', y :: b' => f x y :: map2 f a' b'
  | _, _ => []
  end.

Definition vneg (v : vec) : vec := map Qcopp v.
Definition mneg (m : mat) : mat := map vneg m.
Definition vadd := map2 Qcplus.
Definition vsub := map2 Qcminus.
Definition vmul := map2 Qcmult.
Definition madd (a b : mat) : mat := map2 vadd a b.
Definition vscale (c : Qc) (v : vec) : vec := map (Qcmult c) v.
(* sps.diags(d) * J *)
Definition scale_rows (d : vec) (j : mat) : mat := map2 vscale d j.
Definition dot (a b : vec) : Qc := fold_right Qcplus 0 (vmul a b).
Definition mat_vec (m : mat) (v : vec) : vec := map (fun r => dot r v) m.
(* column c of a matrix given as rows *)
Definition col (m : mat) (c : nat) : vec := map (fun r => nth c r 0) m.
Definition mat_mat (nc : nat) (a b : mat) : mat :=
  map (fun r => map (fun c => dot r (col b c)) (seq 0 nc)) a.

Definition is_zero (x : Qc) : bool := Qc_eq_bool x 0.
Definition has_zero (v : vec) : bool := existsb is_zero v.

Definition qpowz (x : Qc) (z : Z) : Qc :=
  match z with
  | Z0 => 1
  | Zpos p => Qcpower x (Pos.to_nat p)
  | Zneg p => / (Qcpower x (Pos.to_nat p))
  end.

(* a float that is an integer *)
Definition as_int (c : Qc) : option Z :=
  match Qden (this c) with xH => Some (Qnum (this c)) | _ => None end.

Definition zeros (n : nat) : vec := repeat 0 n.
Definition zero_mat (r c : nat) : mat := repeat (zeros c) r.
Definition unit_row (n i : nat) : vec := map (fun k => if Nat.eqb k i then 1 else 0) (seq 0 n).
Definition identity (n : nat) : mat := map (unit_row n) (seq 0 n).

(* x[idx] *)
Definition take {A} (d : A) (x : list A) (idx : list nat) : list A := map (fun i => nth i x d) idx.

(* out[rng] = vals, in order (the last write wins) *)
Fixpoint update {A} (out : list A) (i : nat) (a : A) : list A :=
  match out, i with
  | [], _ => []
  | _ :: r, O => a :: r
  | x :: r, S i' => x :: update r i' a
  end.
Fixpoint scatter {A} (out : list A) (rng : list nat) (vals : list A) : list A :=
  match rng, vals with
  | i :: rng', a :: vals' => scatter (update out i a) rng' vals'
  | _, _ => out
  end.

Definition slice_vec (s : slicer) (x : vec) : vec :=
  scatter (zeros (s_rsize s)) (s_rng s) (take 0 x (s_dom s)).
Definition slice_rows (s : slicer) (nc : nat) (m : mat) : mat :=
  scatter (zero_mat (s_rsize s) nc) (s_rng s) (take (zeros nc) m (s_dom s)).
Definition ncols (j : mat) : nat := match j with r :: _ => length r | [] => 0%nat end.

(* ---------------------------------------------------------------------------------- *)
(* unary minus                                                                          *)
(* ---------------------------------------------------------------------------------- *)
Definition neg (a : value) : res value :=
  match a with
  | VNum x => Ok (VNum (- x))
  | VVec v => Ok (VVec (vneg v))
  | VMat nc m => Ok (VMat nc (mneg m))
  | VAd v j => Ok (VAd (vneg v) (mneg j))
  | VSl _ => Err EValue                 (* ArraySlicer.__neg__ raises ValueError *)
  | VSlList _ => Err EUnsupported
  end.

(* ---------------------------------------------------------------------------------- *)
(* AdArray methods (self = AdArray(v, j))                                               *)
(* ---------------------------------------------------------------------------------- *)
Definition same_len {A B} (a : list A) (b : list B) : bool := Nat.eqb (length a) (length b).

Definition ad_add (v : vec) (j : mat) (o : value) : res value :=
  match o with
  | VNum c => Ok (VAd (map (fun x => x + c) v) j)
  | VVec w => if same_len v w then Ok (VAd (vadd v w) j) else Err EUnsupported
  | VAd w k => if same_len v w && same_len j k then Ok (VAd (vadd v w) (madd j k)) else Err EValue
  | _ => Err EValue
  end.

(* __sub__ : self.__add__(-other) *)
Definition ad_sub (v : vec) (j : mat) (o : value) : res value := bind (neg o) (ad_add v j).

(* __rsub__ : -self.__sub__(other) *)
Definition ad_rsub (v : vec) (j : mat) (o : value) : res value := bind (ad_sub v j o) neg.

Definition ad_mul (v : vec) (j : mat) (o : value) : res value :=
  match o with
  | VNum c => Ok (VAd (map (fun x => x * c) v) (map (map (fun x => x * c)) j))
  | VVec w => if same_len v w then Ok (VAd (vmul v w) (scale_rows w j)) else Err EUnsupported
  | VAd w k =>
      if same_len v w && same_len j k
      then Ok (VAd (vmul v w) (madd (scale_rows w j) (scale_rows v k))) else Err EValue
  | VMat _ _ => Err EValue
  | VSl _ | VSlList _ => Err EUnsupported
  end.

(* __pow__ with a python number: val ** c, jac scaled by c * val ** (c - 1) *)
Definition ad_pow (v : vec) (j : mat) (o : value) : res value :=
  match o with
  | VNum c =>
      match as_int c with
      | Some z =>
          if (Z.ltb z 1) && has_zero v then Err EDivZero
          else Ok (VAd (map (fun x => qpowz x z) v)
                       (scale_rows (map (fun x => c * qpowz x (z - 1)) v) j))
      | None => Err EUnsupported
      end
  | VMat _ _ => Err EValue
  | _ => Err EUnsupported             (* array / AdArray exponents: logarithms *)
  end.

Definition ad_rpow (v : vec) (j : mat) (o : value) : res value :=
  match o with VMat _ _ => Err EValue | _ => Err EUnsupported end.

Definition ad_truediv (v : vec) (j : mat) (o : value) : res value :=
  match o with
  | VNum c => if is_zero c then Err EDivZero
              else Ok (VAd (map (fun x => x / c) v) (map (map (fun x => x / c)) j))
  | VVec w =>
      if has_zero w then Err EDivZero
      else if same_len v w
           then Ok (VAd (vmul v (map (fun x => qpowz x (-1)) w))
                        (scale_rows (map (fun x => qpowz x (-1)) w) j))
           else Err EUnsupported
  | VAd w k =>
      if same_len v w && same_len j k
      then bind (ad_pow w k (VNum (Q2Qc (-1)))) (fun p => ad_mul v j p) else Err EValue
  | VMat _ _ => Err EValue
  | VSl _ | VSlList _ => Err EUnsupported
  end.

(* __rtruediv__ : self.__pow__(-1.0) * other *)
Definition ad_rtruediv (v : vec) (j : mat) (o : value) : res value :=
  match o with
  | VNum _ | VVec _ | VMat _ _ =>
      bind (ad_pow v j (VNum (Q2Qc (-1))))
           (fun p => match p with VAd pv pj => ad_mul pv pj o | _ => Err EUnsupported end)
  | VAd w k =>
      if same_len v w && same_len j k
      then bind (ad_pow v j (VNum (Q2Qc (-1)))) (fun p => ad_mul w k p) else Err EValue
  | _ => Err EValue
  end.

Definition ad_rmatmul (v : vec) (j : mat) (o : value) : res value :=
  match o with
  | VMat nc m =>
      if Nat.eqb (length j) nc
      then Ok (VAd (mat_vec m v) (mat_mat (ncols j) m j)) else Err EValue
  | _ => Err EValue
  end.

(* ---------------------------------------------------------------------------------- *)
(* python's  a <op> b                                                                   *)
(* ---------------------------------------------------------------------------------- *)
Inductive op := Add | Sub | Mul | Div | Pow | Matmul | Rmul | Rdiv | Rpow | Rmatmul.

Definition is_rop (o : op) : bool :=
  match o with Rmul | Rdiv | Rpow | Rmatmul => true | _ => false end.

Definition num_op (o : op) (x y : Qc) : res Qc :=
  match o with
  | Add => Ok (x + y) | Sub => Ok (x - y) | Mul => Ok (x * y)
  | Div => if is_zero y then Err EDivZero else Ok (x / y)
  | Pow => match as_int y with
           | Some z => if Z.ltb z 0 && is_zero x then Err EDivZero else Ok (qpowz x z)
           | None => Err EUnsupported
           end
  | _ => Err EUnsupported
  end.

(* elementwise numpy operation on equal-length operands *)
Definition vec_op (o : op) (a b : vec) : res value :=
  if negb (same_len a b) then Err EUnsupported else
  match o with
  | Add => Ok (VVec (vadd a b)) | Sub => Ok (VVec (vsub a b)) | Mul => Ok (VVec (vmul a b))
  | Div => if has_zero b then Err EDivZero else Ok (VVec (map2 Qcdiv a b))
  | _ => Err EUnsupported
  end.

Definition slicer_matmul (s : slicer) (b : value) : res value :=
  match b with
  | VVec x => Ok (VVec (slice_vec s x))
  | VAd v j => Ok (VAd (slice_vec s v) (slice_rows s (ncols j) j))
  | VNum c => Ok (VVec (slice_vec s (repeat c (s_dsize s))))
  | VMat nc m => Ok (VMat nc (slice_rows s nc m))
  | _ => Err EUnsupported
  end.

Definition pyop (o : op) (a b : value) : res value :=
  match a, b with
  | VAd v j, _ =>
      match o with
      | Add => ad_add v j b | Sub => ad_sub v j b | Mul => ad_mul v j b
      | Div => ad_truediv v j b | Pow => ad_pow v j b
      | Matmul => Err EValue            (* AdArray.__matmul__ always raises *)
      | _ => Err EUnsupported
      end
  | VNum _, VAd v j =>                  (* float.__op__ -> NotImplemented -> AdArray.__rop__ *)
      match o with
      | Add => ad_add v j a | Sub => ad_rsub v j a | Mul => ad_mul v j a
      | Div => ad_rtruediv v j a | Pow => ad_rpow v j a
      | Matmul => Err EValue
      | _ => Err EUnsupported
      end
  | VMat _ _, VAd v j =>
      match o with
      | Matmul => ad_rmatmul v j a
      | Mul => ad_mul v j a
      | _ => Err EUnsupported
      end
  | VNum x, VNum y => match num_op o x y with Ok r => Ok (VNum r) | Err e => Err e end
  | VNum x, VVec w =>
      match o with Matmul | Pow => Err EUnsupported | _ => vec_op o (repeat x (length w)) w end
  | VVec w, VNum y =>
      match o with
      | Matmul => Err EUnsupported
      | Pow => match as_int y with
               | Some z => if Z.ltb z 0 && has_zero w then Err EDivZero
                           else Ok (VVec (map (fun x => qpowz x z) w))
               | None => Err EUnsupported
               end
      | _ => vec_op o w (repeat y (length w))
      end
  | VVec u, VVec w => match o with Matmul | Pow => Err EUnsupported | _ => vec_op o u w end
  | VMat nc m, VNum c =>
      match o with
      | Mul => Ok (VMat nc (map (vscale c) m))
      | Div => if is_zero c then Err EDivZero else Ok (VMat nc (map (map (fun x => x / c)) m))
      | _ => Err EUnsupported
      end
  | VNum c, VMat nc m =>
      match o with Mul => Ok (VMat nc (map (vscale c) m)) | _ => Err EUnsupported end
  | VMat nc m, VMat nc' m' =>
      match o with
      | Add => if Nat.eqb nc nc' && same_len m m' then Ok (VMat nc (madd m m')) else Err EUnsupported
      | Sub => if Nat.eqb nc nc' && same_len m m'
               then Ok (VMat nc (map2 vsub m m')) else Err EUnsupported
      | Matmul => if Nat.eqb nc (length m') then Ok (VMat nc' (mat_mat nc' m m')) else Err EUnsupported
      | _ => Err EUnsupported
      end
  | VMat nc m, VVec w =>
      match o with
      | Matmul => if Nat.eqb nc (length w) then Ok (VVec (mat_vec m w)) else Err EUnsupported
      | _ => Err EUnsupported
      end
  | VSl s, _ => match o with Matmul => slicer_matmul s b | _ => Err EUnsupported end
  | _, _ => Err EUnsupported
  end.

(* ---------------------------------------------------------------------------------- *)
(* operator trees and the parser                                                        *)
(* ---------------------------------------------------------------------------------- *)
Inductive leaf :=
| LScalar (c : Qc)
| LDense (v : vec)
| LSparse (nc : nat) (m : mat)
| LProj (s : slicer)
| LProjList (l : list slicer)
| LVar (dofs : list nat) (t i : Z)    (* (md-)variable: global dofs in the order of its
                                         sub-variables; private time-step / iterate index
                                         (-1 = current)                                     *)
| LTdda (pos : list nat) (t : Z).     (* TimeDependentDenseArray: positions in the stored
                                         arrays, private time-step index                    *)

Inductive tree := Leaf (l : leaf) | Bin (o : op) (a b : tree).

(* [ts k] / [its k]: the global vector stored at time-step / iterate index k;
   [src_it0], [src_ts k]: the values of the time-dependent array *)
Record env := { state : vec; deriv : bool;
                ts : list vec; its : list vec; src_it0 : vec; src_ts : list vec }.

(* pp.get_solution_values(..., index k): KeyError when nothing is stored at k *)
Definition lookup (l : list vec) (k : Z) : res vec :=
  if Z.ltb k 0 then Err EKey
  else match nth_error l (Z.to_nat k) with Some v => Ok v | None => Err EKey end.

(* ad_base = initAdArrays([state])[0] if derivative else state *)
Definition ad_base (e : env) : value :=
  if deriv e then VAd (state e) (identity (length (state e))) else VVec (state e).

(* ad_base[dofs] : AdArray.__getitem__ / numpy fancy indexing *)
Definition getitem (b : value) (dofs : list nat) : res value :=
  match b with
  | VAd v j => Ok (VAd (take 0 v dofs) (take (zeros (ncols j)) j dofs))
  | VVec v => Ok (VVec (take 0 v dofs))
  | _ => Err EUnsupported
  end.

Definition parse_leaf (l : leaf) (e : env) : res value :=
  match l with
  | LScalar c => Ok (VNum c)
  | LDense v => Ok (VVec v)
  | LSparse nc m => Ok (VMat nc m)
  | LProj s => Ok (VSl s)
  | LProjList l => Ok (VSlList l)
  | LVar dofs t i =>
      (* is_previous_time first (iterate_index is None then), then is_previous_iterate:
         the values stored for every sub-variable, in the order of the sub-variables *)
      if Z.leb 0 t then bind (lookup (ts e) t) (fun v => Ok (VVec (take 0 v dofs)))
      else if Z.leb 0 i then bind (lookup (its e) i) (fun v => Ok (VVec (take 0 v dofs)))
      else getitem (ad_base e) dofs
  | LTdda pos t =>
      if Z.leb 0 t then bind (lookup (src_ts e) t) (fun v => Ok (VVec (take 0 v pos)))
      else Ok (VVec (take 0 (src_it0 e) pos))
  end.

(* sum([c @ x for c in slicers]) : python's sum starts from the int 0 *)
Definition sum_slices (l : list slicer) (x : value) : res value :=
  fold_left (fun acc s => bind acc (fun a => bind (slicer_matmul s x) (fun y => pyop Add a y)))
            l (Ok (VNum 0)).

(* the  match operation:  part of _evaluate_single, on already evaluated children *)
Definition parse_node (o : op) (a b : value) : res value :=
  match o with
  | Add | Sub =>
      match a with
      | VVec _ =>                                   (* flipped = True *)
          bind (pyop o b a) (fun r => match o with Sub => neg r | _ => Ok r end)
      | _ => pyop o a b
      end
  | Mul | Div | Pow | Matmul =>
      match o, a, b with
      | Matmul, VSlList l, _ => sum_slices l b
      | Mul, VVec _, VAd v j => pyop Mul b a        (* child_values[::-1] *)
      | Div, VVec _, VAd v j => ad_rtruediv v j a
      | Pow, VVec _, VAd v j => ad_rpow v j a
      | Matmul, VVec _, VAd v j => ad_rmatmul v j a
      | _, _, _ => pyop o a b
      end
  | _ => Err EUnknownOp                             (* case _: "Encountered unknown operation" *)
  end.

Fixpoint parse (t : tree) (e : env) : res value :=
  match t with
  | Leaf l => parse_leaf l e
  | Bin o a b =>
      bind (parse a e) (fun va => bind (parse b e) (fun vb => parse_node o va vb))
  end.

(* AdParser.evaluate: post-processing of the result *)
Definition finish (e : env) (r : value) : res value :=
  if deriv e then
    match r with
    | VNum x => Ok (VAd [x] (zero_mat 1 (length (state e))))
    | VVec v => Ok (VAd v (zero_mat (length v) (length (state e))))
    | VMat _ _ => Err ENotImpl
    | _ => Ok r
    end
  else Ok r.

Definition evaluate (t : tree) (e : env) : res value := bind (parse t e) (finish e).

(* ---------------------------------------------------------------------------------- *)
(* direct forward-mode semantics                                                        *)
(* ---------------------------------------------------------------------------------- *)
(* Where python evaluates  a <op> b  natively on forward-mode arrays (AdArray or number on
   the left, plain numpy/scipy operands) that is the meaning; where the left operand is a
   numpy array and the right one an AdArray (python's own evaluation is erratic) the meaning
   is the dual-number formula. *)
Definition math_node (o : op) (a b : value) : res value :=
  match a, b with
  | VVec w, VAd v j =>
      match o with
      | Add => if same_len v w then Ok (VAd (vadd w v) j) else Err EUnsupported
      | Sub => if same_len v w then Ok (VAd (vsub w v) (mneg j)) else Err EUnsupported
      | Mul => if same_len v w then Ok (VAd (vmul w v) (scale_rows w j)) else Err EUnsupported
      | Div => if has_zero v then Err EDivZero
               else if same_len v w
               then Ok (VAd (map2 Qcdiv w v)
                            (scale_rows (map2 (fun wi vi => - wi / (vi * vi)) w v) j))
               else Err EUnsupported
      | Pow => Err EUnsupported
      | _ => Err EValue
      end
  | VSlList l, _ => match o with Matmul => sum_slices l b | _ => pyop o a b end
  | _, _ => pyop o a b
  end.

(* a reverse node [self, other] means  other <op> self *)
Definition direct_node (o : op) (a b : value) : res value :=
  match o with
  | Rmul => math_node Mul b a | Rdiv => math_node Div b a
  | Rpow => math_node Pow b a | Rmatmul => math_node Matmul b a
  | _ => math_node o a b
  end.

Fixpoint direct (t : tree) (e : env) : res value :=
  match t with
  | Leaf l => parse_leaf l e
  | Bin o a b =>
      bind (direct a e) (fun va => bind (direct b e) (fun vb => direct_node o va vb))
  end.

Fixpoint no_rops (t : tree) : bool :=
  match t with Leaf _ => true | Bin o a b => negb (is_rop o) && no_rops a && no_rops b end.

(* ---------------------------------------------------------------------------------- *)
(* Operator.previous_timestep / previous_iteration                                      *)
(* ---------------------------------------------------------------------------------- *)
(* _get_previous_time_or_iterate(op, prev_time, steps): time-dependent (iterative) leaves
   get their index advanced by [steps]; a variable already at a previous iterate (time step)
   cannot be moved in time (iterate): ValueError; other leaves are returned as they are;
   inner nodes are copied with the recursion applied to the children. *)
Definition shift_leaf (prev_time : bool) (steps : Z) (l : leaf) : res leaf :=
  match l with
  | LVar dofs t i =>
      if prev_time
      then if Z.leb 0 i then Err EValue else Ok (LVar dofs (t + steps) i)
      else if Z.leb 0 t then Err EValue else Ok (LVar dofs t (i + steps))
  | LTdda pos t => if prev_time then Ok (LTdda pos (t + steps)) else Ok l
  | _ => Ok l
  end.

Fixpoint shift_tree (prev_time : bool) (steps : Z) (t : tree) : res tree :=
  match t with
  | Leaf l => bind (shift_leaf prev_time steps l) (fun l' => Ok (Leaf l'))
  | Bin o a b =>
      bind (shift_tree prev_time steps a) (fun a' =>
      bind (shift_tree prev_time steps b) (fun b' => Ok (Bin o a' b')))
  end.

(* ---------------------------------------------------------------------------------- *)
(* the arithmetic overloads of Operator (after the repair)                              *)
(* ---------------------------------------------------------------------------------- *)
(* a python operand: an Operator (tree) or a plain number / numpy array / sparse matrix *)
Inductive operand := OTree (t : tree) | ONum (c : Qc) | OArr (v : vec) | OMat (nc : nat) (m : mat).

(* _parse_other: wrap the plain operand *)
Definition wrap (x : operand) : tree :=
  match x with
  | OTree t => t | ONum c => Leaf (LScalar c) | OArr v => Leaf (LDense v)
  | OMat nc m => Leaf (LSparse nc m)
  end.

(* python expression  x <o> y  with at least one Operator operand.  Left operand an Operator:
   its __op__ ([self, other]).  Otherwise the Operator's reflected method is called (numbers
   and sparse matrices return NotImplemented, numpy arrays defer because of
   __array_ufunc__ = None): __radd__ = __add__ (children [self, other]); the other reflected
   methods put the children in operand order. *)
Definition overload (o : op) (x y : operand) : tree :=
  match x with
  | OTree t => Bin o t (wrap y)
  | _ => match o with
         | Add => Bin Add (wrap y) (wrap x)
         | _ => Bin o (wrap x) (wrap y)
         end
  end.

(* the overloads before the repair: reflected mul/div/pow/matmul built r-nodes [self, other] *)
Definition rop_of (o : op) : op :=
  match o with Mul => Rmul | Div => Rdiv | Pow => Rpow | Matmul => Rmatmul | _ => o end.
Definition overload_old (o : op) (x y : operand) : tree :=
  match x with
  | OTree t => Bin o t (wrap y)
  | _ => match o with
         | Sub => Bin Sub (wrap x) (wrap y)
         | _ => Bin (rop_of o) (wrap y) (wrap x)
         end
  end.

(* ---------------------------------------------------------------------------------- *)
(* comparison with the implementation's output (floats, tolerance 1e-9 relative)        *)
(* ---------------------------------------------------------------------------------- *)
Definition close (a b : Qc) : bool :=
  Qle_bool (Qabs (this a - this b)) ((1 # 1000000000) * (1 + Qabs (this b))).

Fixpoint close_vec (a b : vec) : bool :=
  match a, b with
  | [], [] => true
  | x :: a', y :: b' => close x y && close_vec a' b'
  | _, _ => false
  end.
Fixpoint close_mat (a b : mat) : bool :=
  match a, b with
  | [], [] => true
  | x :: a', y :: b' => close_vec x y && close_mat a' b'
  | _, _ => false
  end.

(* what the harness observed *)
Inductive obs :=
| ObsErr (unknown_op : bool)          (* ValueError; flag: "Encountered unknown operation" *)
| ObsNotImpl
| ObsKeyErr                           (* KeyError: nothing stored at the requested index  *)
| ObsNonFinite                        (* inf / nan entries, or python's ZeroDivisionError *)
| ObsNum (x : Qc)
| ObsVec (v : vec)
| ObsMat (m : mat)
| ObsAd (v : vec) (j : mat).

Definition agree_obs (r : res value) (o : obs) : bool :=
  match r, o with
  | Err EUnknownOp, ObsErr true => true
  | Err EValue, ObsErr false => true
  | Err ENotImpl, ObsNotImpl => true
  | Err EDivZero, ObsNonFinite => true
  | Err EKey, ObsKeyErr => true
  | Ok (VNum x), ObsNum y => close x y
  | Ok (VVec v), ObsVec w => close_vec v w
  | Ok (VMat _ m), ObsMat m' => close_mat m m'
  | Ok (VAd v j), ObsAd w k => close_vec v w && close_mat j k
  | _, _ => false
  end.

Definition res_eqb (a b : res value) : bool :=
  match a, b with
  | Ok (VNum x), Ok (VNum y) => Qc_eq_bool x y
  | Ok (VVec v), Ok (VVec w) => if list_eq_dec Qc_eq_dec v w then true else false
  | Ok (VMat n m), Ok (VMat n' m') =>
      Nat.eqb n n' && if list_eq_dec (list_eq_dec Qc_eq_dec) m m' then true else false
  | Ok (VAd v j), Ok (VAd w k) =>
      (if list_eq_dec Qc_eq_dec v w then true else false)
      && if list_eq_dec (list_eq_dec Qc_eq_dec) j k then true else false
  | Err e, Err e' => match e, e' with
                     | EUnknownOp, EUnknownOp | EValue, EValue | EDivZero, EDivZero
                     | ENotImpl, ENotImpl | EUnsupported, EUnsupported | EKey, EKey => true
                     | _, _ => false end
  | _, _ => false
  end.

(* the stored values of one case: state = iterate 0 *)
Record stores := { st_ts : list vec; st_its : list vec; st_src_it0 : vec; st_src_ts : list vec }.

Definition mkenv (st : vec) (s : stores) (d : bool) : env :=
  {| state := st; deriv := d; ts := st_ts s; its := st_its s;
     src_it0 := st_src_it0 s; src_ts := st_src_ts s |}.

(* one correspondence case: the tree the implementation built, the state, and what
   EquationSystem.evaluate returned with and without derivative *)
Definition agree (t : tree) (st : vec) (s : stores) (with_d without_d : obs) : bool :=
  let e1 := mkenv st s true in
  let e0 := mkenv st s false in
  agree_obs (evaluate t e1) with_d && agree_obs (evaluate t e0) without_d
  && (negb (no_rops t)
      || (res_eqb (parse t e1) (direct t e1) && res_eqb (parse t e0) (direct t e0))).

(* correspondence of previous_timestep / previous_iteration applied to a whole tree: the
   serialised operator before the call, the arguments, and the serialised result (None: the
   call raised ValueError) *)
Definition slicer_eq_dec : forall a b : slicer, {a = b} + {a <> b}.
Proof. decide equality; auto using Nat.eq_dec, (list_eq_dec Nat.eq_dec). Defined.

Definition leaf_eq_dec : forall a b : leaf, {a = b} + {a <> b}.
Proof.
  decide equality;
    auto using Z.eq_dec, Nat.eq_dec, Qc_eq_dec, slicer_eq_dec, (list_eq_dec Nat.eq_dec),
      (list_eq_dec Qc_eq_dec), (list_eq_dec (list_eq_dec Qc_eq_dec)), (list_eq_dec slicer_eq_dec).
Defined.

Definition op_eq_dec : forall a b : op, {a = b} + {a <> b}.
Proof. decide equality. Defined.

Definition tree_eq_dec : forall a b : tree, {a = b} + {a <> b}.
Proof. decide equality; auto using leaf_eq_dec, op_eq_dec. Defined.

Definition agree_shift (inner : tree) (prev_time : bool) (steps : Z) (outer : option tree) : bool :=
  match shift_tree prev_time steps inner, outer with
  | Ok t', Some t'' => if tree_eq_dec t' t'' then true else false
  | Err EValue, None => true
  | _, _ => false
  end.
