(* C36 — ArraySlicer (porepy/numerics/linalg/matrix_operations.py), as repaired by the
   commits "fix: ArraySlicer @ ArraySlicer no longer modifies the right operand in place"
   and "fix: ArraySlicer keeps all pending operations when a slicer with a pending operand
   becomes a right operand" (the pending pairs are a list, applied first-added first).
   Transcribes __init__, transpose, copy, __matmul__ (slicer / vector / 2-D array /
   sparse matrix / AdArray / scalar operands), the right-operand methods __rmatmul__,
   __rmul__, __rtruediv__, __rpow__, __radd__, __rsub__, _slice_vector, _slice_matrix.

   Python slicer objects live in an explicit heap (list of records, object id =
   position), because a pending operand that is itself a slicer is held BY REFERENCE;
   every method that returns a slicer allocates a new object (that is what the repaired
   code does; the pre-fix in-place variant is kept below as [matmul_ss_inplace] only to
   document the defect).

   Representation choices (stated in the property module's trusted list):
   * indices / sizes are [nat] (numpy's negative-index wrap-around is not modelled);
   * a CSR matrix is the list of its stored rows, each row the list of (column, value)
     pairs in storage order, explicit zeros and duplicate columns kept; the index-pointer
     arithmetic of _slice_matrix (argsort / cumsum / expand_index_pointers / take) is
     abstracted to "row r of the result is stored row d of the input";
   * numpy / scipy arithmetic applied by a pending operation ([eval "A op sliced"]) is
     external: Section variables [ext_scalar], [ext_mat]; a concrete integer instance is
     given at the end for the execution tie.
   Executable definitions only. *)
From Coq Require Import List ZArith Bool Arith.
Import ListNotations.

Inductive err := ValueErr | IndexErr | Unsupported | Unmodelled | FuelErr.

Inductive res (A : Type) := Ok (a : A) | Err (e : err).
Arguments Ok {A}. Arguments Err {A}.

Definition bind {A B} (r : res A) (f : A -> res B) : res B :=
  match r with Ok a => f a | Err e => Err e end.

Definition crow := list (nat * Z).

Inductive value :=
| VVec (v : list Z)                                  (* 1-D numpy array *)
| VArr (nc : nat) (rows : list (list Z))             (* 2-D numpy array, nc columns *)
| VCsr (nc : nat) (rows : list crow)                 (* scipy sparse matrix, nc columns *)
| VAd (v : list Z) (nc : nat) (jac : list crow)      (* pp.ad.AdArray(val, jac) *)
| VNum (c : Z).                                      (* python int / float *)

Inductive pop := PMatmul | PMul | PDiv | PPow | PAdd | PSub.

Inductive operand :=
| OScalar (c : Z)
| OMat (nc : nat) (rows : list crow)
| OSlicer (id : nat)                                 (* reference to a heap object *)
| OAd (v : list Z) (nc : nat) (jac : list crow).     (* pp.ad.AdArray as LEFT operand *)

Record slicer := mkS {
  dom : list nat;            (* _domain_indices *)
  rng : list nat;            (* _range_indices *)
  rsize : nat;               (* _range_size *)
  dsize : nat;               (* _domain_size *)
  onto : bool;               (* _is_onto *)
  transposed : bool;         (* _is_transposed (informational only) *)
  pend : list (operand * pop)     (* _pending: (operand, operation) pairs, innermost first *)
}.

(* ------------------------------------------------------------------ __init__ *)
(* indices.max() + 1 ; ValueError on an empty array *)
Definition maxp1 (l : list nat) : option nat :=
  match l with [] => None | _ => Some (S (fold_right Nat.max 0 l)) end.

Definition construct (d r : option (list nat)) (rs ds : option nat) : res slicer :=
  match d, r with
  | None, None => Err ValueErr
  | _, _ =>
      let d' := match d, r with
                | Some d0, _ => d0
                | None, Some r0 => seq 0 (length r0)
                | None, None => [] end in
      let r' := match d, r with
                | _, Some r0 => r0
                | Some d0, None => seq 0 (length d0)
                | None, None => [] end in
      let is_onto := match d, r, rs with Some _, None, None => true | _, _, _ => false end in
      match (match rs with Some n => Some n | None => maxp1 r' end) with
      | None => Err ValueErr
      | Some rsz =>
          match (match ds with Some n => Some n | None => maxp1 d' end) with
          | None => Err ValueErr
          | Some dsz => Ok (mkS d' r' rsz dsz is_onto false [])
          end
      end
  end.

(* ------------------------------------------------------------------ transpose / copy *)
(* ArraySlicer(domain_indices=range, range_indices=domain, range_size=domain_size,
   domain_size=range_size); obj._is_transposed = not obj._is_transposed (of the NEW
   object, hence always True); pending operand/operation are not carried over. *)
Definition transpose (s : slicer) : slicer :=
  mkS (rng s) (dom s) (dsize s) (rsize s) false (negb false) [].

Definition copy (s : slicer) : slicer :=
  mkS (dom s) (rng s) (rsize s) (dsize s) (onto s) (transposed s) (pend s).

(* slicer._pending.append((operand, operation)) *)
Definition with_pend (s : slicer) (o : operand) (p : pop) : slicer :=
  mkS (dom s) (rng s) (rsize s) (dsize s) (onto s) (transposed s) (pend s ++ [(o, p)]).

(* before the second repair the single pending pair was OVERWRITTEN *)
Definition set_pend (s : slicer) (o : operand) (p : pop) : slicer :=
  mkS (dom s) (rng s) (rsize s) (dsize s) (onto s) (transposed s) [(o, p)].

(* ------------------------------------------------------------------ slicing *)
Section Rows.
  Variable E : Type.

  (* x[idx] ; None = IndexError *)
  Fixpoint gather (x : list E) (idx : list nat) : option (list E) :=
    match idx with
    | [] => Some []
    | i :: r => match nth_error x i, gather x r with
                | Some a, Some l => Some (a :: l)
                | _, _ => None
                end
    end.

  Fixpoint upd (l : list E) (i : nat) (v : E) : list E :=
    match l, i with
    | [], _ => []
    | _ :: r, O => v :: r
    | a :: r, S i' => a :: upd r i' v
    end.

  (* vec[idx] = vals, written left to right (the last write wins) *)
  Fixpoint scatter (out : list E) (idx : list nat) (vals : list E) : list E :=
    match idx, vals with
    | i :: ir, v :: vr => scatter (upd out i v) ir vr
    | _, _ => out
    end.

  (* numpy broadcasting of the assigned values along the first axis *)
  Definition bcast (m : nat) (vals : list E) : option (list E) :=
    if length vals =? m then Some vals
    else match vals with
         | [v] => Some (repeat v m)
         | _ => None
         end.

  (* _slice_vector on the rows of a 1-D / 2-D array (zero = 0.0 resp. a zero row) *)
  Definition slice_rows (s : slicer) (zero : E) (x : list E) : res (list E) :=
    match gather x (dom s) with
    | None => Err IndexErr
    | Some vals =>
        if onto s then Ok vals
        else match bcast (length (rng s)) vals with
             | None => Err ValueErr
             | Some vals' =>
                 if forallb (fun r => r <? rsize s) (rng s)
                 then Ok (scatter (repeat zero (rsize s)) (rng s) vals')
                 else Err IndexErr
             end
    end.
End Rows.
Arguments gather {E}. Arguments upd {E}. Arguments scatter {E}. Arguments bcast {E}.
Arguments slice_rows {E}.

Fixpoint has_dup (l : list nat) : bool :=
  match l with
  | [] => false
  | a :: r => existsb (Nat.eqb a) r || has_dup r
  end.

(* _slice_matrix on the stored rows.  The onto path is scipy's A[domain_indices]; the
   general path builds indptr/indices/data by hand and yields an inconsistent CSR triple
   when range indices repeat or the index arrays differ in length: [Unmodelled]. *)
Definition slice_csr (s : slicer) (rows : list crow) : res (list crow) :=
  match gather rows (dom s) with
  | None => Err IndexErr
  | Some vals =>
      if onto s then Ok vals
      else if negb (forallb (fun r => r <? rsize s) (rng s)) then Err IndexErr
      else if negb (length (dom s) =? length (rng s)) then Err Unmodelled
      else if has_dup (rng s) then Err Unmodelled
      else Ok (scatter (repeat [] (rsize s)) (rng s) vals)
  end.

(* the part of __matmul__ before the pending operation *)
Definition slice (s : slicer) (x : value) : res value :=
  match x with
  | VVec v => bind (slice_rows s 0%Z v) (fun y => Ok (VVec y))
  | VArr nc rows => bind (slice_rows s (repeat 0%Z nc) rows) (fun y => Ok (VArr nc y))
  | VCsr nc rows => bind (slice_csr s rows) (fun y => Ok (VCsr nc y))
  | VAd v nc jac =>
      bind (slice_rows s 0%Z v) (fun y =>
      bind (slice_csr s jac) (fun j => Ok (VAd y nc j)))
  | VNum c => bind (slice_rows s 0%Z (repeat c (dsize s))) (fun y => Ok (VVec y))
  end.

(* ------------------------------------------------------------------ heap, application *)
Definition heap := list slicer.

Section Apply.
  (* eval(f"self._pending_operand {op} sliced") for non-slicer operands: numpy/scipy *)
  Variable ext_scalar : pop -> Z -> value -> res value.
  Variable ext_mat : pop -> nat -> list crow -> value -> res value.

  Variable ext_ad : pop -> list Z -> nat -> list crow -> value -> res value.

  (* one pending pair:  eval(f"operand {operation} sliced");  [ap j] is S_j.__matmul__ *)
  Definition pend_step (ap : nat -> value -> res value) (o : operand) (p : pop) (y : value)
    : res value :=
    match o with
    | OSlicer j => match p with PMatmul => ap j y | _ => Err Unmodelled end
    | OScalar c => ext_scalar p c y
    | OMat nc rows => ext_mat p nc rows y
    | OAd v nc jac => ext_ad p v nc jac y
    end.

  (* for operand, operation in self._pending: sliced = eval(...) *)
  Fixpoint run_pend (ap : nat -> value -> res value) (l : list (operand * pop)) (y : value)
    : res value :=
    match l with
    | [] => Ok y
    | (o, p) :: r => bind (pend_step ap o p y) (run_pend ap r)
    end.

  (* S @ x for a non-slicer x.  A pending slicer operand is applied by a recursive
     __matmul__ call; fuel bounds the reference chain (never exhausted on heaps built by
     the repaired code: Proofs.C36.apply_fuel). *)
  Fixpoint apply (fuel : nat) (h : heap) (id : nat) (x : value) : res value :=
    match fuel with
    | O => Err FuelErr
    | S f =>
        match nth_error h id with
        | None => Err Unmodelled
        | Some s => bind (slice s x) (run_pend (apply f h) (pend s))
        end
    end.

  Inductive stmt :=
  | SNew (d r : option (list nat)) (rs ds : option nat)
  | STranspose (i : nat)                        (* S_i.T *)
  | SCopy (i : nat)                             (* S_i.copy() *)
  | SMatSS (i j : nat)                          (* S_i @ S_j *)
  | SROp (o : operand) (p : pop) (j : nat)      (* A p S_j  (A not a slicer) *)
  | SApply (i : nat) (x : value).               (* S_i @ x *)

  Inductive out :=
  | ONew (id : nat)
  | OVal (v : value)
  | OErr (e : err).

  Definition alloc (h : heap) (s : slicer) : heap * out := (h ++ [s], ONew (length h)).

  Definition step (h : heap) (st : stmt) : heap * out :=
    match st with
    | SNew d r rs ds =>
        match construct d r rs ds with
        | Ok s => alloc h s
        | Err e => (h, OErr e)
        end
    | STranspose i =>
        match nth_error h i with
        | Some s => alloc h (transpose s)
        | None => (h, OErr Unmodelled)
        end
    | SCopy i =>
        match nth_error h i with
        | Some s => alloc h (copy s)
        | None => (h, OErr Unmodelled)
        end
    | SMatSS i j =>
        (* slicer = x.copy(); slicer._pending.append((self, "@")); return slicer *)
        match nth_error h i, nth_error h j with
        | Some _, Some sj => alloc h (with_pend (copy sj) (OSlicer i) PMatmul)
        | _, _ => (h, OErr Unmodelled)
        end
    | SROp o p j =>
        (* slicer = self.copy(); slicer._pending.append((other, op)).  A slicer as left
           operand takes the __matmul__ route (SMatSS) or raises, never this one. *)
        match o, nth_error h j with
        | OSlicer _, _ => (h, OErr Unmodelled)
        | _, Some sj => alloc h (with_pend (copy sj) o p)
        | _, None => (h, OErr Unmodelled)
        end
    | SApply i x =>
        match apply (S (length h)) h i x with
        | Ok v => (h, OVal v)
        | Err e => (h, OErr e)
        end
    end.

  Fixpoint run (h : heap) (prog : list stmt) : heap * list out :=
    match prog with
    | [] => (h, [])
    | st :: r => let (h1, o) := step h st in
                 let (h2, os) := run h1 r in (h2, o :: os)
    end.

  (* The original __matmul__(ArraySlicer):  x._pending_operand = self; return x *)
  Definition matmul_ss_inplace (h : heap) (i j : nat) : heap * out :=
    match nth_error h i, nth_error h j with
    | Some _, Some sj => (upd h j (set_pend sj (OSlicer i) PMatmul), ONew j)
    | _, _ => (h, OErr Unmodelled)
    end.

  (* After the first repair only: copy, then OVERWRITE the single pending pair *)
  Definition matmul_ss_overwrite (h : heap) (i j : nat) : heap * out :=
    match nth_error h i, nth_error h j with
    | Some _, Some sj => alloc h (set_pend (copy sj) (OSlicer i) PMatmul)
    | _, _ => (h, OErr Unmodelled)
    end.
End Apply.

(* ------------------------------------------------------------------ explicit matrices *)
(* entry (i,j) of the projection matrix: 1 iff some k has range[k] = i, domain[k] = j *)
Definition entry (s : slicer) (i j : nat) : Z :=
  if existsb (fun p => (fst p =? i) && (snd p =? j)) (combine (rng s) (dom s))
  then 1%Z else 0%Z.

Definition build (nr ncol : nat) (f : nat -> nat -> Z) : list (list Z) :=
  map (fun i => map (fun j => f i j) (seq 0 ncol)) (seq 0 nr).

(* the rsize x dsize 0/1 matrix *)
Definition denote (s : slicer) : list (list Z) := build (rsize s) (dsize s) (entry s).

Definition mentry (M : list (list Z)) (i j : nat) : Z := nth j (nth i M []) 0%Z.

Definition mtranspose (nr ncol : nat) (M : list (list Z)) : list (list Z) :=
  build ncol nr (fun i j => mentry M j i).

Fixpoint dot (a b : list Z) : Z :=
  match a, b with
  | x :: r, y :: s => (x * y + dot r s)%Z
  | _, _ => 0%Z
  end.

Definition matvec (M : list (list Z)) (x : list Z) : list Z := map (fun row => dot row x) M.

Definition col (c : nat) (X : list (list Z)) : list Z := map (fun row => nth c row 0%Z) X.

(* M * X for a dense X with nc columns, entry by entry *)
Definition matmul (M : list (list Z)) (nc : nat) (X : list (list Z)) : list (list Z) :=
  map (fun row => map (fun c => dot row (col c X)) (seq 0 nc)) M.

(* dense form of a stored CSR row (duplicate columns are summed, as scipy does) *)
Definition dense_row (nc : nat) (r : crow) : list Z :=
  map (fun c => fold_right (fun p acc => if fst p =? c then (snd p + acc)%Z else acc) 0%Z r)
      (seq 0 nc).

Definition to_dense (nc : nat) (rows : list crow) : list (list Z) := map (dense_row nc) rows.

(* operands in dense form: what the explicit matrix is multiplied with *)
Inductive dvalue :=
| DVec (v : list Z)
| DArr (nc : nat) (rows : list (list Z))
| DAd (v : list Z) (nc : nat) (jac : list (list Z)).

(* a scalar stands for np.full(n, c) *)
Definition dense (n : nat) (x : value) : dvalue :=
  match x with
  | VVec v => DVec v
  | VArr nc rows => DArr nc rows
  | VCsr nc rows => DArr nc (to_dense nc rows)
  | VAd v nc jac => DAd v nc (to_dense nc jac)
  | VNum c => DVec (repeat c n)
  end.

Definition mat_apply (M : list (list Z)) (x : dvalue) : dvalue :=
  match x with
  | DVec v => DVec (matvec M v)
  | DArr nc rows => DArr nc (matmul M nc rows)
  | DAd v nc jac => DAd (matvec M v) nc (matmul M nc jac)
  end.

(* ------------------------------------------------------------------ integer instance *)
(* numpy / scipy arithmetic on integer-valued data, for the execution tie only *)
Definition all_rows (f : list Z -> option (list Z)) (rows : list (list Z)) : option (list (list Z)) :=
  fold_right (fun r acc => match f r, acc with Some a, Some l => Some (a :: l) | _, _ => None end)
             (Some []) rows.

Definition ew (p : pop) (c : Z) (v : list Z) : option (list Z) :=
  match p with
  | PMul => Some (map (fun e => c * e)%Z v)
  | PAdd => Some (map (fun e => c + e)%Z v)
  | PSub => Some (map (fun e => c - e)%Z v)
  | PPow => if forallb (fun e => 0 <=? e)%Z v then Some (map (fun e => c ^ e)%Z v) else None
  | PDiv => if forallb (fun e => negb (e =? 0)%Z && (c mod e =? 0)%Z) v
            then Some (map (fun e => c / e)%Z v) else None
  | PMatmul => None
  end.

Definition scale_row (c : Z) (r : crow) : crow := map (fun p => (fst p, (c * snd p)%Z)) r.

Definition ext_scalarZ (p : pop) (c : Z) (y : value) : res value :=
  match y with
  | VVec v => match ew p c v with Some w => Ok (VVec w) | None => Err Unmodelled end
  | VArr nc rows => match all_rows (ew p c) rows with
                    | Some w => Ok (VArr nc w) | None => Err Unmodelled end
  | VCsr nc rows => match p with
                    | PMul => Ok (VCsr nc (map (scale_row c) rows))
                    | PMatmul => Err Unmodelled
                    | _ => Err Unsupported
                    end
  | VAd v nc jac => match p with
                    | PMul => Ok (VAd (map (fun e => c * e)%Z v) nc (map (scale_row c) jac))
                    | PAdd => Ok (VAd (map (fun e => c + e)%Z v) nc jac)
                    | PSub => Ok (VAd (map (fun e => c - e)%Z v) nc (map (scale_row (-1)) jac))
                    | _ => Err Unmodelled
                    end
  | VNum _ => Err Unmodelled
  end.

(* a dense row written back as stored (column, value) pairs *)
Definition sparsify (r : list Z) : crow := combine (seq 0 (length r)) r.

Definition ext_matZ (p : pop) (anc : nat) (arows : list crow) (y : value) : res value :=
  match p with
  | PMatmul =>
      let A := to_dense anc arows in
      match y with
      | VVec v => if length v =? anc then Ok (VVec (matvec A v)) else Err ValueErr
      | VArr nc rows => if length rows =? anc then Ok (VArr nc (matmul A nc rows)) else Err ValueErr
      | VCsr nc rows => if length rows =? anc
                        then Ok (VCsr nc (map sparsify (matmul A nc (to_dense nc rows))))
                        else Err ValueErr
      | VAd v nc jac => if (length v =? anc) && (length jac =? anc)
                        then Ok (VAd (matvec A v) nc
                                     (map sparsify (matmul A nc (to_dense nc jac))))
                        else Err ValueErr
      | VNum _ => Err Unmodelled
      end
  | _ => Err Unmodelled
  end.

(* AdArray (v, jac) * sliced : value product, Jacobian by the product rule *)
Definition addrow (a b : list Z) : list Z := map (fun p => (fst p + snd p)%Z) (combine a b).

Definition ext_adZ (p : pop) (v : list Z) (nc : nat) (jac : list crow) (y : value) : res value :=
  match p with
  | PMul =>
      match y with
      | VVec w =>
          if (length w =? length v) && (length jac =? length v)
          then Ok (VAd (map (fun q => (fst q * snd q)%Z) (combine v w)) nc
                       (map (fun q => scale_row (fst q) (snd q)) (combine w jac)))
          else Err ValueErr
      | VAd w nc' jw =>
          if (length w =? length v) && (length jac =? length v) && (length jw =? length v)
             && (nc' =? nc)
          then Ok (VAd (map (fun q => (fst q * snd q)%Z) (combine v w)) nc
                       (map sparsify
                            (map (fun q => addrow (fst q) (snd q))
                                 (combine
                                    (map (fun q => dense_row nc (scale_row (fst q) (snd q))) (combine w jac))
                                    (map (fun q => dense_row nc (scale_row (fst q) (snd q))) (combine v jw))))))
          else Err ValueErr
      | _ => Err Unmodelled
      end
  | _ => Err Unmodelled
  end.

(* ---------------- comparison with the implementation's output ---------------- *)
Fixpoint eqb_zs (a b : list Z) : bool :=
  match a, b with
  | [], [] => true
  | x :: r, y :: s => (x =? y)%Z && eqb_zs r s
  | _, _ => false
  end.

Fixpoint eqb_rows (a b : list (list Z)) : bool :=
  match a, b with
  | [], [] => true
  | x :: r, y :: s => eqb_zs x y && eqb_rows r s
  | _, _ => false
  end.

Fixpoint eqb_crow (a b : crow) : bool :=
  match a, b with
  | [], [] => true
  | (i, x) :: r, (j, y) :: s => (i =? j) && (x =? y)%Z && eqb_crow r s
  | _, _ => false
  end.

Fixpoint eqb_crows (a b : list crow) : bool :=
  match a, b with
  | [], [] => true
  | x :: r, y :: s => eqb_crow x y && eqb_crows r s
  | _, _ => false
  end.

(* strict = stored structure compared entry by entry; otherwise as dense matrices *)
Definition eqb_csr (strict : bool) (nc : nat) (a b : list crow) : bool :=
  if strict then eqb_crows a b else eqb_rows (to_dense nc a) (to_dense nc b).

Definition eqb_value (strict : bool) (a b : value) : bool :=
  match a, b with
  | VVec x, VVec y => eqb_zs x y
  | VArr n x, VArr m y => (n =? m) && eqb_rows x y
  | VCsr n x, VCsr m y => (n =? m) && eqb_csr strict n x y
  | VAd v n x, VAd w m y => eqb_zs v w && (n =? m) && eqb_csr strict n x y
  | VNum x, VNum y => (x =? y)%Z
  | _, _ => false
  end.

Definition eqb_err (a b : err) : bool :=
  match a, b with
  | ValueErr, ValueErr | IndexErr, IndexErr | Unsupported, Unsupported
  | Unmodelled, Unmodelled | FuelErr, FuelErr => true
  | _, _ => false
  end.

Definition eqb_out (strict : bool) (a b : out) : bool :=
  match a, b with
  | ONew i, ONew j => i =? j
  | OVal x, OVal y => eqb_value strict x y
  | OErr e, OErr f => eqb_err e f
  | _, _ => false
  end.

Fixpoint eqb_outs (strict : bool) (a b : list out) : bool :=
  match a, b with
  | [], [] => true
  | x :: r, y :: s => eqb_out strict x y && eqb_outs strict r s
  | _, _ => false
  end.

Fixpoint eqb_nats (a b : list nat) : bool :=
  match a, b with
  | [], [] => true
  | x :: r, y :: s => (x =? y) && eqb_nats r s
  | _, _ => false
  end.

Definition pop_code (p : pop) : nat :=
  match p with PMatmul => 0 | PMul => 1 | PDiv => 2 | PPow => 3 | PAdd => 4 | PSub => 5 end.

(* dump of one python object after the history: indices, sizes, flags and the pending
   pairs in order (operand kind: 1 scalar, 2 matrix, 3 slicer + its object id, 4 AdArray;
   operation code) *)
Record objdump := mkD {
  d_dom : list nat; d_rng : list nat; d_rsize : nat; d_dsize : nat;
  d_onto : bool; d_transposed : bool;
  d_pend : list (nat * nat * nat)
}.

Fixpoint eqb_pend (l : list (operand * pop)) (d : list (nat * nat * nat)) : bool :=
  match l, d with
  | [], [] => true
  | (o, p) :: r, (k, id, c) :: q =>
      (match o with
       | OScalar _ => k =? 1
       | OMat _ _ => k =? 2
       | OSlicer j => (k =? 3) && (j =? id)
       | OAd _ _ _ => k =? 4
       end) && (pop_code p =? c) && eqb_pend r q
  | _, _ => false
  end.

Definition eqb_obj (s : slicer) (d : objdump) : bool :=
  eqb_nats (dom s) (d_dom d) && eqb_nats (rng s) (d_rng d) &&
  (rsize s =? d_rsize d) && (dsize s =? d_dsize d) &&
  Bool.eqb (onto s) (d_onto d) && Bool.eqb (transposed s) (d_transposed d) &&
  eqb_pend (pend s) (d_pend d).

Fixpoint eqb_heap (h : heap) (l : list objdump) : bool :=
  match h, l with
  | [], [] => true
  | s :: r, d :: q => eqb_obj s d && eqb_heap r q
  | _, _ => false
  end.

(* the model reproduces the implementation on this history: every statement's outcome
   and the state of every slicer object afterwards *)
Definition agree (strict : bool) (prog : list stmt) (outs : list out) (dump : list objdump) : bool :=
  let (h, os) := run ext_scalarZ ext_matZ ext_adZ [] prog in
  eqb_outs strict os outs && eqb_heap h dump.
