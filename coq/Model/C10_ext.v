(* C10 — extended execution correspondence (definitions only; nothing of Model/C10.v is
   changed).  Compared in addition to [Model.C10.agree]:
     * the TimeManager at the moment before_nonlinear_loop runs (= increase_time_index
       (increase_time (clock after the previous event))) and the value before_nonlinear_loop
       writes into the model's ad_time_step (= dt of that clock);
     * runs that end in a storage exception (KeyError of shift_solution_values for index sets
       with holes): the entry of the solve that raised, the partially updated dictionaries
       and the stop reason [RaisedStore]. *)
From Coq Require Import List ZArith Bool PrimFloat.
Import ListNotations.
From PP Require Model.C08 Model.C09.
From PP Require Import Model.C10.

(* which way the solve was seen to end *)
Inductive lkind :=
| LConv        (* after_nonlinear_convergence ran (alone) *)
| LFail        (* after_nonlinear_failure ran (alone) *)
| LIterErr.    (* after_nonlinear_iteration raised a storage exception *)

Record logged2 := {
  g_kind : lkind;
  g_attempt : C09.state float;        (* TimeManager when before_nonlinear_loop ran *)
  g_dt : float;                       (* ad_time_step after before_nonlinear_loop *)
  g_iters : list (sdump * option sdump);
  g_clock : C09.state float;
  g_out : C09.out float;
  g_store : dump }.

Definition kind_same (r : nres) (k : lkind) : bool :=
  match r, k with
  | NConv _, LConv | NFail, LFail | NErr _, LIterErr => true
  | _, _ => false
  end.

(* [prev] = the clock after the previous event, [ts] = the time-step slot dump sent last *)
Definition entry_same2 (prev : C09.state float) (ts : sdump) (e : entry fvec float)
           (l : logged2) : bool :=
  let s1 := C09.increase_time_index float (C09.increase_time float C09.FOps prev) in
  kind_same (e_res e) (g_kind l)
  && C09.state_same s1 (g_attempt l) && C09.fsame (C09.dt s1) (g_dt l)
  && iters_same ts (e_iters e) (g_iters l)
  && C09.state_same (e_clock e) (g_clock l) && C09.out_same (e_out e) (g_out l)
  && store_same (e_store e) (g_store l).

Fixpoint entries_same2 (prev : C09.state float) (ts : sdump) (a : list (entry fvec float))
         (b : list logged2) : bool :=
  match a, b with
  | [], [] => true
  | x :: r, y :: s => entry_same2 prev ts x y && entries_same2 (e_clock x) (snd (g_store y)) r s
  | _, _ => false
  end.

Definition agree2 (maxit : Z) (a : C09.args float) (sched : list float) (iti tsi : list Z)
           (v0 : fvec) (solves : list (list (fvec * bool * bool)))
           (expect : (C09.cfg float * dump * list logged2 * stop) + C09.err) : bool :=
  match simulate fvec fvadd float C09.FOps maxit a sched iti tsi v0 solves, expect with
  | inr (CtorErr e), inr e' => C09.err_eqb e e'
  | inl (c, st0, (tr, sp)), inl (c', d0, ls, sp') =>
      C09.cfg_same c c' && store_same st0 d0
      && entries_same2 (C09.init_state float C09.FOps c sched) (snd d0) tr ls
      && stop_same sp sp'
  | _, _ => false
  end.

(* ---------------- counting the attempted time steps of a trace ---------------- *)
Definition is_conv {V T : Type} (e : entry V T) : bool :=
  match e_res e with NConv _ => true | _ => false end.

(* attempts that ended in after_nonlinear_convergence / in anything else *)
Definition n_converged {V T : Type} (tr : list (entry V T)) : nat :=
  length (filter is_conv tr).
Definition n_failed {V T : Type} (tr : list (entry V T)) : nat :=
  length (filter (fun e => negb (is_conv e)) tr).
