(* C01 — the real-number instance of the rule table (definitions only).
   numpy's primitives are interpreted by the real functions of the Coq standard library;
   arccosh / arctanh (absent from the library) by their logarithmic formulas. *)
From Coq Require Import Reals ZArith List.
From PP Require Import Model.C01.
Open Scope R_scope.

Definition ltbR (a b : R) : bool := if Rlt_dec a b then true else false.

Definition acoshR (x : R) : R := ln (x + sqrt (x * x - 1)).
Definition atanhR (x : R) : R := / 2 * ln ((1 + x) / (1 - x)).

Definition primR (p : prim) (x : R) : R :=
  match p with
  | Pexp => exp x | Pln => ln x
  | Psin => sin x | Pcos => cos x | Ptan => tan x
  | Pasin => asin x | Pacos => acos x | Patan => atan x
  | Psinh => sinh x | Pcosh => cosh x | Ptanh => tanh x
  | Pasinh => arcsinh x | Pacosh => acoshR x | Patanh => atanhR x
  | Psqrt => sqrt x
  end.

Definition ROps : Ops R :=
  mkOps R 0 1 Rplus Rminus Rmult Rdiv Ropp powerRZ Rpower IZR ltbR primR PI.

(* the point x moved by t along the direction v *)
Definition shift (x v : env (T:=R)) (t : R) : env (T:=R) := fun k i => x k i + t * v k i.
