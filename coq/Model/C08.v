(* C08 — sliding-window storage of time-step / iterate values.
   Transcribes porepy/numerics/ad/ad_utils.py: _validate_indices, set_solution_values,
   get_solution_values, shift_solution_values for ONE (location, name) slot.
   Executable definitions only. *)
From Coq Require Import List ZArith Bool Arith.
Import ListNotations.

Inductive err := KeyErr | ValueErr.

Section Model.
  Variable V : Type.
  Variable vadd : V -> V -> V.      (* numpy in-place += *)

  (* A python dict  index -> array, represented positionally: entry i is [Some v] when
     key i is present.  Only the key->value map and the number of keys are observable
     to the transcribed code ([len], [in], item get/set). *)
  Definition dict := list (option V).

  Definition lookup (d : dict) (i : nat) : option V :=
    match nth_error d i with Some (Some v) => Some v | _ => None end.

  Fixpoint update (d : dict) (i : nat) (v : V) : dict :=
    match d, i with
    | [], O => [Some v]
    | [], S i' => None :: update [] i' v
    | _ :: r, O => Some v :: r
    | x :: r, S i' => x :: update r i' v
    end.

  (* len(dict) *)
  Fixpoint num_stored (d : dict) : nat :=
    match d with [] => 0 | Some _ :: r => S (num_stored r) | None :: r => num_stored r end.

  (* state: None = data[loc][name] does not exist *)
  Definition st := option dict.

  Inductive op :=
  | OpSet (i : Z) (v : V)               (* set_solution_values(..., additive=False) *)
  | OpAdd (i : Z) (v : V)               (* set_solution_values(..., additive=True)  *)
  | OpGet (i : Z)
  | OpShift (m : option Z).             (* shift_solution_values(max_index=m) *)

  Inductive out :=
  | ODone
  | OVal (v : V)
  | OErr (e : err).

  (* range(k, 0, -1) = [k; k-1; ...; 1] *)
  Fixpoint down (k : nat) : list nat :=
    match k with O => [] | S k' => S k' :: down k' end.

  (* the loop  for i in range_: d[i] = d[i-1].copy() ; stops at the first KeyError,
     keeping the mutations done so far *)
  Fixpoint shift_loop (d : dict) (r : list nat) : dict * bool :=
    match r with
    | [] => (d, true)
    | i :: r' =>
        match lookup d (i - 1) with
        | None => (d, false)
        | Some v => shift_loop (update d i v) r'
        end
    end.

  Definition shift_range (n : nat) (m : option Z) : list nat :=
    match m with
    | None => down n
    | Some m => if (Z.of_nat n <? m)%Z then down n else down (Z.to_nat m - 1)
    end.

  Definition step (s : st) (o : op) : st * out :=
    match o with
    | OpSet i v =>
        if (i <? 0)%Z then (s, OErr ValueErr)
        else let d := match s with None => [] | Some d => d end in
             (Some (update d (Z.to_nat i) v), ODone)
    | OpAdd i v =>
        if (i <? 0)%Z then (s, OErr ValueErr)
        else let d := match s with None => [] | Some d => d end in
             match lookup d (Z.to_nat i) with
             | None => (Some d, OErr ValueErr)      (* the empty dict has been created *)
             | Some w => (Some (update d (Z.to_nat i) (vadd w v)), ODone)
             end
    | OpGet i =>
        if (i <? 0)%Z then (s, OErr ValueErr)
        else match s with
             | None => (s, OErr KeyErr)
             | Some d => match lookup d (Z.to_nat i) with
                         | None => (s, OErr KeyErr)
                         | Some v => (s, OVal v)
                         end
             end
    | OpShift m =>
        match s with
        | None => (s, ODone)
        | Some d =>
            match m with
            | Some mz => if (mz <? 0)%Z then (s, OErr ValueErr) else
                let (d', ok) := shift_loop d (shift_range (num_stored d) m) in
                (Some d', if ok then ODone else OErr KeyErr)
            | None =>
                let (d', ok) := shift_loop d (shift_range (num_stored d) m) in
                (Some d', if ok then ODone else OErr KeyErr)
            end
        end
    end.

  Fixpoint run (s : st) (ops : list op) : st * list out :=
    match ops with
    | [] => (s, [])
    | o :: r => let (s', x) := step s o in
                let (s'', xs) := run s' r in (s'', x :: xs)
    end.

  (* ---------------- abstract window ---------------- *)
  (* contiguous dict 0..n-1 holding the list w, index 0 first *)
  Definition of_window (w : list V) : dict := map Some w.

  Definition wshift (d : nat) (w : list V) : list V :=
    match w with
    | [] => []
    | c :: _ => if length w <? d then c :: w else firstn d (c :: w) ++ skipn d w
    end.

  (* the history view: current value followed by the values index 0 held at the
     successive shifts, most recent first *)
  Definition hstep (h : list V) (o : op) : list V :=
    match o with
    | OpSet _ v => v :: tl h
    | OpAdd _ v => match h with [] => [] | c :: r => vadd c v :: r end
    | OpGet _ => h
    | OpShift _ => match h with [] => [] | c :: r => c :: c :: r end
    end.
End Model.

Arguments lookup {V}. Arguments update {V}. Arguments step {V}. Arguments run {V}.
Arguments OpSet {V}. Arguments OpAdd {V}. Arguments OpGet {V}. Arguments OpShift {V}.
Arguments ODone {V}. Arguments OVal {V}. Arguments OErr {V}.
Arguments shift_loop {V}. Arguments of_window {V}. Arguments wshift {V}.
Arguments num_stored {V}. Arguments hstep {V}. Arguments down : simpl never.

(* ---------------- executable instance for the tie: vectors of Z ---------------- *)
Definition vaddZ (a b : list Z) : list Z := map (fun p => (fst p + snd p)%Z) (combine a b).

Definition eqb_vec (a b : list Z) : bool :=
  (length a =? length b) && forallb (fun p => (fst p =? snd p)%Z) (combine a b).

Definition eqb_out (a b : @out (list Z)) : bool :=
  match a, b with
  | ODone, ODone => true
  | OVal x, OVal y => eqb_vec x y
  | OErr KeyErr, OErr KeyErr => true
  | OErr ValueErr, OErr ValueErr => true
  | _, _ => false
  end.

Fixpoint eqb_outs (a b : list (@out (list Z))) : bool :=
  match a, b with
  | [], [] => true
  | x :: r, y :: s => eqb_out x y && eqb_outs r s
  | _, _ => false
  end.

(* canonical dump of the final dictionary (key, value) sorted by key *)
Definition eqb_dump (s : @st (list Z)) (dump : option (list (nat * list Z))) : bool :=
  match s, dump with
  | None, None => true
  | Some d, Some l =>
      (num_stored d =? length l) &&
      forallb (fun kv => match lookup d (fst kv) with
                         | Some v => eqb_vec v (snd kv) | None => false end) l
  | _, _ => false
  end.

Definition agree_from (init : @st (list Z)) (ops : list (@op (list Z)))
           (outs : list (@out (list Z))) (dump : option (list (nat * list Z))) : bool :=
  let (s, xs) := run vaddZ init ops in eqb_outs xs outs && eqb_dump s dump.

Definition agree := agree_from None.
