(* C29 — split_intersecting_segments_2d (porepy/geometry/intersections.py) over exact
   rationals Q.  Executable definitions only.

   What is transcribed, in the order of the code:
   * bounding boxes per segment, widened by tol/2 on each side when degenerate
     (cmax - cmin < tol);
   * candidate pairs (main < other) with overlapping boxes.  The sweep of
     _identify_overlapping_rectangles is represented by its result, the closed-interval
     overlap test on both axes (validated by the tie, not proved);
   * the coarse filter: sign (with the tol band) of the cross products between the
     normalised main direction and the normalised vectors from the main start to the
     other's start / end; INCLUDING the vectorised quirk that `dist(start_other,
     start_main) > tol` is ONE scalar over all the others of a main (sqrt of the sum
     over all of them), which selects the branch for all of them at once.  Norm tests
     are in squared form (|v| < tol  <->  |v|^2 < tol^2, as in Model/C28);
   * segments_2d on every relevant pair (model: PP.Model.C28.seg2d), one or two points
     appended to the new points and recorded for both segments; an exception of
     segments_2d propagates (explicit error value);
   * no new point: the input is returned unchanged;
   * otherwise all points (end points of the segments, then the new points) are
     uniquified with tolerance; per segment the indices of its points are np.unique'd,
     sorted by squared distance from the (representative of the) start point (stable
     insertion sort = numpy's argsort on short arrays), consecutive points give the
     children, which carry the parent's tags and the parent's number;
   * children are oriented by point index, and np.unique(axis=1, return_index) keeps
     the first child per index pair.

   Abstractions (named in the check's level_note):
   * input segments are given by their end point coordinates (the code's p[:, e[0]]);
     the numbering of the output points is not modelled, only their coordinates — the
     comparison with the implementation is on coordinates;
   * uniquify_point_set is represented by greedy first-occurrence clustering (a point
     joins the first kept point closer than tol, else it is kept).  It agrees with the
     code whenever "closer than tol" is transitive on the point set, in particular when
     any two points are equal or at least tol apart (the guard of the theorems; C34
     covers uniquify_point_set itself). *)
From Coq Require Import List QArith Qabs Bool Arith ZArith.
Import ListNotations.
From PP Require Import Model.C28.
Open Scope Q_scope.

Definition seg := (pt2 * pt2 * list Z)%type.        (* start, end, tags *)
Definition sS (g : seg) : pt2 := fst (fst g).
Definition sE (g : seg) : pt2 := snd (fst g).
Definition sT (g : seg) : list Z := snd g.

Definition sub2 (a b : pt2) : pt2 := (fst a - fst b, snd a - snd b).
Definition nrm2 (v : pt2) : Q := fst v * fst v + snd v * snd v.
Definition cross2 (u v : pt2) : Q := fst u * snd v - snd u * fst v.
Definition dist2 (a b : pt2) : Q := nrm2 (sub2 a b).
(* a*p + b*q *)
Definition lin2 (a : Q) (p : pt2) (b : Q) (q : pt2) : pt2 :=
  (a * fst p + b * fst q, a * snd p + b * snd q).

Fixpoint indexed_from {A} (k : nat) (l : list A) : list (nat * A) :=
  match l with [] => [] | x :: r => (k, x) :: indexed_from (S k) r end.
Definition indexed {A} (l : list A) : list (nat * A) := indexed_from 0 l.

(* ------------------------------------------------------------------ bounding boxes *)
Definition widen (tol lo hi : Q) : Q * Q :=
  if qltb (hi - lo) tol then (lo - (1 # 2) * tol, hi + (1 # 2) * tol) else (lo, hi).

Definition bbox (tol : Q) (g : seg) : (Q * Q) * (Q * Q) :=
  (widen tol (qmin (fst (sS g)) (fst (sE g))) (qmax (fst (sS g)) (fst (sE g))),
   widen tol (qmin (snd (sS g)) (snd (sE g))) (qmax (snd (sS g)) (snd (sE g)))).

Definition overlap (b1 b2 : (Q * Q) * (Q * Q)) : bool :=
  Qle_bool (fst (fst b1)) (snd (fst b2)) && Qle_bool (fst (fst b2)) (snd (fst b1)) &&
  Qle_bool (fst (snd b1)) (snd (snd b2)) && Qle_bool (fst (snd b2)) (snd (snd b1)).

(* the others of main i: larger index, overlapping box; ascending index *)
Definition others (tol : Q) (isegs : list (nat * seg)) (ig : nat * seg) : list (nat * seg) :=
  filter (fun jg => (fst ig <? fst jg)%nat && overlap (bbox tol (snd ig)) (bbox tol (snd jg)))
         isegs.

(* ------------------------------------------------------------------ coarse filter *)
(* normalize(): the squared norm the vector is divided by (1 when |v| < tol) *)
Definition nfac (tol : Q) (v : pt2) : Q := if qltb (nrm2 v) (tol * tol) then 1 else nrm2 v.

(* mod_sign(cross(normalize u, normalize v), tol) *)
Definition msign (tol : Q) (u v : pt2) : comparison :=
  let c := cross2 u v in
  if qltb (c * c) (tol * tol * (nfac tol u * nfac tol v)) then Eq else (c ?= 0).

Definition same_side (a b : comparison) : bool :=
  match a, b with Lt, Lt | Gt, Gt => true | _, _ => false end.

Definition sumsq (l : list pt2) : Q := fold_right (fun v acc => nrm2 v + acc) 0 l.

(* gs / ge: the scalar tests dist(start_other, start_main) > tol, dist(end_other, ..) *)
Definition relevant (tol : Q) (gi : seg) (gs ge : bool) (gj : seg) : bool :=
  let mv := sub2 (sE gi) (sS gi) in
  let ws := if gs then sub2 (sS gj) (sS gi)
            else sub2 (lin2 (1 # 2) (sS gj) (1 # 2) (sE gj)) (sS gi) in
  let we := if ge then sub2 (sE gj) (sS gi)
            else sub2 (lin2 (3 # 10) (sS gj) (7 # 10) (sE gj)) (sS gi) in
  negb (same_side (msign tol mv ws) (msign tol mv we)).

Definition cands_of (tol : Q) (isegs : list (nat * seg)) (ig : nat * seg)
  : list ((nat * seg) * (nat * seg)) :=
  let oth := others tol isegs ig in
  let gs := qltb (tol * tol) (sumsq (map (fun jg => sub2 (sS (snd jg)) (sS (snd ig))) oth)) in
  let ge := qltb (tol * tol) (sumsq (map (fun jg => sub2 (sE (snd jg)) (sS (snd ig))) oth)) in
  map (fun jg => (ig, jg)) (filter (fun jg => relevant tol (snd ig) gs ge (snd jg)) oth).

Definition cand_pairs (tol : Q) (segs : list seg) : list ((nat * seg) * (nat * seg)) :=
  flat_map (cands_of tol (indexed segs)) (indexed segs).

(* ------------------------------------------------------------------ intersections *)
Definition isect_of (tol : Q) (pr : (nat * seg) * (nat * seg)) : res2 :=
  seg2d tol (sS (snd (fst pr))) (sE (snd (fst pr))) (sS (snd (snd pr))) (sE (snd (snd pr))).

Definition res_pts (r : res2) : list pt2 :=
  match r with R2Pt q => [q] | R2Seg q1 q2 => [q1; q2] | _ => [] end.

Fixpoint first_err (l : list res2) : option err :=
  match l with
  | [] => None
  | R2Err e :: _ => Some e
  | _ :: r => first_err r
  end.

(* (main, other, points) in processing order *)
Definition hit := (nat * nat * list pt2)%type.
Definition hits (tol : Q) (segs : list seg) : list hit :=
  map (fun pr => (fst (fst pr), fst (snd pr), res_pts (isect_of tol pr))) (cand_pairs tol segs).

Definition new_pts (hs : list hit) : list pt2 := flat_map (fun h => snd h) hs.

(* isect_pt[k] *)
Definition isect_for (k : nat) (hs : list hit) : list pt2 :=
  flat_map (fun h => if (k =? fst (fst h))%nat || (k =? snd (fst h))%nat then snd h else []) hs.

(* ------------------------------------------------------------------ uniquify points *)
Definition close (tol : Q) (a b : pt2) : bool := qltb (dist2 a b) (tol * tol).

Definition uniq_step (tol : Q) (U : list pt2) (p : pt2) : list pt2 :=
  if existsb (close tol p) U then U else U ++ [p].
Definition uniqU (tol : Q) (l : list pt2) : list pt2 := fold_left (uniq_step tol) l [].

(* old_2_new of a point: index of the first kept point within tol *)
Fixpoint idx (tol : Q) (U : list pt2) (p : pt2) : nat :=
  match U with
  | [] => 0%nat
  | u :: r => if close tol p u then 0%nat else S (idx tol r p)
  end.

Definition end_pts (segs : list seg) : list pt2 := flat_map (fun g => [sS g; sE g]) segs.
Definition all_pt (tol : Q) (segs : list seg) : list pt2 :=
  end_pts segs ++ new_pts (hits tol segs).

(* ------------------------------------------------------------------ splitting *)
(* np.unique of an index vector: sorted, without repetitions *)
Fixpoint uins (x : nat) (l : list nat) : list nat :=
  match l with
  | [] => [x]
  | y :: r => if (x <? y)%nat then x :: y :: r
              else if (x =? y)%nat then y :: r else y :: uins x r
  end.
Definition usort (l : list nat) : list nat := fold_right uins [] l.

(* stable argsort by a rational key *)
Fixpoint qins (key : nat -> Q) (x : nat) (l : list nat) : list nat :=
  match l with
  | [] => [x]
  | y :: r => if Qle_bool (key x) (key y) then x :: y :: r else y :: qins key x r
  end.
Definition qsort (key : nat -> Q) (l : list nat) : list nat := fold_right (qins key) [] l.

Fixpoint cpairs {A} (l : list A) : list (A * A) :=
  match l with
  | a :: r => match r with b :: _ => (a, b) :: cpairs r | [] => [] end
  | [] => []
  end.

Definition pdef : pt2 := (0, 0).
Definition upt (U : list pt2) (i : nat) : pt2 := nth i U pdef.

(* new_inds of segment k *)
Definition local_inds (tol : Q) (U : list pt2) (hs : list hit) (kg : nat * seg) : list nat :=
  let g := snd kg in
  let inds := usort (map (idx tol U) (sS g :: sE g :: isect_for (fst kg) hs)) in
  let st := upt U (idx tol U (sS g)) in
  qsort (fun i => dist2 (upt U i) st) inds.

(* a child before uniquification: point indices (oriented low, high), tags, parent *)
Definition child := (nat * nat * list Z * nat)%type.
Definition cA (c : child) : nat := fst (fst (fst c)).
Definition cB (c : child) : nat := snd (fst (fst c)).
Definition cT (c : child) : list Z := snd (fst c).
Definition cP (c : child) : nat := snd c.

Definition children_of (tol : Q) (U : list pt2) (hs : list hit) (kg : nat * seg) : list child :=
  map (fun ab => (Nat.min (fst ab) (snd ab), Nat.max (fst ab) (snd ab), sT (snd kg), fst kg))
      (cpairs (local_inds tol U hs kg)).

Definition all_children (tol : Q) (U : list pt2) (hs : list hit) (segs : list seg) : list child :=
  flat_map (children_of tol U hs) (indexed segs).

Definition same_key (c d : child) : bool := (cA c =? cA d)%nat && (cB c =? cB d)%nat.

(* np.unique(axis=1, return_index): the first child per index pair survives *)
Fixpoint dedup (l : list child) : list child :=
  match l with
  | [] => []
  | c :: r => c :: filter (fun d => negb (same_key c d)) (dedup r)
  end.

(* an output edge: coordinates of both ends, tags, number of the parent segment *)
Definition edge := (pt2 * pt2 * list Z * nat)%type.
Definition eA (e : edge) : pt2 := fst (fst (fst e)).
Definition eB (e : edge) : pt2 := snd (fst (fst e)).
Definition eT (e : edge) : list Z := snd (fst e).
Definition eP (e : edge) : nat := snd e.

Definition to_edge (U : list pt2) (c : child) : edge := (upt U (cA c), upt U (cB c), cT c, cP c).

Inductive outcome :=
| Edges (pre : list edge) (out : list edge)    (* children before / after uniquification *)
| Raised (e : err).

Definition split (tol : Q) (segs : list seg) : outcome :=
  match first_err (map (isect_of tol) (cand_pairs tol segs)) with
  | Some e => Raised e
  | None =>
      let hs := hits tol segs in
      match new_pts hs with
      | [] => let es := map (fun kg => (sS (snd kg), sE (snd kg), sT (snd kg), fst kg))
                            (indexed segs) in
              Edges es es
      | _ :: _ =>
          let U := uniqU tol (all_pt tol segs) in
          let ch := all_children tol U hs segs in
          Edges (map (to_edge U) ch) (map (to_edge U) (dedup ch))
      end
  end.

(* ------------------------------------------------------------------ guard of the theorems *)
(* C28's "away from the tolerance bands" test for one call of segments_2d (same text as
   PP.Proofs.C28.separated; equality proved in Proofs/C29.v) *)
Definition sep2d (tol : Q) (s1 e1 s2 e2 : pt2) : bool :=
  let d1x := fst e1 - fst s1 in let d1y := snd e1 - snd s1 in
  let d2x := fst e2 - fst s2 in let d2y := snd e2 - snd s2 in
  let n1 := d1x * d1x + d1y * d1y in
  let n2 := d2x * d2x + d2y * d2y in
  let dsx := fst s2 - fst s1 in let dsy := snd s2 - snd s1 in
  let discr := d1x * (- d2y) - d1y * (- d2x) in
  Bool.eqb (qltb (discr * discr) (tol * tol * (n1 * n2))) (Qeq_bool discr 0) &&
  if Qeq_bool discr 0 then
    let scl := dsx * d1y - dsy * d1x in
    Bool.eqb (qltb (scl * scl) (tol * tol * qmax n1 n2)) (Qeq_bool scl 0) &&
    if Qeq_bool scl 0 then
      Bool.eqb (qltb (tol * tol * n1) (d1x * d1x)) (negb (Qeq_bool d1x 0)) &&
      implb (Qeq_bool d1x 0) (qltb (tol * tol * n2) (d1y * d1y)) &&
      let tt := if Qeq_bool d1x 0
                then ((snd s2 - snd s1) / d1y, (snd e2 - snd s1) / d1y)
                else ((fst s2 - fst s1) / d1x, (fst e2 - fst s1) / d1x) in
      let ts := fst tt in let te := snd tt in
      let tmin := qmax (qmin ts te) 0 in
      let tmax := qmin (qmax ts te) 1 in
      Bool.eqb (qltb (tmax - tmin) tol) (Qle_bool tmax tmin)
    else true
  else
    let t1 := (dsx * (- d2y) - dsy * (- d2x)) / discr in
    let t2 := (d1x * dsy - d1y * dsx) / discr in
    Bool.eqb (Qle_bool (- tol) t1) (Qle_bool 0 t1) &&
    Bool.eqb (Qle_bool t1 (1 + tol)) (Qle_bool t1 1) &&
    Bool.eqb (Qle_bool (- tol) t2) (Qle_bool 0 t2) &&
    Bool.eqb (Qle_bool t2 (1 + tol)) (Qle_bool t2 1).

Definition peqb (p q : pt2) : bool := Qeq_bool (fst p) (fst q) && Qeq_bool (snd p) (snd q).

(* two points are equal or at least tol apart *)
Definition eq_or_far (tol : Q) (p q : pt2) : bool := peqb p q || negb (close tol p q).

Definition sep_pts (tol : Q) (l : list pt2) : bool :=
  forallb (fun p => forallb (eq_or_far tol p) l) l.

(* "away from the tolerance bands": tol > 0, no segment of length 0, every executed
   segments_2d call answers like its exact counterpart, and any two points handed to
   uniquify_point_set are equal or at least tol apart.  Decidable; evaluated by the tie
   on every generated case. *)
Definition guard (tol : Q) (segs : list seg) : bool :=
  qltb 0 tol &&
  forallb (fun g => negb (peqb (sS g) (sE g))) segs &&
  forallb (fun pr => sep2d tol (sS (snd (fst pr))) (sE (snd (fst pr)))
                           (sS (snd (snd pr))) (sE (snd (snd pr))))
          (cand_pairs tol segs) &&
  sep_pts tol (all_pt tol segs).

(* ------------------------------------------------------------------ comparison with the impl *)
Fixpoint zlist_eqb (a b : list Z) : bool :=
  match a, b with
  | [], [] => true
  | x :: a', y :: b' => (x =? y)%Z && zlist_eqb a' b'
  | _, _ => false
  end.

(* same edge up to orientation, coordinates within 1e-9 (impl first, model second) *)
Definition edge_near (par_too : bool) (e m : edge) : bool :=
  ((near2 (eA e) (eA m) && near2 (eB e) (eB m)) || (near2 (eA e) (eB m) && near2 (eB e) (eA m)))
  && zlist_eqb (eT e) (eT m) && (negb par_too || (eP e =? eP m)%nat).

Definition set_agree (impl model : list edge) : bool :=
  (length impl =? length model)%nat &&
  forallb (fun e => existsb (edge_near true e) model) impl &&
  forallb (fun m => existsb (fun e => edge_near true e m) impl) model.

Fixpoint seq_agree (impl model : list edge) : bool :=
  match impl, model with
  | [], [] => true
  | e :: r, m :: s => edge_near false e m && seq_agree r s
  | _, _ => false
  end.

(* the implementation's answer: (for every child before uniquification, in order, the
   geometry of the unique edge it was mapped to and the child's own tags [parent not
   reported by the code: 0]; the final edges with tags and parent) or the exception *)
Inductive impl_out :=
| IEdges (pre : list edge) (out : list edge)
| IRaised (e : err).

Definition agree (segs : list seg) (io : impl_out) : bool :=
  match io, split tol8 segs with
  | IEdges ipre iout, Edges pre out => seq_agree ipre pre && set_agree iout out
  | IRaised e, Raised e' => err_eqb e e'
  | _, _ => false
  end.

(* the same, and the guard of the theorems holds on this input *)
Definition agree_guarded (segs : list seg) (io : impl_out) : bool :=
  guard tol8 segs && agree segs io.

(* ------------------------------------------------------------------ added in the second round
   (nothing above is changed).  The stronger guard of the full non-crossing /
   no-duplicates theorems: additionally, the two scalar distance tests of the side filter
   answer like their exact counterparts — whenever `dist(start_other, start_main) > tol` is
   False, every other of that main really starts at the main's start point, and likewise
   for the end points. *)
Definition flags_exact_at (tol : Q) (isegs : list (nat * seg)) (ig : nat * seg) : bool :=
  let oth := others tol isegs ig in
  let gs := qltb (tol * tol) (sumsq (map (fun jg => sub2 (sS (snd jg)) (sS (snd ig))) oth)) in
  let ge := qltb (tol * tol) (sumsq (map (fun jg => sub2 (sE (snd jg)) (sS (snd ig))) oth)) in
  (gs || forallb (fun jg => peqb (sS (snd jg)) (sS (snd ig))) oth) &&
  (ge || forallb (fun jg => peqb (sE (snd jg)) (sS (snd ig))) oth).

Definition guard2 (tol : Q) (segs : list seg) : bool :=
  guard tol segs && forallb (flags_exact_at tol (indexed segs)) (indexed segs).

Definition agree_guarded2 (segs : list seg) (io : impl_out) : bool :=
  guard2 tol8 segs && agree segs io.
