(* C36 — the index-pointer arithmetic of ArraySlicer._slice_matrix (general, non-onto
   path) on the flat CSR record of PP.Lib.Csr: argsort of the range indices, the
   per-row counts written behind a leading 0, np.cumsum, expand_index_pointers (as the
   flat_map of ranges proved for it in C35), np.take of data and indices.
   Model/C36.v works on the list of stored rows; Proofs/C36_flat.v proves that the
   rows of this flat result are exactly that row-level result.
   Executable definitions only. *)
From Coq Require Import List ZArith Bool Arith.
Import ListNotations.
From PP Require Import Lib.Csr Model.C36.

(* np.argsort(range_indices): positions ordered by key (insertion sort, stable; with
   distinct keys every sorting algorithm gives this order) *)
Fixpoint ins_by (key : nat -> nat) (k : nat) (l : list nat) : list nat :=
  match l with
  | [] => [k]
  | a :: r => if key k <? key a then k :: a :: r else a :: ins_by key k r
  end.

Definition argsort (keys : list nat) : list nat :=
  fold_left (fun acc k => ins_by (fun i => nth i keys 0) k acc) (seq 0 (length keys)) [].

(* np.cumsum *)
Fixpoint cumsum_from (acc : nat) (l : list nat) : list nat :=
  match l with [] => [] | x :: r => (acc + x) :: cumsum_from (acc + x) r end.

Definition take {E} (d : E) (l : list E) (idx : list nat) : list E := map (fun i => nth i l d) idx.

Definition slice_matrix_flat (s : slicer) (A : csr) : csr :=
  let ip := indptr A in
  let ks := argsort (rng s) in                                   (* _sort_ind_range *)
  let cnt := fun k => nth (S (nth k (dom s) 0)) ip 0 - nth (nth k (dom s) 0) ip 0 in
  (* num_elem_per_row[range[sort] + 1] = num_elem_per_row_domain[sort] *)
  let num := scatter (repeat 0 (S (rsize s))) (map (fun k => S (nth k (rng s) 0)) ks) (map cnt ks) in
  let new_indptr := cumsum_from 0 num in
  (* expand_index_pointers(indptr[sorted_domain], indptr[sorted_domain + 1]) *)
  let sub := flat_map (fun k => seq (nth (nth k (dom s) 0) ip 0) (cnt k)) ks in
  mkcsr (rsize s) (nmin A) new_indptr (take 0 (indices A) sub) (take 0%Z (data A) sub).

(* comparison of the flat result with the implementation's raw arrays *)
Definition agree_flat (s : slicer) (A : csr) (ip ind : list nat) (dat : list Z) : bool :=
  let B := slice_matrix_flat s A in
  eqb_listN (indptr B) ip && eqb_listN (indices B) ind && eqb_listZ (data B) dat.
