(* C27 (extension) — Trace and Divergence of grid_operators.py (they use the same offset
   bookkeeping as the projections), the list-argument test of SubdomainProjections'
   accessors, and specification vocabulary for the extended theorems.
   Per-grid matrices sd.trace(dim) / sd.divergence(dim) are inputs.
   Executable definitions only (plus Prop-valued specification predicates). *)
From Coq Require Import List ZArith QArith Qabs Bool Arith.
Import ListNotations.
From PP Require Import Model.C27 Model.C27_spec.
Local Open Scope nat_scope.

(* results that may also be NotImplementedError / a non-list argument's ValueError *)
Inductive xres := XOk (m : mat) | XErr (e : err) | XNotImpl.

Definition of_res (r : res mat) : xres :=
  match r with Ok m => XOk m | Err e => XErr e end.

(* ------------------------------------------------------------------ Trace.__init__ *)
(* trace.append(sd.trace(dim) * cell_projections[sd].T) *)
Fixpoint trace_blocks (d : pdict) (sds : list grid) (locs : list mat) : res (list mat) :=
  match sds, locs with
  | g :: r, T :: rl =>
      bind (lookup d (gid g)) (fun P =>
        bind (mul T (transpose P)) (fun m =>
          bind (trace_blocks d r rl) (fun ms => Ok (m :: ms))))
  | _, _ => Ok []
  end.

Definition trace_op (sds : list grid) (nd : nat) (locs : list mat) : xres :=
  match cell_projections sds nd with
  | Err e => XErr e
  | Ok d =>
      match sds with
      | [] => of_res (vstack [zeros 0 0])
      | _ =>
          if nd =? 1
          then of_res (bind (trace_blocks d sds locs) vstack)
          else XNotImpl                 (* raise NotImplementedError("kronecker") *)
      end
  end.

(* ------------------------------------------------------------------ Divergence.parse *)
(* matrix_operations.csr_matrix_from_sparse_blocks: np.concatenate of an empty list raises
   ValueError; a single block is returned as it is *)
Fixpoint bdiag_ents (l : list mat) (ro co : nat) : list entry :=
  match l with
  | [] => []
  | A :: r => map (fun e => (ro + erow e, co + ecol e, evl e)) (ents A)
              ++ bdiag_ents r (ro + nr A) (co + nc A)
  end.

Definition block_diag (l : list mat) : res mat :=
  match l with
  | [] => Err ValueErr
  | [A] => Ok A
  | _ => Ok (mkM (sum_by nr l) (sum_by nc l) (bdiag_ents l 0 0))
  end.

(* mat = [sd.divergence(dim) for sd in self.subdomains] *)
Definition divergence_op (locs : list mat) : res mat := block_diag locs.

(* ------------------------------------------------------------------ non-list arguments *)
(* cell_restriction & co.: `if not isinstance(subdomains, list): raise ValueError` *)
Definition accessor_arg (is_list : bool) (r : res mat) : res mat :=
  if is_list then r else Err ValueErr.

(* ------------------------------------------------------------------ tie helpers *)
Definition xres_eqb (a b : xres) : bool :=
  match a, b with
  | XOk x, XOk y => mat_eqb x y
  | XErr x, XErr y => err_eqb x y
  | XNotImpl, XNotImpl => true
  | _, _ => false
  end.

(* a history of accessor calls on ONE SubdomainProjections object *)
Inductive sp_op := SpRestr (e : ent) (is_list : bool) (req : list grid)
                 | SpProl (e : ent) (is_list : bool) (req : list grid).

Definition sp_do (sp : sproj) (o : sp_op) : res mat :=
  match o with
  | SpRestr e il req => accessor_arg il (restriction e sp req)
  | SpProl e il req => accessor_arg il (prolongation e sp req)
  end.

Definition sp_history (all : list grid) (nd : nat) (ops : list sp_op) : list (res mat) :=
  match sp_init all nd with
  | Err e => [Err e]
  | Ok sp => map (sp_do sp) ops
  end.

(* ------------------------------------------------------------------ specification vocabulary *)
(* block-diagonal placement at the offsets of the projections: rows at the [rnum]-offset and
   columns at the [cnum]-offset of the grid in the list *)
Definition placed_diag (rnum cnum : grid -> nat) (sds : list grid) (nd : nat)
           (gl : list (grid * mat)) : list entry :=
  flat_map (fun p => map (fun e => (pre rnum sds (gid (fst p)) * nd + erow e,
                                    pre cnum sds (gid (fst p)) * nd + ecol e, evl e))
                         (ents (snd p))) gl.

(* the per-grid matrices have the shapes Grid.trace / Grid.divergence give them *)
Definition diag_fit (rnum cnum : grid -> nat) (nd : nat) (p : grid * mat) : Prop :=
  nr (snd p) = rnum (fst p) * nd /\ nc (snd p) = cnum (fst p) * nd /\
  Forall (fun e => ecol e < cnum (fst p) * nd) (ents (snd p)).

(* boundary projection for ARBITRARY lists: a listed grid of dimension > 0 without boundary
   grid repeats the block of the previous iteration (None: there is none yet) *)
Fixpoint stale_blocks (sds : list grid) (nd : nat) (l : list bgrid) (prev : option (list nat))
  : option (list (list nat)) :=
  match l with
  | [] => Some []
  | b :: r =>
      let cur := if 0 <? gdim (bg_grid b)
                 then match bg_bnd b with Some _ => Some (bnd_cols sds nd b) | None => prev end
                 else Some [] in
      match cur with
      | None => None
      | Some c => option_map (cons c) (stale_blocks sds nd r (Some c))
      end
  end.

Definition bnd_in_range (b : bgrid) : Prop :=
  forall bnd, bg_bnd b = Some bnd -> Forall (fun f => f < nfaces (bg_grid b)) bnd.

(* the twin flavour of a mortar accessor (int <-> avg, same direction) *)
Definition twin (k : pkind) : pkind :=
  match k with
  | M2P_int => M2P_avg | M2P_avg => M2P_int | P2M_int => P2M_avg | P2M_avg => P2M_int
  | M2S_int => M2S_avg | M2S_avg => M2S_int | S2M_int => S2M_avg | S2M_avg => S2M_int
  end.

Definition side_conf (mp : mproj) (k : pkind) : bool :=
  if k_is_primary k then mp_conf_p mp else mp_conf_s mp.

(* |x - 1| <= 1e-10 + 1e-5 *)
Definition within_tol (x : Q) : Prop :=
  Qle (Qabs (x - 1)) ((1 # 10000000000) + (1 # 100000))%Q.

Definition all_within_tol (ms : list mat) : Prop :=
  Forall (fun m => Forall (fun e => within_tol (evl e)) (ents m)) ms.
