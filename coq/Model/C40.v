(* C40 — material tensors.  Transcribes porepy/params/tensor.py: SecondOrderTensor.__init__
   (defaults, the three "positive definite" tests, index layout), .rotate (the two
   tensordot contractions as written), .copy (re-construction from the lower triangle),
   FourthOrderTensor.__init__ (the two hard-coded 9x9 basis matrices), .copy,
   Tensor.restrict_to_cells (copy, then numpy integer indexing of the cell axis).
   A tensor is stored per cell (the numpy array values[i, j, c] is the list over c of the
   matrices (values[i, j, c])_{ij}); all operations of the code are cell-wise.
   Executable definitions only, over an abstract number type. *)
From Coq Require Import List ZArith Bool.
Import ListNotations.

Inductive err := ValueErr | IndexErr.
Inductive res (A : Type) := Ok (a : A) | Err (e : err).
Arguments Ok {A} a.
Arguments Err {A} e.

Definition err_eqb (a b : err) : bool :=
  match a, b with ValueErr, ValueErr | IndexErr, IndexErr => true | _, _ => false end.

Record numops (T : Type) := {
  zero : T; one : T;
  add : T -> T -> T; mul : T -> T -> T; sub : T -> T -> T;
  isneg : T -> bool;                   (* x < 0 *)
}.
Arguments zero {T} _. Arguments one {T} _. Arguments add {T} _. Arguments mul {T} _.
Arguments sub {T} _. Arguments isneg {T} _.

Inductive idx := I0 | I1 | I2.
Definition all_idx := [I0; I1; I2].

(* 3x3 matrix, rows of triples *)
Definition row (T : Type) := (T * T * T)%type.
Definition m33 (T : Type) := (row T * row T * row T)%type.

Definition rget {T} (r : row T) (j : idx) : T :=
  let '(a, b, c) := r in match j with I0 => a | I1 => b | I2 => c end.
Definition get {T} (m : m33 T) (i j : idx) : T :=
  let '(r0, r1, r2) := m in rget (match i with I0 => r0 | I1 => r1 | I2 => r2 end) j.
Definition build {T} (f : idx -> idx -> T) : m33 T :=
  ((f I0 I0, f I0 I1, f I0 I2), (f I1 I0, f I1 I1, f I1 I2), (f I2 I0, f I2 I1, f I2 I2)).

(* numpy indexing a[cells] with an integer index array: negative indices count from the
   end, anything outside [-n, n) raises IndexError *)
Fixpoint take_cells {A} (l : list A) (cells : list Z) : res (list A) :=
  match cells with
  | [] => Ok []
  | c :: r =>
      let n := Z.of_nat (length l) in
      let c' := if (c <? 0)%Z then (c + n)%Z else c in
      if ((c' <? 0) || (n <=? c'))%Z then Err IndexErr
      else match nth_error l (Z.to_nat c'), take_cells l r with
           | Some x, Ok xs => Ok (x :: xs)
           | _, Err e => Err e
           | None, _ => Err IndexErr
           end
  end.


Section Num.
  Context {T : Type} (ops : numops T).
  Notation "x + y" := (add ops x y).
  Notation "x * y" := (mul ops x y).
  Notation "x - y" := (sub ops x y).

  Definition sum3 (f : idx -> T) : T := f I0 + f I1 + f I2.

  (* ---------------- SecondOrderTensor ---------------- *)
  Definition tensor2 := list (m33 T).

  Definition nthT (l : list T) (c : nat) : T := nth c l (zero ops).

  Definition any_neg (l : list T) : bool := existsb (isneg ops) l.

  (* element-wise array expressions over the cells 0..Nc-1 *)
  Definition cellwise (n : nat) (f : nat -> T) : list T := map f (seq 0 n).

  (* SecondOrderTensor(kxx, kyy, kzz, kxy, kxz, kyz); all given arrays have length Nc *)
  Definition second_order (kxx : list T) (kyy kzz kxy kxz kyz : option (list T))
    : res tensor2 :=
    let n := length kxx in
    if any_neg kxx then Err ValueErr
    else
      let kyy := match kyy with Some a => a | None => kxx end in
      let kxy := match kxy with Some a => a | None => map (mul ops (zero ops)) kxx end in
      if any_neg (cellwise n (fun c => nthT kxx c * nthT kyy c - nthT kxy c * nthT kxy c))
      then Err ValueErr
      else
        let kzz := match kzz with Some a => a | None => kxx end in
        let kxz := match kxz with Some a => a | None => map (mul ops (zero ops)) kxx end in
        let kyz := match kyz with Some a => a | None => map (mul ops (zero ops)) kxx end in
        if any_neg (cellwise n (fun c =>
             nthT kxx c * (nthT kyy c * nthT kzz c - nthT kyz c * nthT kyz c)
             - nthT kxy c * (nthT kxy c * nthT kzz c - nthT kxz c * nthT kyz c)
             + nthT kxz c * (nthT kxy c * nthT kyz c - nthT kxz c * nthT kyy c)))
        then Err ValueErr
        else Ok (map (fun c =>
                        ((nthT kxx c, nthT kxy c, nthT kxz c),
                         (nthT kxy c, nthT kyy c, nthT kyz c),
                         (nthT kxz c, nthT kyz c, nthT kzz c))) (seq 0 n)).

  (* rotate: values = tensordot(R.T, tensordot(R, values, (1, 0)), (0, 1))
       inner  A[i, b, c]   = sum_j R[i, j] * values[j, b, c]
       outer  new[a, i, c] = sum_b R.T[b, a] * A[i, b, c] = sum_b R[a, b] * A[i, b, c] *)
  Definition rot1 (R K : m33 T) : m33 T :=
    build (fun a i => sum3 (fun b => get R a b * sum3 (fun j => get R i j * get K j b))).

  Definition rotate (R : m33 T) (t : tensor2) : tensor2 := map (rot1 R) t.

  (* copy: SecondOrderTensor(kxx=v[0,0], kxy=v[1,0], kyy=v[1,1], kxz=v[2,0], kyz=v[2,1],
     kzz=v[2,2]) — goes through the constructor (tests included, upper triangle ignored) *)
  Definition copy2 (t : tensor2) : res tensor2 :=
    second_order (map (fun m => get m I0 I0) t)
                 (Some (map (fun m => get m I1 I1) t)) (Some (map (fun m => get m I2 I2) t))
                 (Some (map (fun m => get m I1 I0) t)) (Some (map (fun m => get m I2 I0) t))
                 (Some (map (fun m => get m I2 I1) t)).

  Definition restrict2 (t : tensor2) (cells : list Z) : res tensor2 :=
    match copy2 t with
    | Err e => Err e
    | Ok t' => take_cells t' cells
    end.

  Definition trace (m : m33 T) : T := get m I0 I0 + get m I1 I1 + get m I2 I2.
  Definition det (m : m33 T) : T :=
    get m I0 I0 * (get m I1 I1 * get m I2 I2 - get m I1 I2 * get m I2 I1)
    - get m I0 I1 * (get m I1 I0 * get m I2 I2 - get m I1 I2 * get m I2 I0)
    + get m I0 I2 * (get m I1 I0 * get m I2 I1 - get m I1 I1 * get m I2 I0).
  (* second invariant: sum of the principal 2x2 minors *)
  Definition inv2 (m : m33 T) : T :=
    (get m I0 I0 * get m I1 I1 - get m I0 I1 * get m I1 I0)
    + (get m I0 I0 * get m I2 I2 - get m I0 I2 * get m I2 I0)
    + (get m I1 I1 * get m I2 I2 - get m I1 I2 * get m I2 I1).
  Definition transpose (m : m33 T) : m33 T := build (fun i j => get m j i).
  Definition mmul (a b : m33 T) : m33 T :=
    build (fun i j => sum3 (fun k => get a i k * get b k j)).
  Definition ident : m33 T :=
    build (fun i j => match i, j with I0, I0 | I1, I1 | I2, I2 => one ops | _, _ => zero ops end).
  (* lam * I - m *)
  Definition lam_minus (lam : T) (m : m33 T) : m33 T :=
    build (fun i j => (match i, j with I0, I0 | I1, I1 | I2, I2 => lam | _, _ => zero ops end)
                      - get m i j).

  (* ---------------- FourthOrderTensor ---------------- *)
  (* the hard-coded basis matrices, rows as written in the source *)
  Definition mu_mat : list (list nat) :=
    [[2; 0; 0; 0; 0; 0; 0; 0; 0];
     [0; 1; 0; 1; 0; 0; 0; 0; 0];
     [0; 0; 1; 0; 0; 0; 1; 0; 0];
     [0; 1; 0; 1; 0; 0; 0; 0; 0];
     [0; 0; 0; 0; 2; 0; 0; 0; 0];
     [0; 0; 0; 0; 0; 1; 0; 1; 0];
     [0; 0; 1; 0; 0; 0; 1; 0; 0];
     [0; 0; 0; 0; 0; 1; 0; 1; 0];
     [0; 0; 0; 0; 0; 0; 0; 0; 2]]%nat.
  Definition lmbda_mat : list (list nat) :=
    [[1; 0; 0; 0; 1; 0; 0; 0; 1];
     [0; 0; 0; 0; 0; 0; 0; 0; 0];
     [0; 0; 0; 0; 0; 0; 0; 0; 0];
     [0; 0; 0; 0; 0; 0; 0; 0; 0];
     [1; 0; 0; 0; 1; 0; 0; 0; 1];
     [0; 0; 0; 0; 0; 0; 0; 0; 0];
     [0; 0; 0; 0; 0; 0; 0; 0; 0];
     [0; 0; 0; 0; 0; 0; 0; 0; 0];
     [1; 0; 0; 0; 1; 0; 0; 0; 1]]%nat.

  (* integer entry times array value *)
  Fixpoint nmul (n : nat) (x : T) : T :=
    match n with O => zero ops | S O => x | S n' => x + nmul n' x end.

  Definition m99 := list (list T).

  (* c = mu_mat * mu + lmbda_mat * lmbda, for one cell *)
  Definition stiff_cell (mu lmbda : T) : m99 :=
    map (fun rows => map (fun ab => nmul (fst ab) mu + nmul (snd ab) lmbda)
                         (combine (fst rows) (snd rows)))
        (combine mu_mat lmbda_mat).

  Definition entry (m : m99) (p q : nat) : T := nth q (nth p m []) (zero ops).

  Record tensor4 := { t_mu : list T; t_lmbda : list T; t_values : list m99 }.

  Definition fourth_order (mu lmbda : list T) : res tensor4 :=
    if negb (Nat.eqb (length mu) (length lmbda)) then Err ValueErr
    else Ok {| t_mu := mu; t_lmbda := lmbda;
               t_values := map (fun ml => stiff_cell (fst ml) (snd ml)) (combine mu lmbda) |}.

  (* copy: new tensor from copies of mu, lmbda; then values := self.values.copy() *)
  Definition copy4 (t : tensor4) : res tensor4 :=
    match fourth_order (t_mu t) (t_lmbda t) with
    | Err e => Err e
    | Ok c => Ok {| t_mu := t_mu c; t_lmbda := t_lmbda c; t_values := t_values t |}
    end.

  Definition restrict4 (t : tensor4) (cells : list Z) : res tensor4 :=
    match copy4 t with
    | Err e => Err e
    | Ok c =>
        (* fields in the order of constitutive_parameters: mu, lmbda; then values *)
        match take_cells (t_mu c) cells with
        | Err e => Err e
        | Ok m =>
            match take_cells (t_lmbda c) cells with
            | Err e => Err e
            | Ok l =>
                match take_cells (t_values c) cells with
                | Err e => Err e
                | Ok v => Ok {| t_mu := m; t_lmbda := l; t_values := v |}
                end
            end
        end
    end.

  (* ---------------- FourthOrderTensor with other_fields ---------------- *)
  (* other_fields = {key: (9x9 matrix, per-cell array)} in dict order; the constructor adds
     mat[:, :, newaxis] * field to the values, stores the field as attribute `key` and
     appends `key` to the constitutive parameters (so copy / restrict_to_cells treat it as
     they treat mu and lmbda).  Arrays are assumed to have the length of mu. *)
  Definition madd99 (a b : m99) : m99 :=
    map (fun rs => map (fun xy => fst xy + snd xy) (combine (fst rs) (snd rs))) (combine a b).
  Definition mscale99 (m : m99) (x : T) : m99 := map (map (fun c => c * x)) m.

  Record tensor4x := { x_mu : list T; x_lmbda : list T; x_mats : list m99;
                       x_fields : list (list T); x_values : list m99 }.

  Definition cell_x (mu lmbda : T) (mats : list m99) (fvals : list T) : m99 :=
    fold_left (fun acc mf => madd99 acc (mscale99 (fst mf) (snd mf)))
              (combine mats fvals) (stiff_cell mu lmbda).

  Definition fourth_order_x (mu lmbda : list T) (mats : list m99) (fields : list (list T))
    : res tensor4x :=
    if negb (Nat.eqb (length mu) (length lmbda)) then Err ValueErr
    else Ok {| x_mu := mu; x_lmbda := lmbda; x_mats := mats; x_fields := fields;
               x_values := map (fun c => cell_x (nthT mu c) (nthT lmbda c) mats
                                                (map (fun f => nthT f c) fields))
                               (seq 0 (length mu)) |}.

  (* copy: constructor on copies of mu, lmbda and of every extra field; then
     values := self.values.copy() *)
  Definition copy4x (t : tensor4x) : res tensor4x :=
    match fourth_order_x (x_mu t) (x_lmbda t) (x_mats t) (x_fields t) with
    | Err e => Err e
    | Ok c => Ok {| x_mu := x_mu c; x_lmbda := x_lmbda c; x_mats := x_mats c;
                    x_fields := x_fields c; x_values := x_values t |}
    end.

  Fixpoint take_all (fields : list (list T)) (cells : list Z) : res (list (list T)) :=
    match fields with
    | [] => Ok []
    | f :: r => match take_cells f cells with
                | Err e => Err e
                | Ok f' => match take_all r cells with
                           | Err e => Err e
                           | Ok r' => Ok (f' :: r')
                           end
                end
    end.

  Definition restrict4x (t : tensor4x) (cells : list Z) : res tensor4x :=
    match copy4x t with
    | Err e => Err e
    | Ok c =>
        match take_cells (x_mu c) cells with
        | Err e => Err e
        | Ok m =>
            match take_cells (x_lmbda c) cells with
            | Err e => Err e
            | Ok l =>
                match take_all (x_fields c) cells with
                | Err e => Err e
                | Ok fs =>
                    match take_cells (x_values c) cells with
                    | Err e => Err e
                    | Ok v => Ok {| x_mu := m; x_lmbda := l; x_mats := x_mats c;
                                    x_fields := fs; x_values := v |}
                    end
                end
            end
        end
    end.

  (* ---------------- histories (for the tie) ---------------- *)
  Inductive op2 := Rotate (R : m33 T) | Restrict (cells : list Z) | Copy.

  (* state after each operation; an exception leaves the tensor as it was *)
  Fixpoint run2 (t : tensor2) (ops_ : list op2) : list (res tensor2) :=
    match ops_ with
    | [] => []
    | Rotate R :: r => let t' := rotate R t in Ok t' :: run2 t' r
    | Restrict cells :: r =>
        match restrict2 t cells with
        | Ok t' => Ok t' :: run2 t' r
        | Err e => Err e :: run2 t r
        end
    | Copy :: r =>
        match copy2 t with
        | Ok t' => Ok t' :: run2 t' r
        | Err e => Err e :: run2 t r
        end
    end.
End Num.

Arguments Rotate {T} R.
Arguments Restrict {T} cells.
Arguments Copy {T}.

(* ------------------------------------------------------------------------------------ *)
(* Q instance and comparison                                                              *)
(* ------------------------------------------------------------------------------------ *)
From Coq Require Import QArith Qabs.

Definition QOps : numops Q := {|
  zero := 0; one := 1;
  add := fun a b => Qred (a + b); mul := fun a b => Qred (a * b);
  sub := fun a b => Qred (a - b);
  isneg := fun a => (Qnum a <? 0)%Z |}.

(* |impl - model| <= 1e-9 * (1 + |model|) *)
Definition close (impl model : Q) : bool :=
  Qle_bool (Qabs (impl - model)) ((1 # 1000000000) * (1 + Qabs model)).

Definition close_row (a b : row Q) : bool :=
  let '(a0, a1, a2) := a in let '(b0, b1, b2) := b in close a0 b0 && close a1 b1 && close a2 b2.
Definition close_m33 (a b : m33 Q) : bool :=
  let '(a0, a1, a2) := a in let '(b0, b1, b2) := b in
  close_row a0 b0 && close_row a1 b1 && close_row a2 b2.

Fixpoint all2 {A B} (f : A -> B -> bool) (l : list A) (m : list B) : bool :=
  match l, m with
  | [], [] => true
  | a :: l', b :: m' => f a b && all2 f l' m'
  | _, _ => false
  end.

Inductive iout (A : Type) := IVal (a : A) | IErr (e : err).
Arguments IVal {A} a.
Arguments IErr {A} e.

Definition agree_t2 (m : res (list (m33 Q))) (i : iout (list (m33 Q))) : bool :=
  match m, i with
  | Ok t, IVal t' => all2 close_m33 t' t
  | Err e, IErr e' => err_eqb e e'
  | _, _ => false
  end.

(* construction followed by a history of rotate / restrict / copy *)
Definition agree_second kxx kyy kzz kxy kxz kyz (ops_ : list (@op2 Q))
           (impl0 : iout (list (m33 Q))) (impl : list (iout (list (m33 Q)))) : bool :=
  match second_order QOps kxx kyy kzz kxy kxz kyz with
  | Err e => agree_t2 (Err e) impl0 && match impl with [] => true | _ => false end
  | Ok t => agree_t2 (Ok t) impl0 && all2 agree_t2 (run2 QOps t ops_) impl
  end.

Definition close_m99 (a b : list (list Q)) : bool := all2 (all2 close) a b.

Definition agree_t4 (m : res (@tensor4 Q)) (i : iout (list Q * list Q * list (list (list Q))))
  : bool :=
  match m, i with
  | Ok t, IVal (mu, la, v) =>
      all2 close mu (t_mu t) && all2 close la (t_lmbda t) && all2 close_m99 v (t_values t)
  | Err e, IErr e' => err_eqb e e'
  | _, _ => false
  end.

(* construction, then restrict_to_cells, then copy of the restricted tensor *)
Definition agree_fourth (mu lmbda : list Q) (cells : list Z) impl0 impl_restrict impl_copy
  : bool :=
  match fourth_order QOps mu lmbda with
  | Err e => agree_t4 (Err e) impl0
  | Ok t =>
      agree_t4 (Ok t) impl0 &&
      agree_t4 (restrict4 QOps t cells) impl_restrict &&
      match restrict4 QOps t cells with
      | Ok t' => agree_t4 (copy4 QOps t') impl_copy
      | Err _ => true
      end
  end.

(* the same with other_fields: impl gives (mu, lmbda, extra fields, values) *)
Definition agree_t4x (m : res (@tensor4x Q))
           (i : iout (list Q * list Q * list (list Q) * list (list (list Q)))) : bool :=
  match m, i with
  | Ok t, IVal (mu, la, fs, v) =>
      all2 close mu (x_mu t) && all2 close la (x_lmbda t) &&
      all2 (all2 close) fs (x_fields t) && all2 close_m99 v (x_values t)
  | Err e, IErr e' => err_eqb e e'
  | _, _ => false
  end.

Definition agree_fourth_x (mu lmbda : list Q) (mats : list (list (list Q)))
           (fields : list (list Q)) (cells : list Z) impl0 impl_restrict impl_copy : bool :=
  match fourth_order_x QOps mu lmbda mats fields with
  | Err e => agree_t4x (Err e) impl0
  | Ok t =>
      agree_t4x (Ok t) impl0 &&
      agree_t4x (restrict4x QOps t cells) impl_restrict &&
      match restrict4x QOps t cells with
      | Ok t' => agree_t4x (copy4x QOps t') impl_copy
      | Err _ => true
      end
  end.

(* ------------------------------------------------------------------------------------ *)
(* the argument checks of FourthOrderTensor.__init__                                      *)
(* ------------------------------------------------------------------------------------ *)
(* an argument is either not a numpy array (list, float, None ...) or an array with its
   number of dimensions and its entries in C order (size = number of entries) *)
Inductive arg (T : Type) := NotArray | Arr (ndim : nat) (data : list T).
Arguments NotArray {T}.
Arguments Arr {T} ndim data.

(* isinstance(mu, ndarray); isinstance(lmbda, ndarray); mu.ndim == 1; lmbda.ndim == 1;
   mu.size == lmbda.size — each failing test raises ValueError, in this order *)
Definition fourth_order_checked {T} (ops : numops T) (mu lmbda : arg T) : res (@tensor4 T) :=
  match mu with
  | NotArray => Err ValueErr
  | Arr nm dm =>
      match lmbda with
      | NotArray => Err ValueErr
      | Arr nl dl =>
          if negb (Nat.eqb nm 1) then Err ValueErr
          else if negb (Nat.eqb nl 1) then Err ValueErr
          else fourth_order ops dm dl
      end
  end.

Definition agree_fourth_checked (mu lmbda : arg Q) impl0 : bool :=
  agree_t4 (fourth_order_checked QOps mu lmbda) impl0.
