(* C23 — refinement and extrusion.
   Transcribes porepy/grids/refinement.py: refine_grid_1d (node bookkeeping included),
   remesh_1d (node placement), refine_triangle_grid (after the two repairs),
   structured_refinement (1-D branch) and porepy/grids/grid_extrusion.py: the sign guard of
   extrude_grid, the node layers and _create_mappings.
   Coordinates are exact rationals.  Executable definitions only. *)
From Coq Require Import List ZArith QArith Qabs Bool Arith.
Import ListNotations.
Close Scope Q_scope.

Inductive err := ValueErr | AssertErr.
Inductive res (A : Type) := Ok (a : A) | Err (e : err).
Arguments Ok {A}. Arguments Err {A}.

(* ------------------------------------------------------------------------------------ *)
(* points: the three coordinate rows of g.nodes *)
Definition v3 := (Q * Q * Q)%type.
Definition vzero : v3 := (0, 0, 0)%Q.
Definition vmap2 (f : Q -> Q -> Q) (a b : v3) : v3 :=
  let '(a1, a2, a3) := a in let '(b1, b2, b3) := b in (f a1 b1, f a2 b2, f a3 b3).

(* a * (1 - t) + b * t *)
Definition lerp (t a b : Q) : Q := (a * (1 - t) + b * t)%Q.
Definition vlerp (t : Q) : v3 -> v3 -> v3 := vmap2 (lerp t).
Definition vsub : v3 -> v3 -> v3 := vmap2 Qminus.
Definition vmid : v3 -> v3 -> v3 := vmap2 (fun x y => ((x + y) / 2)%Q).

Definition veq (a b : v3) : Prop :=
  let '(a1, a2, a3) := a in let '(b1, b2, b3) := b in (a1 == b1 /\ a2 == b2 /\ a3 == b3)%Q.
Definition veqb (a b : v3) : bool :=
  let '(a1, a2, a3) := a in let '(b1, b2, b3) := b in
  Qeq_bool a1 b1 && Qeq_bool a2 b2 && Qeq_bool a3 b3.

(* |a - b| <= 1e-9 (1 + |b|): comparison of a float result with the exact model *)
Definition close (a b : Q) : bool :=
  Qle_bool (Qabs (a - b)%Q) ((1 # 1000000000) * (1 + Qabs b))%Q.
Definition vclose (a b : v3) : bool :=
  let '(a1, a2, a3) := a in let '(b1, b2, b3) := b in close a1 b1 && close a2 b2 && close a3 b3.

Fixpoint forallb2 {A B} (f : A -> B -> bool) (l : list A) (m : list B) : bool :=
  match l, m with
  | [], [] => true
  | a :: l', b :: m' => f a b && forallb2 f l' m'
  | _, _ => false
  end.

Definition mem (r : nat) (l : list nat) : bool := existsb (Nat.eqb r) l.

(* ------------------------------------------------------------------------------------ *)
(* A. refine_grid_1d(g, ratio) *)

(* theta = np.arange(1, ratio) / float(ratio) *)
Definition theta (r i : nat) : Q := (Z.of_nat i # Pos.of_nat r)%Q.

(* what the property is about: the children of one cell (a, b) *)
Definition children (r : nat) (a b : v3) : list (v3 * v3) :=
  map (fun i => (vlerp (theta r i) a b, vlerp (theta r (S i)) a b)) (seq 0 r).

Fixpoint lookup (m : list (nat * nat)) (k : nat) : option nat :=
  match m with
  | [] => None
  | (k', v) :: t => if k' =? k then Some v else lookup t k
  end.

Record st1 := { st_x : list v3;                (* x[:, :node_counter] *)
                st_map : list (nat * nat);     (* old_2_new_nodes *)
                st_ind : list nat }.           (* np.hstack(new_indices) *)

(* a node of the old grid: added at its first occurrence in the cell-node relation
   (node_to_be_added) and looked up in old_2_new_nodes afterwards; the first occurrence of
   an index is exactly the moment it is not yet a key of the dictionary *)
Definition place (x : list v3) (m : list (nat * nat)) (n : nat) (p : v3)
  : list v3 * list (nat * nat) * nat :=
  match lookup m n with
  | None => (x ++ [p], (n, length x) :: m, length x)
  | Some j => (x, m, j)
  end.

Definition refine_cell (nodes : list v3) (r : nat) (s : st1) (c : nat * nat) : st1 :=
  let (st, en) := c in
  let a := nth st nodes vzero in
  let b := nth en nodes vzero in
  let '(x1, m1, si) := place (st_x s) (st_map s) st a in
  let c0 := length x1 in
  let x2 := x1 ++ map (fun i => vlerp (theta r i) a b) (seq 1 (r - 1)) in
  (* node_counter + np.repeat(np.arange(ratio - 1), 2) *)
  let mid := flat_map (fun i => [c0 + i; c0 + i]) (seq 0 (r - 1)) in
  let '(x3, m3, ei) := place x2 m1 en b in
  {| st_x := x3; st_map := m3; st_ind := st_ind s ++ [si] ++ mid ++ [ei] |}.

(* signs: -1 everywhere, +1 at the first occurrence of each face index *)
Fixpoint signs_from (seen : list nat) (l : list nat) : list Z :=
  match l with
  | [] => []
  | i :: t => if mem i seen then (-1)%Z :: signs_from seen t
              else 1%Z :: signs_from (i :: seen) t
  end.

(* -> (nodes of the new grid, cell_faces.indices, cell_faces.data); two entries per cell *)
Definition refine_grid_1d (nodes : list v3) (cells : list (nat * nat)) (r : nat)
  : list v3 * list nat * list Z :=
  let s := fold_left (refine_cell nodes r) cells
                     {| st_x := []; st_map := []; st_ind := [] |} in
  (st_x s, st_ind s, signs_from [] (st_ind s)).

(* decode: the two end points of every cell of the new grid *)
Fixpoint pairs_of (l : list nat) : list (nat * nat) :=
  match l with
  | a :: b :: t => (a, b) :: pairs_of t
  | _ => []
  end.
Definition cell_ends (x : list v3) (ind : list nat) : list (v3 * v3) :=
  map (fun p => (nth (fst p) x vzero, nth (snd p) x vzero)) (pairs_of ind).

(* the cells of the new grid in terms of the old cells: cell k*r + i is child i of cell k *)
Definition refine_spec (nodes : list v3) (cells : list (nat * nat)) (r : nat) : list (v3 * v3) :=
  flat_map (fun c => children r (nth (fst c) nodes vzero) (nth (snd c) nodes vzero)) cells.

(* parent of a new cell (children are emitted cell by cell) *)
Definition parent_1d (r j : nat) : nat := j / r.

(* ------------------------------------------------------------------------------------ *)
(* B. remesh_1d: nodes = start * theta + end * (1 - theta), theta = linspace(0, 1, m) *)
Definition remesh_nodes (start en : v3) (m : nat) : list v3 :=
  map (fun i => vlerp (Z.of_nat i # Pos.of_nat (m - 1))%Q en start) (seq 0 m).

(* cells of a TensorGrid on these nodes: (node i, node i+1) *)
Fixpoint consecutive {A} (l : list A) : list (A * A) :=
  match l with
  | a :: ((b :: _) as t) => (a, b) :: consecutive t
  | _ => []
  end.

(* ------------------------------------------------------------------------------------ *)
(* C. refine_triangle_grid *)
Fixpoint insn (x : nat) (l : list nat) : list nat :=
  match l with
  | [] => [x]
  | y :: t => if x <=? y then x :: l else y :: insn x t
  end.
Definition sortn (l : list nat) : list nat := fold_right insn [] l.

(* loc_n.sort(axis=0); argmax(diff == 0); loc_n[row]: the first value equal to its
   successor, the smallest value when there is none (argmax of all-False is 0) *)
Fixpoint first_dup (l : list nat) : option nat :=
  match l with
  | a :: ((b :: _) as t) => if a =? b then Some a else first_dup t
  | _ => None
  end.
Definition common_node (p q : nat * nat) : nat :=
  let s := sortn [fst p; snd p; fst q; snd q] in
  match first_dup s with Some n => n | None => hd 0 s end.

Definition tri := (nat * nat * nat)%type.

(* the four children of a cell with faces (f0, f1, f2); binom = ((1,0),(2,1),(0,2)) *)
Definition refine_tri_cell (fn : list (nat * nat)) (off : nat) (c : tri) : list tri :=
  let '(f0, f1, f2) := c in
  let fnn f := nth f fn (0, 0) in
  [ (common_node (fnn f1) (fnn f0), off + f1, off + f0);
    (common_node (fnn f2) (fnn f1), off + f2, off + f1);
    (common_node (fnn f0) (fnn f2), off + f0, off + f2);
    (off + f0, off + f1, off + f2) ].

(* -> (new nodes = nodes ++ face centres, triangles, parent) *)
Definition refine_triangle_grid (nodes : list v3) (fn : list (nat * nat)) (cf : list tri)
  : list v3 * list tri * list nat :=
  let centres := map (fun f => vmid (nth (fst f) nodes vzero) (nth (snd f) nodes vzero)) fn in
  (nodes ++ centres,
   flat_map (refine_tri_cell fn (length nodes)) cf,
   flat_map (fun k => repeat k 4) (seq 0 (length cf))).

(* twice the signed area in the xy-plane *)
Definition area2 (p q r : v3) : Q :=
  let '(px, py, _) := p in let '(qx, qy, _) := q in let '(rx, ry, _) := r in
  ((qx - px) * (ry - py) - (rx - px) * (qy - py))%Q.

Definition tri_pts (x : list v3) (t : tri) : v3 * v3 * v3 :=
  let '(a, b, c) := t in (nth a x vzero, nth b x vzero, nth c x vzero).

(* ------------------------------------------------------------------------------------ *)
(* D. structured_refinement, 1-D branch: for every coarse cell (lo, hi) (sorted node
   coordinates) the still untested fine cells whose centre satisfies
   searchsorted(line, x, 'left') == 1, i.e. lo < x <= hi, are assigned and removed. *)
Definition inside1 (c : Q * Q) (x : Q) : bool :=
  negb (Qle_bool x (fst c)) && Qle_bool x (snd c).

Fixpoint sr_loop (coarse : list (Q * Q)) (test : list (nat * Q)) : list (list nat) * list (nat * Q) :=
  match coarse with
  | [] => ([], test)
  | c :: t =>
      let hit := filter (fun p => inside1 c (snd p)) test in
      let rest := filter (fun p => negb (inside1 c (snd p))) test in
      let (cols, left) := sr_loop t rest in
      (map fst hit :: cols, left)
  end.

(* columns of the csc mapping (fine cells of every coarse cell), AssertionError when some
   fine cell was not placed *)
Definition structured_refinement_1d (coarse : list (Q * Q)) (centres : list Q)
  : res (list (list nat)) :=
  if length centres <=? length coarse then Err AssertErr   (* g.num_cells < g_ref.num_cells *)
  else
    let (cols, left) := sr_loop coarse (combine (seq 0 (length centres)) centres) in
    match left with [] => Ok cols | _ => Err AssertErr end.

(* ------------------------------------------------------------------------------------ *)
(* E. extrude_grid *)
Definition sign_ok (z : list Q) : bool :=
  forallb (fun x => Qle_bool 0%Q x) z || forallb (fun x => Qle_bool x 0%Q) z.

(* node layers: layer k repeats the xy-coordinates with z = z[k] *)
Definition extrude_nodes (nodes : list v3) (z : list Q) : list v3 :=
  flat_map (fun zk => map (fun p => let '(x, y, _) := p in (x, y, zk)) nodes) z.

(* _create_mappings: cell_map[c] = arange(c, nc * layers, nc) *)
Definition cell_map (nc layers : nat) : list (list nat) :=
  map (fun c => map (fun k => c + k * nc) (seq 0 layers)) (seq 0 nc).

(* measures of the children of a cell of measure v: v * |z[k+1] - z[k]| *)
Definition layer_heights (z : list Q) : list Q :=
  map (fun p => Qabs (snd p - fst p)%Q) (consecutive z).

Definition extrude_grid (nodes : list v3) (nc : nat) (z : list Q)
  : res (list v3 * list (list nat)) :=
  if sign_ok z then Ok (extrude_nodes nodes z, cell_map nc (length z - 1))
  else Err ValueErr.

Definition sumQ (l : list Q) : Q := fold_right Qplus 0%Q l.

(* ------------------------------------------------------------------------------------ *)
(* comparison functions for the execution correspondence *)
Fixpoint eqb_list {A} (eqb : A -> A -> bool) (a b : list A) : bool :=
  match a, b with
  | [], [] => true
  | x :: r, y :: s => eqb x y && eqb_list eqb r s
  | _, _ => false
  end.
Definition eqb_nats := eqb_list Nat.eqb.

(* refine_grid_1d: the impl's node array (within the float tolerance), index and sign
   arrays (exactly) equal the model's; and, exactly in Q, the decoded cells of the
   model's output are the children of the old cells, in order *)
Definition agree_refine1d (nodes : list v3) (cells : list (nat * nat)) (r : nat)
           (x : list v3) (ind : list nat) (sg : list Z) : bool :=
  let '(mx, mind, msg) := refine_grid_1d nodes cells r in
  forallb2 vclose x mx && eqb_nats ind mind && eqb_list Z.eqb sg msg &&
  forallb2 (fun p q => veqb (fst p) (fst q) && veqb (snd p) (snd q))
           (cell_ends mx mind) (refine_spec nodes cells r).

Definition agree_remesh (start en : v3) (m : nat) (x : list v3) : bool :=
  forallb2 vclose x (remesh_nodes start en m).

Definition sort_tri (t : tri) : list nat := let '(a, b, c) := t in sortn [a; b; c].

Definition agree_refine_tri (nodes : list v3) (fn : list (nat * nat)) (cf : list tri)
           (x : list v3) (tris : list tri) (parent : list nat) : bool :=
  let '(mx, mt, mp) := refine_triangle_grid nodes fn cf in
  forallb2 vclose x mx &&
  eqb_list eqb_nats (map sort_tri tris) (map sort_tri mt) && eqb_nats parent mp.

Definition eqb_err (a b : err) : bool :=
  match a, b with ValueErr, ValueErr => true | AssertErr, AssertErr => true | _, _ => false end.

Definition agree_sr1d (coarse : list (Q * Q)) (centres : list Q) (out : res (list (list nat))) : bool :=
  match structured_refinement_1d coarse centres, out with
  | Ok a, Ok b => eqb_list eqb_nats a b
  | Err e, Err f => eqb_err e f
  | _, _ => false
  end.

(* extrude_grid: nodes and cell map equal the model's; [vols] are the measures of the old
   cells and [newvols] those of the new cells as computed by compute_geometry: every child
   k of cell c has measure vols[c] * |z[k+1] - z[k]| *)
Definition agree_extrude (nodes : list v3) (nc : nat) (z : list Q)
           (out : res (list v3 * list (list nat))) (vols newvols : list Q) : bool :=
  match extrude_grid nodes nc z, out with
  | Ok (mx, mm), Ok (x, m) =>
      forallb2 vclose x mx && eqb_list eqb_nats m mm &&
      forallb2 (fun row v =>
                  forallb2 (fun j h => close (nth j newvols 0%Q) (v * h)%Q) row (layer_heights z))
               mm vols
  | Err e, Err f => eqb_err e f
  | _, _ => false
  end.
