(* C42 — phase saturations, chain rule for normalised fractions, row normalisation
   (porepy/compositional/utils.py).  The definitions are written ONCE over an abstract
   number type (section variables: field operations and the two comparisons the code uses);
   they are executed over Q in the tie and instantiated over R in the theorems
   (Proofs/C42.v).  np.linalg.solve is a section variable [solve]; the tie instantiates it
   with exact Gauss-Jordan elimination.  Executable definitions only. *)
From Coq Require Import List ZArith QArith Bool.
Import ListNotations.

Inductive err := ValueErr | AssertErr.

Fixpoint map2 {A B C} (g : A -> B -> C) (l : list A) (m : list B) : list C :=
  match l, m with a :: l', b :: m' => g a b :: map2 g l' m' | _, _ => [] end.

Section Generic.
  Variable T : Type.
  Variables (zero one : T) (add sub mul div : T -> T -> T).
  Variables (ltb leb : T -> T -> bool).          (* a < b, a <= b *)
  Variable solve : list (list T) -> list T -> list T.     (* np.linalg.solve *)

  Fixpoint tsum (l : list T) : T := match l with [] => zero | a :: r => add a (tsum r) end.
  Definition dot (a b : list T) : T := tsum (map2 mul a b).
  Definition mat_vec (m : list (list T)) (v : list T) : list T := map (fun row => dot row v) m.

  (* ---- the closed form s_j = (y_j/rho_j) / sum_k (y_k/rho_k) *)
  Definition closed (y rho : list T) : list T :=
    let q := map2 div y rho in map (fun a => div a (tsum q)) q.

  (* y_j reproduced from saturations: rho_j s_j / sum_k rho_k s_k *)
  Definition fractions_of (s rho : list T) : list T :=
    let m := map2 mul rho s in map (fun a => div a (tsum m)) m.

  (* ---- the n-phase system assembled by _compute_saturations:
       rhs = rho_ * (y_ - 1);  mat[j] = rho_[j] * (y_[j] - 1) - rho_ * y_[j];  diagonal := 0 *)
  Definition build_rhs (y rho : list T) : list T := map2 (fun r a => mul r (sub a one)) rho y.

  Definition mat_row (yj rhoj : T) (j : nat) (y rho : list T) : list T :=
    map2 (fun k rk => if Nat.eqb k j then zero else sub (mul rhoj (sub yj one)) (mul rk yj))
         (seq 0 (length rho)) rho.

  Definition build_mat (y rho : list T) : list (list T) :=
    map2 (fun j yr => mat_row (fst yr) (snd yr) j y rho) (seq 0 (length y)) (combine y rho).

  (* s[mask] = vals *)
  Fixpoint scatter (mask : list bool) (vals : list T) : list T :=
    match mask with
    | [] => []
    | false :: m => zero :: scatter m vals
    | true :: m => match vals with v :: r => v :: scatter m r | [] => zero :: scatter m [] end
    end.

  Fixpoint select {A} (mask : list bool) (l : list A) : list A :=
    match mask, l with
    | true :: m, a :: r => a :: select m r
    | false :: m, _ :: r => select m r
    | _, _ => []
    end.

  Definition count (mask : list bool) : nat := length (filter (fun b => b) mask).

  (* _compute_saturations(y, rho, eps) *)
  Definition compute_saturations_inner (y rho : list T) (eps : T) : sum err (list T) :=
    match y with
    | [_] => inr [one]
    | _ =>
      let saturated := map (fun a => leb (sub one eps) a) y in          (* y >= 1 - eps *)
      if existsb (fun b => b) saturated && negb (Nat.eqb (count saturated) 1) then inl AssertErr
      else match y, rho with
      | [_; y1], [rho0; rho1] =>
          if existsb (fun b => b) saturated then inr (map (fun b : bool => if b then one else zero) saturated)
          else let s0 := div one (add one (mul (div y1 (sub one y1)) (div rho0 rho1))) in
               inr [s0; sub one s0]
      | _, _ =>
          if existsb (fun b => b) saturated then inr (map (fun b : bool => if b then one else zero) saturated)
          else let nv := map (fun a => ltb eps a) y in                  (* y > eps *)
               let y_ := select nv y in
               let rho_ := select nv rho in
               inr (scatter nv (solve (build_mat y_ rho_) (build_rhs y_ rho_)))
      end
    end.

  (* compute_saturations(y, rho, eps) for one column *)
  Definition compute_saturations (y rho : list T) (eps : T) : sum err (list T) :=
    if negb (Nat.eqb (length y) (length rho)) then inl ValueErr
    else if Nat.ltb 1 (count (map (fun a => ltb (sub one eps) a) y)) then inl ValueErr
    else match compute_saturations_inner y rho eps with
         | inl e => inl e
         | inr s => if Nat.ltb 1 (count (map (fun a => ltb (sub one eps) a) s)) then inl AssertErr
                    else inr s
         end.

  (* ---- chain rule: dxn = eye(n)/x_sum - outer(x, ones(n))/x_sum**2 ;
          df_dx[-n:] = df_dx[-n:].dot(dxn) *)
  Definition dxn (x : list T) : list (list T) :=
    let s := tsum x in
    map2 (fun i xi => map (fun j => sub (div (if Nat.eqb i j then one else zero) s)
                                        (div (mul xi one) (mul s s)))
                          (seq 0 (length x)))
         (seq 0 (length x)) x.

  (* row vector times matrix *)
  Definition vec_mat (g : list T) (m : list (list T)) (n : nat) : list T :=
    map (fun j => tsum (map2 (fun gi row => mul gi (nth j row zero)) g m)) (seq 0 n).

  Definition chainrule (df_dxn x : list T) : sum err (list T) :=
    let n := length x in
    if Nat.ltb (length df_dxn) n then inl ValueErr
    else let k := (length df_dxn - n)%nat in
         inr (firstn k df_dxn ++ vec_mat (skipn k df_dxn) (dxn x) n).

  (* the normalisation whose Jacobian dxn is *)
  Definition normalize (x : list T) : list T := map (fun a => div a (tsum x)) x.

  (* normalize_rows: (x.T / x.sum(axis=1)).T *)
  Definition normalize_rows (m : list (list T)) : list (list T) := map normalize m.
End Generic.

(* ---------------------------------------------------------------- Q instance (tie) *)
Open Scope Q_scope.
Definition Qltb (a b : Q) : bool := negb (Qle_bool b a).
Definition qnz (a : Q) : bool := negb (Qeq_bool a 0).

(* exact Gauss-Jordan elimination with first-non-zero pivoting on the augmented rows;
   stands in for np.linalg.solve (singular systems: zeros; numpy would raise) *)
Definition row_sub (r p : list Q) (c : Q) : list Q := map2 (fun a b => Qred (a - c * b)) r p.

Fixpoint find_pivot (col : nat) (rows : list (list Q)) : option (list Q * list (list Q)) :=
  match rows with
  | [] => None
  | r :: rest =>
      if qnz (nth col r 0) then Some (r, rest)
      else match find_pivot col rest with
           | Some (p, others) => Some (p, r :: others)
           | None => None
           end
  end.

(* [done]: rows already used as pivots (kept reduced), [todo]: remaining rows *)
Fixpoint gauss (fuel col : nat) (done todo : list (list Q)) : option (list (list Q)) :=
  match fuel with
  | O => Some done
  | S fuel' =>
      match find_pivot col todo with
      | None => None
      | Some (p, others) =>
          let pv := nth col p 0 in
          let p' := map (fun a => Qred (a / pv)) p in
          let elim := fun r => row_sub r p' (nth col r 0) in
          gauss fuel' (S col) (map elim done ++ [p']) (map elim others)
      end
  end.

Definition solveQ (m : list (list Q)) (b : list Q) : list Q :=
  let n := length b in
  match gauss n 0 [] (map2 (fun row bi => row ++ [bi]) m b) with
  | Some rows => map (fun r => nth n r 0) rows
  | None => map (fun _ => 0) b
  end.

Definition sat_Q := compute_saturations Q 0 1 Qplus Qminus Qmult Qdiv Qltb Qle_bool solveQ.
Definition closed_Q := closed Q 0 Qplus Qdiv.
Definition chainrule_Q := chainrule Q 0 1 Qplus Qminus Qmult Qdiv.
Definition normalize_rows_Q := normalize_rows Q 0 Qplus Qdiv.

Definition Qabs' (a : Q) : Q := if Qle_bool 0 a then a else - a.
Definition close (a b : Q) : bool := Qle_bool (Qabs' (a - b)) ((1 # 1000000000) * (1 + Qabs' b)).
Definition close_list (l m : list Q) : bool :=
  (length l =? length m)%nat && forallb (fun p => close (fst p) (snd p)) (combine l m).

Inductive out := OVals (l : list Q) | OErr (e : err).
Definition err_eqb (a b : err) : bool :=
  match a, b with ValueErr, ValueErr | AssertErr, AssertErr => true | _, _ => false end.
Definition agree_out (impl : out) (model : sum err (list Q)) : bool :=
  match impl, model with
  | OVals l, inr m => close_list l m
  | OErr e, inl e' => err_eqb e e'
  | _, _ => false
  end.

(* tie cases *)
Definition agree_sat (y rho : list Q) (eps : Q) (impl : out) : bool := agree_out impl (sat_Q y rho eps).
Definition agree_chain (df x : list Q) (impl : out) : bool := agree_out impl (chainrule_Q df x).
Definition agree_norm (m impl : list (list Q)) : bool :=
  (length m =? length impl)%nat &&
  forallb (fun p => close_list (fst p) (snd p)) (combine impl (normalize_rows_Q m)).
(* the impl output equals the closed form on the present phases (model-independent check
   that the solve stand-in and the closed form coincide on this case) *)
Definition agree_closed (y rho : list Q) (impl : list Q) : bool := close_list impl (closed_Q y rho).
