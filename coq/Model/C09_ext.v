(* C09 — extensions of the time-stepping model (additive; Model/C09.v is unchanged):

   (a) the part of TimeManager.__init__ that Model/C09.v leaves out: for constant_dt=True
       the compatibility test of dt_init with the schedule,
           sim_times = np.arange(schedule[0], schedule[-1] + dt_init, dt_init)
           is_schedule_in_simulated_times(schedule, sim_times, rtol, atol)
       ([construct_full], [simulate_full]).  It needs three more numeric operations
       (division, ceiling to an integer, integer -> number): record [numext];
   (b) a third, EXACT and executable instance of the operations: rationals (QOps).  It is
       linked to the real instance by a proved homomorphism (Proofs/C09_transfer.v) and to
       the binary64 instance by execution on inputs where no operation rounds (dyadic data):
       there the implementation's numbers, read as exact rationals, must be reproduced by
       the rational instance.
   Executable definitions only. *)
From Coq Require Import List ZArith Bool QArith Qabs Qround PrimFloat Uint63 FloatOps SpecFloat.
Import ListNotations.
From PP Require Import Model.C09.

Record numext (T : Type) := {
  x_div : T -> T -> T;
  x_ceil : T -> Z;          (* C: (npy_intp) ceil(x) *)
  x_ofZ : Z -> T }.         (* C: (double) i *)

Inductive err_full :=
| Base (e : err)
| E_const_mismatch.         (* "Mismatch between the time step and scheduled time." *)

Definition err_full_eqb (a b : err_full) : bool :=
  match a, b with
  | Base x, Base y => err_eqb x y
  | E_const_mismatch, E_const_mismatch => true
  | _, _ => false
  end.

Section Ext.
  Variable T : Type.
  Variable O : numops T.
  Variable X : numext T.

  Let add := n_add T O.  Let sub := n_sub T O.  Let mul := n_mul T O.
  Let ltb := n_ltb T O.

  (* np.arange(start, stop, step) on float64 (multiarray/ctors.c: PyArray_ArangeObj +
     DOUBLE_fill):  length = ceil((stop - start) / step);  a[0] = start;  a[1] = start + step;
     delta = a[1] - a[0];  a[i] = start + i*delta  (i >= 2).  A non-positive length gives
     the empty array. *)
  Definition arange_len (start stop step : T) : Z :=
    x_ceil T X (x_div T X (sub stop start) step).

  Definition arange_item (start step : T) (i : nat) : T :=
    match i with
    | 0%nat => start
    | 1%nat => add start step
    | _ => add start (mul (x_ofZ T X (Z.of_nat i)) (sub (add start step) start))
    end.

  Definition arange (start stop step : T) : list T :=
    map (arange_item start step) (seq 0 (Z.to_nat (arange_len start stop step))).

  (* np.searchsorted(a, t, side="left") on a sorted array = number of entries < t *)
  Definition searchsorted_left (a : list T) (t : T) : nat :=
    length (filter (fun x => ltb x t) a).

  (* is_schedule_in_simulated_times:
       ss   = searchsorted(schedule[1:-1], sim_times, "left")
       in1d = isclose(schedule[ss], sim_times) | isclose(schedule[ss+1], sim_times)
       schedule.size == sum(in1d)
     (np.isclose(a, b): the tolerance is relative to b = the simulated time) *)
  Definition matches (c : cfg T) (sched : list T) (t : T) : bool :=
    let ss := searchsorted_left (removelast (tl sched)) t in
    isclose T O c (nth ss sched (n_zero T O)) t || isclose T O c (nth (S ss) sched (n_zero T O)) t.

  Definition sim_times (c : cfg T) (sched : list T) : list T :=
    arange (hd (n_zero T O) sched) (add (last sched (n_zero T O)) (dt_init c)) (dt_init c).

  Definition compatible (c : cfg T) (sched : list T) : bool :=
    (length sched =? length (filter (matches c sched) (sim_times c sched)))%nat.

  (* the complete constructor *)
  Definition construct_full (a : args T) (sched : list T) : cfg T + err_full :=
    match construct T O a sched with
    | inr e => inr (Base e)
    | inl c => if constant c then
                 (if compatible c sched then inl c else inr E_const_mismatch)
               else inl c
    end.

  Definition simulate_full (a : args T) (sched : list T) (evs : list event)
    : (cfg T * (list (event * state T * out T) * stop)) + err_full :=
    match construct_full a sched with
    | inr e => inr e
    | inl c => inl (c, drive T O c sched (init_state T O c sched) evs)
    end.
End Ext.

(* =================== binary64 =================== *)
(* ceil of a finite double as an integer (SpecFloat view: (-1)^s * m * 2^e) *)
Definition fceil (x : float) : Z :=
  match Prim2SF x with
  | S754_finite s m e =>
      let a := if (0 <=? e)%Z then (Zpos m * 2 ^ e)%Z
               else if s then (Zpos m / 2 ^ (- e))%Z               (* floor of |x| *)
               else ((Zpos m + 2 ^ (- e) - 1) / 2 ^ (- e))%Z in    (* ceil of |x| *)
      if s then (- a)%Z else a
  | _ => 0%Z
  end.

Definition FExt : numext float := {|
  x_div := PrimFloat.div;
  x_ceil := fceil;
  x_ofZ := fun z => PrimFloat.of_uint63 (Uint63.of_Z z) |}.

Definition agree_drive_full (a : args float) (sched : list float) (evs : list event)
           (expect : (cfg float * list (state float * out float) * stop) + err_full) : bool :=
  match simulate_full float FOps FExt a sched evs, expect with
  | inr e, inr e' => err_full_eqb e e'
  | inl (c, (tr, st)), inl (c', snaps, st') =>
      cfg_same c c' && snaps_same (map (fun x => (snd (fst x), snd x)) tr) snaps
      && stop_same st st'
  | _, _ => false
  end.

Definition agree_calls_full (a : args float) (sched : list float) (ks : list call)
           (expect : (cfg float * list (state float * out float)) + err_full) : bool :=
  match construct_full float FOps FExt a sched, expect with
  | inr e, inr e' => err_full_eqb e e'
  | inl c, inl (c', snaps) =>
      cfg_same c c' && snaps_same (run_calls float FOps c sched (init_state float FOps c sched) ks) snaps
  | _, _ => false
  end.

(* =================== exact rationals =================== *)
Definition QOps : numops Q := {|
  n_zero := 0%Q; n_one := 1%Q; n_milli := (1 # 1000)%Q; n_tenth := (1 # 10)%Q;
  n_add := fun x y => Qred (x + y); n_sub := fun x y => Qred (x - y);
  n_mul := fun x y => Qred (x * y);
  n_leb := Qle_bool; n_ltb := fun x y => negb (Qle_bool y x); n_eqb := Qeq_bool;
  n_abs := Qabs |}.

Definition QExt : numext Q := {|
  x_div := fun x y => Qred (x / y);
  x_ceil := Qceiling;
  x_ofZ := inject_Z |}.

Definition qstate_same (a b : state Q) : bool :=
  Qeq_bool (time a) (time b) && Qeq_bool (dt a) (dt b) && Z.eqb (tidx a) (tidx b)
  && Z.eqb (idx a) (idx b) && Z.eqb (recomp a) (recomp b) && Bool.eqb (about a) (about b).

Definition qout_same (a b : out Q) : bool :=
  match a, b with
  | ONone, ONone | OUnit, OUnit => true
  | ODt x, ODt y => Qeq_bool x y
  | OBool x, OBool y => Bool.eqb x y
  | OErr x, OErr y => err_eqb x y
  | _, _ => false
  end.

Fixpoint qsnaps_same (a b : list (state Q * out Q)) : bool :=
  match a, b with
  | [], [] => true
  | (s, o) :: r, (s', o') :: r' => qstate_same s s' && qout_same o o' && qsnaps_same r r'
  | _, _ => false
  end.

Definition qcfg_same (a b : cfg Q) : bool :=
  Qeq_bool (dt_init a) (dt_init b) && Bool.eqb (constant a) (constant b)
  && Qeq_bool (dt_min a) (dt_min b) && Qeq_bool (dt_max a) (dt_max b)
  && Z.eqb (iter_max a) (iter_max b) && Z.eqb (iter_low a) (iter_low b)
  && Z.eqb (iter_upp a) (iter_upp b) && Qeq_bool (under a) (under b)
  && Qeq_bool (over a) (over b) && Qeq_bool (recomp_factor a) (recomp_factor b)
  && Z.eqb (recomp_max a) (recomp_max b) && Qeq_bool (rtol a) (rtol b)
  && Qeq_bool (atol a) (atol b).

(* exact-instance correspondence: the implementation's numbers, read as exact rationals,
   against the rational instance of the model *)
Definition agree_drive_Q (a : args Q) (sched : list Q) (evs : list event)
           (expect : (cfg Q * list (state Q * out Q) * stop) + err_full) : bool :=
  match simulate_full Q QOps QExt a sched evs, expect with
  | inr e, inr e' => err_full_eqb e e'
  | inl (c, (tr, st)), inl (c', snaps, st') =>
      qcfg_same c c' && qsnaps_same (map (fun x => (snd (fst x), snd x)) tr) snaps
      && stop_same st st'
  | _, _ => false
  end.
