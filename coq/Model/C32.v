(* C32 — coordinate maps and tangential-normal bases.
   Transcribes porepy/geometry/map_geometry.py (rotation_matrix, project_plane_matrix,
   project_line_matrix, compute_normal, compute_tangent, compute_normals_1d),
   porepy/geometry/geometry_property_checks.py (points_are_planar, as called by
   project_plane_matrix) and porepy/utils/tangential_normal_projection.py
   (TangentialNormalProjection.__init__/_construct_local_basis/_invert_3d_matrix; the code
   after the commit "fix: tangential-normal basis is orthogonalised against the normal").

   The model is written ONCE over a record of numeric operations [numops]; this file
   instantiates it with exact rationals (execution next to numpy, [qsqrt] exact on perfect
   squares — the correspondence inputs have rational norms); Proofs/C32.v instantiates it
   with the reals (sqrt = the real square root) for the theorems.

   Devices (DESIGN §3):
   * np.sin(a), np.cos(a) of [rotation_matrix(a, vect)] are the inputs [sn], [cs];
   * [angle = np.arccos(d)] followed by sin/cos(angle) in project_*_matrix is written
     cs = d, sn = sqrt(1 - d*d)  (cos_acos / sin_acos, proved over R in Proofs/C32.v);
     arccos of |d| > 1 is NaN = [Err NanErr];
   * argmax over norms = argmax over squared norms (sqrt is strictly increasing);
     [x < 1e-8] on a norm is written on squares; np.allclose(v, 0, atol=a): v_i^2 <= a^2
     where the tolerance itself contains norms.
   Executable definitions only. *)
From Coq Require Import List ZArith QArith Qabs Bool Arith.
Import ListNotations.

Record numops (T : Type) := {
  n_zero : T; n_one : T;
  n_add : T -> T -> T; n_sub : T -> T -> T; n_mul : T -> T -> T; n_div : T -> T -> T;
  n_opp : T -> T;
  n_leb : T -> T -> bool; n_ltb : T -> T -> bool;
  n_sqrt : T -> T;
  n_atol : T;                   (* the literal 1e-8 (numpy's default atol; also the
                                   aligned_with_axis threshold) *)
  n_ofnat : nat -> T }.         (* number of points, for np.mean *)

Inductive err := ValueErr | RuntimeErr | AssertErr | NanErr | LinAlgErr.
Inductive res (A : Type) := Ok (a : A) | Err (e : err).
Arguments Ok {A} a.
Arguments Err {A} e.

Definition is_ok {A : Type} (r : res A) : bool :=
  match r with Ok _ => true | Err _ => false end.

Definition err_eqb (a b : err) : bool :=
  match a, b with
  | ValueErr, ValueErr | RuntimeErr, RuntimeErr | AssertErr, AssertErr
  | NanErr, NanErr | LinAlgErr, LinAlgErr => true
  | _, _ => false
  end.

Section Model.
  Variable T : Type.
  Variable ops : numops T.

  Local Notation "0" := (n_zero T ops).
  Local Notation "1" := (n_one T ops).
  Local Notation "a + b" := (n_add T ops a b) (at level 50, left associativity).
  Local Notation "a - b" := (n_sub T ops a b) (at level 50, left associativity).
  Local Notation "a * b" := (n_mul T ops a b) (at level 40, left associativity).
  Local Notation "a / b" := (n_div T ops a b) (at level 40, left associativity).
  Local Notation "- a" := (n_opp T ops a) (at level 35, right associativity).
  Local Notation leb := (n_leb T ops).
  Local Notation ltb := (n_ltb T ops).
  Local Notation sqrt := (n_sqrt T ops).
  Local Notation atol := (n_atol T ops).

  Definition nabs (x : T) : T := if ltb x 0 then - x else x.

  (* ------------------------------------------------------------------ 3-vectors *)
  Definition v3 := (T * T * T)%type.
  Definition m3 := (v3 * v3 * v3)%type.            (* rows *)
  Definition vx (v : v3) : T := fst (fst v).
  Definition vy (v : v3) : T := snd (fst v).
  Definition vz (v : v3) : T := snd v.
  Definition zero3 : v3 := (0, 0, 0).
  Definition dot (a b : v3) : T := vx a * vx b + vy a * vy b + vz a * vz b.
  Definition cross (a b : v3) : v3 :=
    (vy a * vz b - vz a * vy b, vz a * vx b - vx a * vz b, vx a * vy b - vy a * vx b).
  Definition vadd (a b : v3) : v3 := (vx a + vx b, vy a + vy b, vz a + vz b).
  Definition vsub (a b : v3) : v3 := (vx a - vx b, vy a - vy b, vz a - vz b).
  Definition vscale (s : T) (a : v3) : v3 := (s * vx a, s * vy a, s * vz a).
  Definition vdiv (a : v3) (s : T) : v3 := (vx a / s, vy a / s, vz a / s).
  Definition norm (a : v3) : T := sqrt (dot a a).              (* np.linalg.norm *)
  Definition normalize (a : v3) : v3 := vdiv a (norm a).

  Definition row0 (M : m3) : v3 := fst (fst M).
  Definition row1 (M : m3) : v3 := snd (fst M).
  Definition row2 (M : m3) : v3 := snd M.
  Definition col0 (M : m3) : v3 := (vx (row0 M), vx (row1 M), vx (row2 M)).
  Definition col1 (M : m3) : v3 := (vy (row0 M), vy (row1 M), vy (row2 M)).
  Definition col2 (M : m3) : v3 := (vz (row0 M), vz (row1 M), vz (row2 M)).
  Definition mT (M : m3) : m3 := (col0 M, col1 M, col2 M).
  Definition mv (M : m3) (v : v3) : v3 := (dot (row0 M) v, dot (row1 M) v, dot (row2 M) v).
  Definition mm (A B : m3) : m3 :=
    ((dot (row0 A) (col0 B), dot (row0 A) (col1 B), dot (row0 A) (col2 B)),
     (dot (row1 A) (col0 B), dot (row1 A) (col1 B), dot (row1 A) (col2 B)),
     (dot (row2 A) (col0 B), dot (row2 A) (col1 B), dot (row2 A) (col2 B))).
  Definition madd (A B : m3) : m3 :=
    (vadd (row0 A) (row0 B), vadd (row1 A) (row1 B), vadd (row2 A) (row2 B)).
  Definition mscale (s : T) (A : m3) : m3 :=
    (vscale s (row0 A), vscale s (row1 A), vscale s (row2 A)).
  Definition ident : m3 := ((1, 0, 0), (0, 1, 0), (0, 0, 1)).
  Definition det (M : m3) : T := dot (row0 M) (cross (row1 M) (row2 M)).

  (* np.allclose(v, np.zeros(3)):  |v_i - 0| <= atol + rtol*|0|  for all i *)
  Definition allclose0 (v : v3) : bool :=
    leb (nabs (vx v)) atol && leb (nabs (vy v)) atol && leb (nabs (vz v)) atol.

  (* ------------------------------------------------------------ rotation_matrix *)
  (* W = [[0,-k2,k1],[k2,0,-k0],[-k1,k0,0]];  I + sin(a) W + (1-cos(a)) W@W *)
  Definition rod_unit (sn cs : T) (k : v3) : m3 :=
    let W : m3 := ((0, - vz k, vy k), (vz k, 0, - vx k), (- vy k, vx k, 0)) in
    madd (madd ident (mscale sn W)) (mscale (1 - cs) (mm W W)).

  Definition rotation_matrix (sn cs : T) (vect : v3) : m3 :=
    if allclose0 vect then ident
    else rod_unit sn cs (vdiv vect (norm vect)).

  (* common tail of project_plane_matrix / project_line_matrix: [u] is the unit normal
     (tangent), [r] the reference.  angle = arccos(u.r), vect = u x r,
     rotation_matrix(angle, vect).  A NaN angle is harmless when vect is ~0 (identity is
     returned before the angle is used). *)
  Definition project_matrix (u r : v3) : res m3 :=
    let d := dot u r in
    let vect := cross u r in
    if ltb 1 (d * d) then
      (if allclose0 vect then Ok ident else Err NanErr)
    else Ok (rotation_matrix (sqrt (1 - d * d)) d vect).

  (* ----------------------------------------------------------------- point sets *)
  Definition vsum (l : list v3) : v3 := fold_right vadd zero3 l.
  Definition mean (pts : list v3) : v3 := vdiv (vsum pts) (n_ofnat T ops (length pts)).

  (* np.argmax: first index of the maximum *)
  Fixpoint argmax_aux (l : list T) (i : nat) (best : T) (bi : nat) : nat :=
    match l with
    | [] => bi
    | y :: r => if ltb best y then argmax_aux r (S i) y i else argmax_aux r (S i) best bi
    end.
  Definition argmax (l : list T) : nat :=
    match l with [] => O | x :: r => argmax_aux r 1%nat x O end.

  Definition normsq (a : v3) : T := dot a a.

  Definition compute_normal (pts : list v3) (tol : T) : res v3 :=
    if Nat.leb (length pts) 2 then Err ValueErr
    else
      let c := mean pts in
      let v := map (fun p => vsub p c) pts in
      let nrm2 := map normsq v in                       (* nrm ** 2 *)
      let i1 := argmax nrm2 in
      let v1 := nth i1 v zero3 in
      let crs := map (fun w => cross v1 w) v in
      let ci := argmax (map normsq crs) in
      let normal := nth ci crs zero3 in
      let scal2 := nth i1 nrm2 0 * nth ci nrm2 0 in      (* nrm_scaling ** 2 *)
      let a2 := tol * tol * scal2 in
      if leb (vx normal * vx normal) a2 && leb (vy normal * vy normal) a2
         && leb (vz normal * vz normal) a2
      then Err RuntimeErr
      else Ok (vdiv normal (norm normal)).

  Definition compute_tangent (pts : list v3) : res v3 :=
    match pts with
    | [] => Err ValueErr                                  (* argmax of an empty array *)
    | _ =>
        let c := mean pts in
        let t := map (fun p => vsub p c) pts in
        let tg := nth (argmax (map normsq t)) t zero3 in
        if allclose0 tg then Err AssertErr else Ok (vdiv tg (norm tg))
    end.

  (* points_are_planar(pts, normal, tol): norm of the vector of n.(p - mean) <= tol *)
  Definition points_are_planar (pts : list v3) (normal : v3) (tol : T) : bool :=
    let n := normalize normal in
    let c := mean pts in
    let s := fold_right (fun p acc => let q := dot n (vsub p c) in q * q + acc) 0 pts in
    leb s (tol * tol).

  (* project_plane_matrix(pts, normal=normal, reference=r, check_planar=False) *)
  Definition plane_matrix_normal (normal r : v3) : res m3 :=
    project_matrix (normalize normal) r.

  (* project_plane_matrix(pts, tol=tol, reference=r)  (normal computed, planarity asserted) *)
  Definition plane_matrix_pts (pts : list v3) (tol : T) (r : v3) : res m3 :=
    match compute_normal pts tol with
    | Err e => Err e
    | Ok n => if points_are_planar pts n tol then project_matrix n r else Err AssertErr
    end.

  (* project_line_matrix(pts, tangent=tangent, reference=r) *)
  Definition line_matrix_tangent (tangent r : v3) : res m3 :=
    project_matrix (normalize tangent) r.

  (* project_line_matrix(pts, reference=r) *)
  Definition line_matrix_pts (pts : list v3) (r : v3) : res m3 :=
    match compute_tangent pts with
    | Err e => Err e
    | Ok t => project_matrix t r
    end.

  (* compute_normals_1d: n = [t1, -t0, 0]/sqrt(t0^2+t1^2);  second = R(pi/2, t) n *)
  Definition compute_normals_1d (pts : list v3) : res (v3 * v3) :=
    match compute_tangent pts with
    | Err e => Err e
    | Ok t =>
        let h2 := vx t * vx t + vy t * vy t in
        if leb h2 0 then Err NanErr                       (* 0/0 *)
        else
          let n := vdiv (vy t, - vx t, 0) (sqrt h2) in
          Ok (n, mv (rotation_matrix 1 0 t) n)
    end.

  (* ------------------------------------------------ TangentialNormalProjection *)
  (* np.argmax(np.abs(n)) on three entries *)
  Definition argmax3 (n : v3) : nat :=
    argmax [nabs (vx n); nabs (vy n); nabs (vz n)].

  (* adjugate inverse = what np.linalg.inv computes (up to rounding) *)
  Definition inv3 (M : m3) : res m3 :=
    let d := det M in
    if leb (nabs d) 0 then Err LinAlgErr
    else
      let a := row0 M in let b := row1 M in let c := row2 M in
      Ok (mscale (1 / d) (mT (cross b c, cross c a, cross a b))).

  (* the three basis vectors (tc1, tc2, normal) = the COLUMNS of the basis matrix *)
  Definition tn3_basis (nrm : v3) : v3 * v3 * v3 :=
    let n := normalize (normalize nrm) in      (* normalised in __init__ and again here *)
    let a2 := atol * atol in
    let tc1 :=
      match argmax3 n with
      | O =>      (* other_dim = (1, 2) *)
          if ltb (vy n * vy n + vz n * vz n) a2 then (0, 1, vy n) else (0, - vz n, vy n)
      | S O =>    (* other_dim = (0, 2) *)
          if ltb (vx n * vx n + vz n * vz n) a2 then (1, 0, vx n) else (- vz n, 0, vx n)
      | _ =>      (* other_dim = (0, 1) *)
          if ltb (vx n * vx n + vy n * vy n) a2 then (1, vx n, 0) else (- vy n, vx n, 0)
      end in
    let tc1 := vsub tc1 (vscale (dot tc1 n) n) in
    let tc1 := vdiv tc1 (norm tc1) in
    let tc2 := cross n tc1 in
    let tc2 := vdiv tc2 (norm tc2) in
    (tc1, tc2, n).

  (* self._projection[:, :, k] = inv(basis matrix with columns tc1, tc2, n) *)
  Definition tn3_projection (nrm : v3) : res m3 :=
    let '(t1, t2, n) := tn3_basis nrm in inv3 (mT (t1, t2, n)).

  (* dim = 2 *)
  Definition v2 := (T * T)%type.
  Definition m2 := (v2 * v2)%type.                 (* rows *)
  Definition dot2 (a b : v2) : T := fst a * fst b + snd a * snd b.
  Definition normalize2 (a : v2) : v2 :=
    let n := sqrt (dot2 a a) in (fst a / n, snd a / n).
  Definition tn2_basis (nrm : v2) : v2 * v2 :=
    let n := normalize2 (normalize2 nrm) in
    let tc1 :=
      if ltb (snd n) 0 then (- snd n, fst n)
      else if ltb 0 (snd n) then (snd n, - fst n)
      else (0, 1) in
    (tc1, n).
  Definition det2 (M : m2) : T := fst (fst M) * snd (snd M) - snd (fst M) * fst (snd M).
  Definition inv2 (M : m2) : res m2 :=
    let d := det2 M in
    if leb (nabs d) 0 then Err LinAlgErr
    else Ok ((snd (snd M) / d, - snd (fst M) / d), (- fst (snd M) / d, fst (fst M) / d)).
  Definition tn2_projection (nrm : v2) : res m2 :=
    let '(t1, n) := tn2_basis nrm in
    inv2 ((fst t1, fst n), (snd t1, snd n)).        (* columns t1, n *)
End Model.

Arguments vx {T} v.
Arguments vy {T} v.
Arguments vz {T} v.

(* ---------------------------------------------------------------- Q instance *)
Definition zsqrt_exact (z : Z) : option Z :=
  let r := Z.sqrt z in if Z.eqb (r * r) z then Some r else None.

(* exact on squares of rationals; -1 marks "not a perfect square" (never produced on the
   correspondence inputs; it makes the comparison fail if it ever is) *)
Definition qsqrt (x : Q) : Q :=
  let x := Qred x in
  match zsqrt_exact (Qnum x), zsqrt_exact (Zpos (Qden x)) with
  | Some a, Some b => Qred (a # Z.to_pos b)
  | _, _ => (-1 # 1)
  end.

Definition qltb (x y : Q) : bool := negb (Qle_bool y x).

Definition QO : numops Q := {|
  n_zero := 0%Q; n_one := 1%Q;
  n_add := fun a b => Qred (a + b); n_sub := fun a b => Qred (a - b);
  n_mul := fun a b => Qred (a * b); n_div := fun a b => Qred (a / b);
  n_opp := fun a => Qred (- a);
  n_leb := Qle_bool; n_ltb := qltb;
  n_sqrt := qsqrt;
  n_atol := (1 # 100000000)%Q;
  n_ofnat := fun n => inject_Z (Z.of_nat n) |}.

(* ------------------------------------------------ comparison with numpy output *)
Definition close (a b : Q) : bool :=
  Qle_bool (Qabs (a - b)) ((1 # 1000000000) * (1 + Qabs b)).

Fixpoint close_list (a b : list Q) : bool :=
  match a, b with
  | [], [] => true
  | x :: a', y :: b' => close x y && close_list a' b'
  | _, _ => false
  end.

Definition v3l (v : v3 Q) : list Q := [vx v; vy v; vz v].
Definition m3l (M : m3 Q) : list Q :=
  v3l (row0 Q M) ++ v3l (row1 Q M) ++ v3l (row2 Q M).      (* row-major, as ravel() *)
Definition m2l (M : m2 Q) : list Q :=
  [fst (fst M); snd (fst M); fst (snd M); snd (snd M)].

Definition agree_res {A} (f : A -> list Q) (model : res A) (impl : res (list Q)) : bool :=
  match model, impl with
  | Ok a, Ok l => close_list l (f a)
  | Err e, Err e' => err_eqb e e'
  | _, _ => false
  end.

Definition agree_rot (sn cs : Q) (vect : v3 Q) (out : list Q) : bool :=
  close_list out (m3l (rotation_matrix Q QO sn cs vect)).
Definition agree_plane_normal (normal r : v3 Q) (out : res (list Q)) : bool :=
  agree_res m3l (plane_matrix_normal Q QO normal r) out.
Definition agree_plane_pts (pts : list (v3 Q)) (tol : Q) (r : v3 Q) (out : res (list Q)) : bool :=
  agree_res m3l (plane_matrix_pts Q QO pts tol r) out.
Definition agree_line_tangent (t r : v3 Q) (out : res (list Q)) : bool :=
  agree_res m3l (line_matrix_tangent Q QO t r) out.
Definition agree_line_pts (pts : list (v3 Q)) (r : v3 Q) (out : res (list Q)) : bool :=
  agree_res m3l (line_matrix_pts Q QO pts r) out.
Definition agree_normal (pts : list (v3 Q)) (tol : Q) (out : res (list Q)) : bool :=
  agree_res v3l (compute_normal Q QO pts tol) out.
Definition agree_tangent (pts : list (v3 Q)) (out : res (list Q)) : bool :=
  agree_res v3l (compute_tangent Q QO pts) out.
Definition agree_normals_1d (pts : list (v3 Q)) (out : res (list Q)) : bool :=
  agree_res (fun p => v3l (fst p) ++ v3l (snd p)) (compute_normals_1d Q QO pts) out.

Fixpoint agree_all {A} (f : A -> res (list Q) -> bool) (ins : list A)
         (outs : list (res (list Q))) : bool :=
  match ins, outs with
  | [], [] => true
  | i :: ins', o :: outs' => f i o && agree_all f ins' outs'
  | _, _ => false
  end.

(* TangentialNormalProjection(normals)._projection blocks (row-major) and .normals *)
Definition agree_tn3 (normals : list (v3 Q)) (blocks : list (res (list Q))) : bool :=
  agree_all (fun n o => agree_res m3l (tn3_projection Q QO n) o) normals blocks.
Definition agree_tn2 (normals : list (v2 Q)) (blocks : list (res (list Q))) : bool :=
  agree_all (fun n o => agree_res m2l (tn2_projection Q QO n) o) normals blocks.
