(* C30 — distance kernels of porepy/geometry/distances.py on SQUARED distances:
   point_pointset, points_segments (one point, one segment: both loop variants of the code
   compute the same clamped projection), segment_segment_set (the vectorised
   Sunday/Eberly case analysis, transcribed mask by mask for one segment of the set, after
   "fix: segment_segment_set uses relative tolerances": parallel iff
   discr < 1e-8 * d1.d1 * d2.d2, sc[sN < 1e-8*sD] = 0, tc[tN < 1e-8*tD] = 0).  The code returns sqrt of what the model
   returns.  2-d inputs are embedded with z = 0.  Polygon kernels are not modelled
   (oracle only).  Numeric record and vectors: Model/C32.v.  Executable definitions only. *)
From Coq Require Import List ZArith QArith Qabs Bool Arith.
Import ListNotations.
From PP Require Import Model.C32.

Section Model.
  Variable T : Type.
  Variable ops : numops T.

  Local Notation "0" := (n_zero T ops).
  Local Notation "1" := (n_one T ops).
  Local Notation "a + b" := (n_add T ops a b) (at level 50, left associativity).
  Local Notation "a - b" := (n_sub T ops a b) (at level 50, left associativity).
  Local Notation "a * b" := (n_mul T ops a b) (at level 40, left associativity).
  Local Notation "a / b" := (n_div T ops a b) (at level 40, left associativity).
  Local Notation "- a" := (n_opp T ops a) (at level 35, right associativity).
  Local Notation leb := (n_leb T ops).
  Local Notation ltb := (n_ltb T ops).
  Local Notation dot := (dot T ops).
  Local Notation vsub := (vsub T ops).
  Local Notation vadd := (vadd T ops).
  Local Notation vscale := (vscale T ops).
  Local Notation normsq := (normsq T ops).
  Local Notation v3 := (v3 T).

  (* point_pointset(p, q) ** 2 *)
  Definition point_point_sq (p q : v3) : T := normsq (vsub p q).

  (* points_segments for one point and one segment: (d**2, closest point) *)
  Definition point_segment (p a b : v3) : res (T * v3) :=
    let line := vsub b a in
    let len2 := dot line line in                     (* lengths ** 2 *)
    if leb len2 0 then Err NanErr                     (* 0/0: every comparison is False *)
    else
      let proj := dot (vsub p a) line / len2 in
      if leb proj 0 then Ok (normsq (vsub p a), a)
      else if leb 1 proj then Ok (normsq (vsub p b), b)
      else let cp := vadd a (vscale proj line) in Ok (normsq (vsub p cp), cp).

  (* the four numerators/denominators after each masking stage *)
  Definition quad := (T * T * T * T)%type.            (* sN, sD, tN, tD *)

  Definition stage1 (small d11 d12 d22 d1s d2s : T) : quad :=
    let discr := d11 * d22 - d12 * d12 in
    if ltb discr small then (0, 1, d2s, d22)                         (* parallel *)
    else
      let sN := d12 * d2s - d22 * d1s in
      let tN := d11 * d2s - d12 * d1s in
      if ltb sN 0 then (0, discr, d2s, d22)                          (* s0_visible *)
      else if ltb discr sN then (discr, discr, d12 + d2s, d22)       (* s1_visible *)
      else (sN, discr, tN, discr).

  Definition stage2 (d11 d1s : T) (q : quad) : quad :=
    let '(sN, sD, tN, tD) := q in
    if ltb tN 0 then                                                  (* t0_visible *)
      if ltb 0 d1s then (0, sD, 0, tD)
      else if ltb d11 (- d1s) then (sD, sD, 0, tD)
      else (- d1s, d11, 0, tD)
    else q.

  Definition stage3 (d11 d12 d1s : T) (q : quad) : quad :=
    let '(sN, sD, tN, tD) := q in
    if ltb tD tN then                                                 (* t1_visible *)
      let e := - d1s + d12 in
      if ltb e 0 then (0, sD, tD, tD)
      else if ltb d11 e then (sD, sD, tD, tD)
      else (e, d11, tD, tD)
    else q.

  (* sc = sN/sD; sc[sN < SMALL] = 0 *)
  Definition ratio (small n d : T) : res T :=
    if ltb n small then Ok 0
    else if leb d 0 && leb 0 d then Err NanErr
    else Ok (n / d).

  (* one segment (c,d) of the set against the main segment (a,b):
     (dist**2, closest point on the main segment, closest point on (c,d), sc, tc) *)
  Definition seg_seg (a b c d : v3) : res (T * v3 * v3 * T * T) :=
    let d1 := vsub b a in
    let d2 := vsub d c in
    let ds := vsub a c in
    let d11 := dot d1 d1 in let d12 := dot d1 d2 in let d22 := dot d2 d2 in
    let d1s := dot d1 ds in let d2s := dot d2 ds in
    let small := n_atol T ops * d11 * d22 in       (* SMALL_TOLERANCE * dot_1_1 * dot_2_2 *)
    let q := stage3 d11 d12 d1s (stage2 d11 d1s (stage1 small d11 d12 d22 d1s d2s)) in
    let '(sN, sD, tN, tD) := q in
    match ratio (n_atol T ops * sD) sN sD, ratio (n_atol T ops * tD) tN tD with
    | Ok sc, Ok tc =>
        let dist := vsub (vadd ds (vscale sc d1)) (vscale tc d2) in
        Ok (normsq dist, vadd a (vscale sc d1), vadd c (vscale tc d2), sc, tc)
    | _, _ => Err NanErr
    end.

  (* the inputs on which none of the tolerance masks changes the exact algorithm:
     discr = 0 (exactly parallel) or discr >= tol*d11*d22, and the final numerators are 0 or
     >= tol * denominator (so sc[sN < tol*sD] = 0 / tc[tN < tol*tD] = 0 do not truncate) *)
  Definition off_band (a b c d : v3) : bool :=
    let d1 := vsub b a in
    let d2 := vsub d c in
    let ds := vsub a c in
    let d11 := dot d1 d1 in let d12 := dot d1 d2 in let d22 := dot d2 d2 in
    let d1s := dot d1 ds in let d2s := dot d2 ds in
    let discr := d11 * d22 - d12 * d12 in
    let small := n_atol T ops * d11 * d22 in
    let q := stage3 d11 d12 d1s (stage2 d11 d1s (stage1 small d11 d12 d22 d1s d2s)) in
    let '(sN, sD, tN, tD) := q in
    (leb discr 0 || negb (ltb discr small))
    && (leb sN 0 || negb (ltb sN (n_atol T ops * sD)))
    && (leb tN 0 || negb (ltb tN (n_atol T ops * tD))).

  Definition seg_seg_set (a b : v3) (set : list (v3 * v3)) : list (res (T * v3 * v3 * T * T)) :=
    map (fun s => seg_seg a b (fst s) (snd s)) set.
End Model.

Section Model2.
  Variable T : Type.
  Variable ops : numops T.

  Local Notation "0" := (n_zero T ops).
  Local Notation "1" := (n_one T ops).
  Local Notation "a + b" := (n_add T ops a b) (at level 50, left associativity).
  Local Notation "a - b" := (n_sub T ops a b) (at level 50, left associativity).
  Local Notation "a * b" := (n_mul T ops a b) (at level 40, left associativity).
  Local Notation "a / b" := (n_div T ops a b) (at level 40, left associativity).
  Local Notation "- a" := (n_opp T ops a) (at level 35, right associativity).
  Local Notation leb := (n_leb T ops).
  Local Notation ltb := (n_ltb T ops).
  Local Notation dot := (dot T ops).
  Local Notation vsub := (vsub T ops).
  Local Notation vadd := (vadd T ops).
  Local Notation vscale := (vscale T ops).
  Local Notation normsq := (normsq T ops).
  Local Notation v3 := (v3 T).
  Local Notation seg_seg_set := (seg_seg_set T ops).
  Local Notation off_band := (off_band T ops).
  Local Notation point_segment := (point_segment T ops).

  (* ------------------------------------------------------------------ segment_set *)
  (* after "fix: distances.segment_set fills the distance matrix and closest points":
     for every i, segment_segment_set(segment i, segments i+1..) *)
  Fixpoint segment_set_upper (segs : list (v3 * v3)) : list (list (res (T * v3 * v3 * T * T))) :=
    match segs with
    | [] => []
    | s :: rest => seg_seg_set (fst s) (snd s) rest :: segment_set_upper rest
    end.

  (* entry (i, j) of the returned arrays: (d[i,j]**2, cp[i,j]) *)
  Definition sset_entry (segs : list (v3 * v3)) (i j : nat) : res (T * v3) :=
    if Nat.eqb i j then
      match nth_error segs i with
      | Some s => Ok (0, vadd (fst s) (vscale (1 / (1 + 1)) (vsub (snd s) (fst s))))
      | None => Err ValueErr
      end
    else if Nat.ltb i j then
      match nth_error (segment_set_upper segs) i with
      | Some row => match nth_error row (j - i - 1) with
                    | Some (Ok (d2, cp1, _, _, _)) => Ok (d2, cp1)
                    | Some (Err e) => Err e
                    | None => Err ValueErr
                    end
      | None => Err ValueErr
      end
    else
      match nth_error (segment_set_upper segs) j with
      | Some row => match nth_error row (i - j - 1) with
                    | Some (Ok (d2, _, cp2, _, _)) => Ok (d2, cp2)
                    | Some (Err e) => Err e
                    | None => Err ValueErr
                    end
      | None => Err ValueErr
      end.

  Definition off_band_set (a b : v3) (set : list (v3 * v3)) : bool :=
    forallb (fun s => off_band a b (fst s) (snd s)) set.

  (* ------------------------------------------------------------- point_in_polygon *)
  (* geometry_property_checks.point_in_polygon(poly, p, default=False) for one point *)
  Definition v2 := (T * T)%type.
  Definition sgnz (x : T) : Z := if ltb 0 x then 1%Z else if ltb x 0 then (-1)%Z else 0%Z.
  Definition is_zero (x : T) : bool := leb x 0 && leb 0 x.
  Definition is_zero2 (v : v2) : bool := is_zero (fst v) && is_zero (snd v).
  Definition vertex_sgn (v : v2) : Z :=
    let s := sgnz (fst v) in if Z.eqb s 0 then sgnz (snd v) else s.
  Definition edge_cross (v w : v2) : T := fst v * snd w - snd v * fst w.
  Definition roll1 {A} (l : list A) : list A :=             (* np.roll(., -1) *)
    match l with [] => [] | x :: r => r ++ [x] end.

  Fixpoint wind2 (vs ws : list v2) : Z :=                    (* twice the winding number *)
    match vs, ws with
    | v :: vs', w :: ws' =>
        ((if Z.eqb (vertex_sgn w - vertex_sgn v) 0 then 0 else sgnz (edge_cross v w))
         + wind2 vs' ws')%Z
    | _, _ => 0%Z
    end.

  Fixpoint on_active_edge (vs ws : list v2) : bool :=
    match vs, ws with
    | v :: vs', w :: ws' =>
        (Z.eqb (sgnz (edge_cross v w)) 0 && negb (Z.eqb (vertex_sgn w - vertex_sgn v) 0))
        || on_active_edge vs' ws'
    | _, _ => false
    end.

  Definition point_in_polygon (poly : list v2) (p : v2) : bool :=
    let rel := map (fun v => (fst v - fst p, snd v - snd p)) poly in
    let nxt := roll1 rel in
    if existsb is_zero2 rel || existsb is_zero2 nxt then false
    else if on_active_edge rel nxt then false
    else negb (Z.eqb (wind2 rel nxt) 0).

  (* --------------------------------------------------------------- points_polygon *)
  Definition ez : v3 := (0, 0, 1).

  (* np.argmin over the point-segment results (first minimum); any NaN wins *)
  Fixpoint argmin_ps (l : list (res (T * v3))) (best : T * v3) : res (T * v3) :=
    match l with
    | [] => Ok best
    | Err e :: _ => Err e
    | Ok r :: l' => argmin_ps l' (if ltb (fst r) (fst best) then r else best)
    end.

  Definition edges (poly : list v3) : list (v3 * v3) := combine poly (roll1 poly).

  (* points_polygon(p, poly, tol) for one point: (d**2, closest point, in_poly).
     [ptol] is the default tolerance 1e-5 of project_plane_matrix. *)
  Definition points_polygon (ptol tol : T) (p : v3) (poly : list v3) : res (T * v3 * bool) :=
    let center := mean T ops poly in
    let polyc := map (fun v => vsub v center) poly in
    let pc := vsub p center in
    match plane_matrix_pts T ops polyc ptol ez with
    | Err e => Err e
    | Ok rot =>
        let poly_rot := map (mv T ops rot) polyc in
        if negb (forallb (fun v => ltb (nabs T ops (vz v)) tol) poly_rot) then Err AssertErr
        else
          let pr := mv T ops rot pc in
          let poly_xy := map (fun v => (vx v, vy v)) poly_rot in
          if point_in_polygon poly_xy (vx pr, vy pr) then
            Ok (vz pr * vz pr,
                vadd center (mv T ops (mT T rot) (vx pr, vy pr, 0)), true)
          else
            match map (fun e => point_segment p (fst e) (snd e)) (edges poly) with
            | [] => Err ValueErr
            | Err e :: _ => Err e
            | Ok r :: l =>
                match argmin_ps l r with
                | Err e => Err e
                | Ok (d2, cp) => Ok (d2, cp, false)
                end
            end
    end.
End Model2.

(* ------------------------------------------------ comparison with numpy output *)
(* [tol] is an absolute tolerance for lengths and coordinates of the case (1e-9 of the
   extent of the configuration + a few ulps of the coordinate magnitude, computed by the
   harness).  impl gives the distance: its square is compared with the model's squared
   distance up to (2|dist| + tol) * tol. *)
Definition closeT (tol a b : Q) : bool := Qle_bool (Qabs (a - b)) tol.
Definition close_sq (tol dist d2 : Q) : bool :=
  closeT ((2 * Qabs dist + tol) * tol) (dist * dist) d2.
Fixpoint close_listT (tol : Q) (a b : list Q) : bool :=
  match a, b with
  | [], [] => true
  | x :: a', y :: b' => closeT tol x y && close_listT tol a' b'
  | _, _ => false
  end.

Definition agree_pp (tol : Q) (p q : v3 Q) (dist : Q) : bool :=
  close_sq tol dist (point_point_sq Q QO p q).

Definition agree_ps (tol : Q) (p a b : v3 Q) (out : res (list Q)) : bool :=
  match point_segment Q QO p a b, out with
  | Ok (d2, cp), Ok (dist :: cpl) => close_sq tol dist d2 && close_listT tol cpl (v3l cp)
  | Err e, Err e' => err_eqb e e'
  | _, _ => false
  end.

Fixpoint agree_ss_list (tol : Q) (model : list (res (Q * v3 Q * v3 Q * Q * Q)))
         (outs : list (res (list Q))) : bool :=
  match model, outs with
  | [], [] => true
  | Ok (d2, cp1, cp2, _, _) :: m', Ok (dist :: l) :: o' =>
      close_sq tol dist d2 && close_listT tol l (v3l cp1 ++ v3l cp2) && agree_ss_list tol m' o'
  | Err e :: m', Err e' :: o' => err_eqb e e' && agree_ss_list tol m' o'
  | _, _ => false
  end.

Definition agree_ss (tol : Q) (a b : v3 Q) (set : list (v3 Q * v3 Q))
           (outs : list (res (list Q))) : bool :=
  agree_ss_list tol (seg_seg_set Q QO a b set) outs.

(* segment_set: every entry of the distance matrix and of the closest-point array *)
Definition agree_sset_entry (tol : Q) (segs : list (v3 Q * v3 Q)) (i j : nat)
           (out : res (list Q)) : bool :=
  match sset_entry Q QO segs i j, out with
  | Ok (d2, cp), Ok (dist :: cpl) => close_sq tol dist d2 && close_listT tol cpl (v3l cp)
  | Err e, Err e' => err_eqb e e'
  | _, _ => false
  end.

(* points_polygon(p, poly, tol=gtol); project_plane_matrix keeps its default 1e-5 *)
Definition agree_ppoly (tol gtol : Q) (p : v3 Q) (poly : list (v3 Q)) (out : res (list Q)) : bool :=
  match points_polygon Q QO (1 # 100000) gtol p poly, out with
  | Ok (d2, cp, _), Ok (dist :: cpl) => close_sq tol dist d2 && close_listT tol cpl (v3l cp)
  | Err e, Err e' => err_eqb e e'
  | _, _ => false
  end.
