(* C30 — distance kernels of porepy/geometry/distances.py on SQUARED distances:
   point_pointset, points_segments (one point, one segment: both loop variants of the code
   compute the same clamped projection), segment_segment_set (the vectorised
   Sunday/Eberly case analysis, transcribed mask by mask for one segment of the set; the
   tolerance SMALL_TOLERANCE = 1e-8*min(d1.d1, min over the SET of d2.d2) depends on the
   whole set and is computed by the wrapper).  The code returns sqrt of what the model
   returns.  2-d inputs are embedded with z = 0.  Polygon kernels are not modelled
   (oracle only).  Numeric record and vectors: Model/C32.v.  Executable definitions only. *)
From Coq Require Import List ZArith QArith Qabs Bool Arith.
Import ListNotations.
From PP Require Import Model.C32.

Section Model.
  Variable T : Type.
  Variable ops : numops T.

  Local Notation "0" := (n_zero T ops).
  Local Notation "1" := (n_one T ops).
  Local Notation "a + b" := (n_add T ops a b) (at level 50, left associativity).
  Local Notation "a - b" := (n_sub T ops a b) (at level 50, left associativity).
  Local Notation "a * b" := (n_mul T ops a b) (at level 40, left associativity).
  Local Notation "a / b" := (n_div T ops a b) (at level 40, left associativity).
  Local Notation "- a" := (n_opp T ops a) (at level 35, right associativity).
  Local Notation leb := (n_leb T ops).
  Local Notation ltb := (n_ltb T ops).
  Local Notation dot := (dot T ops).
  Local Notation vsub := (vsub T ops).
  Local Notation vadd := (vadd T ops).
  Local Notation vscale := (vscale T ops).
  Local Notation normsq := (normsq T ops).
  Local Notation v3 := (v3 T).

  (* point_pointset(p, q) ** 2 *)
  Definition point_point_sq (p q : v3) : T := normsq (vsub p q).

  (* points_segments for one point and one segment: (d**2, closest point) *)
  Definition point_segment (p a b : v3) : res (T * v3) :=
    let line := vsub b a in
    let len2 := dot line line in                     (* lengths ** 2 *)
    if leb len2 0 then Err NanErr                     (* 0/0: every comparison is False *)
    else
      let proj := dot (vsub p a) line / len2 in
      if leb proj 0 then Ok (normsq (vsub p a), a)
      else if leb 1 proj then Ok (normsq (vsub p b), b)
      else let cp := vadd a (vscale proj line) in Ok (normsq (vsub p cp), cp).

  (* the four numerators/denominators after each masking stage *)
  Definition quad := (T * T * T * T)%type.            (* sN, sD, tN, tD *)

  Definition stage1 (small d11 d12 d22 d1s d2s : T) : quad :=
    let discr := d11 * d22 - d12 * d12 in
    if ltb discr small then (0, 1, d2s, d22)                         (* parallel *)
    else
      let sN := d12 * d2s - d22 * d1s in
      let tN := d11 * d2s - d12 * d1s in
      if ltb sN 0 then (0, discr, d2s, d22)                          (* s0_visible *)
      else if ltb discr sN then (discr, discr, d12 + d2s, d22)       (* s1_visible *)
      else (sN, discr, tN, discr).

  Definition stage2 (d11 d1s : T) (q : quad) : quad :=
    let '(sN, sD, tN, tD) := q in
    if ltb tN 0 then                                                  (* t0_visible *)
      if ltb 0 d1s then (0, sD, 0, tD)
      else if ltb d11 (- d1s) then (sD, sD, 0, tD)
      else (- d1s, d11, 0, tD)
    else q.

  Definition stage3 (d11 d12 d1s : T) (q : quad) : quad :=
    let '(sN, sD, tN, tD) := q in
    if ltb tD tN then                                                 (* t1_visible *)
      let e := - d1s + d12 in
      if ltb e 0 then (0, sD, tD, tD)
      else if ltb d11 e then (sD, sD, tD, tD)
      else (e, d11, tD, tD)
    else q.

  (* sc = sN/sD; sc[sN < SMALL] = 0 *)
  Definition ratio (small n d : T) : res T :=
    if ltb n small then Ok 0
    else if leb d 0 && leb 0 d then Err NanErr
    else Ok (n / d).

  (* one segment (c,d) of the set against the main segment (a,b):
     (dist**2, closest point on the main segment, closest point on (c,d), sc, tc) *)
  Definition seg_seg (small : T) (a b c d : v3) : res (T * v3 * v3 * T * T) :=
    let d1 := vsub b a in
    let d2 := vsub d c in
    let ds := vsub a c in
    let d11 := dot d1 d1 in let d12 := dot d1 d2 in let d22 := dot d2 d2 in
    let d1s := dot d1 ds in let d2s := dot d2 ds in
    let q := stage3 d11 d12 d1s (stage2 d11 d1s (stage1 small d11 d12 d22 d1s d2s)) in
    let '(sN, sD, tN, tD) := q in
    match ratio small sN sD, ratio small tN tD with
    | Ok sc, Ok tc =>
        let dist := vsub (vadd ds (vscale sc d1)) (vscale tc d2) in
        Ok (normsq dist, vadd a (vscale sc d1), vadd c (vscale tc d2), sc, tc)
    | _, _ => Err NanErr
    end.

  Definition tmin (x y : T) : T := if ltb y x then y else x.

  (* SMALL_TOLERANCE = 1e-8 * np.minimum(dot_1_1, np.min(dot_2_2)) *)
  Definition small_tol (a b : v3) (set : list (v3 * v3)) : T :=
    let d1 := vsub b a in
    let m := fold_right (fun s acc => let d2 := vsub (snd s) (fst s) in tmin (dot d2 d2) acc)
                        (dot d1 d1) set in
    n_atol T ops * m.

  Definition seg_seg_set (a b : v3) (set : list (v3 * v3)) : list (res (T * v3 * v3 * T * T)) :=
    let small := small_tol a b set in
    map (fun s => seg_seg small a b (fst s) (snd s)) set.
End Model.

(* ------------------------------------------------ comparison with numpy output *)
(* impl gives the distance: compare its square with the model's squared distance *)
Definition agree_pp (p q : v3 Q) (dist : Q) : bool :=
  close (dist * dist) (point_point_sq Q QO p q).

Definition agree_ps (p a b : v3 Q) (out : res (list Q)) : bool :=
  match point_segment Q QO p a b, out with
  | Ok (d2, cp), Ok (dist :: cpl) => close (dist * dist) d2 && close_list cpl (v3l cp)
  | Err e, Err e' => err_eqb e e'
  | _, _ => false
  end.

Fixpoint agree_ss_list (model : list (res (Q * v3 Q * v3 Q * Q * Q))) (outs : list (res (list Q)))
  : bool :=
  match model, outs with
  | [], [] => true
  | Ok (d2, cp1, cp2, _, _) :: m', Ok (dist :: l) :: o' =>
      close (dist * dist) d2 && close_list l (v3l cp1 ++ v3l cp2) && agree_ss_list m' o'
  | Err e :: m', Err e' :: o' => err_eqb e e' && agree_ss_list m' o'
  | _, _ => false
  end.

Definition agree_ss (a b : v3 Q) (set : list (v3 Q * v3 Q)) (outs : list (res (list Q))) : bool :=
  agree_ss_list (seg_seg_set Q QO a b set) outs.
