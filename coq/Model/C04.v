(* C04 — discrete conservation of the balance equations (mass, energy) on a
   mixed-dimensional grid.  Executable definitions only.

   What is transcribed (porepy/models/abstract_equations.py, fluid_mass_balance.py,
   energy_balance.py, constitutive_laws.py:AdvectiveFlux, numerics/fv/upwind.py,
   numerics/ad/grid_operators.py):

     balance_equation = dt(accumulation) + Divergence @ flux - source
     Divergence       = block-diagonal of sd.cell_faces.T over all subdomains
     flux             = (intrinsic face flux) + B_neu @ mortar_to_primary_int @ lambda
                        with B_neu[f,f] = sgn_div[f] = sd.divergence(1).sum(axis=0)[f]
                        (the column sum of the divergence) on Neumann/internal-boundary
                        faces
     source           = mortar_to_secondary_int @ lambda  (+ external source)

   Matrices are kept as scipy stores them in COO form: lists of (row, column, value)
   triples over the md-wide numbering (cells of all subdomains, faces of all subdomains,
   mortar cells of all interfaces, concatenated as pp.ad does).  The definitions are
   written once over the operations of an arbitrary commutative ring (Section Generic) and
   instantiated with Q for execution. *)
From Coq Require Import List ZArith QArith Qabs Bool Arith.
Import ListNotations.

Section Generic.
  Variable R : Type.
  Variables (rO rI : R) (radd rmul rsub : R -> R -> R) (ropp : R -> R).

  Definition rsum (l : list R) : R := fold_right radd rO l.
  Definition sumover {A : Type} (l : list A) (g : A -> R) : R := rsum (map g l).

  (* an entry of cell_faces: +1 or -1 (anything else counts as 0 and is rejected by the
     well-formedness condition) *)
  Definition zR (s : Z) : R :=
    if (s =? 1)%Z then rI else if (s =? -1)%Z then ropp rI else rO.

  (* Divergence in COO form: (cell, face, sign) *)
  Definition inc := (nat * nat * Z)%type.
  Definition i_cell (t : inc) : nat := fst (fst t).
  Definition i_face (t : inc) : nat := snd (fst t).
  Definition i_sgn (t : inc) : Z := snd t.

  (* integrated mortar projection in COO form: (row, mortar cell, weight); the row is a
     face number (mortar_to_primary_int) or a cell number (mortar_to_secondary_int) *)
  Definition wtr := (nat * nat * R)%type.
  Definition w_row (t : wtr) : nat := fst (fst t).
  Definition w_mortar (t : wtr) : nat := snd (fst t).
  Definition w_val (t : wtr) : R := snd t.

  Definition col_entries (D : list inc) (f : nat) : list inc :=
    filter (fun t => Nat.eqb (i_face t) f) D.
  Definition row_entries (D : list inc) (c : nat) : list inc :=
    filter (fun t => Nat.eqb (i_cell t) c) D.

  (* (Divergence @ q)[c] *)
  Definition div_cell (D : list inc) (q : nat -> R) (c : nat) : R :=
    sumover (row_entries D c) (fun t => rmul (zR (i_sgn t)) (q (i_face t))).

  (* sgn_div[f] = divergence.sum(axis=0)[f] *)
  Definition colsum (D : list inc) (f : nat) : R :=
    sumover (col_entries D f) (fun t => zR (i_sgn t)).

  (* a face with exactly one neighbouring cell *)
  Definition is_boundary (D : list inc) (f : nat) : bool :=
    match col_entries D f with [_] => true | _ => false end.

  (* (P @ lam)[i] *)
  Definition proj (P : list wtr) (lam : nat -> R) (i : nat) : R :=
    sumover (filter (fun t => Nat.eqb (w_row t) i) P)
            (fun t => rmul (w_val t) (lam (w_mortar t))).

  (* column sum of a projection: everything mortar cell m hands over *)
  Definition pcolsum (P : list wtr) (m : nat) : R :=
    sumover (filter (fun t => Nat.eqb (w_mortar t) m) P) w_val.

  (* face flux: intrinsic part a (Darcy/Fourier/upwind expressions of the state) plus the
     interface flux entering as Neumann data with the sign of the divergence *)
  Definition flux (D : list inc) (Pp : list wtr) (a lam : nat -> R) (f : nat) : R :=
    radd (a f) (rmul (colsum D f) (proj Pp lam f)).

  Definition source (Ps : list wtr) (lam ext : nat -> R) (c : nat) : R :=
    radd (proj Ps lam c) (ext c).

  (* residual of the balance equation in cell c; acc = dt(accumulation) *)
  Definition residual (D : list inc) (Pp Ps : list wtr) (acc a lam ext : nat -> R)
             (c : nat) : R :=
    rsub (radd (acc c) (div_cell D (flux D Pp a lam) c)) (source Ps lam ext c).

  (* The same with possibly DIFFERENT interface fluxes on the two sides of the coupling:
     lamf enters the face fluxes of the higher-dimensional cells, lams the source of the
     lower-dimensional cells.  With the standard constitutive laws lamf = lams; with
     constitutive_laws.AdTpfaFlux (DarcysLawAd / FouriersLawAd) the diffusive interface flux
     is applied on EXTERNAL Neumann faces only (neu_bnd = external_neu_filter * bnd_sgn), so it
     is missing from lamf while it is part of lams. *)
  Definition residual2 (D : list inc) (Pp Ps : list wtr) (acc a lamf lams ext : nat -> R)
             (c : nat) : R :=
    rsub (radd (acc c) (div_cell D (flux D Pp a lamf) c)) (source Ps lams ext c).

  Definition total (n : nat) (g : nat -> R) : R := sumover (seq 0 n) g.
End Generic.

Arguments sumover {R} rO radd {A} l g.
Arguments i_cell t /.
Arguments i_face t /.
Arguments i_sgn t /.
Arguments w_row {R} t /.
Arguments w_mortar {R} t /.
Arguments w_val {R} t /.

(* ------------------------------------------------------------------------------------ *)
(* Instance used for execution: Q. *)
Open Scope Q_scope.

Definition qsumover {A} := @sumover Q 0 Qplus A.
Definition qcolsum := colsum Q 0 1 Qplus Qopp.
Definition qproj := proj Q 0 Qplus Qmult.
Definition qpcolsum := pcolsum Q 0 Qplus.
Definition qflux := flux Q 0 1 Qplus Qmult Qopp.
Definition qdiv := div_cell Q 0 1 Qplus Qmult Qopp.
Definition qsource := source Q 0 Qplus Qmult.
Definition qresidual := residual Q 0 1 Qplus Qmult Qminus Qopp.
Definition qresidual2 := residual2 Q 0 1 Qplus Qmult Qminus Qopp.
Definition qtotal := total Q 0 Qplus.

(* The structure of one md-grid as the harness reads it from the real operators. *)
Record structure := {
  s_nc : nat;              (* cells of all subdomains *)
  s_nf : nat;              (* faces of all subdomains *)
  s_nm : nat;              (* mortar cells of all interfaces *)
  s_div : list inc;        (* pp.ad.Divergence(subdomains).parse(mdg), COO *)
  s_pp : list (wtr Q);     (* MortarProjections.mortar_to_primary_int, COO *)
  s_ps : list (wtr Q) }.   (* MortarProjections.mortar_to_secondary_int, COO *)

(* every face: one entry +-1 (boundary) or one +1 and one -1 (interior) *)
Definition face_ok (D : list inc) (f : nat) : bool :=
  match col_entries D f with
  | [t] => ((i_sgn t =? 1) || (i_sgn t =? -1))%Z
  | [t1; t2] => (((i_sgn t1 =? 1) && (i_sgn t2 =? -1)) || ((i_sgn t1 =? -1) && (i_sgn t2 =? 1)))%Z
  | _ => false
  end.

Definition cert_ok (S : structure) : bool :=
  forallb (fun t => (i_cell t <? s_nc S)%nat && (i_face t <? s_nf S)%nat) (s_div S)
  && forallb (face_ok (s_div S)) (seq 0 (s_nf S))
  && forallb (fun t => (w_row t <? s_nf S)%nat && is_boundary (s_div S) (w_row t)
                       && (w_mortar t <? s_nm S)%nat) (s_pp S)
  && forallb (fun t => (w_row t <? s_nc S)%nat && (w_mortar t <? s_nm S)%nat) (s_ps S)
  && forallb (fun m => Qeq_bool (qpcolsum (s_pp S) m) 1 && Qeq_bool (qpcolsum (s_ps S) m) 1)
             (seq 0 (s_nm S)).

(* Non-matching mortar / fracture grids: the integrated projections have entries such as
   1/3 that are not binary fractions, so their float column sums are 1 only up to rounding.
   The supports are checked exactly, the column sums within 1e-12. *)
Definition cert_supp (S : structure) : bool :=
  forallb (fun t => (i_cell t <? s_nc S)%nat && (i_face t <? s_nf S)%nat) (s_div S)
  && forallb (face_ok (s_div S)) (seq 0 (s_nf S))
  && forallb (fun t => (w_row t <? s_nf S)%nat && is_boundary (s_div S) (w_row t)
                       && (w_mortar t <? s_nm S)%nat) (s_pp S)
  && forallb (fun t => (w_row t <? s_nc S)%nat && (w_mortar t <? s_nm S)%nat) (s_ps S).
Definition near_one (x : Q) : bool := Qle_bool (Qabs (x - 1)) (1 # 1000000000000).
Definition cert_ok_tol (S : structure) : bool :=
  cert_supp S
  && forallb (fun m => near_one (qpcolsum (s_pp S) m) && near_one (qpcolsum (s_ps S) m))
             (seq 0 (s_nm S)).

(* ------------------------------------------------------------------------------------ *)
(* Comparison with what the real operators evaluate to at one state. *)
Record evaluation := {
  e_acc : list Q;      (* dt(accumulation) per cell *)
  e_flux : list Q;     (* the model's flux operator per face *)
  e_lam : list Q;      (* total interface flux per mortar cell (enters the source) *)
  e_lamf : list Q;     (* interface flux that enters the face fluxes (= e_lam unless a
                          differentiable diffusive law leaves its interface flux out) *)
  e_src : list Q;      (* the model's source operator per cell *)
  e_div : list Q;      (* Divergence @ flux per cell *)
  e_res : list Q }.    (* the balance equation per cell *)

Definition vec (l : list Q) (i : nat) : Q := nth i l 0.
Definition sumabs (l : list Q) : Q := fold_right (fun x s => Qabs x + s) 0 l.
Definition qsum (l : list Q) : Q := fold_right Qplus 0 l.

Definition scale_of (E : evaluation) : Q :=
  Qred (1 + sumabs (e_acc E) + sumabs (e_flux E) + sumabs (e_lam E) + sumabs (e_lamf E)).

Definition close (sc a b : Q) : bool :=
  Qle_bool (Qabs (a - b)) ((1 # 1000000000) * sc).

Fixpoint all2 {A} (f : A -> A -> bool) (a b : list A) : bool :=
  match a, b with
  | [], [] => true
  | x :: r, y :: s => f x y && all2 f r s
  | _, _ => false
  end.

(* intrinsic flux: the real flux on faces with two neighbours; a closed boundary and
   Neumann-type internal boundaries carry no intrinsic flux *)
Definition intrinsic (S : structure) (E : evaluation) (f : nat) : Q :=
  if is_boundary (s_div S) f then 0 else vec (e_flux E) f.

Definition model_flux (S : structure) (E : evaluation) : list Q :=
  map (fun f => Qred (qflux (s_div S) (s_pp S) (intrinsic S E) (vec (e_lamf E)) f))
      (seq 0 (s_nf S)).
Definition model_src (S : structure) (E : evaluation) : list Q :=
  map (fun c => Qred (qsource (s_ps S) (vec (e_lam E)) (fun _ => 0) c)) (seq 0 (s_nc S)).
Definition model_div (S : structure) (E : evaluation) : list Q :=
  let q := vec (model_flux S E) in
  map (fun c => Qred (qdiv (s_div S) q c)) (seq 0 (s_nc S)).
Definition model_res (S : structure) (E : evaluation) : list Q :=
  map (fun c => Qred (qresidual2 (s_div S) (s_pp S) (s_ps S) (vec (e_acc E)) (intrinsic S E)
                                 (vec (e_lamf E)) (vec (e_lam E)) (fun _ => 0) c)) (seq 0 (s_nc S)).

Definition agree_eval (S : structure) (E : evaluation) : bool :=
  let sc := scale_of E in
  (length (e_acc E) =? s_nc S)%nat && (length (e_lam E) =? s_nm S)%nat
  && (length (e_lamf E) =? s_nm S)%nat
  && all2 (close sc) (model_flux S E) (e_flux E)
  && all2 (close sc) (model_src S E) (e_src E)
  && all2 (close sc) (model_div S E) (e_div E)
  && all2 (close sc) (model_res S E) (e_res E)
  (* the conservation identity on the real residuals, with the deficit the model predicts
     when the two interface fluxes differ (zero when they are the same) *)
  && close sc (qsum (e_res E)) (qsum (e_acc E) + qsum (e_lamf E) - qsum (e_lam E)).

(* exact = the grids match (all projection entries are binary fractions): exact certificate;
   otherwise the certificate with column sums within 1e-12 *)
Definition agree (exact : bool) (S : structure) (Es : list evaluation) : bool :=
  (if exact then cert_ok S else cert_ok_tol S) && forallb (agree_eval S) Es.

(* Constructors used by the generated case files: indices are written as binary integers
   (unary nat literals make the case files slow to read). *)
Definition zinc (c f s : Z) : inc := (Z.to_nat c, Z.to_nat f, s).
Definition zw (r m : Z) (w : Q) : wtr Q := (Z.to_nat r, Z.to_nat m, w).
Definition zstructure (nc nf nm : Z) (D : list inc) (Pp Ps : list (wtr Q)) : structure :=
  {| s_nc := Z.to_nat nc; s_nf := Z.to_nat nf; s_nm := Z.to_nat nm;
     s_div := D; s_pp := Pp; s_ps := Ps |}.
