(* C25 — conforming fractured mixed-dimensional grids.  Executable definitions only.

   Part A: the combinatorial core of porepy/fracs/split_grid.py:split_faces on an
   incidence model — duplicate_faces / _duplicate_specific_faces, _update_face_cells,
   update_cell_connectivity (the side test of point_inside_half_space_intersection is
   computed exactly: (x_c - x0).n <= 0), frac_pairs bookkeeping.  Transcribed branch by
   branch, including: faces that already carry a standard tag are tagged as fracture
   faces but NOT duplicated; a fracture with all neighbour cells on one side makes the
   duplicated faces disappear again (flag -1) although the face-cell maps were already
   extended; the ValueError / AssertionError exits.

   Part B: the conformity certificate evaluated on the data of a real md-grid
   (per interface: lower-dimensional cells with the host faces they are coupled to,
   mortar cells; per host grid: tagged and coupled faces; top grid: cell volumes). *)
From Coq Require Import List QArith Qabs Bool Arith ZArith.
Import ListNotations.
From PP Require Import Model.C29.
Open Scope Q_scope.

Definition vec := list Q.

Fixpoint vdot (a b : vec) : Q :=
  match a, b with x :: r, y :: s => x * y + vdot r s | _, _ => 0 end.
Fixpoint vsub (a b : vec) : vec :=
  match a, b with x :: r, y :: s => (x - y) :: vsub r s | _, _ => [] end.
Fixpoint vadd (a b : vec) : vec :=
  match a, b with x :: r, y :: s => (x + y) :: vadd r s | _, _ => [] end.

(* ================================================================== Part A *)
Inductive serr := SValueErr | SAssertErr.

(* face geometry: centre, normal, area *)
Definition fgeom := (vec * vec * Q)%type.
Definition gdef : fgeom := ([], [], 0).

Record grid := mkGrid {
  g_nf : nat;                          (* num_faces *)
  g_cf : list (nat * nat * Z);         (* cell_faces: (face, cell, sign) *)
  g_geom : list fgeom;                 (* per face *)
  g_tF : list bool;                    (* tags: fracture_faces *)
  g_tT : list bool;                    (*       tip_faces *)
  g_tB : list bool;                    (*       domain_boundary_faces *)
  g_pairs : list (nat * nat)           (* frac_pairs columns (left, right) *)
}.

Definition fmap := list (nat * nat).   (* face_cells of one lower grid: (cell, face) *)

Fixpoint pos (f : nat) (l : list nat) : option nat :=
  match l with
  | [] => None
  | x :: r => if (f =? x)%nat then Some 0%nat else option_map S (pos f r)
  end.

Definition memb (f : nat) (l : list nat) : bool :=
  match pos f l with Some _ => true | None => false end.

Definition set_at (v : bool) (ids : list nat) (t : list bool) : list bool :=
  map (fun kb => if memb (fst kb) ids then v else snd kb) (indexed t).

Definition has_tag (g : grid) (f : nat) : bool :=
  nth f (g_tF g) false || nth f (g_tT g) false || nth f (g_tB g) false.

(* duplicate_faces: returns the grid with the copies appended and the faces duplicated *)
Definition duplicate_faces (g : grid) (fc : fmap) : grid * list nat :=
  let ids := usort (map snd fc) in
  let tagged := filter (has_tag g) ids in
  let d := filter (fun f => negb (has_tag g f)) ids in
  let tF1 := set_at true tagged (g_tF g) in
  let tT1 := set_at false ids (g_tT g) in
  match d with
  | [] => (mkGrid (g_nf g) (g_cf g) (g_geom g) tF1 tT1 (g_tB g) (g_pairs g), [])
  | _ :: _ =>
      let tF2 := set_at true d tF1 in
      (mkGrid (g_nf g + length d) (g_cf g)
              (g_geom g ++ map (fun f => nth f (g_geom g) gdef) d)
              (tF2 ++ map (fun f => nth f tF2 false) d)
              (tT1 ++ map (fun f => nth f tT1 false) d)
              (g_tB g ++ map (fun f => nth f (g_tB g) false) d)
              (g_pairs g), d)
  end.

(* _update_face_cells for the target map: the copy of face d[k] has number nf0 + k *)
Definition extend_fmap (nf0 : nat) (d : list nat) (fc : fmap) : fmap :=
  fc ++ flat_map (fun kf => map (fun cf => (fst cf, (nf0 + fst kf)%nat))
                                (filter (fun cf => (snd cf =? snd kf)%nat) fc))
                 (indexed d).

Fixpoint update_nth {A} (i : nat) (f : A -> A) (l : list A) : list A :=
  match l, i with
  | [], _ => []
  | x :: r, O => f x :: r
  | x :: r, S i' => x :: update_nth i' f r
  end.

Inductive flag := Split | OnBoundary.

(* update_cell_connectivity; nf0 = number of faces before the duplication *)
Definition update_cell_connectivity (g : grid) (nf0 : nat) (d : list nat) (left : nat -> bool)
  : serr + (grid * flag) :=
  let ent := filter (fun t => memb (fst (fst t)) d) (g_cf g) in
  let nl := length (filter (fun t => left (snd (fst t))) ent) in
  if (nl =? length ent)%nat || (nl =? 0)%nat then
    (* remove_faces(sd, arange(cell_faces.shape[0], num_faces), rem_cell_faces=False) *)
    inr (mkGrid nf0 (g_cf g) (firstn nf0 (g_geom g)) (firstn nf0 (g_tF g))
                (firstn nf0 (g_tT g)) (firstn nf0 (g_tB g)) (g_pairs g), OnBoundary)
  else if negb (nl * 2 =? length ent)%nat then inl SValueErr
  else if negb (nl =? length d)%nat then inl SAssertErr
  else
    inr (mkGrid (g_nf g)
                (map (fun t => match pos (fst (fst t)) d with
                               | Some k => if left (snd (fst t))
                                           then ((nf0 + k)%nat, snd (fst t), snd t) else t
                               | None => t
                               end) (g_cf g))
                (g_geom g) (g_tF g) (g_tT g) (g_tB g) (g_pairs g), Split).

(* the side test for the fracture whose first duplicated face is f0 *)
Definition left_of (g : grid) (centers : list vec) (f0 : nat) (c : nat) : bool :=
  let '(x0, n, _) := nth f0 (g_geom g) gdef in
  Qle_bool (vdot (vsub (nth c centers []) x0) n) 0.

(* split_faces: loop over the lower-dimensional neighbours *)
Fixpoint split_loop (centers : list vec) (todo : list nat) (g : grid) (fcs : list fmap)
  : serr + (grid * list fmap) :=
  match todo with
  | [] => inr (g, fcs)
  | i :: rest =>
      let nf0 := g_nf g in
      let (g1, d) := duplicate_faces g (nth i fcs []) in
      match d with
      | [] => split_loop centers rest g1 fcs
      | f0 :: _ =>
          let fcs1 := update_nth i (extend_fmap nf0 d) fcs in
          match update_cell_connectivity g1 nf0 d (left_of g1 centers f0) with
          | inl e => inl e
          | inr (g2, Split) =>
              let g3 := mkGrid (g_nf g2) (g_cf g2) (g_geom g2) (g_tF g2) (g_tT g2) (g_tB g2)
                               (g_pairs g2 ++ map (fun kf => (snd kf, (nf0 + fst kf)%nat)) (indexed d)) in
              split_loop centers rest g3 fcs1
          | inr (g2, OnBoundary) => split_loop centers rest g2 fcs1
          end
      end
  end.

Definition split_faces (centers : list vec) (g : grid) (fcs : list fmap) :=
  split_loop centers (seq 0 (length fcs)) (mkGrid (g_nf g) (g_cf g) (g_geom g) (g_tF g) (g_tT g) (g_tB g) []) fcs.

(* ---------------- comparison with the implementation (Cartesian grids: exact) *)
Fixpoint list_eqb {A} (eq : A -> A -> bool) (a b : list A) : bool :=
  match a, b with
  | [], [] => true
  | x :: r, y :: s => eq x y && list_eqb eq r s
  | _, _ => false
  end.
Definition vec_eqb := list_eqb Qeq_bool.
Definition geom_eqb (a b : fgeom) : bool :=
  vec_eqb (fst (fst a)) (fst (fst b)) && vec_eqb (snd (fst a)) (snd (fst b)) && Qeq_bool (snd a) (snd b).
Definition trip_eqb (a b : nat * nat * Z) : bool :=
  (fst (fst a) =? fst (fst b))%nat && (snd (fst a) =? snd (fst b))%nat && (snd a =? snd b)%Z.
Definition pair_eqb (a b : nat * nat) : bool := (fst a =? fst b)%nat && (snd a =? snd b)%nat.

(* set comparison of lists without repetitions on the implementation's side *)
Definition same_set {A} (eq : A -> A -> bool) (a b : list A) : bool :=
  (length a =? length b)%nat && forallb (fun x => existsb (eq x) b) a
  && forallb (fun y => existsb (fun x => eq x y) a) b.

Definition grid_agree (impl model : grid) : bool :=
  (g_nf impl =? g_nf model)%nat && same_set trip_eqb (g_cf impl) (g_cf model)
  && list_eqb geom_eqb (g_geom impl) (g_geom model)
  && list_eqb Bool.eqb (g_tF impl) (g_tF model) && list_eqb Bool.eqb (g_tT impl) (g_tT model)
  && list_eqb Bool.eqb (g_tB impl) (g_tB model) && list_eqb pair_eqb (g_pairs impl) (g_pairs model).

Inductive split_out :=
| SOk (g : grid) (fcs : list fmap)
| SErr (e : serr).

Definition serr_eqb (a b : serr) : bool :=
  match a, b with SValueErr, SValueErr | SAssertErr, SAssertErr => true | _, _ => false end.

Definition split_agree (centers : list vec) (g : grid) (fcs : list fmap) (io : split_out) : bool :=
  match io, split_faces centers g fcs with
  | SOk gi fi, inr (gm, fm) => grid_agree gi gm && list_eqb (same_set pair_eqb) fi fm
  | SErr e, inl e' => serr_eqb e e'
  | _, _ => false
  end.

(* ================================================================== Part B *)
Definition ctol : Q := 1 # 1000000000.
Definition qnear (x y : Q) : bool := Qle_bool (Qabs (x - y)) (ctol * (1 + Qabs y)).
Fixpoint vnear (a b : vec) : bool :=
  match a, b with
  | [], [] => true
  | x :: r, y :: s => qnear x y && vnear r s
  | _, _ => false
  end.
Fixpoint vzero (a : vec) : bool :=
  match a with [] => true | x :: r => Qle_bool (Qabs x) ctol && vzero r end.

(* a host face as seen from an interface *)
Record hface := mkHF {
  hf_id : nat;
  hf_centre : vec;
  hf_area : Q;
  hf_nout : vec;       (* normal * sign of the face in its only cell = outward normal *)
  hf_ncells : nat;     (* number of cells of the host the face belongs to *)
  hf_tag : bool        (* host tag fracture_faces *)
}.

Record lcell := mkLC {
  lc_centre : vec;
  lc_vol : Q;
  lc_faces : list hface    (* the host faces coupled to this cell by face_cells *)
}.

Record mcell := mkMC {
  mc_centre : vec;
  mc_vol : Q;
  mc_low : list (nat * Q);     (* row of secondary_to_mortar_int: (lower cell, weight) *)
  mc_face : list (nat * Q)     (* row of primary_to_mortar_int: (host face, weight) *)
}.

(* the fracture a codimension-one grid discretises: 2-D end points / 3-D three vertices *)
Inductive fracture :=
| NoFrac
| Line (a b : vec)
| Plane (v0 v1 v2 : vec).

Record iface := mkIF {
  if_sides : nat;
  if_cells : list lcell;
  if_mortar : list mcell;
  if_frac : fracture;
  if_pts : list vec          (* cell centres and nodes of the lower grid *)
}.

Definition cross3 (a b : vec) : vec :=
  match a, b with
  | [a0; a1; a2], [b0; b1; b2] => [a1 * b2 - a2 * b1; a2 * b0 - a0 * b2; a0 * b1 - a1 * b0]
  | _, _ => []
  end.

Definition on_fracture (fr : fracture) (p : vec) : bool :=
  match fr with
  | NoFrac => true
  | Line a b =>
      let d := vsub b a in let w := vsub p a in
      match d, w with
      | [dx; dy; _], [wx; wy; _] =>
          Qle_bool (Qabs (dx * wy - dy * wx)) (ctol * (1 + vdot d d)) &&
          Qle_bool (- ctol) (vdot w d) && Qle_bool (vdot w d) (vdot d d + ctol)
      | _, _ => false
      end
  | Plane v0 v1 v2 =>
      let n := cross3 (vsub v1 v0) (vsub v2 v0) in
      Qle_bool (Qabs (vdot n (vsub p v0))) (ctol * (1 + vdot n n))
  end.

(* one lower cell: coupled to exactly [sides] host faces, which coincide with it in
   centre and measure, are split (one host cell each), tagged, and — when two — have
   opposite outward normals *)
Definition lcell_ok (sides : nat) (c : lcell) : bool :=
  (length (lc_faces c) =? sides)%nat &&
  forallb (fun f => vnear (hf_centre f) (lc_centre c) && qnear (hf_area f) (lc_vol c)
                    && (hf_ncells f =? 1)%nat && hf_tag f) (lc_faces c) &&
  match lc_faces c with
  | [f1; f2] => vzero (vadd (hf_nout f1) (hf_nout f2)) && negb (hf_id f1 =? hf_id f2)%nat
  | [_] => true
  | _ => false
  end.

(* one mortar cell: exactly one lower cell and one host face with unit weights, the face
   is coupled to that cell, same centre and measure *)
Definition mcell_ok (cells : list lcell) (m : mcell) : bool :=
  match mc_low m, mc_face m with
  | [(c, wc)], [(f, wf)] =>
      Qeq_bool wc 1 && Qeq_bool wf 1 &&
      match nth_error cells c with
      | Some lc => existsb (fun hf => (hf_id hf =? f)%nat) (lc_faces lc)
                   && vnear (mc_centre m) (lc_centre lc) && qnear (mc_vol m) (lc_vol lc)
      | None => false
      end
  | _, _ => false
  end.

Fixpoint chunks {A} (n : nat) (k : nat) (l : list A) : list (list A) :=
  match k with O => [] | S k' => firstn n l :: chunks n k' (skipn n l) end.

Fixpoint nat_nodup (l : list nat) : bool :=
  match l with [] => true | x :: r => negb (existsb (Nat.eqb x) r) && nat_nodup r end.

Definition mortar_lows (ms : list mcell) : list nat := flat_map (fun m => map fst (mc_low m)) ms.
Definition mortar_faces (ms : list mcell) : list nat := flat_map (fun m => map fst (mc_face m)) ms.

(* every side of the mortar grid has one mortar cell per lower cell (number), of its
   size (mcell_ok), and the mortar cells use every coupled face exactly once *)
Definition sides_ok (it : iface) : bool :=
  let n := length (if_cells it) in
  (length (if_mortar it) =? if_sides it * n)%nat &&
  forallb (fun side => nat_nodup (mortar_lows side) && (length (mortar_lows side) =? n)%nat)
          (chunks n (if_sides it) (if_mortar it)) &&
  nat_nodup (mortar_faces (if_mortar it)) &&
  (length (mortar_faces (if_mortar it)) =? length (flat_map lc_faces (if_cells it)))%nat.

Definition iface_ok (it : iface) : bool :=
  ((if_sides it =? 1)%nat || (if_sides it =? 2)%nat) &&
  forallb (lcell_ok (if_sides it)) (if_cells it) &&
  forallb (mcell_ok (if_cells it)) (if_mortar it) &&
  sides_ok it &&
  forallb (on_fracture (if_frac it)) (if_pts it).

(* per host grid: the faces tagged fracture_faces are exactly the coupled ones *)
Definition tags_ok (tagged coupled : list nat) : bool :=
  forallb (fun f => existsb (Nat.eqb f) coupled) tagged &&
  forallb (fun f => existsb (Nat.eqb f) tagged) coupled.

Definition qsum (l : list Q) : Q := fold_right Qplus 0 l.

Record mdgdata := mkMDG {
  md_ifaces : list iface;
  md_hosts : list (list nat * list nat);   (* per host grid: tagged faces, coupled faces *)
  md_vols : list Q;                        (* cell volumes of the top-dimensional grid *)
  md_domain : Q                            (* measure of the domain *)
}.

Definition conform (d : mdgdata) : bool :=
  forallb iface_ok (md_ifaces d) &&
  forallb (fun h => tags_ok (fst h) (snd h)) (md_hosts d) &&
  qnear (qsum (md_vols d)) (md_domain d).

(* ------------------------------------------------------------------ requested geometry
   (added after the first round; the definitions above are unchanged)
   The md-grid against what was ASKED for: every fracture grid (and, in 3-D with two
   rectangles, the intersection line grids together) has the measure of the requested
   fracture; the host grid spans exactly the requested domain box; one fracture grid per
   requested fracture. *)
Record request := mkREQ {
  rq_meas : list (list Q * Q);     (* (cell volumes of a lower grid, requested measure) *)
  rq_span : list (Q * Q);          (* per axis: min / max node coordinate of the host *)
  rq_box : list (Q * Q);           (* per axis: requested domain min / max *)
  rq_ngrids : nat;                 (* number of codimension-one grids *)
  rq_nfracs : nat                  (* number of requested fractures *)
}.

Fixpoint span_ok (a b : list (Q * Q)) : bool :=
  match a, b with
  | [], [] => true
  | x :: r, y :: s => qnear (fst x) (fst y) && qnear (snd x) (snd y) && span_ok r s
  | _, _ => false
  end.

Definition request_ok (r : request) : bool :=
  forallb (fun m => qnear (qsum (fst m)) (snd m)) (rq_meas r) &&
  span_ok (rq_span r) (rq_box r) && (rq_ngrids r =? rq_nfracs r)%nat.

Definition conform_req (d : mdgdata) (r : request) : bool := conform d && request_ok r.

(* ------------------------------------------------------------------ fracture extents
   (third round, additive): every fracture grid spans, on every axis, exactly the extent of
   the fracture it discretises — for structured grids the fracture SNAPPED to the nearest
   grid planes, computed exactly by the harness from the requested decimal coordinates. *)
Definition extents_ok (ext : list (list (Q * Q) * list (Q * Q))) : bool :=
  forallb (fun e => span_ok (fst e) (snd e)) ext.

Definition conform_req2 (d : mdgdata) (r : request) (ext : list (list (Q * Q) * list (Q * Q))) : bool :=
  conform_req d r && extents_ok ext.

(* ------------------------------------------------------------------ reduced sums
   (additive): the same certificate with sums that are normalised after every addition —
   unreduced sums of n binary64 values carry denominators of ~52 n bits, which made grids
   with thousands of cells slow.  Equivalence with [conform_req2] is proved in Proofs/C25.v. *)
Definition qsum_r (l : list Q) : Q := fold_right (fun x acc => Qred (x + acc)) 0 l.

Definition conform_f (d : mdgdata) : bool :=
  forallb iface_ok (md_ifaces d) &&
  forallb (fun h => tags_ok (fst h) (snd h)) (md_hosts d) &&
  qnear (qsum_r (md_vols d)) (md_domain d).

Definition request_ok_f (r : request) : bool :=
  forallb (fun m => qnear (qsum_r (fst m)) (snd m)) (rq_meas r) &&
  span_ok (rq_span r) (rq_box r) && (rq_ngrids r =? rq_nfracs r)%nat.

Definition conform_req3 (d : mdgdata) (r : request) (ext : list (list (Q * Q) * list (Q * Q))) : bool :=
  conform_f d && request_ok_f r && extents_ok ext.

(* ------------------------------------------------------------------ coupling completeness
   (additive): for every pair (grid of dimension d, grid of dimension d-1) the faces of the
   first whose centre coincides with a cell centre of the second are exactly the faces an
   interface between the two grids couples (no interface: no coupled face). *)
Definition incidence_ok (inc : list (list nat * list nat)) : bool :=
  forallb (fun p => tags_ok (fst p) (snd p)) inc.

Definition conform_req4 (d : mdgdata) (r : request) (ext : list (list (Q * Q) * list (Q * Q)))
           (inc : list (list nat * list nat)) : bool :=
  conform_req3 d r ext && incidence_ok inc.
