(* C13 — MPSA (weakly symmetric W-method) linear exactness: method-level model +
   per-instance certificate.  Same structure as C11 (whose field-operation record, dyadic
   arithmetic and literal decoding are reused), for vector unknowns.

   Part A — interaction region (any dimension d, any number m of sub-cells): the unknowns
   of the local problem of porepy/numerics/fv/mpsa.py:_create_inverse_gradient_matrix are
   one displacement gradient (d x d) per sub-cell.  Local equations, one per component:
   traction continuity over interior sub-faces (symmetric part of Hooke's law only, as in
   the code: "ncsym"), displacement continuity at the continuity point, displacement
   condition on Dirichlet sub-faces, traction condition on Neumann sub-faces with the
   weakly symmetric Hooke law (the transposed off-diagonal part of the gradient is taken
   from the volume-weighted average over the region, "ncasym"; it is dropped when the region
   has more Neumann sub-faces than sub-cells, mpsa.py:_eliminate_ncasym).

   Part B — matrix level: stress, bound_stress, bound_displacement_cell,
   bound_displacement_face as coordinate lists and the residuals for u(x) = b + A x.

   Executable definitions only. *)
From Coq Require Import List ZArith Bool Arith QArith Qabs.
Import ListNotations.
From PP Require Import Model.C11.
Local Open Scope nat_scope.

Section Field.
  Variable F : Type.
  Variable P : ops F.
  Local Notation f0 := (o0 P).
  Local Notation f1 := (o1 P).
  Local Notation fadd := (oadd P).
  Local Notation fsub := (osub P).
  Local Notation fmul := (omul P).
  Local Notation fopp := (oopp P).

  (* ===================== Part A: interaction region ===================== *)
  Definition vecf := nat -> F.                 (* components 0 .. d-1 *)
  Definition matf := nat -> nat -> F.          (* entries (i, j), i, j < d *)

  Fixpoint sumn (n : nat) (f : nat -> F) : F :=
    match n with O => f0 | S n' => fadd (sumn n' f) (f n') end.

  Definition delta (i j : nat) : F := if i =? j then f1 else f0.
  Definition trace (d : nat) (G : matf) : F := sumn d (fun l => G l l).

  (* isotropic Hooke: sigma = 2 mu sym(G) + lambda tr(G) I *)
  Definition hooke (d : nat) (mu la : F) (G : matf) : matf :=
    fun i j => fadd (fmul la (fmul (trace d G) (delta i j))) (fmul mu (fadd (G i j) (G j i))).
  (* the part the code calls symmetric (csym): everything except the transposed
     off-diagonal entries *)
  Definition hookeS (d : nat) (mu la : F) (G : matf) : matf :=
    fun i j => fadd (fmul la (fmul (trace d G) (delta i j)))
                    (fmul mu (fadd (G i j) (if i =? j then G i j else f0))).
  (* the remaining part (casym), applied to the averaged gradient *)
  Definition hookeA (mu : F) (Gavg : matf) : matf :=
    fun i j => fmul mu (if i =? j then f0 else Gavg j i).
  Definition hookeW (d : nat) (mu la : F) (weak : bool) (G Gavg : matf) : matf :=
    fun i j => if weak then fadd (hookeS d mu la G i j) (hookeA mu Gavg i j)
               else hookeS d mu la G i j.

  Definition mulmvf (d : nat) (S : matf) (n : vecf) : vecf :=
    fun i => sumn d (fun j => fmul (S i j) (n j)).
  Definition vsubf (x y : vecf) : vecf := fun j => fsub (x j) (y j).
  (* volume-weighted average of the m sub-cell gradients *)
  Definition wavg (m : nat) (w : nat -> F) (G : nat -> matf) : matf :=
    fun i j => sumn m (fun k => fmul (w k) (G k i j)).

  Record subcellV := { sv_x : vecf; sv_u : vecf; sv_mu : F; sv_la : F }.
  Inductive subfaceV :=
  | InteriorV (k1 k2 : nat) (n xc : vecf)
  | DirichletV (k : nat) (n xc uD : vecf)
  | NeumannV (k : nat) (n t : vecf).            (* t = prescribed traction sigma n *)

  (* an equation: a functional of the gradients and a right-hand side *)
  Record eqn := { elhs : (nat -> matf) -> F; erhs : F }.

  Definition is_neuV (sf : subfaceV) : bool := match sf with NeumannV _ _ _ => true | _ => false end.
  (* _eliminate_ncasym: the averaged part is kept iff #Neumann sub-faces <= #sub-cells *)
  Definition keep_asym (m : nat) (faces : list subfaceV) : bool :=
    length (filter is_neuV faces) <=? m.

  Section Region.
    Variables (d m : nat) (w : nat -> F) (cells : nat -> subcellV) (weak : bool).

    Definition tractionW (G : nat -> matf) (k : nat) (n : vecf) : vecf :=
      mulmvf d (hookeW d (sv_mu (cells k)) (sv_la (cells k)) weak (G k) (wavg m w G)) n.
    Definition tractionS (G : nat -> matf) (k : nat) (n : vecf) : vecf :=
      mulmvf d (hookeS d (sv_mu (cells k)) (sv_la (cells k)) (G k)) n.
    (* displacement reconstructed at x from sub-cell k *)
    Definition subdisp (G : nat -> matf) (k : nat) (x : vecf) : vecf :=
      fun i => fadd (sv_u (cells k) i) (mulmvf d (G k) (vsubf x (sv_x (cells k))) i).

    Definition face_eqsV (sf : subfaceV) : list eqn :=
      match sf with
      | InteriorV k1 k2 n xc =>
          map (fun i => {| elhs := fun G => fsub (tractionS G k1 n i) (tractionS G k2 n i);
                           erhs := f0 |}) (seq 0 d)
          ++ map (fun i => {| elhs := fun G =>
                                fsub (mulmvf d (G k1) (vsubf xc (sv_x (cells k1))) i)
                                     (mulmvf d (G k2) (vsubf xc (sv_x (cells k2))) i);
                              erhs := fsub (sv_u (cells k2) i) (sv_u (cells k1) i) |}) (seq 0 d)
      | DirichletV k n xc uD =>
          map (fun i => {| elhs := fun G => mulmvf d (G k) (vsubf xc (sv_x (cells k))) i;
                           erhs := fsub (uD i) (sv_u (cells k) i) |}) (seq 0 d)
      | NeumannV k n t =>
          map (fun i => {| elhs := fun G => tractionW G k n i; erhs := t i |}) (seq 0 d)
      end.
    Definition local_systemV (faces : list subfaceV) : list eqn := flat_map face_eqsV faces.
  End Region.

  Definition lhs_allV (sys : list eqn) (G : nat -> matf) : list F := map (fun e => elhs e G) sys.
  Definition rhs_allV (sys : list eqn) : list F := map erhs sys.

  (* u(x) = b + A x *)
  Definition ulin (d : nat) (b : vecf) (A : matf) (x : vecf) : vecf :=
    fun i => fadd (b i) (mulmvf d A x i).

  (* ===================== Part B: matrix level ===================== *)
  Definition comp (v : vec3 F) (i : nat) : F :=
    let '(x, y, z) := v in match i with O => x | S O => y | _ => z end.
  Definition coefV := (vec3 F * mat3 F)%type.                (* (b, A) *)
  Definition vadd3 (u v : vec3 F) : vec3 F :=
    let '(a, b, c) := u in let '(x, y, z) := v in (fadd a x, fadd b y, fadd c z).
  Definition vscale3 (s : F) (v : vec3 F) : vec3 F :=
    let '(x, y, z) := v in (fmul s x, fmul s y, fmul s z).
  Definition ufield (c : coefV) (x : vec3 F) : vec3 F := vadd3 (fst c) (mulmv3 F P (snd c) x).
  (* sigma = mu (A + A^T) + lambda tr(A) I *)
  Definition sigma3 (mu la : F) (A : mat3 F) : mat3 F :=
    let '((a11, a12, a13), (a21, a22, a23), (a31, a32, a33)) := A in
    let tr := fmul la (fadd (fadd a11 a22) a33) in
    ((fadd tr (fmul mu (fadd a11 a11)), fmul mu (fadd a12 a21), fmul mu (fadd a13 a31)),
     (fmul mu (fadd a21 a12), fadd tr (fmul mu (fadd a22 a22)), fmul mu (fadd a23 a32)),
     (fmul mu (fadd a31 a13), fmul mu (fadd a32 a23), fadd tr (fmul mu (fadd a33 a33)))).

  Record instV := {
    ndV : nat;                    (* sd.dim: unknowns per cell / face *)
    nfV : nat;
    ccenV : nat -> vec3 F; fcenV : nat -> vec3 F; normalV : nat -> vec3 F;
    muV : F; laV : F;
    btypeV : nat -> bkind; bsgnV : nat -> F;
    ST : coo F; BS : coo F; BDC : coo F; BDF : coo F
  }.

  Section Inst.
    Variable I : instV.
    (* exact traction on face f: sigma n_f *)
    Definition exactT (c : coefV) (f : nat) : vec3 F :=
      mulmv3 F P (sigma3 (muV I) (laV I) (snd c)) (normalV I f).
    (* cell unknowns: [u_x(c0), u_y(c0), ..., u_x(c1), ...] *)
    Definition ucellV (c : coefV) (col : nat) : F :=
      comp (ufield c (ccenV I (col / ndV I))) (col mod ndV I).
    (* boundary data: displacement on Dirichlet faces, traction seen from outside
       (sign * sigma n_f) on Neumann faces *)
    Definition bdataV (c : coefV) (col : nat) : F :=
      let f := col / ndV I in let i := col mod ndV I in
      match btypeV I f with
      | BDir => comp (ufield c (fcenV I f)) i
      | BNeu => fmul (bsgnV I f) (comp (exactT c f) i)
      | BInt => f0
      end.
    Definition stress_of (c : coefV) (r : nat) : F :=
      fadd (row_apply F P (ST I) r (ucellV c)) (row_apply F P (BS I) r (bdataV c)).
    Definition disp_of (c : coefV) (r : nat) : F :=
      fadd (row_apply F P (BDC I) r (ucellV c)) (row_apply F P (BDF I) r (bdataV c)).
    Definition exactT_row (c : coefV) (r : nat) : F := comp (exactT c (r / ndV I)) (r mod ndV I).
    Definition exactU_row (c : coefV) (r : nat) : F :=
      comp (ufield c (fcenV I (r / ndV I))) (r mod ndV I).
    Definition res_T (c : coefV) (r : nat) : F := fsub (stress_of c r) (exactT_row c r).
    Definition res_U (c : coefV) (r : nat) : F := fsub (disp_of c r) (exactU_row c r).
  End Inst.

  (* coefficient algebra and the 12 basis fields: t < 3: b = e_t; t = 3 + 3 i + j: A = E_ij *)
  Definition z3 : vec3 F := (f0, f0, f0).
  Definition zm : mat3 F := (z3, z3, z3).
  Definition czero : coefV := (z3, zm).
  Definition cadd (c1 c2 : coefV) : coefV :=
    let '(b1, (r1, r2, r3)) := c1 in let '(b2, (s1, s2, s3)) := c2 in
    (vadd3 b1 b2, (vadd3 r1 s1, vadd3 r2 s2, vadd3 r3 s3)).
  Definition cscale (s : F) (c : coefV) : coefV :=
    let '(b, (r1, r2, r3)) := c in (vscale3 s b, (vscale3 s r1, vscale3 s r2, vscale3 s r3)).
  Definition unit3 (i : nat) : vec3 F :=
    match i with O => (f1, f0, f0) | S O => (f0, f1, f0) | _ => (f0, f0, f1) end.
  Definition basisV (t : nat) : coefV :=
    if t <? 3 then (unit3 t, zm)
    else let i := (t - 3) / 3 in let j := (t - 3) mod 3 in
         (z3, match i with
              | O => (unit3 j, z3, z3) | S O => (z3, unit3 j, z3) | _ => (z3, z3, unit3 j)
              end).
  (* linear combination sum_t s_t basis_t *)
  Definition comb (terms : list (F * nat)) : coefV :=
    fold_right (fun st acc => cadd (cscale (fst st) (basisV (snd st))) acc) czero terms.
End Field.

Arguments ndV {F}. Arguments nfV {F}. Arguments ccenV {F}. Arguments fcenV {F}.
Arguments normalV {F}. Arguments muV {F}. Arguments laV {F}. Arguments btypeV {F}.
Arguments bsgnV {F}. Arguments ST {F}. Arguments BS {F}. Arguments BDC {F}. Arguments BDF {F}.
Arguments sv_x {F}. Arguments sv_u {F}. Arguments sv_mu {F}. Arguments sv_la {F}.
Arguments elhs {F}. Arguments erhs {F}.
Arguments InteriorV {F}. Arguments DirichletV {F}. Arguments NeumannV {F}.

(* ================================================================================ *)
(* Executed instances: dyadic pairs (certificates) and Q (cross-check), see Model/C11.v *)
Local Open Scope Q_scope.

(* basis fields checked: all 12 in 3-D; in 2-D the six that do not involve z *)
Definition basis_list (nd : nat) : list nat :=
  if (nd =? 3)%nat then seq 0 12 else [0; 1; 3; 4; 6; 7]%nat.

Definition rows_of {F} (I : instV F) : list nat := seq 0 (nfV I * ndV I).
Definition kind_row {F} (I : instV F) (r : nat) : bkind := btypeV I (r / ndV I)%nat.

(* certificate (i): traction residual within the band on every row of every non-Neumann
   face; displacement reconstruction within the band on every row of every Dirichlet face *)
Definition stress_cert (I : instV dyad) : bool :=
  forallb (fun t =>
    forallb (fun r => match kind_row I r with
                      | BNeu => true
                      | _ => dwithin (res_T dyad DO I (basisV dyad DO t) r)
                                     (exactT_row dyad DO I (basisV dyad DO t) r)
                      end) (rows_of I)) (basis_list (ndV I)).
Definition disp_cert (I : instV dyad) : bool :=
  forallb (fun t =>
    forallb (fun r => match kind_row I r with
                      | BDir => dwithin (res_U dyad DO I (basisV dyad DO t) r)
                                        (exactU_row dyad DO I (basisV dyad DO t) r)
                      | _ => true
                      end) (rows_of I)) (basis_list (ndV I)).

Definition to_QV (I : instV dyad) : instV Q :=
  {| ndV := ndV I; nfV := nfV I;
     ccenV := fun k => dy3 (ccenV I k); fcenV := fun f => dy3 (fcenV I f);
     normalV := fun f => dy3 (normalV I f); muV := dy (muV I); laV := dy (laV I);
     btypeV := btypeV I; bsgnV := fun f => dy (bsgnV I f);
     ST := dycoo (ST I); BS := dycoo (BS I); BDC := dycoo (BDC I); BDF := dycoo (BDF I) |}.

Definition cross_checkV (I : instV dyad) : bool :=
  let J := to_QV I in
  forallb (fun t => forallb (fun r =>
              Qeq_bool (dy (res_T dyad DO I (basisV dyad DO t) r)) (res_T Q QO J (basisV Q QO t) r)
              && Qeq_bool (dy (res_U dyad DO I (basisV dyad DO t) r)) (res_U Q QO J (basisV Q QO t) r))
            (seq 0 (Nat.min 2 (nfV I * ndV I))))
          (basis_list (ndV I)).

Definition mk_instV (d : Z) (ccs fcs nrm : list Z) (mu la : Z) (kinds : list Z)
           (st bs bdc bdf : list Z) : instV dyad :=
  let d := Z.to_nat d in
  {| ndV := d; nfV := length kinds; ccenV := nth3 d ccs; fcenV := nth3 d fcs;
     normalV := nth3 d nrm; muV := unpk mu; laV := unpk la;
     btypeV := kind_of kinds; bsgnV := sgn_of kinds;
     ST := of_dcoo st; BS := of_dcoo bs; BDC := of_dcoo bdc; BDF := of_dcoo bdf |}.

Definition is_bndV {F} (I : instV F) (f : nat) : bool :=
  match btypeV I f with BInt => false | _ => true end.
Definition is_neuf {F} (I : instV F) (f : nat) : bool :=
  match btypeV I f with BNeu => true | _ => false end.

(* what a generated case asserts: announced sizes, Lame parameters mu > 0, lambda >= 0,
   and both certificates *)
Definition check_caseV (nfaces nbnd nneu : Z) (I : instV dyad) : bool :=
  (Z.of_nat (nfV I) =? nfaces)%Z
  && (Z.of_nat (length (filter (is_bndV I) (seq 0 (nfV I)))) =? nbnd)%Z
  && (Z.of_nat (length (filter (is_neuf I) (seq 0 (nfV I)))) =? nneu)%Z
  && ((ndV I =? 2)%nat || (ndV I =? 3)%nat)
  && negb (Qle_bool (dy (muV I)) 0) && Qle_bool 0 (dy (laV I))
  && stress_cert I && disp_cert I && cross_checkV I.

Definition diag_caseV (I : instV dyad) : Q * Q * bool :=
  (qmax (flat_map (fun t => map (fun r => match kind_row I r with
                                          | BNeu => 0
                                          | _ => dy (res_T dyad DO I (basisV dyad DO t) r) end)
                                (rows_of I)) (basis_list (ndV I))),
   qmax (flat_map (fun t => map (fun r => match kind_row I r with
                                          | BDir => dy (res_U dyad DO I (basisV dyad DO t) r)
                                          | _ => 0 end)
                                (rows_of I)) (basis_list (ndV I))),
   cross_checkV I).

(* ================================================================================ *)
(* Scale-robust certificates (second generation; the definitions above are kept): purely
   relative norm-wise band |residual| <= 1e-9 * (sum over the matrix-vector terms of
   (1-norm of the row) * (max-norm of the vector) + |exact value|), see Model/C11.v. *)
Definition stress_cert2 (I : instV dyad) : bool :=
  forallb (fun t =>
    let c := basisV dyad DO t in
    let mu_ := dmaxabs (ST I) (ucellV dyad DO I c) in
    let mb := dmaxabs (BS I) (bdataV dyad DO I c) in
    forallb (fun r => match kind_row I r with
                      | BNeu => true
                      | _ => within2 (res_T dyad DO I c r)
                                     (dadd (dadd (dmul (drow_sum (ST I) r) mu_)
                                                 (dmul (drow_sum (BS I) r) mb))
                                           (dabs (exactT_row dyad DO I c r)))
                      end) (rows_of I)) (basis_list (ndV I)).
Definition disp_cert2 (I : instV dyad) : bool :=
  forallb (fun t =>
    let c := basisV dyad DO t in
    let mu_ := dmaxabs (BDC I) (ucellV dyad DO I c) in
    let mb := dmaxabs (BDF I) (bdataV dyad DO I c) in
    forallb (fun r => match kind_row I r with
                      | BDir => within2 (res_U dyad DO I c r)
                                        (dadd (dadd (dmul (drow_sum (BDC I) r) mu_)
                                                    (dmul (drow_sum (BDF I) r) mb))
                                              (dabs (exactU_row dyad DO I c r)))
                      | _ => true
                      end) (rows_of I)) (basis_list (ndV I)).
Definition check_caseV2 (nfaces nbnd nneu : Z) (I : instV dyad) : bool :=
  (Z.of_nat (nfV I) =? nfaces)%Z
  && (Z.of_nat (length (filter (is_bndV I) (seq 0 (nfV I)))) =? nbnd)%Z
  && (Z.of_nat (length (filter (is_neuf I) (seq 0 (nfV I)))) =? nneu)%Z
  && ((ndV I =? 2)%nat || (ndV I =? 3)%nat)
  && negb (Qle_bool (dy (muV I)) 0) && Qle_bool 0 (dy (laV I))
  && stress_cert2 I && disp_cert2 I && cross_checkV I.
