(* C07 — Schur complement reduction of pp.ad.EquationSystem.
   Transcribes porepy/numerics/ad/equation_system.py: _gridbased_equation_complement,
   assemble_schur_complement_system (the bookkeeping of primary / secondary row blocks and
   column blocks, its assertions, in the order the code performs them), the formulas of the
   reduced system and of expand_schur_complement_solution, and the permutation cache of
   default_schur_complement_inverter (as repaired: keyed by the sparsity pattern).
   Builds on PP.Model.C05 (dof layout, projection_to) and PP.Model.C06 (equation
   bookkeeping, assemble).  Executable definitions only.

   assembled_equation_indices after a Schur assembly belongs to C06 (PP.Model.C06_schur). *)
From Coq Require Import List ZArith QArith Qabs Bool Arith.
Close Scope Q_scope.
Import ListNotations.
From PP Require Import Model.C05 Model.C06.

(* ---------------- _gridbased_equation_complement ---------------- *)
(* np.unique of non-negative integers: sorted, duplicates dropped *)
Fixpoint dedup_sorted (l : list nat) : list nat :=
  match l with
  | [] => []
  | x :: r => match r with
              | [] => [x]
              | y :: _ => if Nat.eqb x y then dedup_sorted r else x :: dedup_sorted r
              end
  end.
Definition np_unique (l : list nat) : list nat := dedup_sorted (sort l).

(* np.delete(arr, idx): drop the POSITIONS idx; IndexError if one is out of bounds *)
Fixpoint drop_positions (arr : list nat) (pos : nat) (idx : list nat) : list nat :=
  match arr with
  | [] => []
  | x :: r => if memb pos idx then drop_positions r (S pos) idx
              else x :: drop_positions r (S pos) idx
  end.
Definition np_delete (arr idx : list nat) : option (list nat) :=
  if existsb (fun i => length arr <=? i) idx then None else Some (drop_positions arr 0 idx).

Fixpoint complement (es : est) (blocks : list (nat * rowsel)) : list (nat * rowsel) + err :=
  match blocks with
  | [] => inl []
  | (name, None) :: r =>
      match complement es r with
      | inr e => inr e
      | inl c => inl ((name, None) :: c)
      end
  | (name, Some idx) :: r =>
      match dget (comp es) name with
      | None => inr KeyErr
      | Some img =>
          match map snd img with
          | [] => inr ValueErr                 (* np.hstack of an empty list *)
          | vals =>
              match np_delete (np_unique (concat vals)) idx with
              | None => inr IndexErr
              | Some cidx =>
                  match complement es r with
                  | inr e => inr e
                  | inl c => inl ((name, Some cidx) :: c)
                  end
              end
          end
      end
  end.

(* x[idx] for any list; None = IndexError *)
Fixpoint takeL {X} (x : list X) (idx : list nat) : option (list X) :=
  match idx with
  | [] => Some []
  | i :: r => match nth_error x i, takeL x r with
              | Some v, Some t => Some (v :: t)
              | _, _ => None
              end
  end.

Section Schur.
  Context {V : Type}.
  Variable vzero : V.
  Variable vopp : V -> V.
  Variable eval : nat -> list (@prow V).

  (* the blocks of the linearised system *)
  Inductive sout :=
  | SOk (App Aps Asp Ass : list (list V)) (bp bs : list V) (colsp colss : list nat)
  | SErr (e : err).

  (* accumulators: A_prim, b_prim, A_sec, b_sec (stacked) and the number of blocks in the
     secondary lists *)
  Definition sacc := (list (list V) * list V * list (list V) * list V * nat)%type.

  (* first loop: for name in self._equations: if name in primary_equation_names *)
  Fixpoint loop_primary (s : st) (es : est) (eqs : list (nat * nat))
           (prim excl : list (nat * rowsel)) (acc : sacc) : sacc + err :=
    match eqs with
    | [] => inl acc
    | (name, _) :: r =>
        match dget prim name with
        | None => loop_primary s es r prim excl acc
        | Some idx_p =>
            match snd (assemble vzero vopp eval s es true (EList [IName name]) None) with
            | AJac A b _ =>
                let '(Ap, bp, As, bs, ns) := acc in
                match idx_p with
                | Some ip =>
                    match takeL A ip, takeL b ip with
                    | Some Ai, Some bi =>
                        match dget excl name with
                        | Some (Some ie) =>
                            match takeL A ie, takeL b ie with
                            | Some Ae, Some be =>
                                loop_primary s es r prim excl
                                  (Ap ++ Ai, bp ++ bi, As ++ Ae, bs ++ be, S ns)
                            | _, _ => inr IndexErr
                            end
                        | Some None => inr IndexErr      (* A_temp[None]: not reachable *)
                        | None => inr KeyErr
                        end
                    | _, _ => inr IndexErr
                    end
                | None => loop_primary s es r prim excl (Ap ++ A, bp ++ b, As, bs, ns)
                end
            | AErr e => inr e
            | ARes _ => inr AssertErr
            end
        end
    end.

  (* second loop: for name in self._equations: if name in secondary_equation_names *)
  Fixpoint loop_secondary (s : st) (es : est) (eqs : list (nat * nat))
           (prim : list (nat * rowsel)) (acc : sacc) : sacc + err :=
    match eqs with
    | [] => inl acc
    | (name, _) :: r =>
        match dget prim name with
        | Some _ => loop_secondary s es r prim acc
        | None =>
            match snd (assemble vzero vopp eval s es true (EList [IName name]) None) with
            | AJac A b _ =>
                let '(Ap, bp, As, bs, ns) := acc in
                loop_secondary s es r prim (Ap, bp, As ++ A, bs ++ b, S ns)
            | AErr e => inr e
            | ARes _ => inr AssertErr
            end
        end
    end.

  Definition proj_cols (s : st) (ids : list nat) : list nat + err :=
    match projection_to s (Some (map ById ids)) with
    | OProjM cols _ => inl cols
    | OErr e => inr e
    | _ => inr AssertErr
    end.

  Definition schur_blocks (s : st) (es : est) (pe : eqarg) (pv : refs) : sout :=
    match parse_equations es pe with
    | inr e => SErr e
    | inl prim =>
    match complement es prim with
    | inr e => SErr e
    | inl excl =>
    let active := parse s pv in
    match proj_cols s active with
    | inr e => SErr e
    | inl colsp =>
    if Nat.eqb (length prim) 0 then SErr AssertErr else
    if Nat.eqb (length colsp) 0 then SErr AssertErr else
    (* list(set(self.variables).difference(active_variables)): an arbitrary order, which
       projection_to sorts away *)
    let secondary := filter (fun id => negb (memb id active)) (map vid (vars s)) in
    match proj_cols s secondary with
    | inr e => SErr e
    | inl colss =>
    if Nat.eqb (length colss) 0 then SErr AssertErr else
    match loop_primary s es (equations es) prim excl ([], [], [], [], 0) with
    | inr e => SErr e
    | inl acc1 =>
    match loop_secondary s es (equations es) prim acc1 with
    | inr e => SErr e
    | inl (Ap, bp, As, bs, ns) =>
    if Nat.eqb ns 0 then SErr ValueErr else       (* sps.vstack([]) *)
    let App := map (cut vzero colsp) Ap in
    let Aps := map (cut vzero colss) Ap in
    let Asp := map (cut vzero colsp) As in
    let Ass := map (cut vzero colss) As in
    if negb (Nat.eqb (length As) (length colss)) then SErr AssertErr else
    SOk App Aps Asp Ass bp bs colsp colss
    end end end end end end.
End Schur.

Arguments SOk {V}.
Arguments SErr {V}.

(* ---------------- the permutation cache of default_schur_complement_inverter ----------- *)
Section Cache.
  Variables Pat Perm : Type.
  Variable pat_eqb : Pat -> Pat -> bool.
  Variable genperm : Pat -> Perm.       (* generate_permutation_to_block_diag_matrix *)

  Definition cache := option (Pat * Perm).

  (* returns the new cache and the permutation handed to the block inverter *)
  Definition inverter_perm (c : cache) (p : Pat) : cache * Perm :=
    match c with
    | Some (p0, pm) => if pat_eqb p0 p then (c, pm)
                       else (Some (p, genperm p), genperm p)
    | None => (Some (p, genperm p), genperm p)
    end.

  Fixpoint inverter_run (c : cache) (ps : list Pat) : cache * list Perm :=
    match ps with
    | [] => (c, [])
    | p :: r => let (c', pm) := inverter_perm c p in
                let (c'', pms) := inverter_run c' r in (c'', pm :: pms)
    end.
End Cache.

(* ---------------- checks on observed matrices (tie) ---------------- *)
Definition qdot (a b : list Q) : Q :=
  fold_left Qplus (map (fun p => Qmult (fst p) (snd p)) (combine a b)) 0%Q.

Definition column {X} (d : X) (M : list (list X)) (j : nat) : list X :=
  map (fun r => nth j r d) M.

(* | (inv * A)_ij - delta_ij | <= tol for a dense n x n pair *)
Definition inv_ok (tol : Q) (n : nat) (inv A : list (list Q)) : bool :=
  Nat.eqb (length inv) n && Nat.eqb (length A) n &&
  forallb (fun i =>
    forallb (fun j =>
      let x := Qred (qdot (nth i inv []) (column 0%Q A j)) in
      let d := if Nat.eqb i j then 1%Q else 0%Q in
      Qle_bool (Qabs (Qminus x d)) tol) (seq 0 n)) (seq 0 n).

(* componentwise variant for badly scaled blocks:
   |(inv*A)_ii - 1| <= tol  and  |(inv*A)_ij| <= tol * (|inv| * |A|)_ij  for i <> j *)
Definition inv_ok_rel (tol : Q) (n : nat) (inv A : list (list Q)) : bool :=
  Nat.eqb (length inv) n && Nat.eqb (length A) n &&
  forallb (fun i =>
    forallb (fun j =>
      let col := column 0%Q A j in
      let x := Qred (qdot (nth i inv []) col) in
      if Nat.eqb i j then Qle_bool (Qabs (Qminus x 1%Q)) tol
      else Qle_bool (Qabs x)
                    (Qmult tol (Qred (qdot (map Qabs (nth i inv [])) (map Qabs col)))))
      (seq 0 n)) (seq 0 n).

Inductive sobs :=
| ZErr (e : err)
| ZOk (App Asp Ass : list (list Z)) (bp bs : list Z) (colsp colss : list Z).

Definition agree_sout (m : @sout Z) (o : sobs) : bool :=
  match m, o with
  | SErr a, ZErr b => err_eqb a b
  (* A_ps is not observable without hooks: same rows as A_pp, same columns as A_ss *)
  | SOk App Aps Asp Ass bp bs cp cs, ZOk App' Asp' Ass' bp' bs' cp' cs' =>
      let np := length cp in
      let ns := length cs in
      eqb_list (eqb_list Z.eqb) App (map (dense np) App') &&
      eqb_list (eqb_list Z.eqb) Asp (map (dense np) Asp') &&
      eqb_list (eqb_list Z.eqb) Ass (map (dense ns) Ass') &&
      eqb_list Z.eqb bp bp' && eqb_list Z.eqb bs bs' &&
      eqb_list Z.eqb (zn cp) cp' && eqb_list Z.eqb (zn cs) cs'
  | _, _ => false
  end.

(* a case: variables (C05 ops), equations (C06 ops), evaluated operators, a list of splits
   with the observed blocks *)
Definition agree7 (g : mdgrid) (vops : list op) (t : evtab) (eops : list eop)
           (splits : list (eqarg * refs * sobs)) : bool :=
  let s := final g vops in
  let n := num_dofs s in
  let es := efinal 0%Z Z.opp (eval_of n t) g s eops in
  forallb (fun sp => agree_sout (schur_blocks 0%Z Z.opp (eval_of n t) s es (fst (fst sp))
                                              (snd (fst sp))) (snd sp)) splits.

Definition pat_eqbZ (a b : list Z) : bool := eqb_list Z.eqb a b.
