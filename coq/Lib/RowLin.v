(* Sparse rows over Q applied to states that depend linearly on parameters.
   Shared by the certificate-style checks (C15, C18): a row applied to
   sum_m theta_m * basis_m  is  sum_m theta_m * (row . basis_m), exactly and with error
   bounds.  Executable definitions first, lemmas after. *)
From Coq Require Import List ZArith QArith Qabs Bool Arith Lia Lqa.
Import ListNotations.
Local Open Scope Q_scope.

Definition row := list (nat * Q).      (* (column, value); duplicates are summed *)
Definition vec := nat -> Q.

Fixpoint rdot (r : row) (v : vec) : Q :=
  match r with [] => 0 | ja :: r' => snd ja * v (fst ja) + rdot r' v end.

(* sum of the absolute values of the terms of  r . v  (scale of the relative tolerance) *)
Fixpoint rabs (r : row) (v : vec) : Q :=
  match r with [] => 0 | ja :: r' => Qabs (snd ja * v (fst ja)) + rabs r' v end.

(* sum_{i < length t} t_i * f (k + i) *)
Fixpoint tsum (k : nat) (t : list Q) (f : nat -> Q) : Q :=
  match t with [] => 0 | x :: t' => x * f k + tsum (S k) t' f end.

Definition lin_state (basis : nat -> vec) (theta : list Q) : vec :=
  fun j => tsum 0 theta (fun m => basis m j).

Definition near (tol scale x y : Q) : bool := Qle_bool (Qabs (x - y)) (tol * (1 + scale)).

(* ------------------------------------------------------------------ lemmas *)
Lemma tsum_ext : forall t m f g,
  (forall k, (m <= k < m + length t)%nat -> f k == g k) -> tsum m t f == tsum m t g.
Proof.
  induction t as [|x t IH]; intros m f g H; cbn [tsum]; [reflexivity|].
  rewrite (H m) by (cbn [length]; lia).
  rewrite (IH (S m) f g); [reflexivity|].
  intros k Hk. apply H. cbn [length]. lia.
Qed.

Lemma tsum_zero : forall t m, tsum m t (fun _ => 0) == 0.
Proof. induction t as [|x t IH]; intros m; cbn [tsum]; [reflexivity|]. rewrite IH. ring. Qed.

Lemma tsum_plus : forall t m f g,
  tsum m t (fun k => f k + g k) == tsum m t f + tsum m t g.
Proof. induction t as [|x t IH]; intros; cbn [tsum]; [ring|]. rewrite IH. ring. Qed.

Lemma tsum_minus : forall t m f g,
  tsum m t (fun k => f k - g k) == tsum m t f - tsum m t g.
Proof. induction t as [|x t IH]; intros; cbn [tsum]; [ring|]. rewrite IH. ring. Qed.

Lemma tsum_scal : forall t m c f, tsum m t (fun k => c * f k) == c * tsum m t f.
Proof. induction t as [|x t IH]; intros; cbn [tsum]; [ring|]. rewrite IH. ring. Qed.

Lemma rdot_lin : forall basis theta r,
  rdot r (lin_state basis theta) == tsum 0 theta (fun m => rdot r (basis m)).
Proof.
  intros basis theta. induction r as [|[j a] r IH]; cbn [rdot fst snd].
  - symmetry. apply tsum_zero.
  - rewrite (tsum_plus theta 0%nat (fun m => a * basis m j) (fun m => rdot r (basis m))), <- IH.
    apply Qplus_comp; [|reflexivity].
    unfold lin_state. rewrite tsum_scal. reflexivity.
Qed.

Lemma lin_exact : forall basis theta r g,
  (forall m, (m < length theta)%nat -> rdot r (basis m) == g m) ->
  rdot r (lin_state basis theta) == tsum 0 theta g.
Proof.
  intros basis theta r g H. rewrite rdot_lin. apply tsum_ext. intros k Hk. apply H. lia.
Qed.

Lemma tsum_abs_bound : forall t m h eps,
  (forall k, (m <= k < m + length t)%nat -> Qabs (h k) <= eps k) ->
  Qabs (tsum m t h) <= tsum m (map Qabs t) eps.
Proof.
  induction t as [|x t IH]; intros m h eps H; cbn [tsum map].
  - cbn. apply Qle_refl.
  - eapply Qle_trans; [apply Qabs_triangle|].
    rewrite Qabs_Qmult.
    assert (H1 : Qabs (h m) <= eps m) by (apply H; cbn [length]; lia).
    assert (H2 : Qabs (tsum (S m) t h) <= tsum (S m) (map Qabs t) eps).
    { apply IH. intros k Hk. apply H. cbn [length]. lia. }
    pose proof (Qabs_nonneg x) as H3.
    revert H1 H2 H3.
    generalize (Qabs x) (Qabs (h m)) (Qabs (tsum (S m) t h)) (tsum (S m) (map Qabs t) eps) (eps m).
    intros ax ah ar br e H1 H2 H3.
    assert (H5 : ax * ah <= ax * e) by nra.
    lra.
Qed.

Lemma lin_quant : forall basis theta r g eps,
  (forall m, (m < length theta)%nat -> Qabs (rdot r (basis m) - g m) <= eps m) ->
  Qabs (rdot r (lin_state basis theta) - tsum 0 theta g) <= tsum 0 (map Qabs theta) eps.
Proof.
  intros basis theta r g eps H.
  rewrite rdot_lin, <- tsum_minus.
  apply tsum_abs_bound. intros k Hk. apply H. lia.
Qed.

Lemma near_sound : forall tol scale x y,
  near tol scale x y = true -> Qabs (x - y) <= tol * (1 + scale).
Proof. intros tol scale x y H. unfold near in H. apply Qle_bool_iff in H. exact H. Qed.

Lemma near_zero_exact : forall scale x y, near 0 scale x y = true -> x == y.
Proof.
  intros scale x y H. apply near_sound in H.
  apply Qabs_Qle_condition in H. destruct H as [H1 H2].
  setoid_replace (0 * (1 + scale)) with 0 in H1 by ring.
  setoid_replace (0 * (1 + scale)) with 0 in H2 by ring.
  lra.
Qed.

(* ------------------------------------------------------------------ uniqueness from a trivial kernel *)
Lemma rdot_sub : forall r (x y : vec),
  rdot r (fun j => x j - y j) == rdot r x - rdot r y.
Proof. induction r as [|[j a] r IH]; intros; cbn [rdot fst snd]; [ring|]. rewrite IH. ring. Qed.

Lemma unique_solution : forall (A : list row) (n : nat) (x y : vec),
  (forall v : vec, (forall j, (n <= j)%nat -> v j == 0) -> (forall r, In r A -> rdot r v == 0) ->
                   forall j, (j < n)%nat -> v j == 0) ->
  (forall j, (n <= j)%nat -> x j == y j) ->
  (forall r, In r A -> rdot r x == rdot r y) ->
  forall j, (j < n)%nat -> x j == y j.
Proof.
  intros A n x y Hker Hbnd Hres j Hj.
  assert (E : x j - y j == 0).
  { apply (Hker (fun j => x j - y j)); [| |exact Hj].
    - intros j' Hj'. cbn beta. rewrite (Hbnd j' Hj'). ring.
    - intros r Hr. rewrite rdot_sub, (Hres r Hr). ring. }
  lra.
Qed.
