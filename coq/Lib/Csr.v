(* Compressed sparse storage (CSR / CSC) over integer data and its reference semantics.
   Executable definitions only; lemmas live in PP.Proofs.C35.

   One record serves both formats: [nmaj] is the number of lines along the compressed
   axis (rows for csr, columns for csc), [nmin] the extent of the other axis.  The dense
   reference [to_dense] lists the lines (rows of a csr matrix, columns of a csc matrix,
   i.e. the transpose); duplicate entries of a line are summed, as scipy's toarray()
   does; explicitly stored zeros are ordinary entries. *)
From Coq Require Import List ZArith Bool Arith.
Import ListNotations.

Record csr := mkcsr {
  nmaj : nat;
  nmin : nat;
  indptr : list nat;
  indices : list nat;
  data : list Z }.

(* l[a:b] *)
Definition seg {E} (a b : nat) (l : list E) : list E := firstn (b - a) (skipn a l).

(* the lines cut out of the entry list by consecutive index pointers *)
Fixpoint rows_of {E} (ip : list nat) (l : list E) : list (list E) :=
  match ip with
  | a :: ((b :: _) as r) => seg a b l :: rows_of r l
  | _ => []
  end.

Definition entries (A : csr) : list (nat * Z) := combine (indices A) (data A).

(* sparse lines: the (minor index, value) pairs of every line, in storage order *)
Definition rows (A : csr) : list (list (nat * Z)) := rows_of (indptr A) (entries A).

Definition entry_sum (j : nat) (r : list (nat * Z)) : Z :=
  fold_right (fun e s => if Nat.eqb (fst e) j then (snd e + s)%Z else s) 0%Z r.

Definition dense_row (n : nat) (r : list (nat * Z)) : list Z :=
  map (fun j => entry_sum j r) (seq 0 n).

(* dense reference semantics: one dense line per compressed line *)
Definition to_dense (A : csr) : list (list Z) := map (dense_row (nmin A)) (rows A).

Fixpoint monotone (l : list nat) : bool :=
  match l with
  | a :: ((b :: _) as r) => (a <=? b) && monotone r
  | _ => true
  end.

(* well-formed compressed storage (what scipy's check_format demands) *)
Definition wf (A : csr) : bool :=
  (length (indptr A) =? S (nmaj A)) && (hd 1 (indptr A) =? 0) && monotone (indptr A)
  && (last (indptr A) 0 =? length (indices A)) && (length (data A) =? length (indices A))
  && forallb (fun j => j <? nmin A) (indices A).

Definition eqb_listN (a b : list nat) : bool :=
  (length a =? length b) && forallb (fun p => Nat.eqb (fst p) (snd p)) (combine a b).
Definition eqb_listZ (a b : list Z) : bool :=
  (length a =? length b) && forallb (fun p => Z.eqb (fst p) (snd p)) (combine a b).

(* raw equality of two stored matrices *)
Definition eqb_csr (A B : csr) : bool :=
  (nmaj A =? nmaj B) && (nmin A =? nmin B) && eqb_listN (indptr A) (indptr B)
  && eqb_listN (indices A) (indices B) && eqb_listZ (data A) (data B).
