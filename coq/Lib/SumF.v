(* Finite sums  sum_{i<n} f i  over Q and their exchange law (used by C18, C16). *)
From Coq Require Import List ZArith QArith Arith Lia.
Local Open Scope Q_scope.

Fixpoint sumf (n : nat) (f : nat -> Q) : Q :=
  match n with O => 0 | S n' => f O + sumf n' (fun i => f (S i)) end.

Lemma sumf_ext : forall n f g, (forall i, (i < n)%nat -> f i == g i) -> sumf n f == sumf n g.
Proof.
  induction n as [|n IH]; intros f g H; cbn [sumf]; [reflexivity|].
  rewrite (H O) by lia. rewrite (IH (fun i => f (S i)) (fun i => g (S i))); [reflexivity|].
  intros i Hi. apply H. lia.
Qed.

Lemma sumf_zero : forall n, sumf n (fun _ => 0) == 0.
Proof. induction n as [|n IH]; cbn [sumf]; [reflexivity|]. rewrite IH. ring. Qed.

Lemma sumf_plus : forall n f g, sumf n (fun i => f i + g i) == sumf n f + sumf n g.
Proof.
  induction n as [|n IH]; intros f g; cbn [sumf]; [ring|].
  rewrite (IH (fun i => f (S i)) (fun i => g (S i))). ring.
Qed.

Lemma sumf_scal : forall n c f, sumf n (fun i => c * f i) == c * sumf n f.
Proof.
  induction n as [|n IH]; intros c f; cbn [sumf]; [ring|].
  rewrite (IH c (fun i => f (S i))). ring.
Qed.

Lemma sumf_scal_r : forall n c f, sumf n (fun i => f i * c) == sumf n f * c.
Proof.
  induction n as [|n IH]; intros c f; cbn [sumf]; [ring|].
  rewrite (IH c (fun i => f (S i))). ring.
Qed.

Lemma sumf_swap : forall n m (f : nat -> nat -> Q),
  sumf n (fun i => sumf m (fun j => f i j)) == sumf m (fun j => sumf n (fun i => f i j)).
Proof.
  induction n as [|n IH]; intros m f; cbn [sumf].
  - symmetry. apply sumf_zero.
  - rewrite (IH m (fun i j => f (S i) j)).
    rewrite <- (sumf_plus m (fun j => f O j) (fun j => sumf n (fun i => f (S i) j))).
    reflexivity.
Qed.

(* the i-th term alone: sum_{i<n} [i = k] * a *)
Lemma sumf_pick : forall n k (a : Q),
  sumf n (fun i => if Nat.eqb i k then a else 0) == if (k <? n)%nat then a else 0.
Proof.
  induction n as [|n IH]; intros k a; cbn [sumf]; [reflexivity|].
  destruct k as [|k].
  - assert (E : sumf n (fun i => if Nat.eqb (S i) 0 then a else 0) == 0).
    { rewrite <- (sumf_zero n). apply sumf_ext. intros i _. reflexivity. }
    rewrite E. change (Nat.eqb 0 0) with true. change (0 <? S n)%nat with true. cbv iota. ring.
  - change (Nat.eqb 0 (S k)) with false. cbv iota.
    rewrite (sumf_ext n (fun i => if Nat.eqb (S i) (S k) then a else 0)
                        (fun i => if Nat.eqb i k then a else 0)) by (intros; reflexivity).
    rewrite (IH k a). change (S k <? S n)%nat with (k <? n)%nat. ring.
Qed.
