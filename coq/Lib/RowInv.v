(* Left-inverse certificates for square systems given by sparse rows over Q:
   if  N * A = d * I  (d <> 0) for the dense coefficient matrix A of the rows, then the only
   vector v (supported on the first n columns) with  row_i . v = 0  for all i is v = 0.
   Used by C16 and C18 to discharge the "trivial kernel" hypothesis on small instances.
   Executable definitions first. *)
From Coq Require Import List ZArith QArith Qabs Bool Arith Lia Lqa.
Import ListNotations.
From PP Require Import Lib.RowLin Lib.SumF.
Local Open Scope Q_scope.

(* coefficient of column j in a sparse row (duplicates summed) *)
Fixpoint coef (r : row) (j : nat) : Q :=
  match r with
  | [] => 0
  | ja :: r' => (if Nat.eqb (fst ja) j then snd ja else 0) + coef r' j
  end.

Definition dent (N : list (list Q)) (i j : nat) : Q := nth j (nth i N []) 0.

(* N * A = d * I on the first n columns, d <> 0, n rows *)
Definition inv_ok (n : nat) (rows : list row) (N : list (list Q)) (d : Q) : bool :=
  negb (Qeq_bool d 0) && (length rows =? n)
  && forallb (fun j => forallb (fun k =>
       Qeq_bool (sumf n (fun i => dent N j i * coef (nth i rows []) k))
                (if Nat.eqb j k then d else 0)) (seq 0 n)) (seq 0 n).

(* ------------------------------------------------------------------ lemmas *)
Lemma rdot_coef : forall n r (v : vec),
  (forall j, (n <= j)%nat -> v j == 0) ->
  rdot r v == sumf n (fun k => coef r k * v k).
Proof.
  intros n r v Hv. induction r as [|[j a] r IH]; cbn [rdot coef fst snd].
  - rewrite (sumf_ext n _ (fun _ => 0)) by (intros; ring). symmetry. apply sumf_zero.
  - rewrite (sumf_ext n _ (fun k => (if Nat.eqb k j then a * v j else 0) + coef r k * v k)).
    2:{ intros k _. destruct (Nat.eqb_spec j k) as [->|Hne].
        - rewrite Nat.eqb_refl. ring.
        - destruct (Nat.eqb_spec k j); [congruence|]. ring. }
    rewrite sumf_plus, sumf_pick, <- IH.
    destruct (Nat.ltb_spec j n) as [Hj|Hj]; [reflexivity|].
    rewrite (Hv j Hj). ring.
Qed.

Lemma left_inverse_kernel : forall n rows N d (v : vec),
  inv_ok n rows N d = true ->
  (forall j, (n <= j)%nat -> v j == 0) ->
  (forall r, In r rows -> rdot r v == 0) ->
  forall j, (j < n)%nat -> v j == 0.
Proof.
  intros n rows N d v H Hv Hres j Hj. unfold inv_ok in H.
  apply andb_prop in H. destruct H as [H Hprod].
  apply andb_prop in H. destruct H as [Hd Hlen].
  apply negb_true_iff in Hd. apply Nat.eqb_eq in Hlen.
  assert (Hd' : ~ d == 0).
  { intros E. apply Qeq_bool_iff in E. congruence. }
  assert (E : d * v j == 0).
  { (* d * v_j = sum_k (d delta_jk) v_k = sum_k sum_i N_ji A_ik v_k = sum_i N_ji (row_i . v) = 0 *)
    transitivity (sumf n (fun k => (if Nat.eqb k j then d * v j else 0))).
    { rewrite sumf_pick. destruct (Nat.ltb_spec j n); [reflexivity|lia]. }
    transitivity (sumf n (fun k => sumf n (fun i => dent N j i * coef (nth i rows []) k) * v k)).
    { apply sumf_ext. intros k Hk.
      rewrite forallb_forall in Hprod.
      assert (Hinj : In j (seq 0 n)) by (apply in_seq; lia).
      specialize (Hprod j Hinj). rewrite forallb_forall in Hprod.
      assert (Hink : In k (seq 0 n)) by (apply in_seq; lia).
      specialize (Hprod k Hink). apply Qeq_bool_iff in Hprod. rewrite Hprod.
      destruct (Nat.eqb_spec j k) as [->|Hne].
      - rewrite Nat.eqb_refl. reflexivity.
      - destruct (Nat.eqb_spec k j); [congruence|]. ring. }
    transitivity (sumf n (fun k => sumf n (fun i => dent N j i * (coef (nth i rows []) k * v k)))).
    { apply sumf_ext. intros k _. rewrite <- sumf_scal_r. apply sumf_ext. intros i _. ring. }
    rewrite sumf_swap.
    rewrite (sumf_ext n _ (fun _ => 0)); [apply sumf_zero|].
    intros i Hi. rewrite sumf_scal, <- (rdot_coef n _ v Hv).
    rewrite (Hres (nth i rows [])) by (apply nth_In; lia). ring. }
  (* d <> 0 *)
  destruct (Qeq_dec (v j) 0) as [E0|N0]; [exact E0|].
  exfalso. apply Hd'.
  apply (Qmult_integral_l (v j) d) in N0; [exact N0|]. rewrite Qmult_comm. exact E.
Qed.
