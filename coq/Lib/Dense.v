(* Dense matrices as lists of rows over an arbitrary carrier with ring operations.
   Executable definitions only; the algebra (under a [ring_theory] hypothesis) is proved in
   PP.Proofs.C37_dense.  Operations are passed explicitly so that the same definitions are
   executed over Z / Q in the ties and reasoned about over any commutative ring. *)
From Coq Require Import List Arith Bool.
Import ListNotations.

Section Dense.
  Variable T : Type.
  Variables (zero one : T) (add mul : T -> T -> T).

  Definition zeros (n : nat) : list T := repeat zero n.

  (* entrywise sum (truncating to the shorter argument) *)
  Fixpoint vadd (u v : list T) : list T :=
    match u, v with
    | x :: u', y :: v' => add x y :: vadd u' v'
    | _, _ => []
    end.

  Definition vscale (a : T) (v : list T) : list T := map (mul a) v.

  (* r . M = sum_k r_k * (row k of M); [p] is the width of M (needed when M has no rows) *)
  Fixpoint vecmat (p : nat) (r : list T) (M : list (list T)) : list T :=
    match r, M with
    | a :: r', row :: M' => vadd (vscale a row) (vecmat p r' M')
    | _, _ => zeros p
    end.

  (* A . B for B of width p *)
  Definition mat_mul (p : nat) (A B : list (list T)) : list (list T) :=
    map (fun r => vecmat p r B) A.

  Definition unit_row (n i : nat) : list T :=
    map (fun j => if Nat.eqb i j then one else zero) (seq 0 n).

  Definition identity (n : nat) : list (list T) := map (unit_row n) (seq 0 n).

  Definition mget (A : list (list T)) (i j : nat) : T := nth j (nth i A []) zero.

  (* transpose of a matrix of width n *)
  Definition transpose (n : nat) (A : list (list T)) : list (list T) :=
    map (fun j => map (fun r => nth j r zero) A) (seq 0 n).

  (* [[A, 0], [0, B]] for A of width k and B of width m *)
  Definition diag2 (k m : nat) (A B : list (list T)) : list (list T) :=
    map (fun r => r ++ zeros m) A ++ map (fun r => zeros k ++ r) B.

  (* block diagonal matrix of square blocks *)
  Fixpoint block_diag (Bs : list (list (list T))) : list (list T) :=
    match Bs with
    | [] => []
    | B :: r => diag2 (length B) (length (block_diag r)) B (block_diag r)
    end.

  (* permutation matrix with a one at (i, p_i):  (perm_mat n p) . A = A[p, :] *)
  Definition perm_mat (n : nat) (p : list nat) : list (list T) := map (unit_row n) p.

  Definition sum_list (l : list T) : T := fold_right add zero l.

  (* m x n shape test *)
  Definition shapedb (m n : nat) (A : list (list T)) : bool :=
    (length A =? m) && forallb (fun r => length r =? n) A.
End Dense.

Arguments zeros {T}.
Arguments vadd {T}.
Arguments vscale {T}.
Arguments vecmat {T}.
Arguments mat_mul {T}.
Arguments unit_row {T}.
Arguments identity {T}.
Arguments mget {T}.
Arguments transpose {T}.
Arguments diag2 {T}.
Arguments block_diag {T}.
Arguments perm_mat {T}.
Arguments sum_list {T}.
Arguments shapedb {T}.
