#!/venv/bin/python
"""Fill the measured numbers into DESIGN.md (seed totals, baseline sha)."""
import glob, json, re, subprocess, sys, collections
c = collections.Counter(); props = set()
for f in glob.glob('/verif/seeded/*/meta.json'):
    m = json.load(open(f)); d = m.get('detected_by_check', '?')
    c['yes' if d.startswith('yes') else 'after' if d.startswith('after') else 'no'] += 1
    props.add(m['property'])
tot = sum(c.values())
line = (f"the per-seed outcome.  {tot} changes over all {len(props)} properties are kept: {c['yes']} were "
        f"caught on the first run, {c['after']} were missed first and are caught after the check was "
        f"strengthened, {c['no']} are still missed.")
p = '/verif/DESIGN.md'; s = open(p).read()
s = re.sub(r"(@@SEEDTOTALS@@|the per-seed outcome\.  \d+ changes over all \d+ properties are kept:.*?still missed\.)", line, s, flags=re.S)
if len(sys.argv) > 1:
    s = re.sub(r"(@@BASELINE@@|last full run at `/repo` [0-9a-f]+[^)]*)", f"last full run at `/repo` {sys.argv[1]}", s)
open(p, 'w').write(s)
print(line)
