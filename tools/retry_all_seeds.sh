#!/bin/bash
# usage: tools/retry_all_seeds.sh [parallel jobs] [filter regex]  -> /tmp/retry_all/<seed>.log + summary on stdout
# Re-applies every kept seeded change to a scratch worktree of /repo HEAD and re-runs the quick check.
J="${1:-5}"; F="${2:-.}"
mkdir -p /tmp/retry_all
ls /verif/seeded | grep -E "$F" | xargs -P "$J" -I{} bash -c 'P=$(echo {} | cut -d- -f1); /verif/tools/try_seed.sh $P /verif/seeded/{} > /tmp/retry_all/{}.log 2>&1'
for s in $(ls /verif/seeded | grep -E "$F"); do
  L=/tmp/retry_all/$s.log
  echo "$s before=$(grep -o 'before patch: exit [0-9]*' $L | grep -o '[0-9]*$') after=$(grep -o 'after patch: exit [0-9]*' $L | grep -o '[0-9]*$') check=$(grep -o 'check exit [0-9]*' $L | grep -o '[0-9]*$') $(grep -c 'PATCH DOES NOT APPLY' $L | sed 's/^0$//;s/^1$/NOAPPLY/')"
done
rm -rf /tmp/try_C*_out
