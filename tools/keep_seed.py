#!/venv/bin/python
"""usage: tools/keep_seed.py <Cxx> <seed dir> <name> <detected: yes|no|after-strengthening> <notes>"""
import json, os, shutil, sys
pid, src, name, detected, notes = sys.argv[1:6]
dst = f"/verif/seeded/{pid}-{name}"
os.makedirs(dst, exist_ok=True)
for f in ("patch.diff", "demo.py"):
    shutil.copy(os.path.join(src, f), dst)
meta = json.load(open(os.path.join(src, "meta.json")))
meta["property"] = pid
meta["confirmed_by_coordinator"] = ("scratch worktree of /repo HEAD: demo.py exits 0 before the patch and non-zero after; "
                                    "related test files re-run with the patch (see tests_run); "
                                    "`VERIF_REPO=<worktree> VERIF_OUT=<scratch> ./check %s --tier quick` (tools/try_seed.sh)" % pid)
meta["detected_by_check"] = detected
meta["notes"] = notes
json.dump(meta, open(os.path.join(dst, "meta.json"), "w"), indent=1)
print("kept", dst)
