#!/bin/bash
# usage: tools/baseline.sh <checkout dir> [jobs]   -- runs the pinned suite against <dir>/src and
# compares with /root/.vp/BASELINE.json stable_pass.  Prints missing (non-passing) stable tests.
D="${1:-/repo}"; J="${2:-8}"
OUT="$(mktemp -d /tmp/baseline.XXXXXX)"
cd "$D" || exit 2
PYTHONPATH="$D/src" NUMBA_CACHE_DIR="$OUT/numba" MPLBACKEND=Agg /venv/bin/python -m pytest -q -p no:cacheprovider \
  --timeout=900 --continue-on-collection-errors -n "$J" --junitxml="$OUT/junit.xml" > "$OUT/log.txt" 2>&1
tail -n 3 "$OUT/log.txt"
/venv/bin/python - "$OUT/junit.xml" <<'PY'
import json, sys, xml.etree.ElementTree as ET
base = json.load(open("/root/.vp/BASELINE.json"))
stable = set(base["stable_pass"])
passed = set()
for tc in ET.parse(sys.argv[1]).getroot().iter("testcase"):
    bad = any(ch.tag in ("failure", "error", "skipped") for ch in tc)
    name = tc.get("classname", "") + "::" + tc.get("name", "")
    cn = tc.get("classname", "")
    # junit classname is dotted module[.Class]; baseline ids use module.Class::name or module::name
    if not bad:
        passed.add(cn + "::" + tc.get("name", ""))
missing = sorted(stable - passed)
print(f"stable_pass={len(stable)} passed_now={len(passed)} missing={len(missing)}")
for m in missing[:40]:
    print("  MISSING", m)
PY
echo "log: $OUT/log.txt"
