#!/bin/bash
# usage: tools/sweep_par.sh <tier> <seed> <lanes> [ids...]  runs every claimed check once, <lanes> at a time
TIER="$1"; S="$2"; L="$3"; shift 3
cd "$(dirname "$0")/.."
IDS="$@"
[ -z "$IDS" ] && IDS=$(/venv/bin/python -c "import json; print(' '.join(c['property_id'] for c in json.load(open('MANIFEST.json'))['checks']))")
echo $IDS | tr ' ' '\n' | xargs -P "$L" -I{} bash -c 'T0=$(date +%s); OUT=$(VERIF_SEED='$S' ./check {} --tier '$TIER' 2>&1); RC=$?; echo "seed='$S' {} rc=$RC $(( $(date +%s)-T0 ))s | $(echo "$OUT" | grep -E "^\[|VIOLATION" | tr "\n" " " | cut -c1-260)"'
