#!/bin/bash
/verif/tools/keep_seed.py "$1" "/tmp/seedD_$1_out/$2" "$3" "$4" "$5"
