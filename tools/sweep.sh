#!/bin/bash
# usage: tools/sweep.sh <tier> <seed> ...   runs every claimed check once per seed; prints one summary line each
TIER="$1"; shift
cd "$(dirname "$0")/.."
IDS=$(/venv/bin/python -c "import json; print(' '.join(c['property_id'] for c in json.load(open('MANIFEST.json'))['checks']))")
for S in "$@"; do for P in $IDS; do
  T0=$(date +%s); OUT=$(VERIF_SEED=$S ./check $P --tier $TIER 2>&1); RC=$?
  echo "seed=$S $P rc=$RC $(( $(date +%s)-T0 ))s | $(echo "$OUT" | grep -E '^\[|VIOLATION' | tr '\n' ' ' | cut -c1-260)"
done; done
