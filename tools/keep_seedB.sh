#!/bin/bash
# usage: keep_seedB.sh Cxx k name detected notes   (second wave; source dir /tmp/seedB_Cxx_out/k)
/verif/tools/keep_seed.py "$1" "/tmp/seedB_$1_out/$2" "$3" "$4" "$5"
