#!/bin/bash
# usage: tools/try_seed.sh <Cxx> <dir with patch.diff demo.py> [test files...]
# Confirms a seeded change in a scratch worktree of /repo HEAD: demo passes before / fails after,
# optional tests still pass, and runs ./check Cxx against the patched worktree.
P="$1"; D="$(realpath "$2")"; shift 2
TAG="$(echo "$P-$(basename "$D")-$$")"
WT="/tmp/try_$TAG"; OUT="/tmp/try_${TAG}_out"
git -C /repo worktree add -q "$WT" HEAD || exit 2
run() { (cd "$WT" && PYTHONPATH="$WT/src" NUMBA_CACHE_DIR="$OUT/numba" MPLBACKEND=Agg timeout 1800 /venv/bin/python "$@"); }
mkdir -p "$OUT"
run "$D/demo.py" > "$OUT/demo_before.log" 2>&1; echo "demo before patch: exit $?"
if ! git -C "$WT" apply "$D/patch.diff"; then echo "PATCH DOES NOT APPLY"; git -C /repo worktree remove --force "$WT"; exit 3; fi
run "$D/demo.py" > "$OUT/demo_after.log" 2>&1; echo "demo after patch: exit $?"
if [ $# -gt 0 ]; then
  run -m pytest -q -p no:cacheprovider --no-cov -x "$@" > "$OUT/tests.log" 2>&1; echo "tests with patch: exit $? ($(tail -n 1 "$OUT/tests.log"))"
fi
(cd /verif && VERIF_REPO="$WT" VERIF_OUT="$OUT" ./check "$P" --tier quick) > "$OUT/check.log" 2>&1; echo "check exit $?"; grep -E "VIOLATION|KNOWN|^\[" "$OUT/check.log"
git -C /repo worktree remove --force "$WT"
echo "logs in $OUT"
