#!/bin/bash
# usage: tools/mk_seed_ws.sh Cxx ...   creates /tmp/seed_Cxx (worktree of /repo HEAD) and /tmp/seed_Cxx_out/property.json
for P in "$@"; do
  git -C /repo worktree add -q /tmp/seed_$P HEAD || continue
  mkdir -p /tmp/seed_${P}_out
  /venv/bin/python - "$P" <<'PY'
import json, sys
pid = sys.argv[1]
for l in open('/verif/properties.jsonl'):
    p = json.loads(l)
    if p['id'] == pid:
        keep = {k: p[k] for k in ('id', 'title', 'statement', 'quantifier', 'why_tests_cant', 'anchors')}
        json.dump(keep, open(f'/tmp/seed_{pid}_out/property.json', 'w'), indent=1)
PY
done
