#!/bin/bash
# usage: tools/try_batch.sh Cxx:dir[:testfile,...] ...   -> appends to /tmp/try_batch.log
for spec in "$@"; do
  IFS=: read -r P D T <<< "$spec"
  echo "=== $P $D" 
  /verif/tools/try_seed.sh "$P" "$D" ${T//,/ }
done
