#!/bin/bash
/verif/tools/keep_seed.py "$1" "/tmp/seedF_$1_out/$2" "$3" "$4" "$5"
