#!/bin/bash
# Builds the whole Coq development (full .vo build) from files on disk only.
# Translator-generated files (coq/Gen/*.v) are regenerated from /repo first.
HERE="$(cd "$(dirname "$0")" && pwd)"
cd "$HERE"
mkdir -p "$HERE/.cache/numba" "$HERE/.cache/tmp" "$HERE/coq/Gen"
export VERIF_REPO="${VERIF_REPO:-/repo}"
export PYTHONPATH="$VERIF_REPO/src:$HERE" PYTHONHASHSEED=0 NUMBA_CACHE_DIR="$HERE/.cache/numba" MPLBACKEND=Agg
/venv/bin/python -W ignore - <<'PY'
import glob, importlib, os, sys, traceback
from harness import core
for f in sorted(glob.glob(os.path.join(core.VERIF, "harness", "props", "c[0-9]*.py"))):
    name = os.path.basename(f)[:-3]
    try:
        mod = importlib.import_module("harness.props." + name)
        if getattr(mod.PROP, "translator_output", False):
            ok, log = mod.PROP.regenerate()
            print(f"[setup] regenerate {name}: {'ok' if ok else 'FAILED ' + log[-500:]}")
    except Exception:
        print(f"[setup] {name}: import/regenerate failed\n{traceback.format_exc()[-800:]}")
core.ensure_project()
PY
cd "$HERE/coq"
timeout 5400 make -j16 -k 2>&1 | tail -n 15
exit 0
