#!/bin/bash
# Builds the whole Coq development (full .vo build) from files on disk only.
set -e
HERE="$(cd "$(dirname "$0")" && pwd)"
cd "$HERE/coq"
mkdir -p "$HERE/.cache"
/venv/bin/python - <<PY
import sys; sys.path.insert(0, "$HERE")
from harness import core
core.ensure_project()
PY
timeout 3000 make -j16 -k 2>&1 | tail -n 30
