import argparse
import importlib
import os
import sys

sys.path.insert(0, os.path.dirname(os.path.dirname(os.path.abspath(__file__))))
from harness import core  # noqa: E402


def main():
    ap = argparse.ArgumentParser()
    ap.add_argument("prop")
    ap.add_argument("--tier", default=os.environ.get("VERIF_TIER", "quick"),
                    choices=["quick", "thorough"])
    ap.add_argument("--replay", default=None)
    a = ap.parse_args()
    seed = int(os.environ.get("VERIF_SEED", "20260921"))
    mod = importlib.import_module("harness.props." + a.prop.lower())
    sys.exit(core.run_check(mod.PROP, a.tier, seed, a.replay))


if __name__ == "__main__":
    main()
